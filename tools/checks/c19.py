"""
C19 — copies of library objects are independent, equivalent and safely destroyable.

Proof: lean/Sqfs/Props/C19.lean over the object-heap model (Sqfs/Model/Obj.lean: sqfs_grab/drop/copy, one description per
copy hook, slot operations, mixed histories), the table state machines (Sqfs/Model/ObjKinds.lean) and the state part of the
reader hooks (Sqfs/Model/C19Readers.lean over C10's models of meta_reader.c / data_reader.c).
Tie: harness/h_c19.c runs the real objects (ASan+UBSan+LeakSanitizer) through seeded scenarios
    history on {o, t1, t2}; copy (or copy with the k-th acquisition failing: every k); operations on the copy c (mirrored on
    twin t2) and on o (mirrored on t1), interleaved; drops of o and c in either order, with or without the user's own
    file/compressor references released first; a state hash of all four objects after every step
for all 13 kinds (+ a file opened for writing), and prints a behavioural probe of every fresh copy (header fields, every
buffer slot duplicated / aliased / trimmed / contents differ, the struct's plain fields, references grabbed / deep-copied).
The same scripts run through `sqfsmodel c19 sim` (hooks as in /repo), `sim-mix`, `sim-current` (hooks before the fix commits);
compared: control-line answers (probe, refcounts of the shared file and compressor after every drop), outcome class,
independence/equivalence relations of the state hashes vs the model's `view`; o≡t1 and c≡t2 line by line and by state hash;
`describe <kind>` vs everything the probe saw; `copystate` (drCopy/mrCopy on dumped real states; rbCopy + dcResolve on the
dumped inode cache of every copied directory reader, every node byte); table answers (`tbl`); the generic containers under the
hooks as units (`unit`: real rbtree_init/insert/lookup/copy for key sizes 1..17 x value sizes 0..24, array_init_copy,
str_table_copy — every answer and every dumped byte predicted by Sqfs/Model/RbTree.lean / C19Units.lean).
Directory readers: images incl. one whose inode table exceeds 1 MiB (references above 2^32 / 2^36), with and without
SQFS_DIR_READER_DOT_ENTRIES, directory inodes loaded before the copy (or nothing at all), the copy asked for "." / "..",
inode number -> reference and path resolution from those inodes; compared with original, twins and a reader without history.
Everything that evaluates nothing, or that a helper does not understand, is a failure of the check (CheckFailure), not a pass.
"""
import json, os, re, subprocess, zlib
from concurrent.futures import ThreadPoolExecutor
import vlib
from checks import mempool_units

LEVEL = "proof"
MODULE = "Sqfs.Props.C19"
MODULE_MEMPOOL = "Sqfs.Props.MemPool"          # the pool allocator under rbtree.c in /repo's default configuration
REQUIRED_MEMPOOL = mempool_units.REQUIRED_MEMPOOL
REQUIRED = ["Sqfs.C19." + t for t in (
    "desc_wellformed", "copy_wellformed", "copy_wellformed_all", "copy_balanced", "copy_fail_safe", "release_safe", "release_safe_either_order",
    "no_leak", "copy_then_release_restores", "refcount_invariant_reading", "refcount_exact", "exH_balanced", "exHX_balanced", "copy_equiv", "copy_same_buffer_sizes", "copy_independent", "copy_buffers_disjoint", "constructed_balanced", "grab_balanced",
    "copy_equiv_idTable", "copy_equiv_fragTable", "copy_fail_restores", "ops_release_safe", "copy_independent_mixed",
    "copy_equiv_dataReader", "copy_equiv_metaReader", "table_fill_is_adds", "envHeap_balanced",
    "rbtree_copy_equiv", "rbtree_built_wellformed", "copy_equiv_dirCache", "array_copy_equiv", "strtable_copy_equiv",
    "rbtree_pool_copy_independent", "copy_equiv_dataReaderX", "copy_independent_interleaved", "copy_independent_projection", "copy_equiv_deep")]
COMPS = ["gzip", "xz", "lzma", "lz4", "zstd"]
ENV_KINDS = ("meta", "dir", "data", "xattr")
WRAP = "-Wl,--wrap=malloc,--wrap=calloc,--wrap=realloc,--wrap=dup,--wrap=deflateInit2_,--wrap=inflateInit_,--wrap=ZSTD_createCCtx,--wrap=mmap"
# memcpy(NULL, NULL, 0) in array_init_copy of an empty array is flagged by UBSan's nonnull-attribute check; it is
# harmless on every libc and not what C19 is about, so that one check is off for this property's builds.
LIBFLAGS = ["-fno-sanitize=nonnull-attribute"]


def zs(*ls):
    """zip of streams that must be equally long: anything else is a failure of the check's infrastructure"""
    ls = [list(l) for l in ls]
    if len(set(len(l) for l in ls)) > 1:
        raise vlib.CheckFailure("internal: zip of streams of unequal length %s" % [len(l) for l in ls])
    return zip(*ls)


# --------------------------------------------------------------------------------------------- environment
def build(ctx):
    lib = ctx.build_lib("c19", flags=LIBFLAGS)
    harness = ctx.cc("h_c19", ["h_c19.c"], flags=LIBFLAGS, libs=[str(lib)] + vlib.CODEC_LIBS + [WRAP])
    gen = ctx.build_tool("gensquashfs", tag="c19", flags=LIBFLAGS)
    return harness, gen


def build_pool(ctx):
    """/repo's DEFAULT configuration (pool allocator: NO_CUSTOM_ALLOC not defined, mempool.c compiled): the harness once under
    ASan+UBSan+LSan, once uninstrumented (nothing between the code and the kernel's munmap; use-after-release canary).
    mempool.c is #include'd by the harness (it looks into the pools), so it stays out of the archives."""
    out = {}
    for tag, san in (("c19p", True), ("c19pu", False)):
        lib = ctx.build_lib(tag, flags=LIBFLAGS if san else [], sanitize=san, custom_alloc=True, exclude=("lib/util/src/mempool.c",))
        out["asan" if san else "plain"] = ctx.cc("h_" + tag, ["h_c19.c"], flags=(LIBFLAGS if san else []) + ["-UNO_CUSTOM_ALLOC"], sanitize=san,
                                                 libs=[str(lib)] + vlib.CODEC_LIBS + [WRAP])
    return out


def tree_files(r, B):
    """file contents for an image with block size B: full blocks, tail blocks, fragments, sparse blocks, a short block of its own"""
    return {
        "small.txt": b"hello world\n" * 5,
        "big.bin": bytes(r.getrandbits(8) for _ in range(3 * B + 777)),
        "d1/mid.bin": bytes(r.getrandbits(4) for _ in range(2 * B + 100)),
        "d1/d2/tail.bin": b"A" * B + b"xyz" * 100,
        "e/zero.bin": b"\0" * (5 * B),
        "e/empty": b"",
        "e/hole.bin": b"Q" * B + b"\0" * B + b"R" * 300,
        # exactly one full block; a short file forced into a data block of its own (sort file: dont_fragment), so that
        # reading it leaves a *short* block in the block cache; two more files that share the fragment block
        "full.bin": bytes((i * 7 + 3) % 251 + 1 for i in range(B)),
        "short.bin": bytes((i * 5 + 11) % 251 + 1 for i in range(100)),
        "frag2.bin": bytes((i * 3 + 29) % 251 + 1 for i in range(3000)),
        "frag3.bin": bytes((i * 11 + 1) % 251 + 1 for i in range(2500)),
    }


MANYX = 600      # xattr ids of the `manyx` image: more than 512, so the id table spans two metadata blocks


def make_images(ctx, gen, specs):
    """images made by the working tree's gensquashfs: one per (compressor, block size) in `specs` (files with full blocks,
    tail blocks, fragments, sparse blocks, xattrs, nested directories), one without xattrs, one with more than 512 xattr ids,
    one with a damaged data block.  Keys: `<comp>` for block size 8192, `<comp>@<bs>` otherwise."""
    d = ctx.scratch / "img"
    d.mkdir(exist_ok=True)
    r = ctx.rng
    env = ctx.san_env()
    imgs, files = {}, None

    def gensq(args, what):
        rr = vlib.sh([str(gen)] + args, env=env, timeout=600)
        if rr.returncode != 0:
            raise vlib.CheckFailure("gensquashfs (working tree) failed for %s: %s" % (what, rr.stderr[-800:]))

    (d / "xa.txt").write_text(
        '# file: small.txt\nuser.a="hello"\nuser.b=0x0102030405\n\n# file: big.bin\nuser.a="hello"\nuser.b=0x0102030405\n\n'
        '# file: d1\nuser.comment="dir one"\nsecurity.selinux="system_u:object_r:x:s0"\n\n'
        '# file: e/zero.bin\nuser.long=0x' + "000102030405060708090a0b0c0d0e0f" * 20 + "\n")
    (d / "sort.txt").write_text("0 [dont_fragment] short.bin\n")
    trees = {}
    for c, B in specs:
        if B not in trees:
            tree = d / ("tree%d" % B)
            (tree / "d1" / "d2").mkdir(parents=True, exist_ok=True)
            (tree / "e").mkdir(exist_ok=True)
            fl = tree_files(r, B)
            for k, v in fl.items():
                (tree / k).write_bytes(v)
            pack = ["dir / 0755 0 0", "dir /d1 0755 1000 1000", "dir /d1/d2 0755 0 0", "dir /e 0755 0 0"]
            for i, k in enumerate(fl):
                pack.append("file /%s 0644 %d %d tree%d/%s" % (k, i % 3, (i * 7) % 5, B, k))
            pack.append("slink /lnk 0777 0 0 small.txt")
            (d / ("pack%d.txt" % B)).write_text("\n".join(pack) + "\n")
            trees[B] = fl
            if B == 8192:
                files = fl
        p = d / ("img_%s_%d.sqfs" % (c, B))
        gensq(["-c", c, "-b", str(B), "-F", str(d / ("pack%d.txt" % B)), "-D", str(d), "-A", str(d / "xa.txt"), "-S", str(d / "sort.txt"), "-f", "-q", str(p)],
              "%s block size %d" % (c, B))
        imgs[c if B == 8192 else "%s@%d" % (c, B)] = p
    if 8192 not in trees:
        raise vlib.CheckFailure("image specs must contain a block size of 8192")
    p = d / "img_noxattr.sqfs"
    gensq(["-c", "gzip", "-b", "8192", "-F", str(d / "pack8192.txt"), "-D", str(d), "-f", "-q", str(p)], "noxattr")
    imgs["noxattr"] = p
    # many xattr ids: one distinct key/value set per file
    pack = ["dir / 0755 0 0"] + ["file /f%03d 0644 0 0 tree8192/small.txt" % i for i in range(MANYX)]
    (d / "packx.txt").write_text("\n".join(pack) + "\n")
    (d / "xax.txt").write_text("".join('# file: f%03d\nuser.n="%d"\n\n' % (i, i * 7919) for i in range(MANYX)))
    p = d / "img_manyx.sqfs"
    gensq(["-c", "gzip", "-b", "8192", "-F", str(d / "packx.txt"), "-D", str(d), "-A", str(d / "xax.txt"), "-f", "-q", str(p)], "manyx")
    imgs["manyx"] = p
    # large inode table: directory inodes below 64 KiB, between 64 KiB and 1 MiB and above 1 MiB of (compressed) inode
    # table, so that inode references (block start << 16 | offset) need more than 32 and more than 36 bits.  The bulk are
    # symbolic links with incompressible 2000-byte targets.
    cs = "abcdefghijklmnopqrstuvwxyzABCDEFGHIJKLMNOPQRSTUVWXYZ0123456789_-"
    pack = ["dir /0a 0755 0 0", "dir /0a/sub 0755 0 0", "slink /0a/sub/x 0777 0 0 y", "dir /a 0755 0 0"]
    pack += ["slink /a/l%04d 0777 0 0 %s" % (i, "".join(cs[b & 63] for b in r.randbytes(2000))) for i in range(60)]
    pack += ["dir /m 0755 0 0", "dir /m/n 0755 0 0", "dir /m/n/deep 0755 0 0", "slink /m/n/deep/x 0777 0 0 y", "dir /m/o 0755 0 0", "dir /p 0755 0 0"]
    pack += ["slink /p/l%04d 0777 0 0 %s" % (i, "".join(cs[b & 63] for b in r.randbytes(2000))) for i in range(640)]
    pack += ["dir /z 0755 0 0", "dir /z/sub 0755 0 0", "dir /z/sub/deep 0755 0 0", "slink /z/sub/deep/x 0777 0 0 y"]
    (d / "packbig.txt").write_text("\n".join(pack) + "\n")
    p = d / "img_bigino.sqfs"
    gensq(["-c", "gzip", "-b", "8192", "-F", str(d / "packbig.txt"), "-D", str(d), "-f", "-q", str(p)], "bigino")
    imgs["bigino"] = p
    # damaged image: first data block replaced by a valid zlib stream that inflates to 100 bytes only
    (d / "tree8192" / "f.bin").write_bytes(bytes(r.getrandbits(4) for _ in range(2 * 8192 + 500)))
    (d / "pack2.txt").write_text("file /f.bin 0644 0 0 tree8192/f.bin\n")
    p = d / "img_damaged.sqfs"
    gensq(["-c", "gzip", "-b", "8192", "-F", str(d / "pack2.txt"), "-D", str(d), "-f", "-q", str(p)], "damaged")
    b = bytearray(p.read_bytes())
    z = zlib.compress(b"x" * 100, 9)
    if b[96] != 0x78:
        raise vlib.CheckFailure("cannot build the damaged-block image (data area does not start with a zlib stream at 96)")
    b[96:96 + len(z)] = z
    p.write_bytes(bytes(b))
    imgs["damaged"] = p
    return imgs, files


# --------------------------------------------------------------------------------------------- generators
PATHS_F = ["/small.txt", "/big.bin", "/d1/mid.bin", "/d1/d2/tail.bin", "/e/zero.bin", "/e/empty", "/e/hole.bin", "/full.bin", "/short.bin",
           "/frag2.bin", "/frag3.bin"]
# histories that leave "fragment block cached, data-block cache empty or short" behind (what a copy of the caches must get right)
CACHE_ENDINGS = {
    "fragment-only": ["frag /frag2.bin"],
    "fragment-only-read": ["read /small.txt 0 60"],
    "short-then-fragment": ["read /short.bin 0 100", "read /frag2.bin 0 10"],
    "fragment-full-short": ["read /frag3.bin 100 50", "read /full.bin 0 8192", "read /short.bin 10 50"],
    "full-then-fragment": ["read /full.bin 0 100", "frag /frag3.bin"],
    # the other entry points that touch the caches (C10's OpX): a stream whose tail comes out of the fragment cache, and a reload
    # of the fragment table (drops the cached fragment block) followed by a fragment access
    "stream-tail": ["stream /d1/d2/tail.bin 9", "read /short.bin 0 10"],
    "reload-then-fragment": ["frag /frag2.bin", "read /full.bin 0 10", "reload", "stream /frag3.bin 2"],
    "reload-only": ["read /small.txt 0 10", "reload"],
}
PATHS_D = ["/", "/d1", "/d1/d2", "/e", "/nope", "/small.txt"]
# directory readers: (directories, other paths, (start directory, relative path) pairs, inode numbers worth asking for) per image family
DIRSETS = {
    "std": {"dirs": ["/", "/d1", "/d1/d2", "/e"], "other": ["/nope", "/small.txt", "/d1/mid.bin", "/lnk"],
            "rel": [("/d1", "d2"), ("/", "d1/d2"), ("/d1", "-"), ("/e", "zero.bin"), ("/d1/d2", "-"), ("/", "-"), ("/d1", "nope")],
            "inums": list(range(0, 18)), "deep": ["/d1/d2", "/d1", "/e"]},
    # `bigino`: /0a/sub sits in the first 64 KiB of the inode table, /m/** behind 64 KiB, /z/** and the root behind 1 MiB
    "bigino": {"dirs": ["/", "/0a", "/0a/sub", "/a", "/m", "/m/n", "/m/n/deep", "/m/o", "/p", "/z", "/z/sub", "/z/sub/deep"],
               "other": ["/nope", "/0a/sub/x", "/m/n/deep/x", "/a/l0003", "/p/l0100", "/z/sub/deep/x"],
               "rel": [("/z/sub", "deep"), ("/z", "sub/deep"), ("/z/sub", "-"), ("/m/n", "deep"), ("/m", "n/deep/x"), ("/m/n/deep", "-"), ("/", "z/sub"),
                       ("/", "-"), ("/0a", "sub"), ("/0a/sub", "-"), ("/m", "o"), ("/z/sub/deep", "x")],
               "inums": [0, 1, 2, 3, 4, 5] + list(range(60, 72)) + list(range(700, 720)), "deep": ["/z/sub/deep", "/m/n/deep", "/z/sub", "/m/o", "/0a/sub", "/m/n", "/z"]},
}


def gen_dir_op(r, ds):
    """one operation of a directory reader: listing, path resolution from the root and from a start inode, "." / ".." entries
    with the inode behind them, inode number -> reference"""
    dirs, other = ds["dirs"], ds["other"]
    anyp = lambda: r.choice(dirs + dirs + other)
    sd, rel = r.choice(ds["rel"])
    return r.choice(["root", "list " + anyp(), "list " + r.choice(dirs), "resolve " + anyp(), "inum %d" % r.choice(ds["inums"]),
                     "dots " + r.choice(dirs), "dots " + anyp(), "inumof " + r.choice(dirs), "inumof " + anyp(), "rel %s %s" % (sd, rel),
                     "walk " + r.choice(dirs)])


def hexs(b):
    return b.hex() if b else "-"


def gen_op(r, kind, sizes):
    if kind == "comp":
        n = r.choice([40, 200, 1000, 4000, 8000])
        mode = r.random()
        if mode < 0.5:
            data = bytes(r.choice(b"abcd") for _ in range(n))
        elif mode < 0.8:
            data = (b"%d," % r.randint(0, 99)) * (n // 3 + 1)
        else:
            data = bytes(r.getrandbits(8) for _ in range(n))
        return "blk " + hexs(data[:n])
    if kind == "idtable":
        return r.choice(["add %d" % r.choice([0, 1, 5, 1000, 65534, 4294967295, r.randint(0, 40)]), "add %d" % r.randint(0, 300), "get %d" % r.randint(0, 12)])
    if kind == "fragtable":
        return r.choice(["append %d %d" % (r.randint(0, 1 << 40), r.randint(0, 1 << 25)), "lookup %d" % r.randint(0, 8),
                         "set %d %d %d" % (r.randint(0, 6), r.randint(0, 1 << 33), r.randint(0, 99999)), "size"])
    if kind == "file":
        return r.choice(["read %d %d" % (r.randint(0, sizes["img"]), r.choice([1, 4, 96, 500, 5000])), "size"])
    if kind == "meta":
        return r.choice(["seek 0 %d" % r.choice([0, 16, 32, 100, 300, 8191, 9000]), "seek %d 0" % r.randint(1, 400), "read %d" % r.choice([1, 2, 16, 32, 100, 600]), "read 8", "pos"])
    if kind == "dir":
        return gen_dir_op(r, DIRSETS[sizes.get("dirset", "std")])
    if kind == "data":
        p = r.choice(PATHS_F)
        return r.choice(["read %s %d %d" % (p, r.choice([0, 1, 100, 8000, 8192, 8193, 16384, 20000, 30000]), r.choice([1, 100, 5000, 9000, 40000])),
                         "read %s %d %d" % (p, r.randint(0, 30000), r.randint(1, 20000)), "block %s %d" % (p, r.randint(0, 4)), "frag " + p,
                         "stream %s %d" % (p, r.choice([1, 2, 3, 9])), r.choice(["reload", "frag " + p])])
    if kind == "xattr":
        top = sizes.get("xattr_ids", 4)
        pick = lambda: r.choice([0, top - 1, top, r.randint(0, top), r.randint(max(0, top - 100), top)]) if top > 4 else r.randint(0, 4)
        return r.choice(["readall %d" % pick(), "desc %d" % pick(), "first %d" % pick(), "readall 4294967295"])
    raise AssertionError(kind)


def gen_xwr_ops(r, nblocks):
    """well-formed recording sequences: begin, adds, end; `flush` between blocks"""
    out = []
    keys = [b"user.a", b"user.b", b"user.ccc", b"trusted.x", b"security.selinux", b"bogus.key"]
    vals = [b"", b"1", b"hello", b"\x00\x01\x02", b"v" * 40, b"hello"]
    for _ in range(nblocks):
        out.append("begin")
        for _ in range(r.randint(0, 4)):
            out.append("add %s %s" % (hexs(r.choice(keys)), hexs(r.choice(vals))))
        out.append("end")
        if r.random() < 0.3:
            out.append("flush")
    return out


def gen_xwr_shared(r):
    """recording sequences with values shared between keys and sets (long: stored out of line by flush when used twice;
    short: never), duplicate sets, and a flush"""
    longs = [b"L" * 9, b"long value " * 3, bytes(range(1, 40))]
    shorts = [b"12345678", b"s", b""]
    keys = [b"user.a", b"user.b", b"user.ccc", b"trusted.x", b"security.selinux"]
    out = []
    for _ in range(r.randint(2, 4)):
        out.append("begin")
        v = r.choice(longs + shorts)
        for k in r.sample(keys, r.randint(1, 3)):
            out.append("add %s %s" % (hexs(k), hexs(v if r.random() < 0.8 else r.choice(longs + shorts))))
        out.append("end")
        if r.random() < 0.3:        # the same set again
            n = len(out) - 1 - out[::-1].index("begin")
            out += out[n:]
    return out


# forced compressor configurations (`<name>!`, `<name>!2`: compress; `<name>!u`: uncompress): level, gzip window, flags, then key=value
FORCED_CFG = {
    "gzip": [" 1 9 -", " 9 12 0x1f bs=131072"],
    "xz": [" 1 - - dict=65536 lc=1 lp=2 pb=0", " 6 - 0x101 dict=12288 lc=0 lp=0 pb=4 bs=16384"],          # 0x101: x86 filter + extreme
    "lzma": [" 1 - - dict=65536 lc=1 lp=2 pb=0", " 5 - 1 dict=12288 lc=4 lp=0 pb=1 bs=16384"],
    "lz4": [" - - 1", " - - - bs=131072"],
    "zstd": [" 2 - -", " 19 - - bs=16384"],
}
FORCED_U = {"gzip": " 3 - 0x0a", "xz": " 2 - 0x08 dict=16384 lc=2 lp=1 pb=1", "lzma": " 2 - 1 dict=16384 lc=2 lp=1 pb=1", "lz4": " - - 1 bs=16384", "zstd": " 7 - -"}


class Scenario:
    def __init__(self, tag, kind, args, model_kind):
        self.tag, self.kind, self.args, self.model_kind = tag, kind, args, model_kind
        self.lines = []          # harness lines
        self.mlines = []         # model lines (same length)
        self.pairs = []          # (i, j): answers of lines i and j must be equal
        self.copy_at = None
        self.failcopy = None
        self.damaged = False

    def ctl(self, l):
        self.lines.append(l); self.mlines.append(l)

    def op(self, t, op, mark=False):
        self.lines.append("%s %s" % (t, op))
        w = op.split()
        self.mlines.append("%s %s%s %s" % (t, w[0], "!" if mark else "", " ".join(x[:40] for x in w[1:]) or "x"))
        return len(self.lines) - 1

    def fresh(self, op, i):
        """directory readers: the same history-independent question to a reader created for it; must answer like line i"""
        if self.kind == "dir" and op.split()[0] in DIR_HISTORY_FREE:
            self.lines.append("f " + op); self.mlines.append("f " + op)
            self.pairs.append((i, len(self.lines) - 1))

    def text(self):
        return "scenario %s %s\n%s\nend\n" % (self.tag, self.args, "\n".join(self.lines))


# what these answer does not depend on what the reader did before (path resolution from the root loads every inode it needs)
DIR_HISTORY_FREE = ("dots", "list", "resolve", "walk", "root")


def gen_scenario(ctx, tag, kind, imgs, sizes, variant=None):
    r = ctx.rng
    damaged = variant == "damaged"
    ending = None
    forced = False
    if kind == "comp":
        forced = bool(variant) and "!" in variant
        name, _, fv = (variant or r.choice(COMPS)).partition("!")
        mode = ("u" if fv == "u" else "c") if forced else r.choice("ccu")
        cfg = ""
        if forced:
            # configurations far from the defaults on every axis the compressor has (level, window, strategy / filter flags,
            # dictionary size, lc/lp/pb, block size), in both modes, and (below) option-sensitive data through the copy right
            # after the copy: a copy hook that re-creates its state from anything but the original's options answers differently,
            # and the probe compares every option field
            cfg = FORCED_U[name] if fv == "u" else FORCED_CFG[name][int(fv or 1) - 1]
        elif r.random() < 0.7:
            # non-default configuration: the copy must work with the original's options
            level = {"gzip": r.randint(1, 9), "xz": r.randint(0, 6), "lzma": r.randint(0, 6), "lz4": "-", "zstd": r.randint(1, 19)}[name]
            window = r.randint(9, 15) if name == "gzip" and mode == "c" else "-"
            flags = {"gzip": r.choice(["-", "-", 0x03, 0x1f]), "lz4": r.choice(["-", 1]), "lzma": r.choice(["-", 1]),
                     "xz": r.choice(["-", 0x01, 0x02, 0x08, 0x20, 0x100, 0x110])}.get(name, "-")
            cfg = " %s %s %s" % (level, window, flags)
            if name in ("xz", "lzma") and r.random() < 0.7:
                lc = r.randint(0, 4)
                cfg += " dict=%d lc=%d lp=%d pb=%d" % (r.choice([8192, 12288, 16384, 65536, 1 << 20]), lc, r.randint(0, 4 - lc), r.randint(0, 4))
            if r.random() < 0.3:
                cfg += " bs=%d" % r.choice([16384, 65536, 131072])
        args, mk = "comp %s %s%s" % (name, mode, cfg), name
    elif kind in ("idtable", "fragtable"):
        args, mk = kind, kind
    elif kind == "xwr":
        args, mk = "xwr %s" % ctx.scratch, "xwr"
        if variant is None and r.random() < 0.4:
            variant = "shared"
    elif kind == "file":
        args, mk = "file %s" % imgs["gzip"], "file"
    elif kind == "wfile":
        args, mk = "wfile %s" % ctx.scratch, "file"
    elif kind == "nocopy":
        args, mk = "nocopy %s" % imgs["gzip"], "file"
    else:
        ending = None
        if kind == "data" and variant and variant.startswith("cache:"):
            ending, variant = variant.split(":")[1], variant.split(":")[2]
        dirflag, no_history = None, False
        if kind == "dir" and variant and ":" in variant:
            parts = variant.split(":")
            variant, dirflag, no_history = parts[0], parts[1], len(parts) > 2     # `<image>:<flags>:fresh`: the copy is made of a reader without history
        img = imgs["damaged"] if damaged else imgs[variant or "gzip"]
        args = "%s %s" % (kind, img) + (" %s" % (dirflag if dirflag is not None else r.choice([0, 1])) if kind == "dir" else "")
        mk = kind
        if variant == "manyx":
            sizes = dict(sizes, xattr_ids=MANYX)
        if kind == "dir":
            sizes = dict(sizes, dirset="bigino" if variant == "bigino" else "std")
    s = Scenario(tag, kind, args, mk)
    s.damaged = damaged
    if kind in ("wfile", "nocopy"):
        # the copy hook of a file opened for writing refuses: sqfs_copy returns NULL, nothing changes, nothing leaks;
        # `nocopy`: an object whose copy hook is NULL (an input stream): sqfs_copy must test the pointer and return NULL
        wops = ["size", "read 0 16", "read 4 8", "size", "read 1 15"] if kind == "wfile" else ["peek 4", "peek 16", "peek 1", "peek 8", "peek 20"]
        for op in wops[:3][:r.randint(0, 3)]:
            i = s.op("o", op); j = s.op("t1", op); k = s.op("t2", op)
            s.pairs += [(i, j), (i, k)]
        s.ctl("views")
        s.copy_at = len(s.lines)
        s.ctl("copy")
        s.ctl("views")
        for op in wops[3:]:
            i = s.op("o", op); j = s.op("t1", op)
            s.pairs.append((i, j))
        s.ctl("drop o")
        s.expect_null = True
        return s

    def hist_ops(n):
        if kind == "xwr":
            return gen_xwr_shared(r) if variant == "shared" else gen_xwr_ops(r, n)
        if damaged:
            return ["read /f.bin 0 1000"] + ["read /f.bin %d %d" % (r.randint(0, 90), r.randint(1, 3000)) for _ in range(n)]
        return [gen_op(r, kind, sizes) for _ in range(n)]

    marked = lambda op: damaged and op.startswith("read /f.bin")
    # history before the copy: identical on o and both twins
    for op in hist_ops((0 if kind == "dir" and no_history else r.choice([0, 1, 2, 5, 12])) if not damaged else r.randint(0, 2)):
        i = s.op("o", op)
        j = s.op("t1", op); k = s.op("t2", op)
        s.pairs += [(i, j), (i, k)]
    xwr_open = kind == "xwr" and (variant == "open" or (variant is None and r.random() < 0.25))
    s.xwr_open = xwr_open
    if xwr_open:
        for op in ["begin"] + ["add %s %s" % (hexs(r.choice([b"user.a", b"user.open", b"trusted.x"])), hexs(r.choice([b"", b"1", b"open value " * 3]))) for _ in range(r.randint(0, 2))]:
            i = s.op("o", op)
            j = s.op("t1", op); k = s.op("t2", op)
            s.pairs += [(i, j), (i, k)]
    if kind == "data" and not damaged and ending:
        for op in CACHE_ENDINGS[ending]:
            i = s.op("o", op)
            j = s.op("t1", op); k = s.op("t2", op)
            s.pairs += [(i, j), (i, k)]
    dir_after = []
    if kind == "dir":
        # directory inodes are loaded before the copy (they enter the inode-number -> reference cache of a reader created
        # with SQFS_DIR_READER_DOT_ENTRIES); the copy, the original and the twins are then asked for exactly those: "."
        # and ".." with the inode behind them, inode number -> reference, path resolution starting at those inodes
        ds = DIRSETS[sizes["dirset"]]
        loaded = r.sample(ds["deep"], r.randint(1, min(3, len(ds["deep"]))))
        for pth in ([] if no_history else loaded):
            for op in (["walk " + pth] if r.random() < 0.5 else ["resolve " + pth, "list " + pth]):
                i = s.op("o", op)
                j = s.op("t1", op); k = s.op("t2", op)
                s.pairs += [(i, j), (i, k)]
        for pth in loaded:
            dir_after += ["dots " + pth, "inumof " + pth, "inumof " + (pth.rsplit("/", 1)[0] or "/")]
        dir_after += ["rel %s %s" % pr for pr in ds["rel"] if pr[0] in loaded] + ["dots /", "inumof /"]
    # the user may hold more than one reference
    extra = {"o": 0, "c": 0}
    if r.random() < 0.25:
        s.ctl("grab o"); extra["o"] += 1
    if r.random() < 0.3 and kind in ENV_KINDS:
        s.ctl("rcs")
    s.ctl("views")
    s.copy_at = len(s.lines)
    s.ctl("copy")
    s.ctl("views")
    if kind in ("data", "meta", "dir"):
        # the state of original and copy, for the function-level comparison with drCopy / mrCopy / rbCopy
        s.ctl("dump o"); s.ctl("dump c")
    if r.random() < 0.2:
        s.ctl("grab c"); extra["c"] += 1
    alive = {"o": True, "c": True}
    env_dropped = False
    if kind == "xwr" and xwr_open:
        # the copy was made inside an open begin/end block: both go on recording into it and close it
        for op in ["add %s %s" % (hexs(b"user.late"), hexs(b"v" * r.choice([1, 9, 30]))), "end"]:
            ic = s.op("c", op); j = s.op("t2", op); io = s.op("o", op); k = s.op("t1", op)
            s.pairs += [(ic, j), (io, k), (ic, io)]
    if kind == "xwr":
        # same recorded state: original, copy and twins must flush the same bytes
        i = s.op("o", "flush"); j = s.op("c", "flush"); k = s.op("t1", "flush"); l = s.op("t2", "flush")
        s.pairs += [(i, j), (i, k), (j, l)]
    if kind == "data" and not damaged and ending:
        # every file read completely through both objects (and their twins)
        for pth in PATHS_F:
            for t, tw in (("c", "t2"), ("o", "t1")):
                i = s.op(t, "read %s 0 40000" % pth); j = s.op(tw, "read %s 0 40000" % pth)
                s.pairs.append((i, j))
    for op in dir_after:
        ic = None
        for t, tw in (("c", "t2"), ("o", "t1")):
            i = s.op(t, op); j = s.op(tw, op)
            s.pairs.append((i, j))
            if t == "c":
                ic = i
            else:
                s.pairs.append((ic, i))                           # and the copy answers what the original answers
        s.fresh(op, ic)
    if kind != "xwr" and not damaged:
        # every scenario uses the copy at least once while both objects are alive (then the original)
        first = hist_ops(1)[0]
        if forced:
            first = "blk " + hexs(bytes(r.choice(b"abcd") for _ in range(8000)))
        for t, tw in (("c", "t2"), ("o", "t1")):
            i = s.op(t, first); j = s.op(tw, first)
            s.pairs.append((i, j))
            s.fresh(first, i)
            s.ctl("views")
    # questions that succeed on every image, to copy and original while both are alive (so that "the copy answered like its twin"
    # is about real answers for every kind, not about equal error codes)
    sure = {"meta": ["seek 0 0", "read 16", "read 100", "pos"], "xattr": ["desc 0", "readall 0", "first 0", "readall 1"], "dir": ["list /", "resolve /"],
            "fragtable": ["size", "lookup 0"], "file": ["size", "read 0 96"]}.get(kind, []) if not damaged else []
    for op in sure:
        ic = None
        for t, tw in (("c", "t2"), ("o", "t1")):
            i = s.op(t, op); j = s.op(tw, op)
            s.pairs.append((i, j))
            if t == "c":
                ic = i
            elif kind == "meta":
                s.pairs.append((ic, i))               # both were positioned by the same seek
        s.ctl("views")
    post = hist_ops(r.choice([1, 3, 6, 12]))
    if kind == "xwr":
        post = post + ["flush"] * 2
    # events: operations and releases, interleaved; both release orders arise from the shuffle
    # one event = one operation; xattr writer: one complete begin … end block (or a flush) on one object — a block is never
    # split between original and copy, nothing is copied or released inside an open block (except the deliberate `open` variant)
    groups, cur = [], []
    for x in post:
        cur.append(x)
        if kind != "xwr" or x in ("end", "flush"):
            groups.append(cur); cur = []
    if cur:
        groups.append(cur)
    events = [("op", g) for g in groups] + [("drop", "o"), ("drop", "c")] + ([("env", None)] if kind in ENV_KINDS and r.random() < 0.5 else [])
    # a copy of the copy takes the copy's place; one more copy of either is made and released while both are alive
    if r.random() < 0.35:
        events.insert(r.randint(0, len(groups)), ("ctl", "recopy"))
    if r.random() < 0.35:
        events.insert(r.randint(0, len(groups)), ("ctl", "copydrop " + r.choice("oc")))
    if r.random() < 0.7:
        # keep the releases towards the end most of the time, so that most operations see both objects alive
        ops_e = [e for e in events if e[0] in ("op", "ctl")]
        rest = [e for e in events if e[0] not in ("op", "ctl")]
        r.shuffle(rest)
        cut = r.randint(len(ops_e) // 2, len(ops_e))
        tail = ops_e[cut:] + rest
        r.shuffle(tail)
        events = ops_e[:cut] + tail
    else:
        r.shuffle(events)
    for ev, x in events:
        if ev == "op":
            who = [t for t in ("o", "c") if alive[t]]
            if not who:
                continue
            t = r.choice(who)
            for y in x:
                i = s.op(t, y, marked(y))
                j = s.op("t1" if t == "o" else "t2", y)
                s.pairs.append((i, j))
                if not env_dropped:
                    s.fresh(y, i)
                s.ctl("views")
        elif ev == "ctl":
            # (after `dropenv` the shared file / compressor live only through the readers: still copyable)
            if alive["c"] and (extra["c"] == 0 if x == "recopy" else alive[x.split()[1]]):
                s.ctl(x)
                s.ctl("views")
        elif ev == "drop":
            while extra[x] > 0:
                s.ctl("ungrab " + x); extra[x] -= 1
            s.ctl("drop " + x); alive[x] = False
            s.ctl("views")
        elif ev == "env" and not env_dropped:
            s.ctl("dropenv"); env_dropped = True
    return s


def failcopy_variant(base, k, tag):
    """same history; the k-th allocation inside sqfs_copy fails; afterwards the original is used and released"""
    s = Scenario(tag, base.kind, base.args, base.model_kind)
    s.damaged = base.damaged
    s.lines = list(base.lines[:base.copy_at]); s.mlines = list(base.mlines[:base.copy_at])
    s.pairs = [(i, j) for i, j in base.pairs if i < base.copy_at and j < base.copy_at]
    s.copy_at = len(s.lines)
    s.failcopy = k
    s.ctl("failcopy %d" % k)
    s.ctl("views")                      # the failed copy must leave what the original (and the twins) observe untouched
    # replay the original's later operations (on o and t1) so that damage to the original shows
    for idx in range(base.copy_at + 1, len(base.lines)):
        l = base.lines[idx]
        if l.startswith("o "):
            i = len(s.lines); s.lines.append(l); s.mlines.append(base.mlines[idx])
            s.lines.append("t1 " + l[2:]); s.mlines.append("t1 " + base.mlines[idx][2:].replace("!", ""))
            s.pairs.append((i, i + 1))
    for _ in range(sum(1 for l in base.lines[:base.copy_at] if l == "grab o")):
        s.ctl("ungrab o")
    s.ctl("drop o")
    return s


# --------------------------------------------------------------------------------------------- running
def run_harness(ctx, harness, scenarios, jobs=6, sanitized=True):
    """returns list of (answers:list[str], exit:list[str])"""
    env = ctx.san_env({"ASAN_OPTIONS": "detect_leaks=1:abort_on_error=0:exitcode=99:allocator_may_return_null=1"})
    if not sanitized:
        env["MALLOC_PERTURB_"] = "165"          # glibc: freed memory is overwritten (uninstrumented build: stale reads show)
    chunks = [scenarios[i::jobs] for i in range(jobs)]

    def work(ch):
        if not ch:
            return []
        text = "".join(s.text() for s in ch)
        p = vlib.sh([str(harness), str(ctx.scratch)], input=text, env=env, timeout=3000)
        out, cur, res = p.stdout.splitlines(), [], []
        for l in out:
            if l.startswith("exit "):
                res.append((cur, l.split(" ", 3)[1:]))
                cur = []
            else:
                cur.append(l)
        if len(res) != len(ch) or p.returncode != 0 or cur:
            raise vlib.CheckFailure("harness produced %d results for %d scenarios (rc=%s, %d stray lines): %s" % (len(res), len(ch), p.returncode, len(cur), p.stderr[-500:]))
        for (ans, ex), sc in zs(res, ch):
            if ex[0] == "ok" and len(ans) != len(sc.lines) + 1:
                raise vlib.CheckFailure("scenario %s (%s) ended normally but answered %d lines for %d" % (sc.tag, sc.args.split()[0], len(ans), len(sc.lines) + 1))
            if any(a == "bad-op" for a in ans):
                raise vlib.CheckFailure("harness did not understand a line of scenario %s (%s): %r" % (sc.tag, sc.args.split()[0], [l for l, a in zip(sc.lines, ans) if a == "bad-op"][:3]))
        return res
    with ThreadPoolExecutor(max_workers=jobs) as ex:
        parts = list(ex.map(work, chunks))
    results = [None] * len(scenarios)
    for j, part in enumerate(parts):
        for i, rres in enumerate(part):
            results[j + i * jobs] = rres
    return results


PROBE_KEYS = ("rc", "destroy", "copy", "samehooks", "bufs", "refs", "self")


def parse_probe(line):
    """`copy ok … rc=1 destroy=1 …` → dict of the compared facts"""
    d = {}
    for w in line.split():
        if "=" in w:
            k, v = w.split("=", 1)
            if k in PROBE_KEYS:
                d[k] = v
    d.setdefault("self", "")
    return d


def shape_of(probe):
    def mask(v, f):
        return "".join(f(x) for x in v.split(",")) if v else "-"
    b = mask(probe.get("bufs", ""), lambda x: "0" if x == "null" else ("h" if x == "trim" else ("e" if x == "lost" else "1")))
    v = mask(probe.get("self", ""), lambda x: "0" if x == "null" else "1")
    rf = mask(probe.get("refs", ""), lambda x: "0" if x == "null" else "1")
    return "shape %s %s %s" % (b, v, rf)


def run_model(ctx, mode, scenarios, shapes, fail_at=None):
    text = []
    if len(scenarios) != len(shapes):
        raise vlib.CheckFailure("run_model: %d scenarios, %d shapes" % (len(scenarios), len(shapes)))
    for s, sh in zip(scenarios, shapes):
        ml = [sh] + list(s.mlines)          # slots are populated from the start (only liveness matters before the copy)
        if fail_at is not None and s.failcopy:
            ml[s.copy_at + 1] = "failcopy %d" % fail_at
        text.append("scenario %s %s\n%s\nend\n" % (s.tag, s.args if s.kind != "comp" else "comp " + s.args.split()[1], "\n".join(ml)))
    out = ctx.driver(["c19"] + (mode if isinstance(mode, list) else [mode]), "".join(text))
    res, cur = [], []
    for l in out:
        if l.startswith("exit "):
            res.append((cur, l.split()[1])); cur = []
        else:
            cur.append(l)
    if len(res) != len(scenarios) or cur:
        raise vlib.CheckFailure("model driver produced %d results for %d scenarios (%d stray lines)" % (len(res), len(scenarios), len(cur)))
    for (ans, ex), sc in zs(res, scenarios):
        if len(ans) != len(sc.mlines) + 2:
            raise vlib.CheckFailure("model driver answered %d lines for %d of scenario %s" % (len(ans), len(sc.mlines) + 2, sc.tag))
        if any(a == "bad-op" for a in ans):
            raise vlib.CheckFailure("model driver did not understand a line of scenario %s (%s %s)" % (sc.tag, sc.args.split()[0], mode))
    return res


CTL = ("copy", "failcopy", "drop", "grab", "ungrab", "rcs", "dropenv", "recopy", "copydrop")
TARGETS = ("o", "c", "t1", "t2")


def parse_views(l):
    d = {}
    for w in l.split()[1:]:
        k, v = w.split("=", 1)
        d[k] = None if v == "-" else v
    return d


def view_relations(s, answers):
    """What the `views` lines of one answer stream (real or model) say, as relations between consecutive lines:
    chg = objects whose view changed although no operation was aimed at them in between (independence: must be none),
    oc  = right after a successful copy: does the copy observe what the original observes (equivalence: must be True),
    tw  = objects that differ from their identically driven twin (must be none; only meaningful for the real objects)."""
    rels, prev, between, copied = [], None, set(), False
    for i in range(min(len(answers), len(s.lines))):
        w = s.lines[i].split()
        if w[0] in TARGETS:
            between.add(w[0])
        elif w[0] in ("copy", "failcopy"):
            copied = True
        elif w[0] == "views":
            if not answers[i].startswith("views "):
                break                                       # crashed (model: absorbing crash state)
            cur = parse_views(answers[i])
            chg = sorted(t for t in TARGETS if prev and prev.get(t) and cur.get(t) and prev[t] != cur[t] and t not in between)
            oc = (cur["o"] == cur["c"]) if copied and cur.get("o") and cur.get("c") else None
            tw = [a for a, b in (("o", "t1"), ("c", "t2")) if cur.get(a) and cur.get(b) and cur[a] != cur[b]]
            rels.append({"line": i, "chg": chg, "oc": oc, "tw": tw})
            prev, between, copied = cur, set(), False
    return rels


def norm_ctl(l):
    """control-line answer reduced to what model and harness both print"""
    w = l.split()
    if not w:
        return l
    if w[0] == "copy":
        if len(w) > 1 and w[1] == "NULL":
            return "copy NULL"
        p = parse_probe(l)
        # null slots carry no information about the hook; deep-bad is a fact about the referenced kind's hook
        return "copy ok " + " ".join("%s=%s" % (k, p.get(k, "")) for k in PROBE_KEYS)
    if w[0] == "rcs":
        return " ".join(x for x in w if not x.startswith("fds="))
    return l


def compare(s, hres, mres, shape_len=1):
    """compare harness answers with one model run.  Returns (agree:bool, detail)"""
    hans, hexit = hres
    mans, mexit = mres
    # model answers: [scenario, ...mlines with shape inserted...]
    mans = mans[2:]                                      # drop the answers to `scenario` and `shape`
    n = min(len(hans), len(s.lines))
    for i in range(n):
        if s.lines[i].split()[0] in CTL:
            a, b = norm_ctl(hans[i]), norm_ctl(mans[i]) if i < len(mans) else "<none>"
            if b.startswith("crash"):
                break
            if a != b:
                return False, "line %d `%s`: real `%s` model `%s`" % (i, s.lines[i], a, b)
    hcls = hexit[0]
    if klass(hcls) != klass(mexit):
        return False, "outcome: real `%s` model `%s`" % (hcls, mexit)
    # independence / equivalence as the model's `view` predicts them
    hr = [(r["chg"], r["oc"]) for r in view_relations(s, hans)]
    mr = [(r["chg"], r["oc"]) for r in view_relations(s, mans)]
    m = min(len(hr), len(mr))
    if hr[:m] != mr[:m]:
        k = next(i for i in range(m) if hr[i] != mr[i])
        return False, "views line %d: real (changed-untouched, copy==original) = %s, model %s" % (k, hr[k], mr[k])
    return True, ""


def divergences(s, hres):
    """the property's specification evaluated on what the real objects did: answers equal to the twin's, the copy observes
    what the original observes, nothing changes that was not operated on"""
    hans = hres[0]
    bad = []
    for i, j in s.pairs:
        if i < len(hans) and j < len(hans) and hans[i] != hans[j]:
            bad.append((i, s.lines[i], hans[i][:200], s.lines[j], hans[j][:200]))
    for r in view_relations(s, hans):
        if r["chg"]:
            bad.append((r["line"], "views", "the state of %s changed although no operation was aimed at it" % ",".join(r["chg"]), "", hans[r["line"]]))
        if r["oc"] is False:
            bad.append((r["line"], "views", "a fresh copy does not hold the state of the original", "", hans[r["line"]]))
        if r["tw"]:
            bad.append((r["line"], "views", "the state of %s differs from its identically driven twin" % ",".join(r["tw"]), "", hans[r["line"]]))
    return bad


def klass(c):
    """outcome classes as compared between model and code: every access to freed memory is one class"""
    return "dangling" if c in ("use-after-free", "double-free") else c


VARIANTS = [("repaired", "sim"), ("data-current", ["sim-mix", "data"]), ("fragtable-current", ["sim-mix", "fragtable,idtable"]),
            ("current", "sim-current")]


def judge(ctx, s, hres, var, stats):
    """classify one scenario.  `var`: variant name -> model result (hooks repaired / partly repaired / current).
    Returns None if fine, else (key, what, found_input)."""
    hans, hexit = hres
    mmain = var["repaired"]
    cl = lambda ans: next((norm_ctl(l) for l in ans if l.startswith("copy ok")), None)
    hp = cl(hans)
    if getattr(s, "expect_null", False) and hp is not None:
        return ("%s:copied" % s.kind, "sqfs_copy of %s returned an object" % ("a file opened for writing (stdio_copy must refuse: the copy would share the write position / truncate state)"
                                                                             if s.kind == "wfile" else "an object whose copy hook is NULL"), True)
    # the model of the hooks this tree has: the first variant whose fresh copy shows the facts the probe shows; without
    # a probe (failed copy) the first variant that explains the run
    if hp is not None:
        name = next((n for n, _ in VARIANTS if cl(var[n][0]) == hp), "current")
    else:
        name = next((n for n, _ in VARIANTS if compare(s, hres, var[n])[0]), "current")
    mcur = var[name] if name != "repaired" else var["current"]
    hcls = hexit[0]
    div = divergences(s, hres)
    fdleak = any(l.startswith("fds-at-end") and l.split()[1] not in ("+0", "0") for l in hans)
    if any(l == "setup-failed" for l in hans):
        return ("setup:%s" % s.kind, "harness could not set the scenario up (%s)" % s.args, False)
    crash_line = len(hans) if hcls != "ok" else None
    misbehaves = hcls != "ok" or bool(div) or fdleak
    after_copy = (crash_line is None or crash_line >= s.copy_at) and all(i >= s.copy_at for i, *_ in div)
    ok_main, why_main = compare(s, hres, mmain)
    ok_cur, why_cur = compare(s, hres, mcur)
    stats.setdefault("outcomes", {})[hcls] = stats.get("outcomes", {}).get(hcls, 0) + 1
    if ok_main and not misbehaves:
        return None
    copyline = lambda ans: next((norm_ctl(l) for l in ans if l.startswith("copy ok")), None)
    ph, pm, pc = copyline(hans), copyline(mmain[0]), copyline(mcur[0])
    stale = ph is not None and "alias" in parse_probe(ph).get("self", "").split(",")
    fc = ":failcopy" if s.failcopy else ""
    tail = " [scenario %s: %s; real outcome %s %s]" % (s.tag, s.args.split()[0], hcls, " ".join(hexit[2:])[:160])
    how = ("outcome " + hcls) if hcls != "ok" else ("answers differ from the identically driven twin: %s" % (div[0],) if div else "descriptor leak")
    if misbehaves and not after_copy:
        return ("precopy:%s" % s.kind, "misbehaviour before the copy (not a C19 matter: harness or twin problem?): " + how + tail, True)
    if ph is not None and ph != pm:
        if ph != pc:
            return ("corr:%s" % s.kind, "%s: the probe of a fresh copy matches neither hook description (real `%s`, repaired `%s`, current `%s`)%s" % (
                s.kind, ph, pm, pc, ("; and " + how) if misbehaves else "") + tail, misbehaves)
        # the copy has the defect facts of the current hook description
        if not misbehaves:
            return ("%s:probe" % s.kind, "%s: fresh copy is not well-formed: probe `%s`, a well-formed copy has `%s`" % (s.kind, ph, pm) + tail, True)
        if stale:
            return ("%s:stale-self-pointers" % s.kind, "%s: copy keeps pointers into the original (probe self=%s): %s" % (s.kind, parse_probe(ph).get("self"), how) + tail, True)
        if ok_cur:
            return ("%s:%s" % (s.kind, klass(hcls)), "%s: %s — as the model of the current hook predicts" % (s.kind, how) + tail, True)
        return ("viol:%s:%s" % (s.kind, klass(hcls) if hcls != "ok" else "diverge"), "%s: %s; not explained by the defect facts of the probe (current-hook model: %s)" % (s.kind, how, why_cur) + tail, True)
    if ok_cur and hcls != "ok":
        return ("%s%s:%s" % (s.kind, fc, klass(hcls)), "%s: %s — as the model of the current hook predicts" % (s.kind, how) + tail, True)
    if misbehaves:
        return ("viol:%s:%s" % (s.kind, klass(hcls) if hcls != "ok" else ("diverge" if div else "fdleak")),
                "%s: %s; neither model predicts it (repaired: %s; current: %s)" % (s.kind, how, why_main, why_cur) + tail, True)
    return ("corr:%s" % s.kind, "%s: model and code disagree without observable misbehaviour (repaired: %s; current: %s)" % (s.kind, why_main, why_cur) + tail, False)


def replay_dict(ctx, s, hres, label=""):
    tmp = str(ctx.scratch)
    return {"scenario": s.text(), "kind": s.kind, "args": s.args, "answers": [a[:300] for a in hres[0][-12:]], "exit": hres[1], "config": "pool" if label else "malloc",
            "entry": {"kind": s.kind, "args": s.args.replace(tmp, "$TMP"), "model_kind": s.model_kind, "lines": s.lines, "mlines": s.mlines,
                      "pairs": [list(p) for p in s.pairs], "copy_at": s.copy_at, "failcopy": s.failcopy,
                      "shape": getattr(s, "fixed_shape", None), "base_probe": getattr(s, "base_probe", None)},
            "cmd": "harness/h_c19.c built as in tools/checks/c19.py, scenario on stdin, ASAN_OPTIONS=detect_leaks=1"}


def scenario_from_entry(ctx, tag, c, imgs):
    args = c["args"].replace("$TMP", str(ctx.scratch))
    if "$IMG" in args:
        args = args.replace("$IMG", str(imgs.get(c.get("image") or "gzip", imgs["gzip"])))
    s = Scenario(tag, c["kind"], args, c["model_kind"])
    s.lines, s.mlines, s.pairs, s.copy_at, s.failcopy = c["lines"], c["mlines"], [tuple(p) for p in c["pairs"]], c["copy_at"], c.get("failcopy")
    s.fixed_shape = c.get("shape")
    if c.get("base_probe"):
        s.base_probe = c["base_probe"]
    return s


def evaluate(ctx, harness, scs):
    """run scenarios through the real objects and all model variants; returns (results, per-scenario variant dicts)"""
    return evaluate_models(ctx, scs, run_harness(ctx, harness, scs))


def evaluate_models(ctx, scs, res):
    shapes = []
    for s, (hans, hexit) in zs(scs, res):
        pl = next((l for l in hans if l.startswith("copy ok")), None)
        probe = parse_probe(pl) if pl else getattr(s, "base_probe", None)
        shapes.append(shape_of(probe) if probe else (getattr(s, "fixed_shape", None) or "shape - - -"))
    var = {n: run_model(ctx, mode, scs, shapes) for n, mode in VARIANTS}
    fidx = [i for i, s in enumerate(scs) if s.failcopy]
    if fidx:
        fsc = [scs[i] for i in fidx]
        fsh = [shapes[i] for i in fidx]
        for n, mode in VARIANTS:
            alts = [run_model(ctx, mode, fsc, fsh, fail_at=j) for j in range(1, 9)]
            for k, i in enumerate(fidx):
                for a in alts:
                    if compare(scs[i], res[i], a[k])[0]:
                        var[n][i] = a[k]
                        break
    return res, [{n: var[n][i] for n, _ in VARIANTS} for i in range(len(scs))]


MMAP_LEAK = "failcopy-mmap:leak"


def mmap_leak_only(s, hr):
    """pool configuration: the injected failure hit the mmap inside mem_pool_allocate, sqfs_copy returned NULL, every answer
    is fine and the only complaint is LeakSanitizer's at exit: rbtree_copy's failure branch forgets the pool it created"""
    hans, hexit = hr
    return bool(s.failcopy) and hexit[0] == "leak" and s.copy_at < len(hans) and hans[s.copy_at].startswith("copy NULL") and "failed=mmap" in hans[s.copy_at]


def run_histories(ctx, harness, scs, label):
    """scenarios through the real objects of one build of the harness and through the models: successful copies, then
    every k-th acquisition inside sqfs_copy failing, classification.  `label` prefixes the keys ("" = the plain-malloc
    configuration, "pool:" = /repo's default configuration)."""
    hres = run_harness(ctx, harness, scs)
    # allocation-failure variants: every k up to the number of acquisitions (memory, descriptor, codec state, pool block) the
    # successful copy made — all of them (quick tier too: which failure path leaks must not depend on the seed); for copies
    # with very many allocations (xattr writer with many strings) the first six, the last two and two in between
    fscs = []
    for s, (hans, hexit) in zs(scs, hres):
        cl = hans[s.copy_at] if s.copy_at is not None and s.copy_at < len(hans) else ""
        m = re.search(r"allocs=(\d+)", cl)
        if not m or not cl.startswith("copy ok"):
            continue
        n = int(m.group(1))
        ks = list(range(1, n + 1))
        if len(ks) > 10:
            ks = ks[:6] + sorted(ctx.rng.sample(ks[6:-2], 2)) + ks[-2:]
        for k in ks:
            f = failcopy_variant(s, k, "%sf%d" % (s.tag, k))
            f.base_probe = parse_probe(cl)
            fscs.append(f)
    if not fscs:
        raise vlib.CheckFailure("%sno allocation-failure variant could be derived (no successful copy?)" % label)
    fres = run_harness(ctx, harness, fscs)
    ctx.log("%s%d scenarios, %d allocation-failure variants run" % (label, len(scs), len(fscs)))
    # every injected failure made the k-th acquisition inside sqfs_copy fail (the wrapper counted k calls or more in the
    # successful run): a hook that still hands out an object ignored the failure
    ignored = {}
    for f, hr in zs(fscs, fres):
        hans = hr[0]
        if f.copy_at < len(hans) and hans[f.copy_at].startswith("copy ok"):
            ignored[f.kind] = ignored.get(f.kind, 0) + 1
            if ignored[f.kind] <= 2:
                ctx.violation("%s%s:failcopy:ignored-failure" % (label, f.kind), "%s: acquisition %d inside sqfs_copy failed (allocation / dup / codec state / pool block) and the hook "
                              "still returned an object: `%s` [scenario %s]" % (f.kind, f.failcopy, hans[f.copy_at][:200], f.tag), replay_dict(ctx, f, hr, label), found_input=True)
    allsc = scs + fscs
    allres = hres + fres
    # the models (hooks repaired / partly repaired / current) on the same scripts.  Allocation-failure variants: the k-th
    # real allocation corresponds to *some* failing step of the hook's model (one model step may stand for several real
    # allocations), so the model is run for every failing step and the real outcome must be explained by one of them
    _, allvar = evaluate_models(ctx, allsc, allres)
    stats = {"outcomes": {}, "kinds": {}, "findings": {}}
    pair_checks = 0
    view_checks = 0
    for idx, (s, hr) in enumerate(zs(allsc, allres)):
        stats["kinds"][s.kind] = stats["kinds"].get(s.kind, 0) + 1
        pair_checks += sum(1 for i, j in s.pairs if i < len(hr[0]) and j < len(hr[0]))
        view_checks += len(view_relations(s, hr[0]))
        if label and mmap_leak_only(s, hr) and not divergences(s, hr):
            v = ("%s:%s" % (s.kind, MMAP_LEAK), "%s, default configuration (pool allocator): the mmap of a pool block fails inside sqfs_copy (acquisition %d); the hook returns NULL "
                 "but the pool that rbtree_copy had just created is never destroyed (rbtree.c: failure branch of rbtree_copy clears `out` without mem_pool_destroy): leak [scenario %s]" % (
                     s.kind, s.failcopy, s.tag), True)
            stats["outcomes"]["leak"] = stats["outcomes"].get("leak", 0) + 1
        else:
            v = judge(ctx, s, hr, allvar[idx], stats)
        if v:
            key, what, found = v
            key = label + key
            stats["findings"][key] = stats["findings"].get(key, 0) + 1
            fk = key + ("+" if found else "-")
            stats.setdefault("reported", {})[fk] = stats.setdefault("reported", {}).get(fk, 0) + 1
            if stats["reported"][fk] <= 2:
                ctx.violation(key, what, replay_dict(ctx, s, hr, label), found_input=found)
    return {"hres": hres, "fscs": fscs, "fres": fres, "allsc": allsc, "allres": allres, "stats": stats, "pair_checks": pair_checks, "view_checks": view_checks}



# --------------------------------------------------------------------------------------------- /repo's default configuration (pool allocator)
def gen_pool_units(ctx, us):
    """the rbt units of the main run (same histories: copy, lookups, independent inserts, release of one, use of the other) and
    failures of the two acquisitions rbtree_copy makes in this configuration: 1 = calloc of the mem_pool_t, 2 = mmap of the
    pool's first block"""
    r, q = ctx.rng, ctx.quick()
    pus = [u for u in us if u.kind == "rbt" and not any(l.startswith("failcopy") for l in u.lines)]
    for i in range(12 if q else 120):
        ks, vs = [(4, 8), (40, 4), (r.randint(1, 17), r.randint(0, 24))][i % 3]
        u = gen_rbt_unit(r, "rpf%d" % i, ks, vs, 5 if q else 8, fail=True)
        u.lines = [("failcopy %d" % (1 + (i // 3) % 2)) if l.startswith("failcopy") else l for l in u.lines]
        pus.append(u)
    return pus


def gen_big_units(ctx):
    """trees of several thousand nodes (several blocks of a pool): copy, node-for-node comparison, every key looked up in
    copy and original, release of one, every key looked up in the other.  Not predicted by the model (exercised only)."""
    r, out = ctx.rng, []
    for i, (ks, vs, n) in enumerate([(4, 8, 5000), (40, 4, 2500)] + ([] if ctx.quick() else [(r.randint(4, 17), r.randint(1, 24), 6000)])):
        u = Unit("big%d" % i, "rbt", "rbt %d %d" % (ks, vs))
        seed = r.randint(0, 1 << 30)
        u.n, u.ks = n, ks
        first = r.choice("oc")
        rest = "c" if first == "o" else "o"
        for l in ("o bulk %d %d" % (n, seed), "copy", "c cmpcopy", "c verify %d %d" % (n, seed), "o verify %d %d" % (n, seed), "drop " + first,
                  "%s verify %d %d" % (rest, n, seed), "drop " + rest):
            u.add(l)
        out.append(u)
    return out


def check_big_units(ctx, us, hres, pool, label):
    if len(us) != len(hres):
        raise vlib.CheckFailure("big units: %d scenarios, %d results" % (len(us), len(hres)))
    n_ok = 0
    for u, (hans, hexit) in zs(us, hres):
        pad = (u.ks + 7) // 8 * 8
        exp = ["bulk 0 %d" % u.n, "copy 0 kp=%d alias=0%s" % (pad, " pool=own nodes=in" if pool else ""),
               "cmpcopy same=1 n=%d%s" % (u.n, " nodes=in blocks=many" if pool else ""), "verify %d" % u.n, "verify %d" % u.n, "drop", "verify %d" % u.n, "drop", "fds-at-end +0"]
        if hans != exp or hexit[0] != "ok":
            i = next((j for j, (a, b) in enumerate(zip(hans, exp)) if a != b), min(len(hans), len(exp)))
            ctx.violation(label + "unit:rbt-big", "rbtree_copy of a tree of %d nodes (%s)%s: line %d `%s` answers `%s`, expected `%s`; exit %s" % (
                u.n, u.args, ", default configuration (pool allocator)" if pool else "", i, u.lines[i] if i < len(u.lines) else "end", hans[i][:200] if i < len(hans) else "<nothing>",
                exp[i] if i < len(exp) else "<nothing>", " ".join(hexit)[:200]),
                {"scenario": u.text(), "answers": hans[:12], "exit": hexit, "config": "pool" if pool else "malloc"}, found_input=True)
        else:
            n_ok += 1
    return n_ok


def norm_cross(l):
    """an answer line reduced to what the sanitized and the uninstrumented build of the same configuration must both print"""
    w = l.split()
    if w and w[0] == "copy" and len(w) > 1 and w[1] == "ok":
        p = parse_probe(l)
        return "copy ok " + " ".join("%s=%s" % (k, p.get(k, "")) for k in ("rc", "destroy", "copy", "samehooks", "refs", "self")) + " " + " ".join(x for x in w if x.startswith(("pool=", "nodes=")))
    if w and w[0] in ("copy", "rcs"):
        return norm_ctl(l)
    if w and w[0] == "views":
        return "views"
    return l


def run_pool(ctx, hp, scs, us):
    """The directory-reader and xattr-writer histories (the two kinds that own an rbtree) and the rbtree units again, against
    /repo's DEFAULT configuration: under ASan/LSan with the pool allocator, and uninstrumented with the use-after-release
    canary.  Returns (coverage dict, floor problems, the large-tree units)."""
    pscs = [s for s in scs if s.kind in ("dir", "xwr")]
    H = run_histories(ctx, hp["asan"], pscs, "pool:")
    phres = H["hres"]
    st = {"scenarios": len(H["allsc"]), "alloc_failure_variants": len(H["fscs"]), "copies_with_pool_facts": 0, "dir_copies_with_cached_inodes": 0, "xwr_copies_with_blocks": 0,
          "failed_by_mmap": {"dir": 0, "xwr": 0}, "real_outcomes": H["stats"]["outcomes"], "classified": H["stats"]["findings"]}
    reported = 0
    for s, (hans, _) in zs(pscs, phres):
        cl = hans[s.copy_at] if s.copy_at is not None and s.copy_at < len(hans) else ""
        if not cl.startswith("copy ok"):
            continue
        owns_tree = s.kind == "xwr" or (int(s.args.split()[-1]) & 1) == 1
        if owns_tree != (" pool=" in cl):
            raise vlib.CheckFailure("pool build: scenario %s (%s): pool facts %s on the copy line `%s`" % (s.tag, s.args, "missing" if owns_tree else "unexpected", cl[:200]))
        if not owns_tree:
            continue
        st["copies_with_pool_facts"] += 1
        bufs = parse_probe(cl).get("bufs", "").split(",")
        nonempty = bufs[0 if s.kind == "dir" else 3] != "null"
        st["dir_copies_with_cached_inodes" if s.kind == "dir" else "xwr_copies_with_blocks"] += nonempty
        if not cl.endswith(" pool=own nodes=in"):
            reported += 1
            if reported <= 2:
                ctx.violation("pool:%s:ownership" % s.kind, "%s, default configuration: the tree of a fresh copy does not live in a pool of the copy's own (`%s`): it dies with the original [scenario %s]" % (
                    s.kind, cl[cl.index(" pool="):], s.tag), replay_dict(ctx, s, (hans, ["-"]), "pool:"), found_input=True)
    for f, (hans, _) in zs(H["fscs"], H["fres"]):
        if f.copy_at < len(hans) and "failed=mmap" in hans[f.copy_at]:
            st["failed_by_mmap"][f.kind] += 1
    cbad, cst = check_copystate(ctx, pscs, phres, floors=False)
    for s, field, inv, differs in cbad[:3]:
        ctx.violation("pool:copystate:%s" % s.kind, "%s, default configuration: the state of the real copy is not what rbCopy yields on the real original's state (first difference: %s)" % (s.kind, field),
                      replay_dict(ctx, s, phres[pscs.index(s)], "pool:"), found_input=differs)
    st["copystate"] = cst
    # the same histories, uninstrumented: nothing between the code and munmap; answers as in the sanitized pool build
    plres = run_harness(ctx, hp["plain"], pscs, sanitized=False)
    ndiff = 0
    for s, (ha, ea), (hb, eb) in zs(pscs, phres, plres):
        why = None
        if eb[0] != "ok":
            why = "exit %s" % " ".join(eb)[:200]
        elif divergences(s, (hb, eb)):
            why = "answers differ from the identically driven twin: %s" % (divergences(s, (hb, eb))[0],)
        elif ea[0] == "ok" and [norm_cross(x) for x in ha] != [norm_cross(x) for x in hb]:
            i = next((j for j, (x, y) in enumerate(zip(ha, hb)) if norm_cross(x) != norm_cross(y)), min(len(ha), len(hb)))
            why = "line %d `%s`: sanitized build `%s`, uninstrumented build `%s`" % (i, s.lines[i] if i < len(s.lines) else "end", ha[i][:160] if i < len(ha) else "-", hb[i][:160] if i < len(hb) else "-")
        if why:
            ndiff += 1
            if ndiff <= 2:
                ctx.violation("pool-plain:%s" % s.kind, "%s, default configuration, uninstrumented build with use-after-release canary: %s [scenario %s]" % (s.kind, why, s.tag),
                              replay_dict(ctx, s, (hb, eb), "pool-plain:"), found_input=True)
    st["uninstrumented_scenarios"] = len(pscs)
    st["answer_lines"] = sum(len(hr[0]) for hr in H["allres"]) + sum(len(hr[0]) for hr in plres)
    # units
    pus = gen_pool_units(ctx, us)
    for name, h, san in (("asan", hp["asan"], True), ("plain", hp["plain"], False)):
        ures = run_harness(ctx, h, pus, sanitized=san)
        ubad, ustat = check_units(ctx, pus, ures, mode="unit-pool", pool=True)
        for u, hans, hexit, i, what, found in ubad[:3]:
            ctx.violation("pool:unit:rbt", "rbtree_copy (%s), default configuration (pool allocator), %s build: %s [scenario %s]" % (u.args, "sanitized" if san else "uninstrumented", what, u.tag),
                          {"scenario": u.text(), "answers": [a[:300] for a in hans[max(0, i - 3):i + 3]], "exit": hexit, "config": "pool",
                           "entry": {"unit": True, "pool": True, "kind": u.kind, "args": u.args, "lines": u.lines, "same": [list(p) for p in u.same]}}, found_input=found)
        for u, hans, hexit in ustat.pop("mmap_leaks")[:1]:
            ctx.violation("pool:rbt:" + MMAP_LEAK, "rbtree_copy (%s), default configuration: the mmap of the pool's first block fails: SQFS_ERROR_ALLOC is returned and `out` cleared, but the pool "
                          "created a few lines earlier is never destroyed (LeakSanitizer: %s) [scenario %s]" % (u.args, " ".join(hexit[2:])[:120], u.tag),
                          {"scenario": u.text(), "answers": hans[-6:], "exit": hexit, "config": "pool",
                           "entry": {"unit": True, "pool": True, "kind": u.kind, "args": u.args, "lines": u.lines, "same": [list(p) for p in u.same]}}, found_input=True)
        st["units_" + name] = ustat
        st["answer_lines"] += ustat["answers"]
    big = gen_big_units(ctx)
    st["big_trees_ok"] = {name: check_big_units(ctx, big, run_harness(ctx, h, big, sanitized=san), True, "pool:") for name, h, san in (("asan", hp["asan"], True), ("plain", hp["plain"], False))}
    floors = []
    if not (st["dir_copies_with_cached_inodes"] and st["xwr_copies_with_blocks"]):
        floors.append("pool build: no copy of a directory reader with cached inodes / of an xattr writer with recorded blocks: %s" % st)
    if not (st["failed_by_mmap"]["dir"] and st["failed_by_mmap"]["xwr"]):
        floors.append("pool build: no sqfs_copy failed by a failing mmap of a pool block: %s" % st["failed_by_mmap"])
    for name in ("asan", "plain"):
        u = st["units_" + name]
        if not (u["copies_pool_own_nodes_in"] and u["failed_mmap"] and u["failed_copies"] and u["spec_pairs"] and u["rbt_layouts"] >= 17 * 25):
            floors.append("pool build (%s): unit scenarios evaluated too little: %s" % (name, u))
    return st, floors, big


# --------------------------------------------------------------------------------------------- table machines
def run_tables(ctx, harness, n):
    """id / fragment table: the model predicts every answer, not only the outcome class"""
    r = ctx.rng
    scs = []
    for i in range(n):
        kind = r.choice(["idtable", "fragtable"])
        s = Scenario("t%d" % i, kind, kind, kind)
        for _ in range(r.choice([0, 3, 10, 40, 150])):
            op = gen_op(r, kind, {})
            for t in ("o", "t1", "t2"):
                s.op(t, op)
        s.copy_at = len(s.lines)
        s.ctl("copy")
        for _ in range(r.choice([2, 10, 30])):
            s.op(r.choice(["o", "c", "t1", "t2"]), gen_op(r, kind, {}))
        scs.append(s)            # no drops: the copies are released by the harness's teardown
    # the limit of the id table (`used >= 0xFFFF`): tables filled to just below it, adds across it on original and copy
    for j, fill in enumerate([0xFFFF - 2, 0xFFFF - 1, 0xFFFF] + ([r.randint(0xFFFF - 40, 0xFFFF)] if n > 100 else [])):
        s = Scenario("tl%d" % j, "idtable", "idtable", "idtable")
        for t in ("o", "t1", "t2"):
            s.op(t, "fill %d" % fill)
        for x in (4000000000, 5, 4000000001):
            for t in ("o", "t1", "t2"):
                s.op(t, "add %d" % x)
        s.copy_at = len(s.lines)
        s.ctl("copy")
        for x in (4000000002, 4000000000, 4000000003, 65533, 4000000004):
            for t in ("c", "o", "t2", "t1"):
                s.op(t, "add %d" % x)
        for idx in (0xFFFF - 3, 0xFFFF - 2, 0xFFFF - 1, 0xFFFF):
            for t in ("c", "o"):
                s.op(t, "get %d" % idx)
        scs.append(s)
    return scs


def check_tables(ctx, harness, scs, hres):
    if len(scs) != len(hres):
        raise vlib.CheckFailure("tables: %d scenarios, %d results" % (len(scs), len(hres)))
    text = "".join(s.text() for s in scs)
    out = ctx.driver(["c19", "tbl"], text)
    if len(out) != sum(len(s.lines) + 2 for s in scs):
        raise vlib.CheckFailure("table model answered %d lines, expected %d" % (len(out), sum(len(s.lines) + 2 for s in scs)))
    bad, k, total = [], 0, 0
    for s, (hans, hexit) in zs(scs, hres):
        m = out[k + 1:k + 1 + len(s.lines)]
        k += len(s.lines) + 2
        if any(x == "bad-op" for x in m):
            raise vlib.CheckFailure("table model did not understand a line of scenario %s" % s.tag)
        # the run itself: clean exit, no leak, no descriptor left (the copies are released by the teardown)
        if hexit[0] != "ok" or len(hans) != len(s.lines) + 1 or hans[-1] != "fds-at-end +0":
            bad.append((s, len(s.lines) - 1, "exit %s after %d of %d lines" % (" ".join(hexit)[:200], len(hans), len(s.lines) + 1), "exit ok"))
        for i, l in enumerate(s.lines):
            if l.split()[0] in CTL or i >= len(hans):
                continue
            total += 1
            if hans[i] != m[i]:
                bad.append((s, i, hans[i], m[i]))
    return bad, total


# --------------------------------------------------------------------------------------------- hook descriptions vs probe
EXPECT = {"dup": {"dup"}, "trim": {"trim", "dup", "lost"},      # lost: array_init_copy of an allocated but empty array allocates nothing
           "grab": {"grab"}, "deep": {"deep"}, "own": {"own"}}


def check_descriptions(ctx, scs, hres):
    """`sqfsmodel c19 describe <kind>` against everything the probe saw in this run, slot by slot; a slot that was NULL in
    every scenario was never checked: that is a failure of the generators, not a pass"""
    seen = {}
    for s, (hans, _) in zs(scs, hres):
        pl = next((l for l in hans if l.startswith("copy ok")), None)
        if not pl:
            continue
        pr = parse_probe(pl)
        d = seen.setdefault(s.model_kind, {"bufs": {}, "refs": {}, "self": {}, "n": 0})
        d["n"] += 1
        for key in ("bufs", "refs", "self"):
            for i, st in enumerate(pr.get(key, "").split(",") if pr.get(key) else []):
                d[key].setdefault(i, set()).add(st)
    problems, facts = [], {}
    for kind in COMPS + ["idtable", "fragtable", "file", "meta", "dir", "data", "xattr", "xwr"]:
        line = ctx.driver(["c19", "describe", kind], "")
        if len(line) != 1 or not line[0].startswith("kind=%s " % kind):
            raise vlib.CheckFailure("describe %s: %r" % (kind, line))
        desc = dict(w.split("=", 1) for w in line[0].split())
        got = seen.get(kind)
        if not got:
            raise vlib.CheckFailure("no successful copy of kind %s in this run: its hook description was not compared with anything" % kind)
        facts[kind] = {"copies": got["n"]}
        for key in ("bufs", "refs", "self"):
            acts = desc.get(key, "").split(",") if desc.get(key) else []
            for i, act in enumerate(acts):
                states = got[key].get(i, set()) - {"null"}
                if not states:
                    raise vlib.CheckFailure("%s: %s slot %d (described as `%s`) was NULL in every scenario of this run: never checked" % (kind, key, i, act))
                if not states <= EXPECT.get(act, {act}):
                    problems.append("%s: %s slot %d is described as `%s`, the probe saw %s" % (kind, key, i, act, sorted(states)))
                if act == "trim" and "trim" not in states:
                    raise vlib.CheckFailure("%s: %s slot %d (`trim`) was never seen with spare capacity: the size of the copy was never checked" % (kind, key, i))
            if len(got[key]) > len(acts):
                problems.append("%s: the probe reports %d %s slots, the description has %d" % (kind, len(got[key]), key, len(acts)))
    return problems, facts


def check_copystate(ctx, scs, hres, floors=True):
    """drCopy / mrCopy of the model applied to the state dumped from the real original must be the state dumped from the
    real copy; the cache invariant (specification) must hold of every real original"""
    pairs = []
    for s, (hans, _) in zs(scs, hres):
        if s.kind not in ("data", "meta", "dir") or s.failcopy or s.copy_at is None:
            continue
        io = next((i for i, l in enumerate(s.lines) if l == "dump o" and i < len(hans)), None)
        ic = next((i for i, l in enumerate(s.lines) if l == "dump c" and i < len(hans)), None)
        if io is not None and hans[io].startswith("dump o "):
            # (a run that stopped before the copy could be dumped still counts: the model says what the dump must be)
            pairs.append((s, hans[io], hans[ic] if ic is not None and hans[ic].startswith("dump c ") else "<the run stopped before the copy was dumped>"))
    if not pairs:
        raise vlib.CheckFailure("no state dump of a copied data / meta / directory reader in this run")
    out = ctx.driver(["c19", "copystate"], "".join(o + "\n" for _, o, _ in pairs))
    if len(out) != len(pairs):
        raise vlib.CheckFailure("copystate: %d answers for %d dumps" % (len(out), len(pairs)))
    bad, st = [], {"data": 0, "meta": 0, "dir": 0, "data_block_cached": 0, "frag_block_cached": 0, "short_block_cached": 0,
                   "dir_cache_nodes": 0, "dir_refs_above_2^32": 0, "dir_refs_above_2^36": 0, "dir_without_cache": 0, "dir_empty_cache": 0}
    for (s, o, c), m in zs(pairs, out):
        if m == "bad-op":
            raise vlib.CheckFailure("copystate: the model driver could not parse `%s…`" % o[:120])
        st[s.kind] += 1
        if s.kind == "data":
            kv = dict(w.split("=", 1) for w in o.split()[3:])
            st["data_block_cached"] += kv["dblk"] != "N"
            st["frag_block_cached"] += kv["fblk"] != "N"
            st["short_block_cached"] += (kv["dblk"] != "N" and int(kv["dsz"]) < int(kv["bs"])) or (kv["fblk"] != "N" and int(kv["fsz"]) < int(kv["bs"]))
        if s.kind == "dir":
            kv = dict(w.split("=", 1) for w in o.split()[3:])
            if kv["tree"] == "none":
                st["dir_without_cache"] += 1
            else:
                kp, vs = int(kv["kp"]), int(kv["vs"])
                st["dir_empty_cache"] += kv["tree"] == "x"
                for tok in kv["tree"].split(","):
                    if tok != "x":
                        st["dir_cache_nodes"] += 1
                        ref = int.from_bytes(bytes.fromhex(tok.split(":")[1])[kp:kp + vs], "little")
                        st["dir_refs_above_2^32"] += ref >= 1 << 32
                        st["dir_refs_above_2^36"] += ref >= 1 << 36
        if m != c + " inv=1":
            field = next((a.split("=")[0] for a, b in zip(m.split(), (c + " inv=1").split()) if a != b), "?")
            bad.append((s, field, "inv=0" if m.endswith("inv=0") else "", (o.replace("dump o ", "dump c ", 1) != c)))
    if not floors:
        st["floor_problems"] = []
        return bad, st
    floors = []
    if st["data"] and not (st["data_block_cached"] and st["frag_block_cached"] and st["short_block_cached"]):
        floors.append("copystate: no copied data reader had a cached data block, a cached fragment block and a short block: %s" % st)
    if not (st["dir_refs_above_2^32"] and st["dir_refs_above_2^36"] and st["dir_without_cache"] and st["dir_empty_cache"]):
        floors.append("copystate: the copied directory readers lacked a cached reference above 2^32, one above 2^36, a reader without cache or one with an empty cache: %s" % st)
    if not (st["data"] and st["meta"] and st["dir"]):
        floors.append("copystate: no state dump of some reader kind: %s" % st)
    st["floor_problems"] = floors
    return bad, st


# --------------------------------------------------------------------------------------------- generic containers as units
def unit_bytes(r, n, nonzero_tail=True):
    b = bytearray(r.randbytes(n)) if r.random() < 0.5 else bytearray(r.randint(1, 255) for _ in range(n))
    if n and nonzero_tail:
        b[-1] |= 0x80                       # the last byte of every value / element is never zero
    return bytes(b)


class Unit:
    """a unit scenario: objects o and c only; `same` = pairs of lines whose answers the property itself requires to be
    equal (copy vs original right after the copy), everything is also predicted by the model"""
    def __init__(self, tag, kind, args):
        self.tag, self.kind, self.args, self.lines, self.same = tag, kind, args, [], []

    def add(self, l):
        self.lines.append(l)
        return len(self.lines) - 1

    def text(self):
        return "scenario %s %s\n%s\nend\n" % (self.tag, self.args, "\n".join(self.lines))


def gen_rbt_unit(r, tag, ks, vs, nmax, fail=False):
    u = Unit(tag, "rbt", "rbt %d %d" % (ks, vs))
    n = r.choice([1, 2, 3, 5, 8, 13, 21, 40][:max(1, nmax)])
    keys = []
    for _ in range(n):
        k = unit_bytes(r, ks, False) if r.random() < 0.9 or not keys else r.choice(keys)      # duplicates happen (inserted to the right)
        keys.append(k)
        u.add("o ins %s %s" % (hexs(k), hexs(unit_bytes(r, vs))))
    u.add("o dump")
    if fail:
        u.add("failcopy %d" % r.randint(1, n))
        u.add("o dump")
        for k in keys[:4]:
            u.add("o look " + hexs(k))
        return u
    d0 = len(u.lines) - 1
    u.add("copy")
    u.same.append((d0, u.add("c dump")))
    u.same.append((d0, u.add("o dump")))
    for k in dict.fromkeys(keys + [unit_bytes(r, ks, False)]):
        i = u.add("c look " + hexs(k)); j = u.add("o look " + hexs(k))
        u.same.append((i, j))
    # afterwards they are independent: inserts into one are not seen by the other
    for t, other in r.sample([("c", "o"), ("o", "c")], 2):
        for _ in range(r.randint(1, 3)):
            k = unit_bytes(r, ks, False)
            u.add("%s ins %s %s" % (t, hexs(k), hexs(unit_bytes(r, vs))))
            u.add("%s look %s" % (other, hexs(k))); u.add("%s look %s" % (t, hexs(k)))
    u.add("o dump"); u.add("c dump")
    first = r.choice("oc")
    u.add("drop " + first)
    rest = "c" if first == "o" else "o"
    for k in keys[:3]:
        u.add("%s look %s" % (rest, hexs(k)))
    u.add("%s dump" % rest)
    if r.random() < 0.5:
        u.add("drop " + rest)
    return u


def gen_arr_unit(r, tag, sz, big, fail=False):
    u = Unit(tag, "arr", "arr %d" % sz)
    n = r.choice([0, 1, 5, 127, 128, 129] + ([300, 1000] if big else []))
    if fail and n == 0:
        n = 3
    for _ in range(n):
        u.add("o app " + hexs(unit_bytes(r, sz)))
    if n:
        u.add("o set %d %s" % (r.randint(0, n - 1), hexs(unit_bytes(r, sz))))
    u.add("o dump")
    if fail:
        u.add("failcopy 1"); u.add("o dump"); u.add("o app " + hexs(unit_bytes(r, sz))); u.add("o get %d" % n)
        return u
    u.add("copy")
    u.add("c dump"); u.add("o dump")
    for i in sorted(set([0, n // 2, max(0, n - 1), n])):
        a = u.add("c get %d" % i); b = u.add("o get %d" % i)
        u.same.append((a, b))
    a = u.add("c used"); b = u.add("o used"); u.same.append((a, b))
    for t in r.sample(["c", "o"], 2):
        for _ in range(r.choice([1, 2, 130] if big else [1, 2, 3])):
            u.add("%s app %s" % (t, hexs(unit_bytes(r, sz))))
        u.add("%s set %d %s" % (t, r.randint(0, n + 1), hexs(unit_bytes(r, sz))))
        u.add("c dump"); u.add("o dump")
    first = r.choice("oc")
    u.add("drop " + first)
    u.add("%s dump" % ("c" if first == "o" else "o"))
    return u


def gen_strt_unit(r, tag, big, fail=False):
    u = Unit(tag, "strt", "strt")
    n = r.choice([0, 1, 3, 8, 20] + ([200] if big else []))
    if fail:
        n = r.choice([0, 1, 2, 4])
    mk = lambda: bytes(r.randint(1, 255) for _ in range(r.choice([0, 1, 2, 7, 8, 9, 31, 40])))
    strs = []
    for _ in range(n):
        x = mk() if r.random() < 0.8 or not strs else r.choice(strs)
        strs.append(x)
        u.add("o index " + hexs(x))
    distinct = len(dict.fromkeys(strs))
    for _ in range(r.randint(0, 2 * distinct)):
        u.add("o %s %d" % (r.choice(["ref", "ref", "unref"]), r.randint(0, distinct)))
    u.add("o dump")
    if fail:
        u.add("failcopy %d" % r.randint(1, distinct + 2 + (1 if distinct else 0)))
        u.add("o dump")
        for x in strs[:3]:
            u.add("o index " + hexs(x))
        u.add("o index " + hexs(b"new string")); u.add("o dump")
        return u
    d0 = len(u.lines) - 1
    u.add("copy")
    u.same.append((d0, u.add("c dump")))
    u.same.append((d0, u.add("o dump")))
    for i in range(distinct + 1):
        a = u.add("c str %d" % i); b = u.add("o str %d" % i); u.same.append((a, b))
        a = u.add("c count %d" % i); b = u.add("o count %d" % i); u.same.append((a, b))
    for x in dict.fromkeys(strs):                       # known strings keep their index in the copy
        a = u.add("c index " + hexs(x)); b = u.add("o index " + hexs(x)); u.same.append((a, b))
    for t in r.sample(["c", "o"], 2):                   # new strings and use counts: independent
        u.add("%s index %s" % (t, hexs(b"only in " + t.encode() + mk())))
        u.add("%s ref %d" % (t, r.randint(0, distinct)))
        u.add("c dump"); u.add("o dump")
    first = r.choice("oc")
    u.add("drop " + first)
    rest = "c" if first == "o" else "o"
    u.add("%s dump" % rest)
    for x in strs[:3]:
        u.add("%s index %s" % (rest, hexs(x)))
    return u


def gen_units(ctx):
    """rbtree: every key size 1..17 x value size 0..24; arrays of element sizes 1..24, 40, 64; string tables; plus
    allocation-failure variants of each"""
    r, q = ctx.rng, ctx.quick()
    us = []
    for ks in range(1, 18):
        for vs in range(0, 25):
            for rep in range(1 if q else 4):
                us.append(gen_rbt_unit(r, "r%d_%d_%d" % (ks, vs, rep), ks, vs, 5 if q else 8))
    for i in range(40 if q else 400):
        us.append(gen_rbt_unit(r, "rf%d" % i, r.randint(1, 17), r.randint(0, 24), 5 if q else 8, fail=True))
    # the two layouts the library uses: directory cache (4 / 8), xattr writer block tree (40 / 4)
    for i in range(4 if q else 60):
        us.append(gen_rbt_unit(r, "rd%d" % i, 4, 8, 8))
        us.append(gen_rbt_unit(r, "rx%d" % i, 40, 4, 8))
    for sz in list(range(1, 25)) + [40, 64]:
        for rep in range(1 if q else 6):
            us.append(gen_arr_unit(r, "a%d_%d" % (sz, rep), sz, not q))
        us.append(gen_arr_unit(r, "af%d" % sz, sz, False, fail=True))
    for i in range(12 if q else 200):
        us.append(gen_strt_unit(r, "s%d" % i, not q))
    for i in range(12 if q else 150):
        us.append(gen_strt_unit(r, "sf%d" % i, False, fail=True))
    return us


def check_units(ctx, us, hres, mode="unit", pool=False):
    """every answer of a unit scenario against `sqfsmodel c19 unit`; the specification (copy answers / dumps like the
    original right after the copy) evaluated on the real answers first"""
    if len(us) != len(hres):
        raise vlib.CheckFailure("units: %d scenarios, %d results" % (len(us), len(hres)))
    out = ctx.driver(["c19", mode], "".join(u.text() for u in us))     # `unit-pool`: /repo's default configuration
    if len(out) != sum(len(u.lines) + 2 for u in us):
        raise vlib.CheckFailure("unit model answered %d lines, expected %d" % (len(out), sum(len(u.lines) + 2 for u in us)))
    norm = lambda l: re.sub(r" count=\d+", "", l)        # an array's capacity is not part of what it answers
    bad, k, stats = [], 0, {"answers": 0, "copies": 0, "failed_copies": 0, "spec_pairs": 0, "rbt_layouts": set(), "rbt_padded_value_tail_nonzero": 0,
                            "failed_mmap": 0, "copies_pool_own_nodes_in": 0}
    leaks = []
    for u, (hans, hexit) in zs(us, hres):
        m = out[k + 1:k + 1 + len(u.lines)]
        k += len(u.lines) + 2
        if any(x == "bad-op" for x in m):
            raise vlib.CheckFailure("unit model did not understand a line of scenario %s (%s): %r" % (u.tag, u.args, [l for l, a in zip(u.lines, m) if a == "bad-op"][:2]))
        found = None
        for i, j in u.same:
            if i < len(hans) and j < len(hans):
                stats["spec_pairs"] += 1
                if norm(hans[i]) != norm(hans[j]) and found is None:
                    found = (i, "right after the copy `%s` -> `%s` but `%s` -> `%s` (copy and original must answer alike)" % (u.lines[i], hans[i][:300], u.lines[j], hans[j][:300]), True)
        # pool configuration: the mmap inside mem_pool_allocate failed, every answer is fine, LeakSanitizer complains at exit
        mmleak = pool and hexit[0] == "leak" and len(hans) == len(u.lines) + 1 and hans[-1] == "fds-at-end +0" and any("failed=mmap" in a for a in hans)
        if (hexit[0] != "ok" and not mmleak) or len(hans) != len(u.lines) + 1 or hans[-1] != "fds-at-end +0":
            found = found or (len(hans), "exit %s after %d of %d lines" % (" ".join(hexit)[:300], len(hans), len(u.lines) + 1), True)
        for i, l in enumerate(u.lines):
            if i >= len(hans):
                break
            stats["answers"] += 1
            stats["failed_mmap"] += "failed=mmap" in hans[i]
            stats["copies_pool_own_nodes_in"] += hans[i].startswith("copy 0") and hans[i].endswith(" pool=own nodes=in")
            if l.startswith(("copy", "failcopy")):
                stats["copies" if hans[i].startswith("copy 0") else "failed_copies"] += 1
                if u.kind == "rbt" and hans[i].startswith("copy 0"):
                    ks, vs = int(u.args.split()[1]), int(u.args.split()[2])
                    stats["rbt_layouts"].add((ks, vs))
                    stats["rbt_padded_value_tail_nonzero"] += (ks % 8 != 0 and vs > 0)
            if hans[i] != m[i] and found is None:
                found = (i, "`%s` answers `%s`, the model says `%s`" % (l, hans[i][:300], m[i][:300]), False)
        if found:
            bad.append((u, hans, hexit) + found)
        elif mmleak:
            leaks.append((u, hans, hexit))
    stats["rbt_layouts"] = len(stats["rbt_layouts"])
    stats["mmap_leaks"] = leaks
    return bad, stats


# --------------------------------------------------------------------------------------------- main
def selftest(ctx, harnesses):
    """positive controls, every run: a lost block must be reported as a leak, a read of freed / out-of-bounds heap memory as such
    (sanitized builds), a read of memory given back with munmap must kill the process (all builds), a clean run must be clean"""
    for name, h, san in harnesses:
        want = {"none": ("ok",), "unmapped": ("segv", "signal")}
        if san:
            want.update({"leak": ("leak",), "uaf": ("use-after-free",), "overflow": ("heap-overflow",)})
        us = []
        for w in want:
            u = Unit("st_" + w, "selftest", "selftest " + w)
            u.add("x")                   # (one answer line: `selftest <what>`)
            us.append(u)
        for u, (hans, hexit) in zs(us, run_harness(ctx, h, us, sanitized=san)):
            w = u.args.split()[1]
            if hexit[0] not in want[w]:
                raise vlib.CheckFailure("self-test of the %s build: provoked `%s`, classified as `%s` (expected %s): the instrumentation does not see it" % (name, w, " ".join(hexit)[:120], "/".join(want[w])))
    return {name: "leak, use-after-free, overflow, unmapped, clean" if san else "unmapped, clean" for name, _, san in harnesses}


def image_specs(ctx):
    if ctx.quick():
        return [("gzip", 8192), ("xz", 8192), ("gzip", 32768)]
    return [("gzip", 8192), ("xz", 8192), ("lz4", 8192), ("zstd", 8192), ("lzma", 8192), ("gzip", 32768), ("gzip", 4096), ("zstd", 131072), ("xz", 16384)]


def run(ctx):
    ok, problems = vlib.proof_gate(ctx, MODULE, REQUIRED)
    if not ok:
        ctx.violation("proof:C19", "proof obligations of C19 no longer check: " + " | ".join(problems)[:1500],
                      {"broken": problems, "theorems_file": "lean/Sqfs/Props/C19.lean"}, found_input=False)
    if ok and not ctx.quick():
        lc_ok, lc_out = ctx.leanchecker(MODULE)
        ctx.cov["leanchecker"] = "ok" if lc_ok else lc_out[-300:]
        if not lc_ok:
            ctx.violation("proof:C19:leanchecker", "leanchecker rejects the compiled proofs of Sqfs.Props.C19: " + lc_out[-600:], {"leanchecker": lc_out}, found_input=False)
    # lib/util/src/mempool.c (default configuration): proofs over Sqfs/Model/MemPool.lean, tied by tools/checks/mempool_units.py
    mok, mproblems = vlib.proof_gate(ctx, MODULE_MEMPOOL, REQUIRED_MEMPOOL)
    if not mok:
        ctx.violation("proof:C19:mempool", "proof obligations about mempool.c no longer check: " + " | ".join(mproblems)[:1500],
                      {"broken": mproblems, "theorems_file": "lean/Sqfs/Props/MemPool.lean"}, found_input=False)
    mempool_cov = mempool_units.run_units(ctx)
    ctx.log("mempool.c: %d scenarios, %d answer lines compared with the model" % (mempool_cov["scenarios"], mempool_cov["answer_lines"]))
    harness, gen = build(ctx)
    hp = build_pool(ctx)
    ctx.cov["instrumentation_selftest"] = selftest(ctx, [("malloc/ASan", harness, True), ("pool/ASan", hp["asan"], True), ("pool/uninstrumented", hp["plain"], False)])
    specs = image_specs(ctx)
    imgs, files = make_images(ctx, gen, specs)
    ikeys = [c if b == 8192 else "%s@%d" % (c, b) for c, b in specs]
    sizes = {"img": os.path.getsize(imgs["gzip"])}
    per_kind = 14 if ctx.quick() else 480
    scs = []
    plan = []
    for c in COMPS:
        plan += [("comp", c)] * max(3, per_kind // 4) + [("comp", c + "!"), ("comp", c + "!2"), ("comp", c + "!u")] * (1 if ctx.quick() else 6)
    for kind in ("idtable", "fragtable", "file", "xwr"):
        plan += [(kind, None)] * per_kind
    plan += [("wfile", None)] * (3 if ctx.quick() else 20) + [("nocopy", None)] * (2 if ctx.quick() else 10)
    for kind in ("meta", "dir", "data", "xattr"):
        for k in ikeys:
            n = max(4, per_kind // len(ikeys))
            # directory readers: with and without the dot-entry cache, deterministically
            plan += [(kind, "%s:%d" % (k, i % 2) if kind == "dir" else k) for i in range(n)]
    # directory readers over the image with the large inode table (references above 2^32 and 2^36), with and without the
    # dot-entry cache
    plan += [("dir", "bigino:%d" % (0 if i % 3 == 2 else 1)) for i in range(9 if ctx.quick() else 240)]
    # ... and copies made of a reader that has not loaded anything yet (empty cache)
    plan += [("dir", "%s:%d:fresh" % (k, f)) for k in ("gzip", "bigino") for f in (1, 1, 0)] * (1 if ctx.quick() else 10)
    plan += [("xattr", "noxattr")] * 3 + [("xattr", "manyx")] * (4 if ctx.quick() else 30) + [("data", "damaged")] * (4 if ctx.quick() else 20)
    for e in CACHE_ENDINGS:
        for k in ikeys:
            plan += [("data", "cache:%s:%s" % (e, k))] * (1 if ctx.quick() else 6)
    plan += [("xwr", "shared")] * (6 if ctx.quick() else 80) + [("xwr", "open")] * (3 if ctx.quick() else 40)
    # corpus first
    cdir = vlib.CORPUS / "C19"
    corpus = []
    if cdir.exists():
        for p in sorted(cdir.glob("*.json")):
            c = json.loads(p.read_text())
            if not c.get("unit"):                          # (unit entries are replay files of unit findings; the unit generators cover them)
                corpus.append(c)
    for i, (kind, var) in enumerate(plan):
        scs.append(gen_scenario(ctx, "s%d" % i, kind, imgs, sizes, var))
    for j, c in enumerate(corpus):
        scs.insert(j, scenario_from_entry(ctx, "c%d" % j, c, imgs))
    ctx.log("%d scenarios (%d corpus), harness built; running" % (len(scs), len(corpus)))
    H = run_histories(ctx, harness, scs, "")
    hres, fscs, allsc, allres, stats, pair_checks, view_checks = H["hres"], H["fscs"], H["allsc"], H["allres"], H["stats"], H["pair_checks"], H["view_checks"]
    fresh_checks = sum(1 for s, hr in zs(scs, hres) for i, l in enumerate(s.lines) if l.startswith("f ") and i < len(hr[0]) and not hr[0][i].startswith(("no-object", "fresh-failed")))
    # operations must have *succeeded* on copies, or equal answers say nothing: per kind, at least one successful answer of
    # the copy after the copy was made
    okpat = {"comp": r"blk [1-9]", "idtable": r"(add|get) 0 ", "fragtable": r"(append|lookup|set) 0", "file": r"read 0 ", "meta": r"read 0 ",
             "dir": r"list 0 [1-9]", "data": r"read [1-9]", "xattr": r"readall 0 [1-9]", "xwr": r"flush 0 "}
    okcount = {k: 0 for k in okpat}
    for s, (hans, _) in zs(scs, hres):
        if s.kind in okpat:
            okcount[s.kind] += sum(1 for l, a in zip(s.lines, hans) if l.startswith("c ") and re.match(okpat[s.kind], a))
    for k, v in okcount.items():
        if v < 5:
            raise vlib.CheckFailure("only %d operations on copied %s objects succeeded in this run: the comparison with the twin says (almost) nothing: %s" % (v, k, okcount))
    # per compressor and mode (compress / uncompress) and per forced configuration: a successful copy that then worked
    comp_modes = {}
    for s, (hans, _) in zs(scs, hres):
        if s.kind == "comp" and any(a.startswith("copy ok") for a in hans) and any(l.startswith("c ") and re.match(r"blk [1-9]", a) for l, a in zip(s.lines, hans)):
            w = s.args.split()
            comp_modes[(w[1], w[2])] = comp_modes.get((w[1], w[2]), 0) + 1
            comp_modes[(w[1], " ".join(w[3:]) or "default")] = comp_modes.get((w[1], " ".join(w[3:]) or "default"), 0) + 1
    for c in COMPS:
        for need in ["c", "u"] + [x.strip() for x in FORCED_CFG[c]] + [FORCED_U[c].strip()]:
            if not comp_modes.get((c, need)):
                raise vlib.CheckFailure("no successful, then working copy of a %s compressor in mode / configuration `%s`: %s" % (c, need, sorted(k for k in comp_modes if k[0] == c)))
    # hook descriptions against everything the probe saw
    dprob, dfacts = check_descriptions(ctx, scs, hres)
    for pr in dprob[:3]:
        ctx.violation("describe:%s" % pr.split(":")[0], "hook description and probe disagree: " + pr, {"problem": pr}, found_input=False)
    # state part of the reader hooks
    floor_problems = []
    cbad, cstat = check_copystate(ctx, scs, hres)
    floor_problems += cstat.pop("floor_problems")
    for s, field, inv, differs in cbad[:3]:
        ctx.violation("copystate:%s" % s.kind, "%s: the state of the real copy is not what %s yields on the real original's state (first difference: %s%s)%s" % (
            s.kind, {"data": "drCopy", "meta": "mrCopy", "dir": "rbCopy (every node byte of the inode cache, resolve_inum of every cached inode)"}[s.kind], field, ("; the original violates the cache invariant: " + inv) if inv else "",
            "; the copy's state differs from the original's" if differs else ""), replay_dict(ctx, s, hres[scs.index(s)]), found_input=differs)
    # directory readers: the copies were asked questions whose answer is a reference that does not fit 32 / 36 bits (counted
    # on the twin that mirrors the copy, so that the floor does not depend on the copy being right)
    hi = {"2^32": 0, "2^36": 0, "dots": 0}
    for s, (hans, _) in zs(scs, hres):
        if s.kind == "dir":
            for l, a in zip(s.lines, hans):
                if l.startswith("t2 ") and re.match(r"(inumof|rel|resolve|inum) 0 \d+$", a):
                    ref = int(a.split()[2])
                    hi["2^32"] += ref >= 1 << 32
                    hi["2^36"] += ref >= 1 << 36
                if l.startswith("t2 dots") and re.match(r"dots 0 2e:\d+:0:\d+ 2e2e:\d+:0:\d+$", a):
                    hi["dots"] += int(a.split()[3].split(":")[1]) >= 1 << 32
    for k, v in hi.items():
        if v == 0:
            floor_problems.append("no copied directory reader was asked for a reference above %s (%s): the upper half of cached references was never observed" % (k, hi))
    # the generic containers under the hooks, as units: every answer predicted
    us = gen_units(ctx)
    ures = run_harness(ctx, harness, us)
    ubad, ustat = check_units(ctx, us, ures)
    for u, hans, hexit, i, what, found in ubad[:3]:
        ctx.violation("unit:%s" % u.kind, "%s (%s): %s [scenario %s]" % ({"rbt": "rbtree_copy", "arr": "array_init_copy", "strt": "str_table_copy"}[u.kind], u.args, what, u.tag),
                      {"scenario": u.text(), "answers": [a[:300] for a in hans[max(0, i - 3):i + 3]], "exit": hexit,
                       "entry": {"unit": True, "kind": u.kind, "args": u.args, "lines": u.lines, "same": [list(p) for p in u.same]}}, found_input=found)
    ustat.pop("mmap_leaks")
    for name in ("answers", "copies", "failed_copies", "spec_pairs", "rbt_padded_value_tail_nonzero"):
        if ustat[name] <= 0:
            floor_problems.append("the unit scenarios evaluated no %s" % name)
    # /repo's default configuration (pool allocator): directory readers, xattr writers and the rbtree units again
    pool_cov, pool_floors, big = run_pool(ctx, hp, scs, us)
    floor_problems += pool_floors
    pool_cov["big_trees_ok"]["malloc"] = check_big_units(ctx, big, run_harness(ctx, harness, big), False, "")
    for k, v in pool_cov["big_trees_ok"].items():
        if v <= 0:
            floor_problems.append("no large tree was copied and verified in the %s build" % k)
    if ustat["rbt_layouts"] < 17 * 25:
        floor_problems.append("rbtree_copy succeeded for %d of the %d key size x value size layouts" % (ustat["rbt_layouts"], 17 * 25))
    # tables: exact answers
    tscs = run_tables(ctx, harness, 30 if ctx.quick() else 1500)
    tres = run_harness(ctx, harness, tscs)
    tbad, ttotal = check_tables(ctx, harness, tscs, tres)
    for s, i, a, b in tbad[:3]:
        ctx.violation("tbl:%s" % s.kind, "%s: answer of `%s` is `%s`, the state-machine model says `%s`" % (s.kind, s.lines[i], a, b),
                      replay_dict(ctx, s, ([a], ["-"])), found_input=False)
    nontrivial = sum(1 for s, hr in zs(allsc, allres) if any(l.startswith("copy ok") or l.startswith("copy NULL") for l in hr[0]))
    copies_ok = sum(1 for s, hr in zs(allsc, allres) if any(l.startswith("copy ok") for l in hr[0]))
    copies_null = sum(1 for s, hr in zs(allsc, allres) if any(l.startswith("copy NULL") for l in hr[0]))
    extra_copies = {"copy of a copy (recopy)": sum(1 for _, hr in zs(scs, hres) for a_ in hr[0] if a_.startswith("recopy ok")),
                    "further copy while original and copy are alive (copydrop)": sum(1 for _, hr in zs(scs, hres) for a_ in hr[0] if a_.startswith("copydrop ok")),
                    "xattr-writer copy inside an open begin/end block": sum(1 for s_, hr in zs(scs, hres) if getattr(s_, "xwr_open", False) and hr[1][0] == "ok" and any(a_.startswith("copy ok") for a_ in hr[0]))}
    refused = {k: sum(1 for s_, hr in zs(scs, hres) if s_.kind == k and hr[1][0] == "ok" and any(l.startswith("copy NULL") for l in hr[0])) for k in ("wfile", "nocopy")}
    # floors: a part that evaluated nothing is a failure of the check, not a pass
    for name, val in list(extra_copies.items()) + [("sqfs_copy of a file opened for writing (hook refuses)", refused["wfile"]), ("sqfs_copy of an object whose copy hook is NULL", refused["nocopy"]), ("table answers", ttotal), ("successful copies", copies_ok), ("failed copies", copies_null), ("twin comparisons", pair_checks),
                      ("view relations", view_checks), ("comparisons with a directory reader without history", fresh_checks)]:
        if val <= 0:
            floor_problems.append("the check evaluated no %s" % name)
    if floor_problems:
        raise vlib.CheckFailure("; ".join(floor_problems)[:1500])
    ctx.cov.update({
        "evaluations": sum(len(s.lines) for s in allsc) + sum(len(s.lines) for s in tscs) + sum(len(u.lines) for u in us) + pool_cov["answer_lines"] + mempool_cov["answer_lines"],
        "mempool_c": mempool_cov,
        "unit_scenarios": len(us), "units": ustat, "default_configuration_pool_allocator": pool_cov, "directory_copies_asked_for_high_references": hi,
        "distinct_nontrivial": nontrivial,
        "rule": "seeded scenarios per kind (5 compressors x {compress with random level/window/flags, uncompress}, id/fragment table, read-only file, "
                "file opened for writing (copy refused), xattr writer, meta/dir/data/xattr reader over images made by the working tree's gensquashfs: %s, "
                "plus an image without xattrs, one with %d xattr ids (two id blocks) and one with a damaged data block): "
                "history of 0-12 operations, copy, 1-12 operations interleaved on original and copy, drops in shuffled order, optionally after the user's own "
                "file/compressor references are gone; state hashes of all four objects after every step; every k-th acquisition inside sqfs_copy fails once "
                "(malloc/calloc/realloc, dup, deflateInit2/inflateInit, ZSTD_createCCtx); directory readers additionally over an image with a >1 MiB inode table, "
                "1-3 directory inodes loaded before the copy (or none), then '.'/'..'/resolve_inum/path resolution from those inodes on copy, original, twins and a fresh reader; "
                "unit scenarios of rbtree (key sizes 1..17 x value sizes 0..24 + 40/4, 1-40 nodes, values with non-zero last byte), array (element sizes 1..24,40,64; 0..1000 elements) "
                "and string table (0..200 strings of 0..40 bytes) with copy, lookups of every key in copy and original, independent inserts afterwards, both release orders, a failing allocation; "
                "non-trivial = scenario that reached sqfs_copy" % (
                    ", ".join("%s/%d" % sp for sp in specs), MANYX),
        "scenarios": len(allsc), "alloc_failure_variants": len(fscs), "twin_comparisons": pair_checks, "fresh_reader_comparisons": fresh_checks, "view_relations_checked": view_checks,
        "copies_ok": copies_ok, "copies_null": copies_null, "successful_operations_on_copies": okcount, "further_copies": extra_copies, "refused_copies": refused,
        "compressor_copies_by_mode_and_configuration": {"%s %s" % k: v for k, v in sorted(comp_modes.items())},
        "table_answers_compared_with_model": ttotal, "copystate": cstat, "descriptions_vs_probe": dfacts,
        "scenarios_per_kind": stats["kinds"], "real_outcomes": stats["outcomes"], "classified": stats["findings"],
        "samples": [{"scenario": s.text()[:600], "exit": hr[1]} for s, hr in list(zs(allsc, allres))[:2] + list(zs(allsc, allres))[-1:]],
        "disagreements_checked": sum(stats["findings"].values()) + len(tbad) + len(cbad) + len(dprob) + len(ubad),
    })
    return ctx.finish(LEVEL, trusted_extra=[
        "the copy hooks are modelled by descriptions (header/buffer/pointer/reference actions, failure path); the probe of harness/h_c19.c re-derives them from fresh copies on every run",
        "genuine heap behaviour (use-after-free, leaks, overflow) is observed through ASan/LSan only; UBSan's nonnull-attribute check is off (memcpy(NULL,NULL,0) in array_init_copy of an empty array)",
        "answers of readers are compared between original/copy and identically driven twins; predicted by a model only for the tables; for the data and meta reader the state part of the hook is a model function compared with the real states",
        "the per-kind state hashes of harness/h_c19.c (which fields and buffers make up the state of an object; container nodes: every byte)",
        "rbtree.c / array.c / str_table.c are modelled by hand (Sqfs/Model/RbTree.lean, C19Units.lean) and tied by the unit scenarios and the directory-cache dumps; the hash table inside str_table_t is not modelled"],
        assumptions=["third-party codecs are deterministic functions of their input and configuration (checked per block by the twin comparison)",
                     "operations of a kind read and write memory only through the object's own fields, buffers and owned sub-objects (observed: state hashes of the other objects, ASan)"])


def replay(ctx, path):
    import random
    body = json.loads(open(path).read())
    if str(body.get("key", "")).startswith("mempool:") or (isinstance(body.get("replay"), dict) and body["replay"].get("mempool")):
        return mempool_units.replay(ctx, body)
    if "replay" not in body and "lines" in body:          # a corpus entry (corpus/C19/*.json) is replayable as it is
        body = {"seed": 0, "replay": {"entry": body, "config": body.get("config", "malloc")}}
    rp = body.get("replay", {})
    if "entry" not in rp:
        print("replay file names a broken obligation, no input to replay:", json.dumps(rp)[:500])
        return 1
    ctx.lean_build(["sqfsmodel"])
    harness, gen = build(ctx)
    pool = rp.get("config") == "pool" or bool(rp["entry"].get("pool"))
    if pool:
        harness = build_pool(ctx)["asan"]       # /repo's default configuration (pool allocator)
    if rp["entry"].get("unit"):
        e = rp["entry"]
        u = Unit("replay", e["kind"], e["args"])
        u.lines, u.same = e["lines"], [tuple(p) for p in e["same"]]
        ures = run_harness(ctx, harness, [u])
        print(u.text()); print("\n".join(ures[0][0])); print("exit", " ".join(ures[0][1]))
        ubad, ust = check_units(ctx, [u], ures, mode="unit-pool" if pool else "unit", pool=pool)
        if ust["mmap_leaks"]:
            print("replay: reproduces -> key=pool:rbt:%s: the pool created by rbtree_copy is leaked when the mmap of its first block fails" % MMAP_LEAK)
            return 1
        if not ubad:
            print("replay: every answer is what the model predicts (no violation)")
            return 0
        print("replay: reproduces -> key=unit:%s: %s" % (u.kind, ubad[0][4][:600]))
        return 1
    ctx.rng = random.Random("%s/%d" % (ctx.prop, int(body.get("seed", 0))))     # same images as the run that found it
    imgs, _ = make_images(ctx, gen, [("gzip", 8192), ("xz", 8192), ("lz4", 8192), ("zstd", 8192), ("lzma", 8192), ("gzip", 32768), ("gzip", 4096), ("zstd", 131072), ("xz", 16384)])
    s = scenario_from_entry(ctx, "replay", rp["entry"], imgs)
    res, var = evaluate(ctx, harness, [s])
    print(s.text())
    print("\n".join(res[0][0]))
    print("exit", " ".join(res[0][1]))
    if pool and mmap_leak_only(s, res[0]):
        print("replay: reproduces -> key=pool:%s:%s: the pool created by rbtree_copy is leaked when the mmap of its first block fails" % (s.kind, MMAP_LEAK))
        return 1
    v = judge(ctx, s, res[0], var[0], {"outcomes": {}})
    if v is None:
        print("replay: the scenario now behaves as the model of the repaired hooks predicts (no violation)")
        return 0
    print("replay: reproduces -> key=%s: %s" % (v[0], v[1][:600]))
    return 1
