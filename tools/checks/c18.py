"""
C18 — path canonicalisation.  Proof: Sqfs/Props/C18.lean (functional model = component-level specification, for
all strings; in-place memory model = functional model, for all NUL-free strings and any bytes behind them).
Tie (unit): the real canonicalize_name.c / filename_sane.c from the working tree, under ASan+UBSan, on the same
script as the native model driver: exhaustive over {'/', '.', 'a', 0xC3} up to length 8 (quick) / 10 (thorough)
plus random long strings; per input the result, the sanity verdict and the *whole array* after the call
(`canonmem`, compared with the in-place model byte for byte); the property's clauses are evaluated on the
implementation's own answers.
Tie (funnel): every call of the two functions found in the clang AST (checks/c18_ast.py) is driven through its
tool or library entry with inputs from the model's reject and accept sets (checks/c18_funnel.py).
"""
import collections, itertools, json, os, subprocess
import vlib
from checks import c18_ast, c18_funnel

LEVEL = "proof"
MODULE = "Sqfs.Props.C18"
REQUIRED = ["Sqfs.C18.canon_eq_spec", "Sqfs.C18.canon_fails_iff_dotdot", "Sqfs.C18.canon_same_entry_and_clean",
            "Sqfs.C18.canon_length_le", "Sqfs.C18.canon_idempotent", "Sqfs.C18.sane_iff",
            "Sqfs.C18.norm_dst_le_src", "Sqfs.C18.canon_dst_le_src",
            "Sqfs.C18.canon_inplace_memory", "Sqfs.C18.norm_inplace_memory", "Sqfs.C18.canon_inplace_eq_model",
            "Sqfs.C18.canon_no_stray_slash", "Sqfs.C18.canon_components_sane", "Sqfs.C18.sane_name_is_fixed",
            "Sqfs.C18.canon_fixed_iff_clean", "Sqfs.C18.canon_sublist", "Sqfs.C18.canon_components_sublist"]
ALPHA = [0x2f, 0x2e, 0x61, 0xc3]
TRUSTED = ["C strings are modelled as their bytes before the NUL; the in-place rewriting is modelled twice: functionally (read original / emit output) and as C statements over one byte array (Model/C18InPlace.lean); canon_inplace_memory proves the two equal, and the whole array after the call is compared with the real code on every run",
           "modelled: lib/util/src/canonicalize_name.c, lib/util/src/filename_sane.c (POSIX branch); the call sites that funnel names through them are enumerated from the clang AST and probed behaviourally, not proved",
           "funnel probes: clang 14 AST dump; tools/sqfs_forge.py (hostile images); tools/checks/c18_sqfsls.py (independent read-back of stored names)"]
ASSUMPTIONS = []


def tok(b):
    return b.hex() if b else "-"


def untok(t):
    return b"" if t == "-" else bytes.fromhex(t)


# ---- independent monitor of the property's clauses, evaluated on the *implementation's* answers -------------
def comps(s):
    return s.split(b"/")


def clause_failures(s, res, res2):
    """res: None (fail) or bytes; res2: result of canonicalising res again (or 'n/a')"""
    bad = []
    has_dd = b".." in comps(s)
    if (res is None) != has_dd:
        bad.append("fails-iff-dotdot")
        return bad
    if res is None:
        return bad
    want = [c for c in comps(s) if c not in (b"", b".")]
    if res != b"":
        rc = comps(res)
        if any(c in (b"", b".", b"..") for c in rc):
            bad.append("clean")
        if rc != want:
            bad.append("same-entry")
    elif want:
        bad.append("same-entry")
    if len(res) > len(s):
        bad.append("never-grows")
    if res2 != "n/a" and res2 != res:
        bad.append("idempotent")
    return bad


# bytes placed behind the string's terminator for the `canonmem` op (whole array compared with the in-place model)
TAILS = [b"", b"\xa5", b"/..", b"\x00./", b"a/\x00b", b"\xff" * 8]
K = 4        # script lines per input: canon, sane, canonmem, norm


def memory_clause_failures(s, tail, res, line):
    """canon_inplace_memory evaluated on the implementation's own array: result, terminator, then (after whatever
    is left of the old contents) the bytes behind the old terminator untouched; array length unchanged"""
    if res is None:
        return [] if line == "fail" else ["memory:fail-mismatch"]
    if not line.startswith("ok "):
        return ["memory:protocol"]
    mem = untok(line[3:])
    bad = []
    if len(mem) != len(s) + 1 + len(tail):
        bad.append("memory:length")
    if mem[:len(res)] != res or mem[len(res):len(res) + 1] != b"\0":
        bad.append("memory:result-and-terminator")
    if mem[len(s) + 1:] != tail:
        bad.append("memory:bytes-behind-terminator")
    return bad


def norm_clause_failures(s, tail, line):
    """normalize_slashes alone: no leading, trailing or repeated slash, every other byte kept in order; bytes behind
    the old terminator untouched"""
    if not line.startswith("ok "):
        return ["norm:protocol"]
    mem = untok(line[3:])
    want = b"/".join(c for c in s.split(b"/") if c)
    bad = []
    if len(mem) != len(s) + 1 + len(tail) or mem[len(s) + 1:] != tail:
        bad.append("norm:bytes-behind-terminator")
    if mem[:len(want)] != want or mem[len(want):len(want) + 1] != b"\0":
        bad.append("norm:result")
    return bad


def sane_spec(n):
    return n not in (b".", b"..") and b"/" not in n


def parse_canon(line):
    if line == "fail":
        return None
    if line.startswith("ok "):
        return untok(line[3:])
    return "ERR:" + line


def gen_inputs(ctx):
    maxlen = 8 if ctx.quick() else 10
    inputs = []
    cdir = vlib.CORPUS / "C18"
    if cdir.exists():
        for p in sorted(cdir.glob("*.hex")):
            for l in p.read_text().split():
                inputs.append(untok(l))
    ncorpus = len(inputs)
    for n in range(0, maxlen + 1):
        for t in itertools.product(ALPHA, repeat=n):
            inputs.append(bytes(t))
    nexh = len(inputs) - ncorpus
    nrand = 3000 if ctx.quick() else 40000
    pool = [b"/", b"//", b".", b"..", b"./", b"../", b"/.", b"/..", b"...", b"a", b"bc", b"\xc3\xa4", b" ", b"..a", b".a", b"a.", b"a.."]
    for _ in range(nrand):
        if ctx.rng.random() < 0.5:
            k = ctx.rng.randint(1, 40)
            s = b"".join(ctx.rng.choice(pool) for _ in range(k))
        else:
            k = ctx.rng.randint(1, 4096 if ctx.rng.random() < 0.05 else 64)
            s = bytes(ctx.rng.choice([0x2f, 0x2e, 0x2e, 0x2f, ctx.rng.randint(1, 255)]) for _ in range(k))
        inputs.append(s)
    return inputs, ncorpus, nexh, nrand


def run_pair(ctx, harness, lines):
    """the real code and the model on the same script.  Returns (impl lines, model lines, crash) where crash is
    (lines answered, exit status, stderr tail) when the real code did not answer every line.  The model driver must
    answer every line (anything else is a failure of the check's own machinery)."""
    text = "\n".join(lines) + "\n"
    r = vlib.sh([str(harness)], input=text, env=ctx.san_env(), timeout=3600)
    impl = r.stdout.splitlines()
    if r.returncode != 0 or len(impl) != len(lines):
        return impl, None, (len(impl), r.returncode, r.stderr[-3000:])
    model = ctx.driver(["c18"], text, timeout=3600)
    if len(model) != len(lines):
        raise vlib.CheckFailure("C18: model driver answered %d of %d lines" % (len(model), len(lines)))
    bad = [l for l in model if l == "bad-op"]
    if bad:
        raise vlib.CheckFailure("C18: model driver could not parse %d generated line(s)" % len(bad))
    return impl, model, None


def unit_correspondence(ctx):
    """canonicalize_name.c / filename_sane.c of the working tree against the Lean model, and the property's clauses
    evaluated on the implementation's own answers.  Returns a dict for the evidence."""
    harness = ctx.cc("h_c18", ["h_c18.c", "lib/util/src/filename_sane.c"])
    inputs, ncorpus, nexh, nrand = gen_inputs(ctx)
    if nexh < 4 ** 8 or nrand <= 0:
        raise vlib.CheckFailure("C18: generator produced %d exhaustive and %d random inputs" % (nexh, nrand))
    lines = []
    for i, s in enumerate(inputs):
        lines.append("canon " + tok(s))
        lines.append("sane " + tok(s))
        lines.append("canonmem %s %s" % (tok(s), tok(TAILS[i % len(TAILS)])))
        lines.append("norm %s %s" % (tok(s), tok(TAILS[(i + 1) % len(TAILS)])))
    impl, model, crash = run_pair(ctx, harness, lines)
    if crash:
        k, rc, err = crash
        ctx.violation("crash:" + lines[min(k, len(lines) - 1)], "real code aborted (rc=%d) on input line %d: %s" % (rc, k, err[-400:]),
                      {"line": lines[min(k, len(lines) - 1)], "input_hex": lines[min(k, len(lines) - 1)].split()[1], "stderr": err})
        return None
    # second pass for idempotence on the implementation's own outputs
    results = [parse_canon(impl[K * i]) for i in range(len(inputs))]
    uniq_out = sorted({r for r in results if isinstance(r, bytes)})
    if not uniq_out:
        raise vlib.CheckFailure("C18: the implementation accepted none of %d inputs - the idempotence pass would be empty" % len(inputs))
    lines2 = ["canon " + tok(r) for r in uniq_out]
    impl2, model2, crash2 = run_pair(ctx, harness, lines2)
    if crash2:
        k, rc, err = crash2
        ctx.violation("crash:" + lines2[min(k, len(lines2) - 1)], "real code aborted (rc=%d) when canonicalising its own output, line %d: %s" % (rc, k, err[-400:]),
                      {"line": lines2[min(k, len(lines2) - 1)], "input_hex": lines2[min(k, len(lines2) - 1)].split()[1], "stderr": err})
        return None
    if len(impl2) != len(uniq_out) or len(model2) != len(uniq_out):
        raise vlib.CheckFailure("C18: idempotence pass answered %d/%d of %d lines" % (len(impl2), len(model2), len(uniq_out)))
    again = {r: parse_canon(l) for r, l in zip(uniq_out, impl2)}
    mism, nontrivial, clause_bad, proto_bad = 0, set(), 0, 0
    for i, s in enumerate(inputs):
        res = results[i]
        if isinstance(res, str):
            proto_bad += 1
            if proto_bad <= 5:
                ctx.violation("protocol:" + tok(s), "harness answered %r" % res, {"input_hex": tok(s)})
            continue
        if res is not None and res not in again:
            raise vlib.CheckFailure("C18: no second-pass answer for %r" % res)
        res2 = again[res] if res is not None else "n/a"
        bad = clause_failures(s, res, res2)
        sane_impl = impl[K * i + 1]
        if sane_impl not in ("0", "1") or (sane_impl == "1") != sane_spec(s):
            bad.append("sane-iff")
        bad += memory_clause_failures(s, TAILS[i % len(TAILS)], res, impl[K * i + 2])
        bad += norm_clause_failures(s, TAILS[(i + 1) % len(TAILS)], impl[K * i + 3])
        diff = any(impl[K * i + j] != model[K * i + j] for j in range(K))
        if res is None or res != s:
            nontrivial.add(s)
        if bad:
            clause_bad += 1
            if clause_bad <= 5:
                ctx.violation("input:" + tok(s), "canonicalize_name/is_filename_sane violate clause(s) %s on input %r: impl=%s model=%s" % (
                    bad, s, impl[K * i], model[K * i]), {"input_hex": tok(s), "impl": impl[K * i:K * i + K],
                                                        "model": model[K * i:K * i + K], "clauses": bad})
        elif diff:
            mism += 1
            if mism <= 5:
                # cannot happen while canon_eq_spec holds (model = spec and impl meets every clause => impl = spec)
                ctx.violation("corr:" + tok(s), "correspondence broke on %r (impl=%s model=%s) but no clause fails" % (s, impl[K * i:K * i + K], model[K * i:K * i + K]),
                              {"input_hex": tok(s), "correspondence": "harness/h_c18.c vs Driver/C18.lean"}, found_input=False)
    for r, a, b in zip(uniq_out, impl2, model2):
        if a != b:
            mism += 1
            if mism <= 5:
                ctx.violation("corr:" + tok(r), "correspondence broke on %r (impl=%s model=%s), second pass" % (r, a, b),
                              {"input_hex": tok(r), "correspondence": "harness/h_c18.c vs Driver/C18.lean"}, found_input=False)
    return {"evaluations": len(lines) + len(lines2), "nontrivial": len(nontrivial), "nexh": nexh, "ncorpus": ncorpus, "nrand": nrand,
            "mism": mism, "clause_bad": clause_bad + proto_bad, "second_pass": len(lines2),
            "samples": [{"input": repr(inputs[i]), "impl": impl[K * i], "model": model[K * i], "impl_memory": impl[K * i + 2][:80]} for i in
                        [ncorpus + 7, ncorpus + 333, ncorpus + 4242, len(inputs) - 1] if i < len(inputs)]}


def funnel(ctx):
    """the funnel clause: AST enumeration of every call site + a behavioural probe per site (checks/c18_funnel.py)"""
    sites, info = c18_ast.enumerate_callsites(ctx)
    calls = [s for s in sites if s.file not in c18_funnel.DEFINING_FILES]
    if len(calls) < 10:
        raise vlib.CheckFailure("C18 funnel: the AST enumeration found only %d call sites" % len(calls))
    unprobed = [s for s in calls if s.key not in c18_funnel.COVER or s.kind != "call"]
    if unprobed:
        raise vlib.CheckFailure("C18 funnel: call site(s) without a probe (extend COVER in tools/checks/c18_funnel.py): " +
                                ", ".join("%s line %s (%s)" % (s.key, s.line, s.kind) for s in unprobed))
    noshape = [s.key for s in calls if s.key not in c18_funnel.SHAPES]
    if noshape or set(c18_funnel.SHAPES) != set(c18_funnel.COVER):
        raise vlib.CheckFailure("C18 funnel: SHAPES and COVER in tools/checks/c18_funnel.py do not list the same call sites (%s)" %
                                ", ".join(noshape or sorted(set(c18_funnel.SHAPES) ^ set(c18_funnel.COVER))))
    shape_diff = {s.key: (c18_funnel.SHAPES[s.key], s.shape, s.line) for s in calls if s.shape != c18_funnel.SHAPES[s.key]}
    for k, (want, got, line) in sorted(shape_diff.items()):
        ctx.violation("funnel-shape:" + k,
                      "the result of the call %s (line %s) is used as %r in the working tree, expected %r: how a refusal is "
                      "recognised there has changed (probes of that site: %s)" % (k, line, got, want, ", ".join(c18_funnel.COVER[k][0])),
                      {"correspondence": "clang AST use shape (tools/checks/c18_ast.py) vs SHAPES (tools/checks/c18_funnel.py)",
                       "site": k, "expected_shape": want, "observed_shape": got}, found_input=False)
    F = c18_funnel.Funnel(ctx)
    evals = F.run_all()
    # every probe named in COVER must have evaluated something of each kind it is meant to show
    for key, (probes, cls) in c18_funnel.COVER.items():
        for pr in probes:
            need = ["accept"] if cls == "B" else ["accept", "reject"]
            for kind in need:
                if F.counts[(pr, kind)] == 0:
                    raise vlib.CheckFailure("C18 funnel: probe %s (site %s) made no %s evaluation" % (pr, key, kind))
    shown = collections.Counter()
    # failed evaluations in a fixed order (probes finish in scheduling order): which three of a probe are reported,
    # and therefore which known-finding keys are printed, must not depend on thread timing
    for e in sorted((e for e in evals if not e.ok), key=lambda e: (e.probe, e.kind, repr(e.inp))):
        shown[e.probe] += 1
        if shown[e.probe] > 3:
            continue
        hx = tok(e.inp) if isinstance(e.inp, bytes) else "-"
        ctx.violation("funnel:%s:%s" % (e.probe, hx),
                      "funnel probe %s (%s input %r): expected %r, the working tree gave %r  [%s]" % (e.probe, e.kind, e.inp, e.expected, e.observed, e.detail[-200:]),
                      {"probe": e.probe, "kind": e.kind, "input_hex": hx, "expected": repr(e.expected), "observed": repr(e.observed)})
    found = {s.key for s in calls}
    missing = [k for k in c18_funnel.COVER if k not in found]
    for k in missing:
        ctx.violation("funnel-callsite:" + k,
                      "the call %s is no longer in the AST of the working tree: names reaching that place are not shown to pass through "
                      "canonicalize_name/is_filename_sane any more (probes of that site: %s)" % (k, ", ".join(c18_funnel.COVER[k][0])),
                      {"correspondence": "clang AST call-site enumeration (tools/checks/c18_ast.py) vs COVER (tools/checks/c18_funnel.py)", "missing": k},
                      found_input=False)
    return {"callsites": [s.as_dict() for s in calls], "sources_scanned": info["sources_scanned"], "files_mentioning": info["files_mentioning"],
            "callsites_missing": missing, "shape_differences": {k: {"expected": v[0], "observed": v[1]} for k, v in shape_diff.items()},
            "tool_runs": F.runs, "evaluations": sum(F.counts.values()),
            "evaluations_by_probe": {"%s/%s" % k: v for k, v in sorted(F.counts.items())},
            "failed_by_probe": dict(F.failed), "repo_fixture": F.fixture_note,
            "site_to_probes": {k: {"probes": v[0], "class": v[1]} for k, v in c18_funnel.COVER.items()},
            "samples": [e.as_dict() for e in evals[:12]]}


def run(ctx):
    ok, problems = vlib.proof_gate(ctx, MODULE, REQUIRED)
    if not ok:
        ctx.violation("proof:C18", "proof obligations of C18 no longer check: " + " | ".join(problems)[:1500],
                      {"broken": problems, "theorems_file": "lean/Sqfs/Props/C18.lean"}, found_input=False)
    unit = unit_correspondence(ctx)
    fun = funnel(ctx)
    if unit is not None:
        ctx.cov.update({
            "evaluations": unit["evaluations"] + fun["evaluations"],
            "distinct_nontrivial": unit["nontrivial"],
            "rule": "unit: every string over {'/','.','a',0xC3} up to length %d (exhaustive: %d), %d corpus, %d seeded random strings up to 4 KiB; "
                    "each through canonicalize_name and is_filename_sane of the working tree (ASan+UBSan) and the Lean model; "
                    "non-trivial = distinct input that is refused or rewritten (output differs from input).  funnel: every call site "
                    "found in the clang AST is driven through its tool/library entry with '..' in every position (plain and decorated), "
                    "decorated clean paths and near misses; accept/reject and the stored name compared with the model" % (
                        8 if ctx.quick() else 10, unit["nexh"], unit["ncorpus"], unit["nrand"]),
            "exhaustive": True,
            "samples": unit["samples"],
            "disagreements_checked": unit["mism"] + unit["clause_bad"],
            "idempotence_second_pass_inputs": unit["second_pass"],
        })
    ctx.cov["funnel"] = fun
    return ctx.finish(LEVEL, trusted_extra=TRUSTED, assumptions=ASSUMPTIONS)


def replay(ctx, path):
    body = json.loads(open(path).read())
    rp = body.get("replay", {})
    if "input_hex" not in rp:
        print("replay file names a broken obligation, no input to replay:", json.dumps(rp)[:500])
        return 1
    ok, _ = ctx.lean_build(["sqfsmodel"])
    if "probe" in rp:
        F = c18_funnel.Funnel(ctx)
        evs = F.replay(rp["probe"], rp.get("kind", "accept"), untok(rp["input_hex"]))
        bad = [e for e in evs if not e.ok]
        for e in evs:
            print("%s %s input=%r expected=%r observed=%r ok=%s" % (e.probe, e.kind, e.inp, e.expected, e.observed, e.ok))
        return 1 if bad or not evs else 0
    harness = ctx.cc("h_c18", ["h_c18.c", "lib/util/src/filename_sane.c"])
    lines = ["canon " + rp["input_hex"], "sane " + rp["input_hex"]] + ["canonmem %s %s" % (rp["input_hex"], tok(t)) for t in TAILS]
    impl, model, crash = run_pair(ctx, harness, lines)
    print("input :", untok(rp["input_hex"]))
    print("impl  :", impl, "crash:", crash)
    print("model :", model)
    s = untok(rp["input_hex"])
    res = parse_canon(impl[0]) if impl else "ERR"
    bad = clause_failures(s, res, "n/a") if not isinstance(res, str) else ["crash"]
    if len(impl) > 1 and ((impl[1] == "1") != sane_spec(s)):
        bad.append("sane-iff")
    if not isinstance(res, str):
        for j, t in enumerate(TAILS):
            if len(impl) > 2 + j:
                bad += memory_clause_failures(s, t, res, impl[2 + j])
    differ = bool(impl and model and impl != model)
    print("clauses violated:", bad, "| model and code differ:", differ)
    return 1 if bad or crash or differ else 0
