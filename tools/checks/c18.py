"""
C18 — path canonicalisation.  Proof: Sqfs/Props/C18.lean (model = component-level specification, for all
strings).  Tie: the real canonicalize_name.c / filename_sane.c from the working tree, under ASan+UBSan, on the
same inputs as the native model driver: exhaustive over {'/', '.', 'a', 0xC3} up to length 8 (quick) / 10
(thorough) plus random long strings; plus tool-level funnel probes.
"""
import itertools, json, os, subprocess
import vlib

LEVEL = "proof"
MODULE = "Sqfs.Props.C18"
REQUIRED = ["Sqfs.C18.canon_eq_spec", "Sqfs.C18.canon_fails_iff_dotdot", "Sqfs.C18.canon_same_entry_and_clean",
            "Sqfs.C18.canon_length_le", "Sqfs.C18.canon_idempotent", "Sqfs.C18.sane_iff",
            "Sqfs.C18.norm_dst_le_src", "Sqfs.C18.canon_dst_le_src"]
ALPHA = [0x2f, 0x2e, 0x61, 0xc3]


def tok(b):
    return b.hex() if b else "-"


def untok(t):
    return b"" if t == "-" else bytes.fromhex(t)


# ---- independent monitor of the property's clauses, evaluated on the *implementation's* answers -------------
def comps(s):
    return s.split(b"/")


def clause_failures(s, res, res2):
    """res: None (fail) or bytes; res2: result of canonicalising res again (or 'n/a')"""
    bad = []
    has_dd = b".." in comps(s)
    if (res is None) != has_dd:
        bad.append("fails-iff-dotdot")
        return bad
    if res is None:
        return bad
    want = [c for c in comps(s) if c not in (b"", b".")]
    if res != b"":
        rc = comps(res)
        if any(c in (b"", b".", b"..") for c in rc):
            bad.append("clean")
        if rc != want:
            bad.append("same-entry")
    elif want:
        bad.append("same-entry")
    if len(res) > len(s):
        bad.append("never-grows")
    if res2 != "n/a" and res2 != res:
        bad.append("idempotent")
    return bad


def sane_spec(n):
    return n not in (b".", b"..") and b"/" not in n


def parse_canon(line):
    if line == "fail":
        return None
    if line.startswith("ok "):
        return untok(line[3:])
    return "ERR:" + line


def gen_inputs(ctx):
    maxlen = 8 if ctx.quick() else 10
    inputs = []
    cdir = vlib.CORPUS / "C18"
    if cdir.exists():
        for p in sorted(cdir.glob("*.hex")):
            for l in p.read_text().split():
                inputs.append(untok(l))
    ncorpus = len(inputs)
    for n in range(0, maxlen + 1):
        for t in itertools.product(ALPHA, repeat=n):
            inputs.append(bytes(t))
    nexh = len(inputs) - ncorpus
    nrand = 3000 if ctx.quick() else 40000
    pool = [b"/", b"//", b".", b"..", b"./", b"../", b"/.", b"/..", b"...", b"a", b"bc", b"\xc3\xa4", b" ", b"..a", b".a", b"a.", b"a.."]
    for _ in range(nrand):
        if ctx.rng.random() < 0.5:
            k = ctx.rng.randint(1, 40)
            s = b"".join(ctx.rng.choice(pool) for _ in range(k))
        else:
            k = ctx.rng.randint(1, 4096 if ctx.rng.random() < 0.05 else 64)
            s = bytes(ctx.rng.choice([0x2f, 0x2e, 0x2e, 0x2f, ctx.rng.randint(1, 255)]) for _ in range(k))
        inputs.append(s)
    return inputs, ncorpus, nexh, nrand


def run_pair(ctx, harness, lines):
    text = "\n".join(lines) + "\n"
    r = vlib.sh([str(harness)], input=text, env=ctx.san_env(), timeout=1200)
    impl = r.stdout.splitlines()
    if r.returncode != 0 or len(impl) != len(lines):
        # sanitizer abort or crash: locate the offending line by bisection of the prefix that produced output
        k = len(impl)
        return impl, None, (k, r.returncode, r.stderr[-3000:])
    model = ctx.driver(["c18"], text)
    return impl, model, None


# expected number of textual call sites per file on the pinned tree (used to *aim* the search; a missing call is
# reported only together with a behavioural witness, or as no-failing-input-found)
CALLSITES = {
    "lib/fstree/src/fstree.c": ("canonicalize_name", 1),
    "lib/tar/src/iterator.c": ("canonicalize_name", 1),
    "bin/sqfs2tar/src/options.c": ("canonicalize_name", 2),
    "bin/gensquashfs/src/sort_by_file.c": ("canonicalize_name", 2),
    "bin/gensquashfs/src/apply_xattr.c": ("canonicalize_name", 1),
    "bin/gensquashfs/src/mkfs.c": ("canonicalize_name", 1),
    "bin/gensquashfs/src/filemap_xattr.c": ("canonicalize_name", 1),
    "bin/gensquashfs/src/glob.c": ("canonicalize_name", 1),
    "bin/gensquashfs/src/fstree_from_file.c": ("canonicalize_name", 1),
    "bin/tar2sqfs/src/options.c": ("canonicalize_name", 2),
    "bin/tar2sqfs/src/process_tarball.c": ("canonicalize_name", 1),
    "bin/rdsquashfs/src/options.c": ("canonicalize_name", 1),
    "bin/rdsquashfs/src/fill_files.c": ("canonicalize_name|is_filename_sane", 2),
    "bin/rdsquashfs/src/restore_fstree.c": ("canonicalize_name|is_filename_sane", 4),
    "bin/rdsquashfs/src/describe.c": ("canonicalize_name|is_filename_sane", 2),
    "bin/sqfsdiff/src/util.c": ("canonicalize_name", 1),
}


def callsite_scan(ctx):
    import re
    missing = []
    for f, (pat, want) in CALLSITES.items():
        p = vlib.REPO / f
        n = len(re.findall(r"\b(?:%s)\s*\(" % pat, p.read_text(errors="replace"))) if p.exists() else 0
        if n < want:
            missing.append({"file": f, "calls": pat, "found": n, "expected": want})
    return missing


def mktar(path, members):
    """members: list of (name, type, linkname, data)"""
    import tarfile, io
    with tarfile.open(path, "w", format=tarfile.GNU_FORMAT) as tf:
        for name, typ, link, data in members:
            ti = tarfile.TarInfo(name)
            ti.type = typ
            ti.linkname = link or ""
            ti.size = len(data) if typ == tarfile.REGTYPE else 0
            ti.mode = 0o755 if typ == tarfile.DIRTYPE else 0o644
            tf.addfile(ti, io.BytesIO(data) if typ == tarfile.REGTYPE else None)


def tool_probes(ctx):
    """Funnel clause, behaviourally: every anchored entry point of a name/path into the tools either refuses a
    '..' component or stores/uses the canonical form.  Returns [(name, ok, detail)]."""
    import tarfile, shutil
    res = []
    gen = ctx.build_tool("gensquashfs")
    t2s = ctx.build_tool("tar2sqfs")
    rd = ctx.build_tool("rdsquashfs")
    s2t = ctx.build_tool("sqfs2tar")
    d = ctx.scratch / "probe"
    d.mkdir(exist_ok=True)
    env = ctx.san_env()

    def run(cmd, stdin=None, cwd=None):
        try:
            if stdin is not None:
                with open(stdin, "rb") as f:
                    return vlib.sh([str(c) for c in cmd], stdin=f, env=env, timeout=60, cwd=cwd)
            return vlib.sh([str(c) for c in cmd], env=env, timeout=60, cwd=cwd)
        except Exception as e:       # timeout
            class R: returncode = 124; stdout = ""; stderr = "timeout: %s" % e
            return R()

    def refused(r):
        return r.returncode != 0 and r.returncode < 90

    def listing(img):
        r = run([rd, "-d", img])
        return r.returncode, r.stdout

    def add(name, ok, r):
        res.append((name, bool(ok), "exit %s %s" % (r.returncode, (r.stderr or "")[-200:].replace("\n", " | "))))

    # a well-formed reference image: dir a, dir a/b, file a/b/f
    (d / "f.bin").write_bytes(b"hello")
    (d / "ref.txt").write_text("dir a 0755 0 0\ndir a/b 0755 0 0\nfile a/b/f 0644 0 0 %s\n" % (d / "f.bin"))
    r = run([gen, "-F", d / "ref.txt", "-f", d / "ref.sqfs"])
    add("reference image builds", r.returncode == 0, r)
    # --- gensquashfs pack file (fstree_from_file.c) ---
    for bad in ["a/../b", "..", "a/..", "../a", "a/b/../../c"]:
        (d / "bad.txt").write_text("dir a 0755 0 0\ndir %s 0755 0 0\n" % bad)
        r = run([gen, "-F", d / "bad.txt", "-f", d / "o1.sqfs"])
        add("gensquashfs pack-file dir '%s' refused" % bad, refused(r), r)
    (d / "ok.txt").write_text("dir /a//./b/ 0755 0 0\ndir ./c/. 0755 0 0\n")
    r = run([gen, "-F", d / "ok.txt", "-f", d / "o2.sqfs"])
    rc, ls = listing(d / "o2.sqfs")
    add("gensquashfs canonicalises '/a//./b/' and './c/.'", r.returncode == 0 and rc == 0 and "dir a/b " in ls and "dir c " in ls and "." not in [w for l in ls.splitlines() for w in l.split()[1:2]], r)
    # --- glob prefix (glob.c) ---
    (d / "srcdir").mkdir(exist_ok=True)
    (d / "srcdir" / "x").write_bytes(b"1")
    (d / "glob.txt").write_text("glob p/../q 0644 0 0 -type f -- %s\n" % (d / "srcdir"))
    r = run([gen, "-F", d / "glob.txt", "-f", d / "o3.sqfs"])
    okp = refused(r)
    if r.returncode == 0:
        rc, ls = listing(d / "o3.sqfs")
        okp = ".." not in ls
    add("gensquashfs glob prefix 'p/../q' refused", okp, r)
    # --- sort file (sort_by_file.c) and xattr file (filemap_xattr.c) ---
    (d / "sort.txt").write_text("10 a/../a/b/f\n")
    r = run([gen, "-F", d / "ref.txt", "-S", d / "sort.txt", "-f", d / "o4.sqfs"])
    add("gensquashfs sort-file path 'a/../a/b/f' refused", refused(r), r)
    (d / "sort2.txt").write_text("10 /a//b/./f\n")
    r = run([gen, "-F", d / "ref.txt", "-S", d / "sort2.txt", "-f", d / "o4.sqfs"])
    add("gensquashfs sort-file path '/a//b/./f' accepted", r.returncode == 0, r)
    (d / "xa.txt").write_text("# file: a/../a/b/f\nuser.k=\"v\"\n")
    r = run([gen, "-F", d / "ref.txt", "-A", d / "xa.txt", "-f", d / "o5.sqfs"])
    add("gensquashfs xattr-file path 'a/../a/b/f' refused", refused(r), r)
    # --- tar member names and link targets (tar/iterator.c, process_tarball.c, fstree.c) ---
    for bad in ["a/../b", "../x", "a/.."]:
        mktar(d / "t.tar", [("a", tarfile.DIRTYPE, None, b""), (bad, tarfile.REGTYPE, None, b"xyz")])
        r = run([t2s, "-f", d / "o6.sqfs"], stdin=d / "t.tar")
        okp = refused(r)
        if r.returncode == 0:
            rc, ls = listing(d / "o6.sqfs")
            okp = rc == 0 and ".." not in ls
        add("tar2sqfs member '%s' refused or skipped" % bad, okp, r)
    mktar(d / "t2.tar", [("/x//./y/", tarfile.DIRTYPE, None, b""), ("./x/y/./z", tarfile.REGTYPE, None, b"q")])
    r = run([t2s, "-f", d / "o7.sqfs"], stdin=d / "t2.tar")
    rc, ls = listing(d / "o7.sqfs")
    add("tar2sqfs canonicalises '/x//./y/' and './x/y/./z'", r.returncode == 0 and rc == 0 and "dir x/y " in ls and "file x/y/z " in ls, r)
    mktar(d / "t3.tar", [("d", tarfile.DIRTYPE, None, b""), ("d/f", tarfile.REGTYPE, None, b"data"),
                          ("l", tarfile.LNKTYPE, "d/../d/f", b"")])
    r = run([t2s, "-f", d / "o8.sqfs"], stdin=d / "t3.tar")
    add("tar2sqfs hard link target 'd/../d/f' refused", refused(r), r)
    for opt in ["x/../y", ".."]:
        r = run([t2s, "-r", opt, "-f", d / "o9.sqfs"], stdin=d / "t2.tar")
        add("tar2sqfs --root-becomes '%s' refused" % opt, refused(r), r)
    # --- rdsquashfs / sqfs2tar command line paths ---
    for bad in ["a/../..", "..", "a/b/../../.."]:
        r = run([rd, "-l", bad, d / "ref.sqfs"])
        add("rdsquashfs -l '%s' refused" % bad, refused(r), r)
    r = run([rd, "-l", "//a/./b/", d / "ref.sqfs"])
    add("rdsquashfs -l '//a/./b/' lists a/b", r.returncode == 0 and " f" in r.stdout, r)
    r = run([s2t, "-r", "p/../q", d / "ref.sqfs"])
    add("sqfs2tar --root-becomes 'p/../q' refused", refused(r), r)
    r = run([s2t, "-d", "a/../a", d / "ref.sqfs"])
    add("sqfs2tar --subdir 'a/../a' refused", refused(r), r)
    # --- names inside a hostile image (restore_fstree.c, fill_files.c, describe.c: is_filename_sane) ---
    hostile = vlib.REPO / "bin" / "rdsquashfs" / "test" / "pathtraversal.sqfs"
    if hostile.exists():
        jail = d / "jail"
        shutil.rmtree(jail, ignore_errors=True)
        (jail / "R").mkdir(parents=True)
        before = sorted(str(p.relative_to(jail)) for p in jail.rglob("*"))
        r = run([rd, "-u", "/", "-p", jail / "R", hostile])
        after = sorted(str(p.relative_to(jail)) for p in jail.rglob("*") if not str(p.relative_to(jail)).startswith("R/"))
        add("rdsquashfs -u of pathtraversal.sqfs creates nothing outside R", after == before and not os.path.exists("/tmp/gotcha.txt") and r.returncode < 90, r)
        r = run([rd, "-d", hostile])
        bad_lines = [l for l in r.stdout.splitlines() if any(c in ("..", ".") for c in (l.split()[1].split("/") if len(l.split()) > 1 else []))]
        add("rdsquashfs -d of pathtraversal.sqfs prints no '.'/'..' component", r.returncode < 90 and not bad_lines, r)
    return res


def run(ctx):
    ok, problems = vlib.proof_gate(ctx, MODULE, REQUIRED)
    if not ok:
        ctx.violation("proof:C18", "proof obligations of C18 no longer check: " + " | ".join(problems)[:1500],
                      {"broken": problems, "theorems_file": "lean/Sqfs/Props/C18.lean"}, found_input=False)
    harness = ctx.cc("h_c18", ["h_c18.c", "lib/util/src/canonicalize_name.c", "lib/util/src/filename_sane.c"])
    inputs, ncorpus, nexh, nrand = gen_inputs(ctx)
    lines = []
    for s in inputs:
        lines.append("canon " + tok(s))
        lines.append("sane " + tok(s))
    impl, model, crash = run_pair(ctx, harness, lines)
    if crash:
        k, rc, err = crash
        ctx.violation("crash:" + lines[min(k, len(lines) - 1)], "real code aborted (rc=%d) on input line %d: %s" % (rc, k, err[-400:]),
                      {"line": lines[min(k, len(lines) - 1)], "stderr": err})
        return ctx.finish(LEVEL)
    # second pass for idempotence on the implementation's own outputs
    results = [parse_canon(impl[2 * i]) for i in range(len(inputs))]
    uniq_out = sorted({r for r in results if isinstance(r, bytes)})
    lines2 = ["canon " + tok(r) for r in uniq_out]
    impl2, model2, crash2 = run_pair(ctx, harness, lines2)
    again = {r: parse_canon(l) for r, l in zip(uniq_out, impl2)} if not crash2 else {}
    mism, nontrivial, clause_bad = 0, set(), 0
    for i, s in enumerate(inputs):
        res = results[i]
        if isinstance(res, str):
            ctx.violation("protocol:" + tok(s), "harness answered %r" % res, {"input_hex": tok(s)})
            continue
        res2 = again.get(res, "n/a") if res is not None else "n/a"
        bad = clause_failures(s, res, res2)
        sane_impl = impl[2 * i + 1]
        if sane_impl not in ("0", "1") or (sane_impl == "1") != sane_spec(s):
            bad.append("sane-iff")
        diff = (impl[2 * i] != model[2 * i]) or (impl[2 * i + 1] != model[2 * i + 1])
        if res is None or res != s:
            nontrivial.add(s)
        if bad:
            clause_bad += 1
            if clause_bad <= 5:
                ctx.violation("input:" + tok(s), "canonicalize_name/is_filename_sane violate clause(s) %s on input %r: impl=%s model=%s" % (
                    bad, s, impl[2 * i], model[2 * i]), {"input_hex": tok(s), "impl": [impl[2 * i], impl[2 * i + 1]],
                                                        "model": [model[2 * i], model[2 * i + 1]], "clauses": bad})
        elif diff:
            mism += 1
            if mism <= 5:
                # cannot happen while canon_eq_spec holds (model = spec and impl meets every clause ⇒ impl = spec)
                ctx.violation("corr:" + tok(s), "correspondence broke on %r (impl=%s model=%s) but no clause fails" % (s, impl[2 * i], model[2 * i]),
                              {"input_hex": tok(s), "correspondence": "harness/h_c18.c vs Driver/C18.lean"}, found_input=False)
    probes = tool_probes(ctx)
    failed = [n for n, okp, _ in probes if not okp]
    for name, okp, rc in probes:
        if not okp:
            ctx.violation("funnel:" + name, "tool-level funnel probe failed: %s (%s)" % (name, rc), {"probe": name, "detail": rc})
    missing = callsite_scan(ctx)
    if missing and not failed:
        ctx.violation("funnel-callsite:" + ",".join(m["file"] for m in missing),
                      "anchored call site(s) no longer route names through canonicalize_name/is_filename_sane: %s; no behavioural probe failed" % missing,
                      {"correspondence": "call-site presence (tools/checks/c18.py CALLSITES)", "missing": missing}, found_input=False)
    ctx.cov.update({
        "evaluations": len(lines) + len(lines2) + len(probes),
        "distinct_nontrivial": len(nontrivial),
        "rule": "every string over {'/','.','a',0xC3} up to length %d (exhaustive: %d), %d corpus, %d seeded random strings up to 4 KiB; "
                "each through canonicalize_name and is_filename_sane of the working tree (ASan+UBSan) and the Lean model; "
                "non-trivial = distinct input that is refused or rewritten (output differs from input)" % (8 if ctx.quick() else 10, nexh, ncorpus, nrand),
        "exhaustive": True,
        "samples": [{"input": repr(inputs[i]), "impl": impl[2 * i], "model": model[2 * i]} for i in
                    [ncorpus + 7, ncorpus + 333, ncorpus + 4242, len(inputs) - 1] if i < len(inputs)],
        "disagreements_checked": mism + clause_bad,
        "tool_probes": [{"probe": n, "ok": o, "detail": rc} for n, o, rc in probes],
        "callsites_missing": missing,
        "idempotence_second_pass_inputs": len(lines2),
    })
    return ctx.finish(LEVEL, trusted_extra=["C strings are modelled as their bytes before the NUL; in-place rewriting is modelled as read-original/emit-output (dst ≤ src lemmas norm_dst_le_src, canon_dst_le_src)",
                                            "modelled: lib/util/src/canonicalize_name.c, lib/util/src/filename_sane.c (POSIX branch); the call sites that funnel names through them are probed at tool level, not proved"])


def replay(ctx, path):
    body = json.loads(open(path).read())
    rp = body.get("replay", {})
    if "input_hex" not in rp:
        print("replay file names a broken obligation, no input to replay:", json.dumps(rp)[:500])
        return 1
    ok, _ = ctx.lean_build(["sqfsmodel"])
    harness = ctx.cc("h_c18", ["h_c18.c", "lib/util/src/canonicalize_name.c", "lib/util/src/filename_sane.c"])
    lines = ["canon " + rp["input_hex"], "sane " + rp["input_hex"]]
    impl, model, crash = run_pair(ctx, harness, lines)
    print("input :", untok(rp["input_hex"]))
    print("impl  :", impl, "crash:", crash)
    print("model :", model)
    s = untok(rp["input_hex"])
    res = parse_canon(impl[0]) if impl else "ERR"
    bad = clause_failures(s, res, "n/a") if not isinstance(res, str) else ["crash"]
    if len(impl) > 1 and ((impl[1] == "1") != sane_spec(s)):
        bad.append("sane-iff")
    print("clauses violated:", bad)
    return 1 if bad or crash else 0
