"""
C18 — path canonicalisation.  Proof: Sqfs/Props/C18.lean (model = component-level specification, for all
strings).  Tie: the real canonicalize_name.c / filename_sane.c from the working tree, under ASan+UBSan, on the
same inputs as the native model driver: exhaustive over {'/', '.', 'a', 0xC3} up to length 8 (quick) / 10
(thorough) plus random long strings; plus tool-level funnel probes.
"""
import itertools, json, os, subprocess
import vlib

LEVEL = "proof"
MODULE = "Sqfs.Props.C18"
REQUIRED = ["Sqfs.C18.canon_eq_spec", "Sqfs.C18.canon_fails_iff_dotdot", "Sqfs.C18.canon_same_entry_and_clean",
            "Sqfs.C18.canon_length_le", "Sqfs.C18.canon_idempotent", "Sqfs.C18.sane_iff",
            "Sqfs.C18.norm_dst_le_src", "Sqfs.C18.canon_dst_le_src"]
ALPHA = [0x2f, 0x2e, 0x61, 0xc3]


def tok(b):
    return b.hex() if b else "-"


def untok(t):
    return b"" if t == "-" else bytes.fromhex(t)


# ---- independent monitor of the property's clauses, evaluated on the *implementation's* answers -------------
def comps(s):
    return s.split(b"/")


def clause_failures(s, res, res2):
    """res: None (fail) or bytes; res2: result of canonicalising res again (or 'n/a')"""
    bad = []
    has_dd = b".." in comps(s)
    if (res is None) != has_dd:
        bad.append("fails-iff-dotdot")
        return bad
    if res is None:
        return bad
    want = [c for c in comps(s) if c not in (b"", b".")]
    if res != b"":
        rc = comps(res)
        if any(c in (b"", b".", b"..") for c in rc):
            bad.append("clean")
        if rc != want:
            bad.append("same-entry")
    elif want:
        bad.append("same-entry")
    if len(res) > len(s):
        bad.append("never-grows")
    if res2 != "n/a" and res2 != res:
        bad.append("idempotent")
    return bad


def sane_spec(n):
    return n not in (b".", b"..") and b"/" not in n


def parse_canon(line):
    if line == "fail":
        return None
    if line.startswith("ok "):
        return untok(line[3:])
    return "ERR:" + line


def gen_inputs(ctx):
    maxlen = 8 if ctx.quick() else 10
    inputs = []
    cdir = vlib.CORPUS / "C18"
    if cdir.exists():
        for p in sorted(cdir.glob("*.hex")):
            for l in p.read_text().split():
                inputs.append(untok(l))
    ncorpus = len(inputs)
    for n in range(0, maxlen + 1):
        for t in itertools.product(ALPHA, repeat=n):
            inputs.append(bytes(t))
    nexh = len(inputs) - ncorpus
    nrand = 3000 if ctx.quick() else 40000
    pool = [b"/", b"//", b".", b"..", b"./", b"../", b"/.", b"/..", b"...", b"a", b"bc", b"\xc3\xa4", b" ", b"..a", b".a", b"a.", b"a.."]
    for _ in range(nrand):
        if ctx.rng.random() < 0.5:
            k = ctx.rng.randint(1, 40)
            s = b"".join(ctx.rng.choice(pool) for _ in range(k))
        else:
            k = ctx.rng.randint(1, 4096 if ctx.rng.random() < 0.05 else 64)
            s = bytes(ctx.rng.choice([0x2f, 0x2e, 0x2e, 0x2f, ctx.rng.randint(1, 255)]) for _ in range(k))
        inputs.append(s)
    return inputs, ncorpus, nexh, nrand


def run_pair(ctx, harness, lines):
    text = "\n".join(lines) + "\n"
    r = vlib.sh([str(harness)], input=text, env=ctx.san_env(), timeout=1200)
    impl = r.stdout.splitlines()
    if r.returncode != 0 or len(impl) != len(lines):
        # sanitizer abort or crash: locate the offending line by bisection of the prefix that produced output
        k = len(impl)
        return impl, None, (k, r.returncode, r.stderr[-3000:])
    model = ctx.driver(["c18"], text)
    return impl, model, None


def tool_probes(ctx):
    """funnel clause: the tools refuse '..' components coming from a pack file / tar member / command line"""
    res = []
    gen = ctx.build_tool("gensquashfs")
    t2s = ctx.build_tool("tar2sqfs")
    rd = ctx.build_tool("rdsquashfs")
    d = ctx.scratch / "probe"
    d.mkdir(exist_ok=True)
    env = ctx.san_env()
    # 1. pack file with '..'
    (d / "bad.txt").write_text("dir a 0755 0 0\ndir a/../b 0755 0 0\n")
    r = vlib.sh([str(gen), "-F", str(d / "bad.txt"), "-f", str(d / "o1.sqfs")], env=env)
    res.append(("gensquashfs pack-file 'a/../b' refused", r.returncode != 0 and r.returncode < 90, r.returncode))
    # 2. pack file with messy but legal path is canonicalised
    (d / "ok.txt").write_text("dir /a//./b/ 0755 0 0\n")
    r = vlib.sh([str(gen), "-F", str(d / "ok.txt"), "-f", str(d / "o2.sqfs")], env=env)
    ok = r.returncode == 0
    if ok:
        r2 = vlib.sh([str(rd), "-l", "/a", str(d / "o2.sqfs")], env=env)
        ok = r2.returncode == 0 and " b" in r2.stdout
    res.append(("gensquashfs canonicalises '/a//./b/' to a/b", ok, r.returncode))
    # 3. tar member named a/../b
    import tarfile, io
    tp = d / "t.tar"
    with tarfile.open(tp, "w", format=tarfile.USTAR_FORMAT) as tf:
        ti = tarfile.TarInfo("a/../b"); ti.size = 3
        tf.addfile(ti, io.BytesIO(b"xyz"))
    with open(tp, "rb") as f:
        r = vlib.sh([str(t2s), "-f", str(d / "o3.sqfs")], stdin=f, env=env)
    ok = True
    if r.returncode == 0:
        r2 = vlib.sh([str(rd), "-l", "/", str(d / "o3.sqfs")], env=env)
        # accepted archive must not contain an entry reached through '..'
        ok = ".." not in r2.stdout
    res.append(("tar2sqfs member 'a/../b' refused or skipped", ok and r.returncode < 90, r.returncode))
    # 4. rdsquashfs command-line path with '..'
    r = vlib.sh([str(rd), "-l", "a/../..", str(d / "o2.sqfs")], env=env)
    res.append(("rdsquashfs -l 'a/../..' refused", r.returncode != 0 and r.returncode < 90, r.returncode))
    return res


def run(ctx):
    ok, problems = vlib.proof_gate(ctx, MODULE, REQUIRED)
    if not ok:
        ctx.violation("proof:C18", "proof obligations of C18 no longer check: " + " | ".join(problems)[:1500],
                      {"broken": problems, "theorems_file": "lean/Sqfs/Props/C18.lean"}, found_input=False)
    harness = ctx.cc("h_c18", ["h_c18.c", "lib/util/src/canonicalize_name.c", "lib/util/src/filename_sane.c"])
    inputs, ncorpus, nexh, nrand = gen_inputs(ctx)
    lines = []
    for s in inputs:
        lines.append("canon " + tok(s))
        lines.append("sane " + tok(s))
    impl, model, crash = run_pair(ctx, harness, lines)
    if crash:
        k, rc, err = crash
        ctx.violation("crash:" + lines[min(k, len(lines) - 1)], "real code aborted (rc=%d) on input line %d: %s" % (rc, k, err[-400:]),
                      {"line": lines[min(k, len(lines) - 1)], "stderr": err})
        return ctx.finish(LEVEL)
    # second pass for idempotence on the implementation's own outputs
    results = [parse_canon(impl[2 * i]) for i in range(len(inputs))]
    uniq_out = sorted({r for r in results if isinstance(r, bytes)})
    lines2 = ["canon " + tok(r) for r in uniq_out]
    impl2, model2, crash2 = run_pair(ctx, harness, lines2)
    again = {r: parse_canon(l) for r, l in zip(uniq_out, impl2)} if not crash2 else {}
    mism, nontrivial, clause_bad = 0, set(), 0
    for i, s in enumerate(inputs):
        res = results[i]
        if isinstance(res, str):
            ctx.violation("protocol:" + tok(s), "harness answered %r" % res, {"input_hex": tok(s)})
            continue
        res2 = again.get(res, "n/a") if res is not None else "n/a"
        bad = clause_failures(s, res, res2)
        sane_impl = impl[2 * i + 1]
        if sane_impl not in ("0", "1") or (sane_impl == "1") != sane_spec(s):
            bad.append("sane-iff")
        diff = (impl[2 * i] != model[2 * i]) or (impl[2 * i + 1] != model[2 * i + 1])
        if res is None or res != s:
            nontrivial.add(s)
        if bad:
            clause_bad += 1
            if clause_bad <= 5:
                ctx.violation("input:" + tok(s), "canonicalize_name/is_filename_sane violate clause(s) %s on input %r: impl=%s model=%s" % (
                    bad, s, impl[2 * i], model[2 * i]), {"input_hex": tok(s), "impl": [impl[2 * i], impl[2 * i + 1]],
                                                        "model": [model[2 * i], model[2 * i + 1]], "clauses": bad})
        elif diff:
            mism += 1
            if mism <= 5:
                # cannot happen while canon_eq_spec holds (model = spec and impl meets every clause ⇒ impl = spec)
                ctx.violation("corr:" + tok(s), "correspondence broke on %r (impl=%s model=%s) but no clause fails" % (s, impl[2 * i], model[2 * i]),
                              {"input_hex": tok(s), "correspondence": "harness/h_c18.c vs Driver/C18.lean"}, found_input=False)
    probes = tool_probes(ctx)
    for name, okp, rc in probes:
        if not okp:
            ctx.violation("funnel:" + name, "tool-level funnel probe failed: %s (exit %s)" % (name, rc), {"probe": name, "exit": rc})
    ctx.cov.update({
        "evaluations": len(lines) + len(lines2) + len(probes),
        "distinct_nontrivial": len(nontrivial),
        "rule": "every string over {'/','.','a',0xC3} up to length %d (exhaustive: %d), %d corpus, %d seeded random strings up to 4 KiB; "
                "each through canonicalize_name and is_filename_sane of the working tree (ASan+UBSan) and the Lean model; "
                "non-trivial = distinct input that is refused or rewritten (output differs from input)" % (8 if ctx.quick() else 10, nexh, ncorpus, nrand),
        "exhaustive": True,
        "samples": [{"input": repr(inputs[i]), "impl": impl[2 * i], "model": model[2 * i]} for i in
                    [ncorpus + 7, ncorpus + 333, ncorpus + 4242, len(inputs) - 1] if i < len(inputs)],
        "disagreements_checked": mism + clause_bad,
        "tool_probes": [{"probe": n, "ok": o, "exit": rc} for n, o, rc in probes],
        "idempotence_second_pass_inputs": len(lines2),
    })
    return ctx.finish(LEVEL, trusted_extra=["C strings are modelled as their bytes before the NUL; in-place rewriting is modelled as read-original/emit-output (dst ≤ src lemmas norm_dst_le_src, canon_dst_le_src)",
                                            "modelled: lib/util/src/canonicalize_name.c, lib/util/src/filename_sane.c (POSIX branch); the call sites that funnel names through them are probed at tool level, not proved"])


def replay(ctx, path):
    body = json.loads(open(path).read())
    rp = body.get("replay", {})
    if "input_hex" not in rp:
        print("replay file names a broken obligation, no input to replay:", json.dumps(rp)[:500])
        return 1
    ok, _ = ctx.lean_build(["sqfsmodel"])
    harness = ctx.cc("h_c18", ["h_c18.c", "lib/util/src/canonicalize_name.c", "lib/util/src/filename_sane.c"])
    lines = ["canon " + rp["input_hex"], "sane " + rp["input_hex"]]
    impl, model, crash = run_pair(ctx, harness, lines)
    print("input :", untok(rp["input_hex"]))
    print("impl  :", impl, "crash:", crash)
    print("model :", model)
    s = untok(rp["input_hex"])
    res = parse_canon(impl[0]) if impl else "ERR"
    bad = clause_failures(s, res, "n/a") if not isinstance(res, str) else ["crash"]
    if len(impl) > 1 and ((impl[1] == "1") != sane_spec(s)):
        bad.append("sane-iff")
    print("clauses violated:", bad)
    return 1 if bad or crash else 0
