"""
C06 — unpacking any image writes only inside the chosen unpack directory.

Proof: lean/Sqfs/Props/C06.lean (confinement of `unpackTree` over the abstract POSIX file system of
lean/Sqfs/Model/Unpack.lean, for all trees / flags / fill orders).

Tie: hostile images are forged (tools/sqfs_forge.py: arbitrary name bytes, order, repetition, symlink targets),
the ASan+UBSan `rdsquashfs` built from the working tree unpacks them under `strace` inside a jail directory that
surrounds R and holds decoys; the observed sequence of mutating system calls (name, path bytes, mode/owner/time
arguments, result) is compared with `sqfsmodel c06 exec` on the same tree, the stderr skip reports with the model's
skip events, the exit status with the model's status, the content of R with the model's final state; and the jail
outside R is snapshotted before/after (type, mode, owner, size, mtime, content hash, link target, xattrs): the
*specification* — nothing outside R may change — is evaluated directly on the implementation's behaviour.
A second stream validates the trusted POSIX model itself: random system-call scripts are executed for real in a
jail with symlinks and compared with `sqfsmodel c06 monitor`.
"""
import concurrent.futures, errno, hashlib, json, os, re, shutil, stat, subprocess
import vlib
from sqfs_forge import Node, forge

LEVEL = "proof"
MODULE = "Sqfs.Props.C06"
REQUIRED = ["Sqfs.C06.confinement", "Sqfs.C06.confinement_raw", "Sqfs.C06.plan_paths_clean", "Sqfs.C06.plan_prefix_dirs",
            "Sqfs.C06.resolve_stays_under_R", "Sqfs.C06.treeSort_names_distinct", "Sqfs.C06.below_R_only_tree_nodes",
            "Sqfs.C06.skipped_reported_rest_unpacked", "Sqfs.C06.get_path_then_canonicalize_never_fails"]
TRACE = ("mkdir,mkdirat,symlink,symlinkat,mknod,mknodat,open,openat,creat,lsetxattr,setxattr,fsetxattr,utimensat,utimes,"
         "futimesat,utime,fchownat,chown,lchown,fchown,fchmodat,chmod,fchmod,chdir,fchdir,unlink,unlinkat,rename,renameat,"
         "renameat2,link,linkat,truncate,rmdir,removexattr,lremovexattr,chroot,mount")
ALLFLAGS = ["".join(c for c, b in zip("COXT", bits) if b) or "-" for bits in
            [[(i >> k) & 1 for k in range(4)] for i in range(16)]]
WORKERS = max(1, int(os.environ.get("VERIF_JOBS", "6")))     # parallel rdsquashfs+strace runs
CASE_TIMEOUT = 300          # seconds; an idle machine needs ~0.1 s per case


def hx(b):
    return b.hex() if b else "-"


def unhx(t):
    return b"" if t == "-" else bytes.fromhex(t)


def cstr(b):
    i = b.find(b"\0")
    return b if i < 0 else b[:i]


# ---------------------------------------------------------------------------------------------- trees
def node_from_tokens(toks):
    """inverse of Node.tokens()"""
    def rec(i):
        k, n, p, perm, uid, gid, mt, dev, xa, nch = toks[i].split(":")
        xattrs = [] if xa == "-" else [tuple(unhx(x) for x in kv.split("=")) for kv in xa.split(",")]
        i += 1
        ch = []
        for _ in range(int(nch)):
            c, i = rec(i)
            ch.append(c)
        nd = Node(unhx(n), k, unhx(p), int(perm), int(uid), int(gid), int(mt), int(dev), xattrs, ch)
        if k != "d" and ch:
            raise ValueError("children on a non-directory")
        return nd, i
    nd, i = rec(0)
    assert i == len(toks)
    return nd


NAMES_BAD = [b".", b"..", b"a/b", b"/", b"/abs", b"../decoy_file", b"../decoy_dir", b"a/", b"/a", b"a/../b", b"./a", b"..\0x",
             b".\0", b"\0", b"\0a", b"../..", b"ABS/decoy_dir", b"ABS/decoy_file", b"..//", b"/.."]
NAMES_OK = [b"a", b"b", b"c", b"x", b"A", b"...", b"..a", b".a", b"a.", b"a..", b"a\0b", b"a\0", b"b\0/../x", b" ", b"\xff", b"\xc3\xa4",
            b"decoy_dir", b"decoy_file", b"R", b"-u", b"a b", b"\\", b"a\nb", b"\x01"]
# no target leaves `outer` (two levels above R): a *mutated* tool run as root must not be able to touch the real system
TARGETS = [b"../decoy_dir", b"../decoy_file", b"..", b".", b"ABS/..", b"ABS/decoy_dir", b"ABS/decoy_file", b"ABS", b"../..", b"x", b"a", b"b",
           b"", b"\0", b"../decoy_dir\0junk", b"b/..", b"../R/b", b"../decoy_link", b"../nonexistent", b"a/b/c", b"../decoy_dir/",
           b"../decoy_dir/inner", b"./../decoy_dir", b"ABS//", b"loop", b"../outer_file"]
XKEYS = [b"user.c06", b"trusted.c06", b"security.c06", b"user.a\0b", b"user.", b"trusted.overlay.opaque"]


def rnd_attr(rng):
    d = {}
    if rng.random() < 0.5:
        d["perm"] = rng.choice([0o644, 0o755, 0o600, 0o4755, 0o1777, 0, 0o7777, 0o444, 0o111])
    if rng.random() < 0.4:
        d["uid"] = rng.choice([0, 1, 1000, 65534, 0xFFFFFFFF, 0xFFFFFFFE, 12345])
        d["gid"] = rng.choice([0, 1, 100, 65534, 0xFFFFFFFF, 777])
    if rng.random() < 0.4:
        d["mtime"] = rng.choice([0, 1, 1234567890, 0x7FFFFFFF, 0xFFFFFFFF, 86400])
    if rng.random() < 0.25:
        d["xattrs"] = [(rng.choice(XKEYS), rng.choice([b"", b"v", b"\0\1\2", b"x" * 40])) for _ in range(rng.randint(1, 2))]
    return d


def rnd_name(rng, hostile):
    r = rng.random()
    if r < hostile:
        return rng.choice(NAMES_BAD)
    if r < hostile + 0.03:
        return bytes([rng.choice([0x61, 0x2e, 0x2f, 0, 0x62])]) * rng.choice([254, 255, 256, 257, 300])
    if r < hostile + 0.10:
        return bytes(rng.choice([0x2e, 0x2f, 0x61, 0x62, 0, 0x2e, 0x2f]) for _ in range(rng.randint(1, 5)))
    return rng.choice(NAMES_OK)


def rnd_tree(rng, hostile=0.15, dup=0.1, depth=3, fan=5):
    def kids(d):
        out = []
        for _ in range(rng.randint(0, fan)):
            if out and rng.random() < dup:
                nm = rng.choice(out).name
                if rng.random() < 0.3:
                    nm = cstr(nm) + b"\0" + bytes([rng.randint(0, 255)])
                if not nm:
                    nm = b"\0"
            else:
                nm = rnd_name(rng, hostile)
            k = rng.choice("ddddfffflllbcps")
            a = rnd_attr(rng)
            if k == "d":
                out.append(Node(nm, "d", children=kids(d - 1) if d > 0 else [], **a))
            elif k == "f":
                out.append(Node(nm, "f", payload=rng.choice([b"", b"data", b"\0" * 5000, bytes(range(256)) * 20, b"z" * 4096]), **a))
            elif k == "l":
                out.append(Node(nm, "l", payload=rng.choice(TARGETS), **a))
            else:
                out.append(Node(nm, k, devno=rng.choice([0x103, 0x105, 0, 0x801, 0xFFFFF, 0x12345678]), **a))
        rng.shuffle(out)
        return out
    a = rnd_attr(rng)
    return Node(b"", "d", children=kids(depth), **a)


def deep_chain(n, comp, leaf):
    t = leaf
    for _ in range(n):
        t = Node(comp, "d", children=[t])
    return Node(b"", "d", children=[t])


def corpus_builtin():
    """hand-written attack shapes (each is run with all 16 option subsets)"""
    N = Node
    out = []
    out.append(("symlink+dir same name", N(b"", "d", children=[N(b"a", "l", payload=b"../decoy_dir"), N(b"a", "d", children=[N(b"pwn", "f", payload=b"pwned")])])))
    out.append(("dir+symlink same name", N(b"", "d", children=[N(b"a", "d", children=[N(b"pwn", "f", payload=b"pwned")]), N(b"a", "l", payload=b"../decoy_dir")])))
    out.append(("symlink+file same name", N(b"", "d", children=[N(b"a", "l", payload=b"../decoy_file"), N(b"a", "f", payload=b"pwned", perm=0o777, uid=1, gid=1)])))
    out.append(("symlink+file same name after NUL cut", N(b"", "d", children=[N(b"a\0x", "l", payload=b"../decoy_file"), N(b"a\0y", "f", payload=b"pwned")])))
    out.append(("dotdot dir with content", N(b"", "d", children=[N(b"..", "d", perm=0o777, uid=7, children=[N(b"decoy_file", "f", payload=b"pwned"), N(b"pwn", "f")]), N(b"ok", "f", payload=b"fine")])))
    out.append(("dot dir", N(b"", "d", children=[N(b".", "d", perm=0o700, uid=5, mtime=99, children=[N(b"inR", "f")])])))
    out.append(("slash names", N(b"", "d", children=[N(b"../decoy_file", "f", payload=b"pwned"), N(b"ABS/decoy_file", "f", payload=b"pwned"), N(b"/", "d"), N(b"sub/x", "d"),
                                                    N(b"sub", "d", children=[N(b"../../decoy_file", "f", payload=b"pwned")])])))
    out.append(("empty-equivalent names", N(b"", "d", children=[N(b"ok", "f"), N(b"\0", "f", payload=b"x"), N(b"zz", "f")])))
    out.append(("empty name deeper", N(b"", "d", children=[N(b"d", "d", children=[N(b"\0abc", "d", children=[N(b"x", "f")])]), N(b"a", "f")])))
    out.append(("symlinks anywhere + all attrs", N(b"", "d", children=[
        N(b"l1", "l", payload=b"../decoy_file", perm=0, uid=1234, gid=4321, mtime=1, xattrs=[(b"trusted.c06", b"v"), (b"user.c06", b"v")]),
        N(b"l2", "l", payload=b"../decoy_dir", perm=0, uid=1234, gid=4321, mtime=1, xattrs=[(b"trusted.c06", b"v")]),
        N(b"l3", "l", payload=b"ABS/decoy_dir", perm=0o7777, uid=1, gid=1, mtime=5, xattrs=[(b"security.c06", b"v")]),
        N(b"l4", "l", payload=b"..", uid=9, gid=9, mtime=5), N(b"l5", "l", payload=b"ABS/..", uid=9, gid=9, mtime=5),
        N(b"l6", "l", payload=b".", uid=9, gid=9, mtime=5, perm=0), N(b"l7", "l", payload=b"../..", uid=9, gid=9, mtime=5, perm=0)])))
    out.append(("empty symlink target", N(b"", "d", children=[N(b"a", "f"), N(b"l", "l", payload=b""), N(b"z", "f")])))
    out.append(("NUL symlink target", N(b"", "d", children=[N(b"l", "l", payload=b"\0../decoy_dir"), N(b"z", "f")])))
    out.append(("deep chain beyond PATH_MAX", deep_chain(40, b"n" * 120, N(b"leaf", "f", payload=b"x"))))
    out.append(("name of 256 bytes", N(b"", "d", children=[N(b"a", "f"), N(b"n" * 256, "d", children=[N(b"x", "f")]), N(b"z", "f")])))
    out.append(("name of 255 bytes", N(b"", "d", children=[N(b"n" * 255, "d", children=[N(b"x", "f", payload=b"1")])])))
    out.append(("root inode is a symlink", N(b"", "l", payload=b"../decoy_file", uid=3)))
    out.append(("root inode is a file", N(b"", "f", payload=b"pwned", perm=0o777)))
    out.append(("case variants", N(b"", "d", children=[N(b"a", "l", payload=b"../decoy_dir"), N(b"A", "d", children=[N(b"x", "f")])])))
    out.append(("devices fifos sockets", N(b"", "d", children=[N(b"blk", "b", devno=0x801, perm=0o600), N(b"chr", "c", devno=0x103, perm=0o666, uid=2),
                                                              N(b"fifo", "p", perm=0o640), N(b"sock", "s", perm=0o600, xattrs=[(b"user.c06", b"v")])])))
    out.append(("symlink chain inside R then dup", N(b"", "d", children=[N(b"p", "l", payload=b"q"), N(b"q", "l", payload=b"../decoy_dir"), N(b"p", "d", children=[N(b"x", "f")])])))
    out.append(("nested dup below symlink-named dir", N(b"", "d", children=[N(b"d", "d", children=[N(b"a", "l", payload=b"../../decoy_dir"), N(b"a", "d", children=[N(b"x", "f", payload=b"pwned")])])])))
    out.append(("xattrs everywhere", N(b"", "d", children=[N(b"f", "f", payload=b"1", xattrs=[(b"user.c06", b"1"), (b"trusted.c06", b"2"), (b"security.c06", b"3")]),
                                                         N(b"d", "d", xattrs=[(b"user.c06", b"d")], children=[N(b"l", "l", payload=b"../../decoy_file", xattrs=[(b"user.c06", b"l")])])])))
    return out


# ---------------------------------------------------------------------------------------------- jail
def make_jail(base, precreate):
    """base/outer/jail/{decoys, R}"""
    outer = base / "outer"
    jail = outer / "jail"
    os.makedirs(jail / "decoy_dir" / "sub")
    (outer / "outer_file").write_bytes(b"outer\n")
    (jail / "decoy_file").write_bytes(b"decoy\n")
    (jail / "decoy_dir" / "inner").write_bytes(b"inner\n")
    (jail / "x").write_bytes(b"x\n")
    os.symlink("decoy_dir", jail / "decoy_link")
    os.symlink("loop", jail / "loop")
    os.chmod(jail / "decoy_file", 0o640)
    os.chmod(jail / "decoy_dir", 0o750)
    for p in (jail / "decoy_file", jail / "decoy_dir", jail / "x", outer / "outer_file", jail / "decoy_dir" / "inner", jail, outer):
        os.utime(p, ns=(10**18, 10**18))
    if precreate:
        os.mkdir(jail / "R")
    return outer, jail


def lstat_rec(p):
    st = os.lstat(p)
    rec = {"mode": st.st_mode, "uid": st.st_uid, "gid": st.st_gid}
    if stat.S_ISLNK(st.st_mode):
        rec["target"] = os.readlink(p).hex() if isinstance(p, bytes) else os.readlink(bytes(p)).hex()
    elif stat.S_ISREG(st.st_mode):
        with open(p, "rb") as f:
            rec["sha"] = hashlib.sha256(f.read()).hexdigest()
        rec["size"] = st.st_size
    elif stat.S_ISCHR(st.st_mode) or stat.S_ISBLK(st.st_mode):
        rec["rdev"] = st.st_rdev
    try:
        rec["xattrs"] = sorted((k, os.getxattr(p, k, follow_symlinks=False).hex()) for k in os.listxattr(p, follow_symlinks=False))
    except OSError:
        rec["xattrs"] = "?"
    return rec, st


def snapshot(outer, R, parent_mtime=False):
    """everything under `outer` except what lies strictly below R; R itself without its mtime/size"""
    snap = {}
    ob, Rb = os.fsencode(outer), os.fsencode(R)
    Rparent = os.path.dirname(Rb)
    stack = [ob]
    while stack:
        p = stack.pop()
        rec, st = lstat_rec(p)
        if p == Rb:
            continue                    # R itself: compared separately (it may be created by the run: mkdir_p)
        if p != Rparent or parent_mtime:
            rec["mtime"] = st.st_mtime_ns      # creating R changes its parent's mtime
        if stat.S_ISDIR(st.st_mode):
            rec["entries"] = sorted(x.hex() for x in os.listdir(p) if p + b"/" + x != Rb)
        snap[p[len(ob):].hex()] = rec
        if stat.S_ISDIR(st.st_mode) and p != Rb:
            for x in os.listdir(p):
                stack.append(p + b"/" + x)
    return snap


def tree_state(R):
    """what is below R after the run: relative path bytes -> record"""
    out = {}
    Rb = os.fsencode(R)
    if not os.path.isdir(Rb):
        return out
    stack = [Rb]
    while stack:
        p = stack.pop()
        for x in os.listdir(p):
            q = p + b"/" + x
            rec, st = lstat_rec(q)
            rec["mtime_s"] = st.st_mtime_ns // 10**9
            if stat.S_ISREG(st.st_mode):
                with open(q, "rb") as f:
                    rec["content"] = f.read()
            out[q[len(Rb) + 1:]] = rec
            if stat.S_ISDIR(st.st_mode):
                stack.append(q)
    return out


# ---------------------------------------------------------------------------------------------- strace
LINE = re.compile(r"^(\d+)\s+(\w+)\((.*)\)\s+= (-?\d+|\?)(?: (E\w+) \(.*\))?\s*$")
STR = re.compile(r'"((?:\\x[0-9a-f]{2})*)"(\.\.\.)?')
KINDS = {"S_IFCHR": "c", "S_IFBLK": "b", "S_IFIFO": "p", "S_IFSOCK": "s", "S_IFREG": "f"}


def norm_tok(tok):
    """paths of PATH_MAX or more bytes are cut to 4095 bytes (all strace can show)"""
    f = tok.split(":")
    if f[0] == "truncated":
        f = f[1:]
    cut = False
    for i in (1, 2):
        if i < len(f) and len(f[i]) >= 2 * 4095 and re.fullmatch(r"[0-9a-f]+", f[i]):
            f[i] = f[i][:2 * 4095] + "~"
            cut = True
    return ":".join(f) if cut or not tok.startswith("truncated:") else tok


def sdec(m):
    return bytes.fromhex(m.replace("\\x", ""))


def parse_strace(text):
    """list of (token, result) for the calls in TRACE, token in the model's syscall format"""
    out = []
    for line in text.splitlines():
        m = LINE.match(line)
        if not m:
            if "+++" in line or "---" in line or not line.strip():
                continue
            out.append(("unparsed:" + line[:200], "?"))
            continue
        pid, name, args, ret, err = m.groups()
        res = "0" if err is None else err
        strs = [sdec(x.group(1)) for x in STR.finditer(args)]
        trunc = any(x.group(2) for x in STR.finditer(args))
        rest = STR.sub("S", args)
        f = [a.strip() for a in rest.split(", ")]
        tok = None
        try:
            if name in ("mkdir", "mkdirat"):
                tok = "mkdir:%s:%d" % (hx(strs[0]), int(f[-1], 8))
            elif name in ("symlink", "symlinkat"):
                tok = "symlink:%s:%s" % (hx(strs[0]), hx(strs[1]))
            elif name in ("mknod", "mknodat"):
                i = f.index("S") + 1
                parts = f[i].split("|")
                kind = KINDS.get(parts[0], "?")
                mode = int(parts[1], 8) if len(parts) > 1 else 0
                dev = 0
                mm = re.search(r"makedev\((0x[0-9a-f]+|\d+), (0x[0-9a-f]+|\d+)\)", rest)
                if mm:
                    ma, mi = int(mm.group(1), 0), int(mm.group(2), 0)
                    dev = (mi & 0xff) | (ma << 8) | ((mi & ~0xff) << 12)
                tok = "mknod:%s:%s:%d:%d" % (hx(strs[0]), kind, mode, dev)
            elif name in ("open", "openat", "creat"):
                i = f.index("S") + 1
                flags = set(f[i].split("|")) if name != "creat" else {"O_CREAT", "O_WRONLY", "O_TRUNC"}
                flags.discard("O_CLOEXEC"); flags.discard("O_LARGEFILE")
                if not (flags & {"O_CREAT", "O_WRONLY", "O_RDWR", "O_TRUNC", "O_APPEND", "O_TMPFILE"}):
                    continue
                if strs and strs[0] in (b"/dev/null", b"/dev/tty"):
                    continue
                mode = int(f[i + 1], 8) if len(f) > i + 1 else 0
                if flags == {"O_WRONLY", "O_CREAT", "O_EXCL"}:
                    tok = "openx:%s:%d" % (hx(strs[0]), mode)
                elif flags == {"O_RDWR", "O_CREAT", "O_TRUNC"} and mode == 0o644:
                    tok = "opent:%s" % hx(strs[0])
                else:
                    tok = "open?:%s:%s" % (hx(strs[0]), "|".join(sorted(flags)))
            elif name in ("lsetxattr", "setxattr"):
                tok = "setxattr:%s:%s:%s:%s" % (hx(strs[0]), hx(strs[1]), hx(strs[2]) if len(strs) > 2 else "-", "1" if name[0] == "l" else "0")
            elif name == "utimensat":
                mm = re.search(r"\[\{tv_sec=(-?\d+), tv_nsec=(\d+)\}(?: /\*.*?\*/)?, \{tv_sec=(-?\d+), tv_nsec=(\d+)\}(?: /\*.*?\*/)?\]", rest)
                nf = "AT_SYMLINK_NOFOLLOW" in rest
                if mm and mm.group(1) == mm.group(3) and mm.group(2) == mm.group(4) == "0" and f[0] == "AT_FDCWD":
                    tok = "utimens:%s:%s:%s" % (hx(strs[0]), mm.group(1), "1" if nf else "0")
            elif name == "fchownat":
                u, g = int(f[2]) & 0xFFFFFFFF, int(f[3]) & 0xFFFFFFFF
                if f[0] == "AT_FDCWD" and f[4] in ("AT_SYMLINK_NOFOLLOW", "0"):
                    tok = "chown:%s:%d:%d:%s" % (hx(strs[0]), u, g, "1" if f[4] == "AT_SYMLINK_NOFOLLOW" else "0")
            elif name in ("chown", "lchown"):
                tok = "chown:%s:%d:%d:%s" % (hx(strs[0]), int(f[1]) & 0xFFFFFFFF, int(f[2]) & 0xFFFFFFFF, "1" if name[0] == "l" else "0")
            elif name == "fchmodat":
                if f[0] == "AT_FDCWD" and len(f) == 3:
                    tok = "chmod:%s:%d" % (hx(strs[0]), int(f[2], 8))
            elif name == "chmod":
                tok = "chmod:%s:%d" % (hx(strs[0]), int(f[1], 8))
            elif name == "chdir":
                tok = "chdir:%s" % hx(strs[0])
        except (ValueError, IndexError):
            tok = None
        if tok is None:
            tok = "other:%s(%s)" % (name, rest[:120])
        if trunc:
            tok = "truncated:" + tok      # strace reads at most PATH_MAX bytes of a path
        out.append((norm_tok(tok), res))
    return out


# ---------------------------------------------------------------------------------------------- one case
def abs_subst(node, absb):
    """replace the ABS placeholder in names/targets by the jail's absolute path"""
    n = Node(node.name.replace(b"ABS", absb), node.kind, node.payload.replace(b"ABS", absb) if node.kind == "l" else node.payload,
             node.perm, node.uid, node.gid, node.mtime, node.devno, node.xattrs, [abs_subst(c, absb) for c in node.children])
    return n


def strip_data(tok):
    return ":".join(tok.split(":")[:2]) if tok.startswith("opent:") else tok


def split_model_exec(line):
    """→ (status, [(token,res)], {keytok: nodetok})"""
    head, _, tail = line.partition(" |")
    w = head.split()
    status, tr = w[0], []
    for t in w[1:]:
        tok, _, res = t.rpartition("=")
        tr.append((tok, res))
    st = {}
    for t in tail.split():
        k, _, v = t.partition("@")
        st[k] = v
    return status, tr, st


def phase_split(seq):
    """(create, fill (sorted), attrs) of a token sequence"""
    i = 0
    while i < len(seq) and not seq[i][0].startswith("opent:"):
        i += 1
    j = i
    while j < len(seq) and seq[j][0].startswith("opent:"):
        j += 1
    return seq[:i], sorted(seq[i:j]), seq[j:]


SKIP_RE = re.compile(rb"Found an entry named '(.*?)', skipping\.\n", re.S)


def run_case(ctx, rd, idx, label, tree, flags, upath, precreate, timeout=CASE_TIMEOUT):
    """returns dict(result record).  Does not touch ctx (thread-safe)."""
    base = ctx.scratch / ("case%d" % idx)
    if base.exists():
        shutil.rmtree(base)
    base.mkdir()
    try:
        outer, jail = make_jail(base, precreate)
        absb = os.fsencode(jail)
        template = tree.tokens()
        tree = abs_subst(tree, absb)
        img = base / "img.sqfs"
        img.write_bytes(forge(tree))
        R = jail / "R"
        before = snapshot(outer, R)
        R_before = lstat_rec(R)[0] if precreate else None
        fl = [] if flags == "-" else ["-" + c for c in flags]
        cmd = ["strace", "-f", "-xx", "-s", "70000", "-o", str(base / "st.log"), "-e", "trace=" + TRACE,
               str(rd), "-q", "-u", os.fsdecode(upath), "-p", "R"] + fl + [str(img)]
        try:
            r = subprocess.run(cmd, cwd=str(jail), env=ctx.san_env(), stdout=subprocess.PIPE, stderr=subprocess.PIPE, timeout=timeout)
            rc, err = r.returncode, r.stderr
        except subprocess.TimeoutExpired:
            rc, err = "timeout", b""
        after = snapshot(outer, R)
        if precreate:
            R_after = lstat_rec(R)[0] if os.path.lexists(R) else None
            if R_after != R_before:
                after["<R itself>"] = R_after
        elif os.path.lexists(R) and (not os.path.isdir(R) or os.path.islink(R)):
            after["<R itself>"] = "not a directory"
        log = (base / "st.log").read_text(errors="replace") if (base / "st.log").exists() else ""
        calls = parse_strace(log)
        state = tree_state(R)
        rec = {"idx": idx, "label": label, "flags": flags, "upath": upath.hex(), "precreate": precreate, "tokens": tree.tokens(), "template": template, "jail": os.fsdecode(absb),
               "rc": rc, "stderr": err[-3000:].decode("latin-1"), "calls": calls, "changed": diff_snap(before, after),
               "skips": [m.hex() for m in SKIP_RE.findall(err)], "state": state, "R_exists": os.path.isdir(R)}
        return rec
    finally:
        shutil.rmtree(base, ignore_errors=True)


def diff_snap(a, b):
    ch = []
    for k in sorted(set(a) | set(b)):
        if a.get(k) != b.get(k):
            ch.append({"path": bytes.fromhex(k).decode("latin-1") if not k.startswith("<") else k, "before": a.get(k), "after": b.get(k)})
    return ch


def monitor_request(rec):
    """the model's POSIX semantics (and its confinement verdict) applied to the calls the tool really made after chdir(R)"""
    seen, scs, res = False, [], []
    for tok, r in rec["calls"]:
        if not seen:
            seen = tok == "chdir:52" and r == "0"
            continue
        if tok.startswith(("open?", "other", "truncated", "unparsed")) or "~" in tok:
            return None, None
        scs.append(tok + ":-" if tok.startswith("opent:") else tok)
        res.append(r)
    if not scs:
        return None, None
    comps = [os.fsencode(c) for c in rec["jail"].split("/")[1:]]
    ents, p = ["/:d"], []
    for c in comps:
        p.append(c)
        ents.append("/" + "/".join(x.hex() for x in p) + ":d")
    jp = "/" + "/".join(x.hex() for x in comps)
    op = "/" + "/".join(x.hex() for x in comps[:-1])
    def e(base, name, kind):
        return base + "/" + name.hex() + ":" + kind
    ents += [e(jp, b"decoy_dir", "d"), e(jp + "/" + b"decoy_dir".hex(), b"sub", "d"), e(jp + "/" + b"decoy_dir".hex(), b"inner", "f"),
             e(jp, b"decoy_file", "f"), e(jp, b"x", "f"), e(jp, b"decoy_link", "l:" + b"decoy_dir".hex()), e(jp, b"loop", "l:" + b"loop".hex()),
             e(op, b"outer_file", "f"), e(jp, b"R", "d")]
    return "monitor %s %d %s %s" % (jp + "/52", len(ents), " ".join(ents), " ".join(scs)), res


def model_request(rec, op="exec"):
    return "%s %s %s %s" % (op, rec["flags"], rec["upath"] or "-", " ".join(rec["tokens"]))


KINDCH = {"d": stat.S_IFDIR, "f": stat.S_IFREG, "l": stat.S_IFLNK}


def compare(rec, mline):
    """→ list of disagreement strings between the implementation's run and the model's answer"""
    bad = []
    calls = rec["calls"]
    # split at chdir(R)
    pre, post, seen = [], [], False
    for tok, res in calls:
        if not seen and tok.startswith("chdir:"):
            seen = (res == "0" and tok == "chdir:52")
            if not seen:
                pre.append((tok, res))
            continue
        (post if seen else pre).append((tok, res))
    if mline in ("invalid-path", "lookup:noEntry", "lookup:notDir") or mline.startswith("err:duplicate"):
        # the tool stops before mkdir_p(R)
        if pre or post:
            bad.append("model says the tool stops before touching the file system (%s) but calls were made: %s" % (mline.split()[0], (pre + post)[:4]))
        if rec["rc"] != 1:
            bad.append("exit status %s, expected 1 (%s)" % (rec["rc"], mline.split()[0]))
        return bad
    status, mtr, mstate = split_model_exec(mline)
    exp_pre = [("mkdir:52:493", "EEXIST" if rec["precreate"] else "0")]
    if pre != exp_pre:
        bad.append("calls before chdir(R): %s, expected %s" % (pre[:5], exp_pre))
    if not seen:
        bad.append("no chdir(R)")
    ic, ifl, ia = phase_split(post)
    mc, mfl, ma = phase_split([(norm_tok(strip_data(t)), r) for t, r in mtr])
    if ic != mc:
        bad.append("create phase differs: impl %s model %s" % first_diff(ic, mc))
    if ifl != mfl:
        bad.append("fill phase differs (as multisets): impl %s model %s" % first_diff(ifl, mfl))
    if ia != ma:
        bad.append("attribute phase differs: impl %s model %s" % first_diff(ia, ma))
    failed = any(r != "0" and not (t.startswith("mkdir:") and r == "EEXIST") for t, r in mtr)
    exp_rc = 0 if (status == "ok" and not failed) else 1
    if rec["rc"] != exp_rc:
        bad.append("exit status %s, model expects %d (%s)" % (rec["rc"], exp_rc, status))
    return bad


def first_diff(a, b):
    for i, (x, y) in enumerate(zip(a, b)):
        if x != y:
            return ("#%d %s" % (i, x), "#%d %s" % (i, y))
    n = min(len(a), len(b))
    return ("#%d %s" % (n, a[n] if n < len(a) else "<end>"), "#%d %s" % (n, b[n] if n < len(b) else "<end>"))


def compare_skips(rec, plan_line):
    if not plan_line.startswith(("ok", "err:")):
        return []
    mskips = [t[5:] for t in plan_line.split()[1:] if t.startswith("skip:")]
    # the model's plan lists skip events of a phase that is not reached after a failing system call; the implementation
    # prints a prefix of them
    mine = [("" if s == "-" else s) for s in mskips]
    got = rec["skips"]
    if got != mine[:len(got)]:
        return ["stderr skip reports %s are not a prefix of the model's skip events %s" % (got[:6], mine[:6])]
    if rec["rc"] == 0 and got != mine:
        return ["run succeeded but skip reports differ: stderr %s model %s" % (got[:6], mine[:6])]
    return []


def compare_state(rec, mline):
    """final content of R against the model's final state"""
    if not mline.startswith(("ok", "err:")) or mline.startswith("err:duplicate"):
        return []
    status, mtr, mstate = split_model_exec(mline)
    bad = []
    impl = rec["state"]
    seen = set()
    for ktok, ntok in mstate.items():
        comps = [unhx(c) for c in ktok.split("/")[2:]]         # drop "" and "52"
        rel = b"/".join(comps)
        if b"" in comps or not comps:
            continue
        seen.add(rel)
        got = impl.get(rel)
        if ntok == "-":
            if got is not None:
                bad.append("R/%r exists but not in the model" % rel)
            continue
        if got is None:
            bad.append("R/%r missing (model: %s)" % (rel, ntok[:40])); continue
        kind = ntok[0]
        head, *at = ntok.split(":")
        perm, uid, gid, mtime, nx = [int(x) for x in at]
        if kind == "d" and not stat.S_ISDIR(got["mode"]) or kind == "f" and not stat.S_ISREG(got["mode"]) or kind == "l" and not stat.S_ISLNK(got["mode"]):
            bad.append("R/%r has type %o, model %s" % (rel, stat.S_IFMT(got["mode"]), kind)); continue
        if kind == "f" and got.get("content") != unhx(head[2:]):
            bad.append("R/%r content differs from the model's" % rel)
        if kind == "l" and got.get("target") != unhx(head[2:]).hex():
            bad.append("R/%r link target differs" % rel)
        if "C" in rec["flags"] and kind != "l" and status == "ok" and rec["rc"] == 0 and stat.S_IMODE(got["mode"]) != perm:
            bad.append("R/%r mode %o, model %o" % (rel, stat.S_IMODE(got["mode"]), perm))
        if "O" in rec["flags"] and rec["rc"] == 0 and (got["uid"], got["gid"]) != (uid, gid):
            bad.append("R/%r owner %s, model %s" % (rel, (got["uid"], got["gid"]), (uid, gid)))
        if "T" in rec["flags"] and rec["rc"] == 0 and kind != "d" and got["mtime_s"] != mtime:
            bad.append("R/%r mtime %s, model %s" % (rel, got["mtime_s"], mtime))
    for rel in impl:
        if rel not in seen:
            bad.append("R/%r exists but the model's plan never names it" % rel)
    return bad[:6]


# ---------------------------------------------------------------------------------------------- POSIX model probe
def posix_probe(ctx, n):
    """random system-call scripts executed for real (python os.*) in a jail with symlinks vs `monitor`"""
    rng = ctx.rng
    lines, reals = [], []
    for i in range(n):
        top = ctx.scratch / ("probe%d" % i)
        base = top / "p1" / "p2" / "p3"         # padding: no script can climb out of `top` (at most 3 levels up from R/..)
        os.makedirs(base)
        R = base / "j" / "R"
        os.makedirs(R)
        (base / "j" / "dd").mkdir()
        (base / "j" / "ff").write_bytes(b"ff\n")
        os.symlink("dd", base / "j" / "ll")
        absR = [os.fsencode(c) for c in str(R).split("/")[1:]]
        ents = []
        p = []
        ents.append("/:d")
        for c in absR:
            p.append(c)
            ents.append("/" + "/".join(x.hex() for x in p) + ":d")
        jp = "/" + "/".join(x.hex() for x in absR[:-1])
        ents += [jp + "/" + b"dd".hex() + ":d", jp + "/" + b"ff".hex() + ":f", jp + "/" + b"ll".hex() + ":l:" + b"dd".hex()]
        names = [b"a", b"b", b"a/b", b"a/c", b"../dd/n", b"../ll/n", b"../ff", b"../ff/x", b"s", b"s/x", b"t", b"t/y", b"../zz", b"a/../b", b"./a", b"s/../../dd/m",
                 os.fsencode(str(base / "j" / "dd")) + b"/abs", b"u", b"a//b", b""]
        # no "." target: a followed utimens on R itself changes only R's mtime, which the snapshot cannot tell from entry creation
        targets = [b"../dd", b"../ff", b"a", b"b", b"..", b"t", b"s", os.fsencode(str(base / "j" / "dd")), b"../nonexist", os.fsencode(str(base / "j" / "nonexistent_abs"))]
        scs, res = [], []
        before = snapshot(top, R, parent_mtime=True)
        R_before = lstat_rec(R)[0]
        cwd = os.getcwd()
        os.chdir(R)
        try:
            for _ in range(rng.randint(3, 14)):
                op = rng.choice(["mkdir", "symlink", "openx", "opent", "chmod", "chown0", "chown1", "utimens0", "utimens1", "mknod"])
                nm = rng.choice(names)
                try:
                    if op == "mkdir":
                        tok = "mkdir:%s:493" % hx(nm); os.mkdir(nm, 0o755)
                    elif op == "symlink":
                        t = rng.choice(targets); tok = "symlink:%s:%s" % (hx(t), hx(nm)); os.symlink(t, nm)
                    elif op == "openx":
                        tok = "openx:%s:420" % hx(nm); os.close(os.open(nm, os.O_WRONLY | os.O_CREAT | os.O_EXCL, 0o644))
                    elif op == "opent":
                        tok = "opent:%s:-" % hx(nm); os.close(os.open(nm, os.O_RDWR | os.O_CREAT | os.O_TRUNC, 0o644))
                    elif op == "chmod":
                        tok = "chmod:%s:448" % hx(nm); os.chmod(nm, 0o700)
                    elif op in ("chown0", "chown1"):
                        nf = op[-1]; tok = "chown:%s:1:1:%s" % (hx(nm), nf); os.chown(nm, 1, 1, follow_symlinks=(nf == "0"))
                    elif op in ("utimens0", "utimens1"):
                        nf = op[-1]; tok = "utimens:%s:5:%s" % (hx(nm), nf); os.utime(nm, (5, 5), follow_symlinks=(nf == "0"))
                    else:
                        tok = "mknod:%s:p:448:0" % hx(nm); os.mknod(nm, stat.S_IFIFO | 0o700)
                    r = "0"
                except OSError as e:
                    r = errno.errorcode.get(e.errno, str(e.errno))
                scs.append(tok); res.append(r)
        finally:
            os.chdir(cwd)
        escaped = bool(diff_snap(before, snapshot(top, R, parent_mtime=True))) or lstat_rec(R)[0] != R_before
        lines.append("monitor /%s %d %s %s" % ("/".join(x.hex() for x in absR), len(ents), " ".join(ents), " ".join(scs)))
        reals.append((scs, res, escaped))
        shutil.rmtree(top, ignore_errors=True)
    out = ctx.driver(["c06"], "\n".join(lines) + "\n")
    bad, nesc, ncalls, nfollow = [], 0, 0, 0
    for (scs, res, escaped), ml, ln in zip(reals, out, lines):
        w = ml.split()
        mres = [x.split("@")[0] for x in w[1:]]
        ncalls += len(scs)
        nesc += escaped
        # mknod/utimens on exotic cases: compare results literally
        if mres != res or (w[0] == "escaped") != escaped:
            bad.append({"script": scs, "kernel": res, "model": mres, "kernel_escaped": escaped, "model_verdict": w[0], "request": ln})
    return bad, {"scripts": n, "calls": ncalls, "scripts_escaping_R_in_kernel_and_model": nesc}


# ---------------------------------------------------------------------------------------------- driver
def build_cases(ctx):
    cases = []
    cdir = vlib.CORPUS / "C06"
    if cdir.exists():
        for p in sorted(cdir.glob("*.json")):
            for c in json.loads(p.read_text()):
                cases.append((p.stem + ":" + c.get("label", ""), node_from_tokens(c["tokens"]), c.get("flags", "-"), bytes.fromhex(c.get("upath", "2f")), c.get("precreate", True)))
    ncorpus = len(cases)
    rng = ctx.rng
    builtin = corpus_builtin()
    for label, t in builtin:
        fls = ALLFLAGS
        for fl in fls:
            cases.append(("builtin:" + label, t, fl, b"/", rng.random() < 0.5))
    nbuiltin = len(cases) - ncorpus
    nrand = 1200 if ctx.quick() else 30000
    for i in range(nrand):
        r = rng.random()
        if r < 0.35:
            t = rnd_tree(rng, hostile=0.0, dup=0.0)                 # benign names, hostile targets
        elif r < 0.7:
            t = rnd_tree(rng, hostile=0.12, dup=0.0)
        elif r < 0.85:
            t = rnd_tree(rng, hostile=0.1, dup=0.12)
        else:
            t = rnd_tree(rng, hostile=0.3, dup=0.05, depth=4, fan=4)
        fl = ALLFLAGS[i % 16] if rng.random() < 0.7 else rng.choice(ALLFLAGS)
        if rng.random() < 0.25:                                     # -D -S -F -L -E prune the tree before unpacking
            fl = (fl if fl != "-" else "") + "".join(c for c in "DSFLE" if rng.random() < 0.4) or "-"
        up = b"/"
        if rng.random() < 0.15:
            tops = [cstr(c.name) for c in t.children if cstr(c.name)] or [b"a"]
            sub = rng.choice(tops + [b"nonexistent"])
            up = rng.choice([b"/" + sub, sub, b"//" + sub + b"/", b"./" + sub, sub + b"/..", sub + b"/x", b"", b"."])
        cases.append(("random", t, fl, up, rng.random() < 0.5))
    return cases, ncorpus, nbuiltin, nrand


def build_rd(ctx):
    # fill_files.c calls qsort(NULL, 0, …) when the image has no regular file: UBSan's nonnull-attribute check
    # reports that (harmless in glibc, not a C06 matter; noted in docs/design/C06.md), so that one check is off
    return ctx.build_tool("rdsquashfs", tag="c06", flags=["-fno-sanitize=nonnull-attribute"])


def replay_dict(rec, why):
    return {"why": why, "label": rec["label"], "flags": rec["flags"], "upath": rec["upath"], "precreate": rec["precreate"],
            "tokens": rec["template"], "rc": rec["rc"], "stderr": rec["stderr"][-600:], "calls": rec["calls"][-40:], "changed_outside_R": rec["changed"][:10],
            "cmd": "rdsquashfs -q -u <upath> -p R <flags> img (image forged by tools/sqfs_forge.py from `tokens`), cwd = jail"}


def run(ctx):
    ok, problems = vlib.proof_gate(ctx, MODULE, REQUIRED)
    if not ok:
        ctx.violation("proof:C06", "proof obligations of C06 no longer check: " + " | ".join(problems)[:1500],
                      {"broken": problems, "theorems_file": "lean/Sqfs/Props/C06.lean"}, found_input=False)
    wok, wlog = ctx.lean_build(["Sqfs.Witness.C06"])
    if not wok:
        ctx.violation("proof:C06-witness", "the necessity witnesses (Sqfs/Witness/C06.lean) no longer check: the abstract file system may have lost the ability to express an escape",
                      {"log": wlog[-1500:]}, found_input=False)
    rd = build_rd(ctx)
    cases, ncorpus, nbuiltin, nrand = build_cases(ctx)
    ctx.log("cases: %d corpus, %d builtin x flags, %d random" % (ncorpus, nbuiltin, nrand))
    recs = []
    with concurrent.futures.ThreadPoolExecutor(max_workers=WORKERS) as ex:
        futs = [ex.submit(run_case, ctx, rd, i, lab, t, fl, up, pre) for i, (lab, t, fl, up, pre) in enumerate(cases)]
        for f in futs:
            recs.append(f.result())
    # a timeout under load is not a finding: re-run such cases alone with a much longer limit
    for i, r in enumerate(recs):
        if r["rc"] == "timeout":
            lab, t, fl, up, pre = cases[i]
            ctx.log("case %d timed out under load; re-running it in isolation" % i)
            recs[i] = run_case(ctx, rd, i, lab, t, fl, up, pre, timeout=6 * CASE_TIMEOUT)
    ctx.log("implementation runs done")
    execs = ctx.driver(["c06"], "\n".join(model_request(r, "exec") for r in recs) + "\n", timeout=3000)
    plans = ctx.driver(["c06"], "\n".join(model_request(r, "plan") for r in recs) + "\n", timeout=3000)
    hist = {"rc": {}, "model_status": {}, "impl_calls": 0, "skips_reported": 0}
    nontrivial, ndis, nviol = set(), 0, 0
    for rec, ml, pl in zip(recs, execs, plans):
        hist["rc"][str(rec["rc"])] = hist["rc"].get(str(rec["rc"]), 0) + 1
        st = ml.split()[0] if ml else "?"
        hist["model_status"][st] = hist["model_status"].get(st, 0) + 1
        hist["impl_calls"] += len(rec["calls"])
        hist["skips_reported"] += len(rec["skips"])
        key = "%s|%s|%s" % (vlib.sha(" ".join(rec["tokens"]))[:16], rec["flags"], rec["upath"])
        if rec["skips"] or st != "ok" or any(r != "0" for _, r in rec["calls"][1:]):
            nontrivial.add(key)
        # 1. the specification, on the implementation: nothing outside R changed
        if rec["changed"]:
            nviol += 1
            if nviol <= 5:
                ctx.violation("escape:" + key, "rdsquashfs changed objects outside the unpack root: %s" % json.dumps(rec["changed"][:3])[:600],
                              replay_dict(rec, "jail snapshot differs outside R"))
            continue
        if isinstance(rec["rc"], str) or rec["rc"] not in (0, 1):
            nviol += 1
            if nviol <= 5:
                ctx.violation("crash:" + key, "rdsquashfs ended abnormally (rc=%s): %s" % (rec["rc"], rec["stderr"][-400:]), replay_dict(rec, "abnormal end"))
            continue
        # 2. correspondence
        bad = compare(rec, ml) + compare_skips(rec, pl) + compare_state(rec, ml)
        if bad:
            ndis += 1
            if ndis <= 5:
                ctx.violation("corr:" + key, "model and rdsquashfs disagree (nothing outside R changed): " + "; ".join(bad)[:900],
                              dict(replay_dict(rec, bad), model=ml[:3000]), found_input=False)
    # 3. the model's POSIX semantics on the calls the tool really made (every run, not only on disagreement)
    mreqs = [(i, *monitor_request(r)) for i, r in enumerate(recs)]
    mreqs = [(i, q, res) for i, q, res in mreqs if q]
    mouts = ctx.driver(["c06"], "\n".join(q for _, q, _ in mreqs) + "\n", timeout=3000) if mreqs else []
    nmon = 0
    for (i, q, res), ml in zip(mreqs, mouts):
        w = ml.split()
        mres = [x.split("@")[0] for x in w[1:]]
        esc_model, esc_real = w[0] == "escaped", bool(recs[i]["changed"])
        if mres == res and esc_model and not esc_real:
            # every errno agrees, and by the model's semantics a successful call wrote an object that is not below R, but the
            # snapshot shows no difference: the value written equals the old one (e.g. chmod to the mode it already had)
            nmon += 1
            if nmon <= 3:
                ctx.violation("escape-by-model:" + vlib.sha(q)[:12], "a system call of the unpack run resolved, by the model's POSIX semantics, to an object outside R "
                              "and succeeded (the jail snapshot shows no difference because the value written equals the old one): %s" % ml[:300],
                              dict(replay_dict(recs[i], "model monitor: write outside R"), monitor=ml[:4000]))
        elif mres != res or esc_model != esc_real:
            nmon += 1
            if nmon <= 3:
                ctx.violation("posix-model:run:" + vlib.sha(q)[:12], "the abstract POSIX model disagrees with the kernel on the calls of an unpack run: kernel %s model %s; "
                              "changed outside R: kernel %s, model %s" % (res[:12], mres[:12], esc_real, w[0]), {"request": q[:20000], "kernel": res, "model": ml[:4000]}, found_input=False)
    pbad, pstat = posix_probe(ctx, 400 if ctx.quick() else 8000)
    for b in pbad[:5]:
        ctx.violation("posix-model:" + vlib.sha(json.dumps(b["script"]))[:12],
                      "the abstract POSIX model and the kernel disagree on a system-call script: kernel %s model %s (verdicts: kernel escaped=%s, model %s)" % (
                          b["kernel"], b["model"], b["kernel_escaped"], b["model_verdict"]), b, found_input=False)
    samples = []
    for i in (0, len(recs) // 3, len(recs) - 1):
        r = recs[i]
        samples.append({"label": r["label"], "flags": r["flags"], "upath": r["upath"], "nodes": len(r["tokens"]), "rc": r["rc"],
                        "calls": [c for c, _ in r["calls"]][:8], "model": execs[i][:300]})
    ctx.cov.update({
        "evaluations": len(recs) + pstat["scripts"],
        "distinct_nontrivial": len(nontrivial),
        "rule": "forged images (corpus %d, %d builtin attack shapes x option subsets, %d seeded random hostile trees; all 16 subsets of -C -O -X -T, 25%% also with a subset of -D -S -F -L -E; "
                "15%% with an unpack sub-path) unpacked by the ASan+UBSan rdsquashfs of the working tree under strace in a jail with decoys; "
                "non-trivial = distinct (tree, flags, path) where an entry was skipped, the tool failed, or a system call failed" % (ncorpus, nbuiltin, nrand),
        "samples": samples,
        "disagreements_checked": ndis + nviol + len(pbad) + nmon,
        "histogram": hist,
        "posix_model_probe": pstat,
        "monitor_on_real_calls": {"runs": len(mreqs), "disagreements": nmon},
    })
    return ctx.finish(LEVEL, trusted_extra=[
        "abstract POSIX file system of Sqfs/Model/Unpack.lean (path resolution, symlink following, O_EXCL / O_CREAT|O_TRUNC / AT_SYMLINK_NOFOLLOW rules): "
        "hypothesis of the theorems, validated against the kernel by random system-call scripts on every run (posix_model_probe)",
        "strace (system-call log), tools/sqfs_forge.py (image writer), the jail snapshot in tools/checks/c06.py",
        "modelled: rdsquashfs.c (tree_sort, OP_UNPACK), restore_fstree.c, fill_files.c, dir_tree.c (sqfs_tree_node_get_path), read_tree.c (names as C strings, "
        "children only below directory inodes, --unpack-path lookup); canonicalize_name / is_filename_sane via the C18 model"],
        assumptions=["R is fresh: a directory with nothing below it that the run did not create (a pre-populated R is outside the property)",
                     "no other process modifies R during the run"])


def replay(ctx, path):
    body = json.loads(open(path).read())
    rp = body.get("replay", {})
    if "tokens" not in rp:
        print("replay file names a broken obligation / model probe, no image to replay:", json.dumps(rp)[:800])
        return 1
    ctx.lean_build(["sqfsmodel"])
    rd = build_rd(ctx)
    rec = run_case(ctx, rd, 0, rp.get("label", "replay"), node_from_tokens(rp["tokens"]), rp["flags"], bytes.fromhex(rp["upath"]), rp["precreate"])
    ml = ctx.driver(["c06"], model_request(rec, "exec") + "\n")[0]
    pl = ctx.driver(["c06"], model_request(rec, "plan") + "\n")[0]
    print("exit status :", rec["rc"])
    print("stderr      :", rec["stderr"][-500:])
    print("calls       :", rec["calls"][:60])
    print("model       :", ml[:2000])
    print("changed outside R:", json.dumps(rec["changed"])[:1500])
    bad = compare(rec, ml) + compare_skips(rec, pl) + compare_state(rec, ml)
    print("disagreements:", bad)
    return 1 if rec["changed"] or bad or rec["rc"] not in (0, 1) else 0
