"""
C06 — unpacking any image writes only inside the chosen unpack directory.

Proof: lean/Sqfs/Props/C06.lean (confinement of `unpackTree` / `unpackMain` over the abstract POSIX file system of
lean/Sqfs/Model/Unpack.lean, for all trees / flags / fill orders / unpack roots / failing calls).

Tie: hostile images are forged (tools/sqfs_forge.py: arbitrary name bytes, order, repetition, symlink targets, hard
links, damaged data blocks and xattr records), the ASan+UBSan `rdsquashfs` built from the working tree unpacks them under
`strace` inside a jail directory that surrounds R and holds decoys; the observed sequence of mutating system calls
(name, path bytes, mode/owner/time arguments, result) is compared with `sqfsmodel c06 main` (= `unpackMain`: tree_sort,
mkdir_p(R), chdir(R), the three walks, from the jail's real initial state) on the same tree, the stderr skip reports
with the model's skip events, the exit status with the model's, the error message with the model's error kind, the
content of R with the model's final state; and the jail outside R is snapshotted before/after (type, mode, owner, size,
mtime, content hash, link target, xattrs): the *specification* — nothing outside R may change, except that `mkdir_p`
may make new empty directories on the way to R — is evaluated directly on the implementation's behaviour.

R is absent / an empty directory / a regular file / a dangling link / a link to a directory or to a file / a link loop
/ a directory with content; `-p` is spelled in several ways (also through a file, a dangling link, a read-only or
unsearchable directory) or not given; the tool is started in the jail or in an empty sentinel directory.  Part of the
runs are made as an unprivileged user (`setpriv`, uid 65534): the calls the kernel then refuses (EPERM/EACCES) are
predicted by a small table in this file and handed to the model as environment faults (`Faults`).  A third stream
injects a failure (EEXIST, ENOTSUP, ENOSYS, EPERM, EACCES, ENOSPC, EINTR, …) into one occurrence of one system-call class
through link-time wrappers (harness/h_c06_fault.c) and demands the same agreement.  The Lean monitor (`step/resolve` on
the calls really made) judges every run.  A last stream validates the trusted POSIX model itself: random system-call
scripts are executed for real in a jail with symlinks and compared with `sqfsmodel c06 monitor`.
"""
import concurrent.futures, copy, errno, hashlib, json, os, re, shutil, stat, subprocess
import vlib
from sqfs_forge import Node, forge, has_xattr_table

LEVEL = "proof"
MODULE = "Sqfs.Props.C06"
REQUIRED = ["Sqfs.C06.confinement", "Sqfs.C06.confinement_raw", "Sqfs.C06.plan_paths_clean", "Sqfs.C06.plan_prefix_dirs",
            "Sqfs.C06.resolve_stays_under_R", "Sqfs.C06.treeSort_names_distinct", "Sqfs.C06.nul_cut_names_are_duplicates", "Sqfs.C06.below_R_only_tree_nodes",
            "Sqfs.C06.skipped_reported_rest_unpacked", "Sqfs.C06.get_path_then_canonicalize_never_fails",
            "Sqfs.C06.confinement_under_faults", "Sqfs.C06.main_confinement", "Sqfs.C06.root_not_established_nothing_unpacked",
            "Sqfs.C06.failed_chdir_writes_nothing", "Sqfs.C06.failing_step_ends_run", "Sqfs.C06.failing_mkdir_p_ends_run",
            "Sqfs.C06.success_means_everything_unpacked", "Sqfs.C06.exit_zero_of_all_fine", "Sqfs.C06.skip_reports_exact",
            "Sqfs.C06.confinement_without_symlinks_below", "Sqfs.C06.main_confinement_weak", "Sqfs.C06.ordByLoc_is_a_fill_order",
            # the repaired create_node (fixes/C06-mkdir-eexist-lstat.patch): no hypothesis on what R holds
            "Sqfs.C06.confinement_any_R", "Sqfs.C06.repaired_touches_only_named_paths", "Sqfs.C06.main_confinement_any_R",
            "Sqfs.C06.repaired_success_objects_in_place"]
TRACE = ("mkdir,mkdirat,symlink,symlinkat,mknod,mknodat,open,openat,creat,lsetxattr,setxattr,fsetxattr,utimensat,utimes,"
         "futimesat,utime,fchownat,chown,lchown,fchown,fchmodat,chmod,fchmod,chdir,fchdir,unlink,unlinkat,rename,renameat,"
         "renameat2,link,linkat,truncate,rmdir,removexattr,lremovexattr,chroot,mount")
ALLFLAGS = ["".join(c for c, b in zip("COXT", bits) if b) or "-" for bits in
            [[(i >> k) & 1 for k in range(4)] for i in range(16)]]
WORKERS = max(1, int(os.environ.get("VERIF_JOBS", "6")))     # parallel rdsquashfs+strace runs
CASE_TIMEOUT = 300          # seconds; an idle machine needs ~0.1 s per case
NOBODY = 65534
BLOCK = 4096                # block size of the forged images
RSTATES = ["absent", "empty", "file", "dangling", "link_dir", "link_file", "loop", "populated"]
# R populated *with symbolic links below it* (left there by an earlier unpack, say): (path below R, target) — the directories on
# the way are real ones.  `link_hit_tree()` names every one of these paths except `zz_unnamed`.  Targets `../lt_*` / `ABS/lt_*`
# are decoys in the jail made for this purpose: what appears there came through a link that was in R before the run.
LINK_STATES = {
    "lnk_dir1": [(b"a", b"../lt_dir")],                       # directory link at depth 1, 2, 3
    "lnk_dir2": [(b"d/a", b"../../lt_dir")],
    "lnk_dir3": [(b"d/e/a", b"../../../lt_dir")],
    "lnk_abs1": [(b"a", b"ABS/lt_dir")],                       # absolute target
    "lnk_abs3": [(b"d/e/a", b"ABS/lt_dir/sub")],
    "lnk_file1": [(b"f", b"../lt_file")],                      # link to a file where the image has a file
    "lnk_file2": [(b"d/f", b"../../lt_file")],
    "lnk_filedir1": [(b"a", b"../lt_file")],                   # link to a file where the image has a directory
    "lnk_dang1": [(b"a", b"nowhere")],                         # dangling, depth 1..3
    "lnk_dang2": [(b"d/a", b"../nowhere")],
    "lnk_dang3": [(b"d/e/f", b"../../../lt_dir/new_through_dangling")],   # dangling link at a *file* name: O_EXCL must refuse it
    "lnk_inner1": [(b"a", b"d")],                              # link that stays inside R
    "lnk_unnamed": [(b"zz_unnamed", b"../lt_dir"), (b"d/zz_unnamed", b"../../lt_file")],   # paths the image does not name
    "lnk_many": [(b"a", b"../lt_dir"), (b"d/a", b"../../lt_dir/sub"), (b"f", b"../lt_file"), (b"d/e/a", b"nowhere")],
}
RSTATES += sorted(LINK_STATES)
KNOWN_LINK_ESCAPE = "escape:symlink-below-R"     # the one key under which the tolerated-EEXIST defect is reported (known_findings.d/C06.json)
MAIN_OP = ["main"]                               # "mainr" when the tree under test has the repaired create_node (probe_variant)
WRAPPED = ["mkdir", "symlink", "mknod", "open", "open64", "utimensat", "fchownat", "fchmodat", "lsetxattr", "chdir",
           "write", "pwrite", "pwrite64", "ftruncate", "ftruncate64", "fsync", "close"]
# calls on the descriptor of a file being filled (ostream.c write_all / realize_sparse / file_flush / file_destroy, unix.c): not calls of
# the model (it has the file's content appear with the open) — injected and judged by the specification alone (judge_wfaults)
WCLASSES = ["write", "pwrite", "ftruncate", "fsync", "close"]
WFAULT_ERRNOS = ["EIO", "ENOSPC", "EDQUOT", "EFBIG", "EINTR", "EINVAL", "EBADF", "EROFS", "EPERM", "EAGAIN"]
# what the code is *meant* to survive: write()/ftruncate() interrupted by a signal are retried (ostream.c:44, unix.c:82), fsync() on an
# object that cannot be synced answers EINVAL (ostream.c:132), close() after a successful fsync() carries no news (unix.c:47, result
# dropped; EINTR retried).  With any other injected failure the exit status must not be 0.
WTOLERATED = {("write", "EINTR"), ("ftruncate", "EINTR"), ("fsync", "EINVAL")} | {("close", e) for e in WFAULT_ERRNOS}
FAULT_ERRNOS = ["EEXIST", "ENOTSUP", "ENOSYS", "EPERM", "EACCES", "ENOSPC", "EINTR", "EIO", "EROFS", "ENOENT", "ELOOP", "ENOMEM"]
CLASS_OF = {"mkdir": "mkdir", "symlink": "symlink", "mknod": "mknod", "openx": "open", "opent": "open", "utimens": "utimensat",
            "chown": "fchownat", "chmod": "fchmodat", "setxattr": "lsetxattr", "chdir": "chdir"}


class Infra(vlib.CheckFailure):
    """the check's own machinery did not do what it must (short answer, bad-op, nothing evaluated): never a pass"""


def hx(b):
    return b.hex() if b else "-"


def unhx(t):
    return b"" if t == "-" else bytes.fromhex(t)


def cstr(b):
    i = b.find(b"\0")
    return b if i < 0 else b[:i]


# ---------------------------------------------------------------------------------------------- trees
def node_from_tokens(toks):
    """inverse of Node.tokens() (10 fields, 12 with the damage fields, 13 with the data start forge() chose)"""
    def rec(i):
        f = toks[i].split(":")
        if len(f) not in (10, 12, 13):
            raise ValueError("node token with %d fields" % len(f))
        k, n, p, perm, uid, gid, mt, dev, xa, nch = f[:10]
        cf, xf = (f[10], f[11]) if len(f) >= 12 else ("-", "-")         # f[12]: where forge() put the data
        xattrs = [] if xa == "-" else [tuple(unhx(x) for x in kv.split("=")) for kv in xa.split(",")]
        i += 1
        ch = []
        for _ in range(int(nch)):
            c, i = rec(i)
            ch.append(c)
        nd = Node(unhx(n), k, unhx(p), int(perm), int(uid), int(gid), int(mt), int(dev), xattrs, ch,
                  copy_fail=None if cf == "-" else int(cf) // BLOCK,
                  xattr_fail=None if xf == "-" else (("index",) if int(xf) == 0 else ("key", int(xf))))
        if k != "d" and ch:
            raise ValueError("children on a non-directory")
        return nd, i
    nd, i = rec(0)
    assert i == len(toks)
    return nd


NAMES_BAD = [b".", b"..", b"a/b", b"/", b"/abs", b"../decoy_file", b"../decoy_dir", b"a/", b"/a", b"a/../b", b"./a", b"..\0x",
             b".\0", b"\0", b"\0a", b"../..", b"ABS/decoy_dir", b"ABS/decoy_file", b"..//", b"/.."]
NAMES_OK = [b"a", b"b", b"c", b"x", b"A", b"...", b"..a", b".a", b"a.", b"a..", b"a\0b", b"a\0", b"b\0/../x", b" ", b"\xff", b"\xc3\xa4",
            b"decoy_dir", b"decoy_file", b"R", b"-u", b"a b", b"\\", b"a\nb", b"\x01"]
# no target leaves `outer` (two levels above R): a *mutated* tool run as root must not be able to touch the real system
TARGETS = [b"../decoy_dir", b"../decoy_file", b"..", b".", b"ABS/..", b"ABS/decoy_dir", b"ABS/decoy_file", b"ABS", b"../..", b"x", b"a", b"b",
           b"", b"\0", b"../decoy_dir\0junk", b"b/..", b"../R/b", b"../decoy_link", b"../nonexistent", b"a/b/c", b"../decoy_dir/",
           b"../decoy_dir/inner", b"./../decoy_dir", b"ABS//", b"loop", b"../outer_file", b"../start", b"../blocker"]
XKEYS = [b"user.c06", b"trusted.c06", b"security.c06", b"user.a\0b", b"user.", b"trusted.overlay.opaque"]
PAYLOADS = [b"", b"data", b"\0" * 5000, bytes(range(256)) * 20, b"z" * 4096, b"q" * 9000, b"\0" * 4096 + b"tail" * 2000]


def rnd_attr(rng):
    d = {}
    if rng.random() < 0.5:
        d["perm"] = rng.choice([0o644, 0o755, 0o600, 0o4755, 0o1777, 0, 0o7777, 0o444, 0o111])
    if rng.random() < 0.4:
        d["uid"] = rng.choice([0, 1, 1000, 65534, 0xFFFFFFFF, 0xFFFFFFFE, 12345])
        d["gid"] = rng.choice([0, 1, 100, 65534, 0xFFFFFFFF, 777])
    if rng.random() < 0.4:
        d["mtime"] = rng.choice([0, 1, 1234567890, 0x7FFFFFFF, 0xFFFFFFFF, 86400])
    if rng.random() < 0.25:
        d["xattrs"] = [(rng.choice(XKEYS), rng.choice([b"", b"v", b"\0\1\2", b"x" * 40])) for _ in range(rng.randint(1, 2))]
    return d


def rnd_name(rng, hostile):
    r = rng.random()
    if r < hostile:
        return rng.choice(NAMES_BAD)
    if r < hostile + 0.03:
        return bytes([rng.choice([0x61, 0x2e, 0x2f, 0, 0x62])]) * rng.choice([254, 255, 256, 257, 300])
    if r < hostile + 0.10:
        return bytes(rng.choice([0x2e, 0x2f, 0x61, 0x62, 0, 0x2e, 0x2f]) for _ in range(rng.randint(1, 5)))
    return rng.choice(NAMES_OK)


def rnd_tree(rng, hostile=0.15, dup=0.1, depth=3, fan=5, damage=0.0, links=0.0, minfan=0):
    """damage: probability per node of a data block / xattr record the reader refuses; links: of a hard link"""
    def kids(d):
        out = []
        for _ in range(rng.randint(minfan if d == depth else 0, fan if d == depth or not minfan else 4)):
            if out and rng.random() < dup:
                nm = rng.choice(out).name
                if rng.random() < 0.3:
                    nm = cstr(nm) + b"\0" + bytes([rng.randint(0, 255)])
                if not nm:
                    nm = b"\0"
            else:
                nm = rnd_name(rng, hostile)
            k = rng.choice("ddddfffflllbcps")
            a = rnd_attr(rng)
            if damage and rng.random() < damage:
                xs = a.get("xattrs") or []
                a["xattr_fail"] = ("key", rng.randrange(len(xs))) if xs and rng.random() < 0.6 else ("index",)
            if k == "d":
                out.append(Node(nm, "d", children=kids(d - 1) if d > 0 else [], **a))
            elif k == "f":
                files = [o for o in out if o.kind == "f" and o.link_of is None]
                if links and files and rng.random() < links:
                    o = rng.choice(files)
                    out.append(Node(nm, "f", payload=o.payload, perm=o.perm, uid=o.uid, gid=o.gid, mtime=o.mtime, xattrs=o.xattrs,
                                    copy_fail=o.copy_fail, xattr_fail=o.xattr_fail, link_of=o))
                    continue
                pl = rng.choice(PAYLOADS)
                nblk = (len(pl) + BLOCK - 1) // BLOCK
                cf = rng.randrange(nblk) if damage and nblk and rng.random() < damage * 1.5 else None
                out.append(Node(nm, "f", payload=pl, copy_fail=cf, **a))
            elif k == "l":
                out.append(Node(nm, "l", payload=rng.choice(TARGETS), **a))
            else:
                out.append(Node(nm, k, devno=rng.choice([0x103, 0x105, 0, 0x801, 0xFFFFF, 0x12345678]), **a))
        if not links:
            rng.shuffle(out)            # with hard links the first link has to come first in the listing
        return out
    a = rnd_attr(rng)
    return Node(b"", "d", children=kids(depth), **a)


def deep_chain(n, comp, leaf):
    t = leaf
    for _ in range(n):
        t = Node(comp, "d", children=[t])
    return Node(b"", "d", children=[t])


def corpus_builtin():
    """hand-written attack shapes (each is run with all 16 option subsets)"""
    N = Node
    out = []
    out.append(("symlink+dir same name", N(b"", "d", children=[N(b"a", "l", payload=b"../decoy_dir"), N(b"a", "d", children=[N(b"pwn", "f", payload=b"pwned")])])))
    out.append(("dir+symlink same name", N(b"", "d", children=[N(b"a", "d", children=[N(b"pwn", "f", payload=b"pwned")]), N(b"a", "l", payload=b"../decoy_dir")])))
    out.append(("symlink+file same name", N(b"", "d", children=[N(b"a", "l", payload=b"../decoy_file"), N(b"a", "f", payload=b"pwned", perm=0o777, uid=1, gid=1)])))
    out.append(("symlink+file same name after NUL cut", N(b"", "d", children=[N(b"a\0x", "l", payload=b"../decoy_file"), N(b"a\0y", "f", payload=b"pwned")])))
    out.append(("dotdot dir with content", N(b"", "d", children=[N(b"..", "d", perm=0o777, uid=7, children=[N(b"decoy_file", "f", payload=b"pwned"), N(b"pwn", "f")]), N(b"ok", "f", payload=b"fine")])))
    out.append(("dot dir", N(b"", "d", children=[N(b".", "d", perm=0o700, uid=5, mtime=99, children=[N(b"inR", "f")])])))
    out.append(("slash names", N(b"", "d", children=[N(b"../decoy_file", "f", payload=b"pwned"), N(b"ABS/decoy_file", "f", payload=b"pwned"), N(b"/", "d"), N(b"sub/x", "d"),
                                                    N(b"sub", "d", children=[N(b"../../decoy_file", "f", payload=b"pwned")])])))
    out.append(("empty-equivalent names", N(b"", "d", children=[N(b"ok", "f"), N(b"\0", "f", payload=b"x"), N(b"zz", "f")])))
    out.append(("empty name deeper", N(b"", "d", children=[N(b"d", "d", children=[N(b"\0abc", "d", children=[N(b"x", "f")])]), N(b"a", "f")])))
    out.append(("symlinks anywhere + all attrs", N(b"", "d", children=[
        N(b"l1", "l", payload=b"../decoy_file", perm=0, uid=1234, gid=4321, mtime=1, xattrs=[(b"trusted.c06", b"v"), (b"user.c06", b"v")]),
        N(b"l2", "l", payload=b"../decoy_dir", perm=0, uid=1234, gid=4321, mtime=1, xattrs=[(b"trusted.c06", b"v")]),
        N(b"l3", "l", payload=b"ABS/decoy_dir", perm=0o7777, uid=1, gid=1, mtime=5, xattrs=[(b"security.c06", b"v")]),
        N(b"l4", "l", payload=b"..", uid=9, gid=9, mtime=5), N(b"l5", "l", payload=b"ABS/..", uid=9, gid=9, mtime=5),
        N(b"l6", "l", payload=b".", uid=9, gid=9, mtime=5, perm=0), N(b"l7", "l", payload=b"../..", uid=9, gid=9, mtime=5, perm=0)])))
    out.append(("empty symlink target", N(b"", "d", children=[N(b"a", "f"), N(b"l", "l", payload=b""), N(b"z", "f")])))
    out.append(("NUL symlink target", N(b"", "d", children=[N(b"l", "l", payload=b"\0../decoy_dir"), N(b"z", "f")])))
    out.append(("deep chain beyond PATH_MAX", deep_chain(40, b"n" * 120, N(b"leaf", "f", payload=b"x"))))
    out.append(("name of 256 bytes", N(b"", "d", children=[N(b"a", "f"), N(b"n" * 256, "d", children=[N(b"x", "f")]), N(b"z", "f")])))
    out.append(("name of 255 bytes", N(b"", "d", children=[N(b"n" * 255, "d", children=[N(b"x", "f", payload=b"1")])])))
    out.append(("root inode is a symlink", N(b"", "l", payload=b"../decoy_file", uid=3)))
    out.append(("root inode is a file", N(b"", "f", payload=b"pwned", perm=0o777)))
    out.append(("case variants", N(b"", "d", children=[N(b"a", "l", payload=b"../decoy_dir"), N(b"A", "d", children=[N(b"x", "f")])])))
    out.append(("devices fifos sockets", N(b"", "d", children=[N(b"blk", "b", devno=0x801, perm=0o600), N(b"chr", "c", devno=0x103, perm=0o666, uid=2),
                                                              N(b"fifo", "p", perm=0o640), N(b"sock", "s", perm=0o600, xattrs=[(b"user.c06", b"v")])])))
    out.append(("symlink chain inside R then dup", N(b"", "d", children=[N(b"p", "l", payload=b"q"), N(b"q", "l", payload=b"../decoy_dir"), N(b"p", "d", children=[N(b"x", "f")])])))
    out.append(("nested dup below symlink-named dir", N(b"", "d", children=[N(b"d", "d", children=[N(b"a", "l", payload=b"../../decoy_dir"), N(b"a", "d", children=[N(b"x", "f", payload=b"pwned")])])])))
    # wide directories in adversarial listing order: a slip in tree_sort's merge (an element dropped or left in place at a run
    # boundary, the adjacent-duplicate test missing a pair that only meets after the last merge) needs more than a handful of siblings
    wide = [N(b"n%02d" % i, "dfl"[i % 3], payload=(b"../decoy_dir" if i % 3 == 2 else b"p%d" % i if i % 3 == 1 else b""),
              children=([N(b"c", "f", payload=b"c")] if i % 3 == 0 else [])) for i in range(12)]
    out.append(("12 siblings in reverse order", N(b"", "d", children=wide[::-1])))
    out.append(("13 siblings interleaved", N(b"", "d", children=wide[::2] + [N(b"m", "f", payload=b"m")] + wide[1::2][::-1])))
    far = [N(b"a", "l", payload=b"../decoy_dir")] + [N(bytes([98 + i]), "df"[i % 2], payload=b"x" if i % 2 else b"") for i in range(8)] + \
          [N(b"a", "d", children=[N(b"pwn", "f", payload=b"pwned")])]
    out.append(("duplicate first and last of 10 siblings", N(b"", "d", children=far)))
    out.append(("duplicate across the middle of 9 siblings", N(b"", "d", children=[N(b"h", "f"), N(b"g", "d"), N(b"f", "f"), N(b"e", "d"),
                N(b"a", "l", payload=b"../decoy_file"), N(b"a", "f", payload=b"pwned", perm=0o777), N(b"d", "f"), N(b"c", "d"), N(b"b", "f")])))
    out.append(("duplicate dir+symlink, 11 siblings, dup at positions 3 and 8", N(b"", "d", children=[N(b"k", "f"), N(b"j", "f"), N(b"z", "f"),
                N(b"q", "d", children=[N(b"pwn", "f", payload=b"pwned")]), N(b"i", "f"), N(b"y", "d"), N(b"x", "f"), N(b"w", "f"),
                N(b"q", "l", payload=b"../decoy_dir"), N(b"b", "f"), N(b"a", "f")])))
    pre = [b"a", b"aa", b"aaa", b"a.", b"a-", b"A", b"ab", b"a\0z", b"b", b"aa\0", b"a b", b"ab\0c", b"\xff", b"a\xff", b"B", b"0"]
    out.append(("16 siblings with shared prefixes and NUL-cut duplicates", N(b"", "d", children=[
        N(nm, "dlf"[i % 3], payload=(b"../decoy_dir" if i % 3 == 1 else b"f%d" % i if i % 3 == 2 else b""),
          children=([N(b"in", "f", payload=b"in")] if i % 3 == 0 else [])) for i, nm in enumerate(pre)])))
    out.append(("40 siblings, descending, two levels", N(b"", "d", children=[N(b"s%02d" % i, "d", children=[N(b"t%02d" % j, "f", payload=b"%d" % j) for j in range(9, -1, -1)])
                                                                          for i in range(39, 29, -1)] + [N(b"r%02d" % i, "f") for i in range(29, -1, -1)])))
    out.append(("xattrs everywhere", N(b"", "d", children=[N(b"f", "f", payload=b"1", xattrs=[(b"user.c06", b"1"), (b"trusted.c06", b"2"), (b"security.c06", b"3")]),
                                                         N(b"d", "d", xattrs=[(b"user.c06", b"d")], children=[N(b"l", "l", payload=b"../../decoy_file", xattrs=[(b"user.c06", b"l")])])])))
    return out


def link_hit_tree():
    """a harmless image whose directories and files sit at the paths of LINK_STATES"""
    N = Node
    return N(b"", "d", children=[
        N(b"a", "d", perm=0o750, uid=3, gid=3, mtime=77, xattrs=[(b"user.c06", b"a")], children=[
            N(b"x", "f", payload=b"through a\n", perm=0o640, uid=3, mtime=78), N(b"sub", "d", children=[N(b"y", "f", payload=b"y\n")])]),
        N(b"d", "d", children=[
            N(b"a", "d", mtime=79, children=[N(b"x", "f", payload=b"through d/a\n", uid=4)]),
            N(b"e", "d", children=[N(b"a", "d", perm=0o700, children=[N(b"x", "f", payload=b"through d/e/a\n"), N(b"l", "l", payload=b"../../../../decoy_file")]),
                                   N(b"f", "f", payload=b"d/e/f\n", mtime=80)]),
            N(b"f", "f", payload=b"d/f\n", perm=0o600, uid=5)]),
        N(b"f", "f", payload=b"f\n", perm=0o644, uid=6, gid=6, mtime=81, xattrs=[(b"user.c06", b"f")]),
        N(b"top.txt", "f", payload=b"top\n")])


def small_trees():
    """small shapes for the unpack-root, unprivileged and fault-injection streams"""
    N = Node
    out = []
    out.append(("plain", N(b"", "d", children=[N(b"top.txt", "f", payload=b"top\n", perm=0o640, uid=1, gid=1, mtime=1234567890),
                                               N(b"lnk", "l", payload=b"sub/file.txt", mtime=1234567890),
                                               N(b"sub", "d", perm=0o750, mtime=5, children=[N(b"file.txt", "f", payload=b"hello\n", mtime=7)])])))
    out.append(("links out", N(b"", "d", mtime=1, children=[N(b"zz_link", "l", payload=b"../decoy_file", uid=7, gid=7, mtime=1234567890,
                                                                  xattrs=[(b"trusted.c06", b"v")]),
                                                               N(b"dl", "l", payload=b"../decoy_dir", mtime=1234567890),
                                                               N(b"al", "l", payload=b"ABS/decoy_file", mtime=99),
                                                               N(b"sl", "l", payload=b"../start", mtime=99),
                                                               N(b"dir", "d", children=[N(b"file", "f", payload=b"data\n", xattrs=[(b"user.c06", b"1")])])])))
    out.append(("all kinds", N(b"", "d", children=[N(b"blk", "b", devno=0x801, perm=0o600), N(b"chr", "c", devno=0x103, perm=0o666, uid=2),
                                                   N(b"fifo", "p", perm=0o640, mtime=3), N(b"sock", "s", perm=0o600),
                                                   N(b"f", "f", payload=b"q" * 9000, perm=0o400, xattrs=[(b"user.c06", b"1"), (b"security.c06", b"3")]),
                                                   N(b"d", "d", perm=0o700, children=[N(b"l", "l", payload=b"../../decoy_file"), N(b"g", "f", perm=0)])])))
    out.append(("skips and content", N(b"", "d", children=[N(b"..", "d", children=[N(b"pwn", "f", payload=b"pwned")]), N(b"a/b", "f"),
                                                           N(b"ok", "d", children=[N(b".", "f"), N(b"z", "f", payload=b"z")])])))
    out.append(("damaged block", N(b"", "d", children=[N(b"a", "f", payload=b"A" * 10000, copy_fail=1), N(b"b", "f", payload=b"hello"),
                                                       N(b"c", "l", payload=b"../decoy_file", uid=3)])))
    out.append(("damaged first block", N(b"", "d", children=[N(b"a", "f", payload=b"A" * 100, copy_fail=0), N(b"b", "f", payload=b"hello")])))
    out.append(("damaged xattr key", N(b"", "d", children=[N(b"a", "f", payload=b"x", xattrs=[(b"user.a", b"1"), (b"user.b", b"2")], xattr_fail=("key", 1)),
                                                           N(b"b", "f", payload=b"hello", uid=9), N(b"c", "f", xattrs=[(b"user.c", b"3")])])))
    out.append(("xattr index out of range", N(b"", "d", children=[N(b"a", "f", payload=b"x", xattrs=[(b"user.a", b"1")]),
                                                                  N(b"b", "l", payload=b"../decoy_file", xattr_fail=("index",)), N(b"c", "f")])))
    out.append(("xattr index without a table", N(b"", "d", children=[N(b"a", "f", payload=b"x", xattr_fail=("index",), mtime=4)])))
    o = N(b"o", "f", payload=b"orig" * 2000, perm=0o600, uid=4)
    out.append(("hard links", N(b"", "d", children=[o, N(b"l1", "f", payload=o.payload, perm=0o600, uid=4, link_of=o),
                                                    N(b"d", "d", children=[N(b"l2", "f", payload=o.payload, perm=0o600, uid=4, link_of=o)])])))
    return out


# ---------------------------------------------------------------------------------------------- jail
def make_jail(base, rstate):
    """base/outer/jail/{decoys, start/, R}; the state of R before the run is `rstate`"""
    outer = base / "outer"
    jail = outer / "jail"
    os.makedirs(jail / "decoy_dir" / "sub")
    (outer / "outer_file").write_bytes(b"outer\n")
    (jail / "decoy_file").write_bytes(b"decoy\n")
    (jail / "decoy_dir" / "inner").write_bytes(b"inner\n")
    (jail / "x").write_bytes(b"x\n")
    (jail / "blocker").write_bytes(b"i am a file\n")
    os.symlink("decoy_dir", jail / "decoy_link")
    os.symlink("loop", jail / "loop")
    os.symlink("nonexistent_target", jail / "dangling")
    os.mkdir(jail / "start")                         # sentinel: must stay empty
    os.mkdir(jail / "ro")
    os.mkdir(jail / "noexec")
    os.makedirs(jail / "lt_dir" / "sub")              # where the links of LINK_STATES point
    (jail / "lt_dir" / "x0").write_bytes(b"was here\n")
    (jail / "lt_file").write_bytes(b"link target\n")
    R = jail / "R"
    if rstate == "empty":
        os.mkdir(R)
    elif rstate == "file":
        R.write_bytes(b"R is a file\n")
    elif rstate == "dangling":
        os.symlink("nowhere", R)
    elif rstate == "link_dir":
        os.mkdir(jail / "Rtarget")
        os.symlink("Rtarget", R)
    elif rstate == "link_file":
        os.symlink("decoy_file", R)
    elif rstate == "loop":
        os.symlink("R", R)
    elif rstate == "populated":
        os.makedirs(R / "pd")
        (R / "keep").write_bytes(b"keep\n")
        (R / "pd" / "inner").write_bytes(b"inner\n")
        os.mkdir(R / "a")
        (R / "b").write_bytes(b"was here\n")
    elif rstate in LINK_STATES:
        os.mkdir(R)
        (R / "keep").write_bytes(b"keep\n")
        for rel, tgt in LINK_STATES[rstate]:
            q = os.fsencode(R) + b"/" + rel
            os.makedirs(os.path.dirname(q), exist_ok=True)
            os.symlink(tgt.replace(b"ABS", os.fsencode(jail)), q)
    elif rstate != "absent":
        raise ValueError(rstate)
    os.chmod(jail / "decoy_file", 0o640)
    os.chmod(jail / "decoy_dir", 0o750)
    for p in (jail / "decoy_file", jail / "decoy_dir", jail / "x", outer / "outer_file", jail / "decoy_dir" / "inner", jail / "start",
              jail / "blocker", jail / "lt_file", jail / "lt_dir", jail / "lt_dir" / "sub", jail / "lt_dir" / "x0", jail, outer):
        os.utime(p, ns=(10**18, 10**18))
    return outer, jail


def chown_tree(top, uid):
    for d, dn, fn in os.walk(top):
        os.lchown(d, uid, uid)
        for x in dn + fn:
            os.lchown(os.path.join(d, x), uid, uid)


def key_of(path_bytes):
    comps = [c for c in path_bytes.split(b"/") if c]
    return "/" + "/".join(c.hex() for c in comps) if comps else "/"


def fs_entries(outer):
    """the file system as the model's FSENT tokens: every ancestor of `outer` as a directory, everything below it"""
    ob = os.fsencode(outer)
    ents, p = ["/:d"], b""
    for c in [c for c in ob.split(b"/") if c][:-1]:
        p += b"/" + c
        ents.append(key_of(p) + ":d")
    stack = [ob]
    while stack:
        q = stack.pop()
        st = os.lstat(q)
        if stat.S_ISDIR(st.st_mode):
            ents.append(key_of(q) + ":d")
            for x in sorted(os.listdir(q)):
                stack.append(q + b"/" + x)
        elif stat.S_ISLNK(st.st_mode):
            ents.append(key_of(q) + ":l:" + hx(os.readlink(q)))
        elif stat.S_ISREG(st.st_mode):
            ents.append(key_of(q) + ":f")
        else:
            ents.append(key_of(q) + ":s")
    return ents


def lstat_rec(p):
    st = os.lstat(p)
    rec = {"mode": st.st_mode, "uid": st.st_uid, "gid": st.st_gid}
    if stat.S_ISLNK(st.st_mode):
        rec["target"] = os.readlink(os.fsencode(p)).hex()
    elif stat.S_ISREG(st.st_mode):
        with open(p, "rb") as f:
            rec["sha"] = hashlib.sha256(f.read()).hexdigest()
        rec["size"] = st.st_size
    elif stat.S_ISCHR(st.st_mode) or stat.S_ISBLK(st.st_mode):
        rec["rdev"] = st.st_rdev
    try:
        rec["xattrs"] = sorted((k, os.getxattr(p, k, follow_symlinks=False).hex()) for k in os.listxattr(p, follow_symlinks=False))
    except OSError:
        rec["xattrs"] = "?"
    return rec, st


def snapshot(outer, root):
    """path (bytes, absolute) -> record, for everything under `outer` that is not strictly below `root` (bytes or None);
    `root` itself is recorded without its mtime and entries"""
    snap = {}
    stack = [os.fsencode(outer)]
    while stack:
        p = stack.pop()
        rec, st = lstat_rec(p)
        if p == root:
            snap[p] = rec
            continue
        rec["mtime"] = st.st_mtime_ns
        if stat.S_ISDIR(st.st_mode):
            names = os.listdir(p)
            rec["entries"] = sorted(x.hex() for x in names)
            for x in names:
                stack.append(p + b"/" + x)
        snap[p] = rec
    return snap


def diff_snap(before, after, root, allowed_new, runner):
    """What changed outside the unpack root.  Specification: nothing — except that `mkdir_p` may have made new, empty
    directories (mode 0755, owned by the runner) at the prefixes of the `-p` argument (`allowed_new`), which shows in their
    parents' entry lists and mtimes."""
    b = {k: dict(v) for k, v in before.items()}
    a = {k: dict(v) for k, v in after.items()}
    ch = []
    new = sorted({p for p in allowed_new if p not in b and p in a})
    for p in new:
        rec = a[p]
        ok = stat.S_ISDIR(rec["mode"]) and stat.S_IMODE(rec["mode"]) == 0o755 and rec["uid"] == runner and rec["xattrs"] in ([], "?")
        if p != root:
            kids = {p + b"/" + bytes.fromhex(x) for x in rec.get("entries", [])}
            ok = ok and kids <= set(new)
        if not ok:
            ch.append({"path": p.decode("latin-1"), "before": None, "after": rec,
                       "why": "a directory made on the way to R is not a new, empty 0755 directory of the runner"})
    for p in new:
        del a[p]
        par = os.path.dirname(p)
        for snap in (b, a):
            if par in snap:
                snap[par].pop("mtime", None)
        if par in a and "entries" in a[par]:
            a[par]["entries"] = [x for x in a[par]["entries"] if x != p[len(par) + 1:].hex()]
    for k in sorted(set(b) | set(a)):
        if b.get(k) != a.get(k):
            ch.append({"path": k.decode("latin-1"), "before": b.get(k), "after": a.get(k)})
    return ch


def tree_state(R):
    """what is below R after the run: relative path bytes -> record"""
    out = {}
    if R is None or not os.path.isdir(R):
        return out
    stack = [R]
    while stack:
        p = stack.pop()
        for x in os.listdir(p):
            q = p + b"/" + x
            rec, st = lstat_rec(q)
            rec["mtime_s"] = st.st_mtime_ns // 10**9
            if stat.S_ISREG(st.st_mode):
                with open(q, "rb") as f:
                    rec["content"] = f.read()
            out[q] = rec
            if stat.S_ISDIR(st.st_mode):
                stack.append(q)
    return out


# ---------------------------------------------------------------------------------------------- strace
LINE = re.compile(r"^(\d+)\s+(\w+)\((.*)\)\s+= (-?\d+|\?)(?: (E\w+) \(.*\))?\s*$")
STR = re.compile(r'"((?:\\x[0-9a-f]{2})*)"(\.\.\.)?')
KINDS = {"S_IFCHR": "c", "S_IFBLK": "b", "S_IFIFO": "p", "S_IFSOCK": "s", "S_IFREG": "f"}


def norm_tok(tok):
    """paths of PATH_MAX or more bytes are cut to 4095 bytes (all strace can show)"""
    f = tok.split(":")
    if f[0] == "truncated":
        f = f[1:]
    cut = False
    for i in (1, 2):
        if i < len(f) and len(f[i]) >= 2 * 4095 and re.fullmatch(r"[0-9a-f]+", f[i]):
            f[i] = f[i][:2 * 4095] + "~"
            cut = True
    return ":".join(f) if cut or not tok.startswith("truncated:") else tok


def sdec(m):
    return bytes.fromhex(m.replace("\\x", ""))


def parse_strace(text):
    """list of (token, result) for the calls in TRACE, token in the model's syscall format"""
    out = []
    for line in text.splitlines():
        m = LINE.match(line)
        if not m:
            if "+++" in line or "---" in line or not line.strip():
                continue
            out.append(("unparsed:" + line[:200], "?"))
            continue
        pid, name, args, ret, err = m.groups()
        res = "0" if err is None else err
        strs = [sdec(x.group(1)) for x in STR.finditer(args)]
        trunc = any(x.group(2) for x in STR.finditer(args))
        rest = STR.sub("S", args)
        f = [a.strip() for a in rest.split(", ")]
        tok = None
        try:
            if name in ("mkdir", "mkdirat"):
                tok = "mkdir:%s:%d" % (hx(strs[0]), int(f[-1], 8))
            elif name in ("symlink", "symlinkat"):
                tok = "symlink:%s:%s" % (hx(strs[0]), hx(strs[1]))
            elif name in ("mknod", "mknodat"):
                i = f.index("S") + 1
                parts = f[i].split("|")
                kind = KINDS.get(parts[0], "?")
                mode = int(parts[1], 8) if len(parts) > 1 else 0
                dev = 0
                mm = re.search(r"makedev\((0x[0-9a-f]+|\d+), (0x[0-9a-f]+|\d+)\)", rest)
                if mm:
                    ma, mi = int(mm.group(1), 0), int(mm.group(2), 0)
                    dev = (mi & 0xff) | (ma << 8) | ((mi & ~0xff) << 12)
                tok = "mknod:%s:%s:%d:%d" % (hx(strs[0]), kind, mode, dev)
            elif name in ("open", "openat", "creat"):
                i = f.index("S") + 1
                flags = set(f[i].split("|")) if name != "creat" else {"O_CREAT", "O_WRONLY", "O_TRUNC"}
                flags.discard("O_CLOEXEC"); flags.discard("O_LARGEFILE")
                if not (flags & {"O_CREAT", "O_WRONLY", "O_RDWR", "O_TRUNC", "O_APPEND", "O_TMPFILE"}):
                    continue
                if strs and strs[0] in (b"/dev/null", b"/dev/tty"):
                    continue
                mode = int(f[i + 1], 8) if len(f) > i + 1 else 0
                if flags == {"O_WRONLY", "O_CREAT", "O_EXCL"}:
                    tok = "openx:%s:%d" % (hx(strs[0]), mode)
                elif flags == {"O_RDWR", "O_CREAT", "O_TRUNC"} and mode == 0o644:
                    tok = "opent:%s" % hx(strs[0])
                else:
                    tok = "open?:%s:%s" % (hx(strs[0]), "|".join(sorted(flags)))
            elif name in ("lsetxattr", "setxattr"):
                tok = "setxattr:%s:%s:%s:%s" % (hx(strs[0]), hx(strs[1]), hx(strs[2]) if len(strs) > 2 else "-", "1" if name[0] == "l" else "0")
            elif name == "utimensat":
                mm = re.search(r"\[\{tv_sec=(-?\d+), tv_nsec=(\d+)\}(?: /\*.*?\*/)?, \{tv_sec=(-?\d+), tv_nsec=(\d+)\}(?: /\*.*?\*/)?\]", rest)
                nf = "AT_SYMLINK_NOFOLLOW" in rest
                if mm and mm.group(1) == mm.group(3) and mm.group(2) == mm.group(4) == "0" and f[0] == "AT_FDCWD":
                    tok = "utimens:%s:%s:%s" % (hx(strs[0]), mm.group(1), "1" if nf else "0")
            elif name == "fchownat":
                u, g = int(f[2]) & 0xFFFFFFFF, int(f[3]) & 0xFFFFFFFF
                if f[0] == "AT_FDCWD" and f[4] in ("AT_SYMLINK_NOFOLLOW", "0"):
                    tok = "chown:%s:%d:%d:%s" % (hx(strs[0]), u, g, "1" if f[4] == "AT_SYMLINK_NOFOLLOW" else "0")
            elif name in ("chown", "lchown"):
                tok = "chown:%s:%d:%d:%s" % (hx(strs[0]), int(f[1]) & 0xFFFFFFFF, int(f[2]) & 0xFFFFFFFF, "1" if name[0] == "l" else "0")
            elif name == "fchmodat":
                if f[0] == "AT_FDCWD" and len(f) == 3:
                    tok = "chmod:%s:%d" % (hx(strs[0]), int(f[2], 8))
            elif name == "chmod":
                tok = "chmod:%s:%d" % (hx(strs[0]), int(f[1], 8))
            elif name == "chdir":
                tok = "chdir:%s" % hx(strs[0])
        except (ValueError, IndexError):
            tok = None
        if tok is None:
            tok = "other:%s(%s)" % (name, rest[:120])
        if trunc:
            tok = "truncated:" + tok      # strace reads at most PATH_MAX bytes of a path
        out.append((norm_tok(tok), res))
    return out


# ---------------------------------------------------------------------------------------------- one case
def abs_subst(node, absb):
    """replace the ABS placeholder in names/targets by the jail's absolute path (on a copy; hard-link references survive)"""
    t = copy.deepcopy(node)

    def rec(n):
        n.name = n.name.replace(b"ABS", absb)
        if n.kind == "l":
            n.payload = n.payload.replace(b"ABS", absb)
        for c in n.children:
            rec(c)
    rec(t)
    return t


def has_links(n):
    return n.link_of is not None or any(has_links(c) for c in n.children)


def mk_case(label, tree, flags="-", upath=b"/", rstate="absent", rstr=b"R", start="jail", priv="root", fault=None):
    return {"label": label, "tree": tree, "flags": flags, "upath": upath, "rstate": rstate, "rstr": rstr, "start": start,
            "priv": priv, "fault": fault}


def prefixes_of(rstr):
    """the strings at the '/' boundaries of the `-p` argument (this file's own reading of mkdir_p, not the model's)"""
    out, i = [], 1
    while i <= len(rstr):
        if i == len(rstr) or rstr[i:i + 1] == b"/":
            out.append(rstr[:i])
        i += 1
    return out


SKIP_RE = re.compile(rb"Found an entry named '(.*?)', skipping\.\n", re.S)
ERRNO_NUM = {n: v for v, n in errno.errorcode.items()}
ERRNO_NUM["ENOTSUP"] = errno.ENOTSUP


def run_case(ctx, rd, idx, case, timeout=CASE_TIMEOUT):
    """returns dict(result record).  Does not touch ctx (thread-safe)."""
    base = ctx.scratch / ("case%d" % idx)
    if base.exists():
        shutil.rmtree(base)
    base.mkdir()
    try:
        outer, jail = make_jail(base, case["rstate"])
        absb = os.fsencode(jail)
        template = case["tree"].tokens()
        tree = abs_subst(case["tree"], absb)
        img = base / "img.sqfs"
        img.write_bytes(forge(tree, block_size=BLOCK))
        rstr = None if case["rstr"] is None else case["rstr"].replace(b"ABS", absb)
        if rstr is None:
            cwd = absb + b"/R"
        else:
            cwd = absb + (b"/start" if case["start"] == "start" else b"")
        runner = NOBODY if case["priv"] == "nobody" else 0
        if runner:
            chown_tree(base, runner)
        os.chmod(jail / "ro", 0o555)
        os.chmod(jail / "noexec", 0o600)
        # where the unpack root is, if it can be established (symbolic links that exist now are followed)
        if rstr is None:
            root, allowed_new = os.path.realpath(cwd), []
        elif rstr == b"":
            root, allowed_new = None, []
        else:
            root = os.path.realpath(os.path.join(cwd, rstr))
            allowed_new = [os.path.realpath(os.path.join(cwd, p)) for p in prefixes_of(rstr)]
        fsents = fs_entries(outer)
        before = snapshot(outer, root)
        perm = {}
        if runner and rstr is not None:
            # what uid 65534 may not do on the way to R (read off the mode bits now; the jail is gone when the model is asked)
            for p in prefixes_of(rstr):
                perm["mkdir:" + hx(p)] = lookup_perm(cwd, p, True)
            e = lookup_perm(cwd, rstr, False)
            if e is None:
                try:
                    st = os.stat(os.path.join(cwd, rstr))
                    if stat.S_ISDIR(st.st_mode) and not nobody_can(st, 1):
                        e = "EACCES"
                except OSError:
                    pass
            perm["chdir"] = e
        noisy = "v" in case["flags"]                  # `v`: run without -q ("creating …" / "unpacking …" on stdout); `Z`: --no-sparse
        fl = [] if case["flags"] == "-" else ["-" + c for c in case["flags"] if c != "v"]
        cmd = []
        if runner:
            cmd += ["setpriv", "--reuid=%d" % runner, "--regid=%d" % runner, "--clear-groups"]
        cmd += ["strace", "-f", "-xx", "-s", "70000", "-o", str(base / "st.log"), "-e", "trace=" + TRACE,
                str(rd)] + ([] if noisy else ["-q"]) + ["-u", os.fsdecode(case["upath"])]
        if rstr is not None:
            cmd += ["-p", os.fsdecode(rstr)]
        cmd += fl + [str(img)]
        env = ctx.san_env()
        flog = base / "fault.log"
        if case["fault"] is not None:
            cls, k, en = case["fault"]
            env["C06_FAULT"] = "%s:%d:%d" % (cls, k, ERRNO_NUM[en])
            env["C06_FAULT_LOG"] = str(flog)
        try:
            r = subprocess.run(cmd, cwd=os.fsdecode(cwd), env=env, stdout=subprocess.PIPE, stderr=subprocess.PIPE, timeout=timeout)
            rc, err, sout = r.returncode, r.stderr, r.stdout
        except subprocess.TimeoutExpired:
            rc, err, sout = "timeout", b"", b""
        os.chmod(jail / "ro", 0o755)
        os.chmod(jail / "noexec", 0o755)
        after = snapshot(outer, root)
        for snap in (before, after):                     # the two modes this function itself toggles
            for nm in (b"ro", b"noexec"):
                if absb + b"/" + nm in snap:
                    snap[absb + b"/" + nm]["mode"] = "toggled"
        log = (base / "st.log").read_text(errors="replace") if (base / "st.log").exists() else ""
        calls = [c for c in parse_strace(log) if not c[0].startswith("open?:" + os.fsencode(flog).hex())]     # the wrappers' own log
        fired, fcounts = None, {}
        if case["fault"] is not None and flog.exists():
            for line in flog.read_text().splitlines():
                w = line.split()
                if w and w[0] == "fired":
                    fired = w[1:]
                elif len(w) == 3 and w[0] == "count":
                    fcounts[w[1]] = int(w[2])
        rec = {"idx": idx, "label": case["label"], "flags": case["flags"], "upath": case["upath"].hex(), "rstate": case["rstate"],
               "rstr": None if case["rstr"] is None else case["rstr"].hex(), "rstr_real": None if rstr is None else rstr.hex(),
               "start": case["start"], "priv": case["priv"], "fault": case["fault"], "fired": fired, "fault_counts": fcounts, "stdout": sout.decode("latin-1") if noisy else None,
               "tokens": tree.tokens(), "template": template, "xattr_table": has_xattr_table(tree), "has_links": has_links(tree),
               "jail": os.fsdecode(absb), "cwd": os.fsdecode(cwd), "root": None if root is None else os.fsdecode(root),
               "perm": perm, "fsents": fsents, "new_dirs": [os.fsdecode(p) for p in allowed_new if p not in before and p in after],
               "rc": rc, "stderr": err[-3000:].decode("latin-1"), "calls": calls,
               "changed": diff_snap(before, after, root, allowed_new, runner),
               "skips": [m.hex() for m in SKIP_RE.findall(err)], "state": tree_state(root),
               "strace_lines": log.count("\n")}
        return rec
    finally:
        subprocess.run(["chmod", "-R", "u+rwx", str(base)], stdout=subprocess.DEVNULL, stderr=subprocess.DEVNULL)
        shutil.rmtree(base, ignore_errors=True)


# ---------------------------------------------------------------------------------------------- model side
def model_flags(rec):
    f = "" if rec["flags"] == "-" else rec["flags"].replace("Z", "").replace("v", "")      # -Z, -q do not change which calls are made
    if not rec["xattr_table"]:
        f += "n"                                   # SQFS_FLAG_NO_XATTRS: `xattr == NULL` in main
    return f or "-"


def plan_request(rec):
    return "plan %s %s %s" % (model_flags(rec), rec["upath"] or "-", " ".join(rec["tokens"]))


def main_request(rec, faults=()):
    root = "~" if rec["rstr_real"] is None else (rec["rstr_real"] or "-")
    fl = ["%d=%s" % (i, e) for i, e in faults]
    return MAIN_OP[0] + " %s %s %s %s %d %s %d %s %s" % (model_flags(rec), rec["upath"] or "-", root, key_of(os.fsencode(rec["cwd"])),
                                               len(rec["fsents"]), " ".join(rec["fsents"]), len(fl), " ".join(fl), " ".join(rec["tokens"]))


def drive(ctx, lines, what):
    """run the model driver; one answer per request, none of them `bad-op` — anything else is a failure of the check itself"""
    if not lines:
        return []
    out = ctx.driver(["c06"], "\n".join(lines) + "\n", timeout=3000)
    if len(out) != len(lines):
        raise Infra("model driver answered %d lines to %d %s requests" % (len(out), len(lines), what))
    for q, a in zip(lines, out):
        if a.strip() == "bad-op" or not a.strip():
            raise Infra("model driver refused a %s request: %r -> %r" % (what, q[:300], a))
    return out


def strip_data(tok):
    return ":".join(tok.split(":")[:2]) if tok.startswith("opent:") else tok


def parse_main(line):
    """→ dict; `special` for the answers without a run (invalid-path, lookup:…)"""
    if not line.startswith("exit:"):
        return {"special": line.strip()}
    head, sep, tail = line.partition(" |")
    if not sep:
        raise Infra("malformed main answer: %r" % line[:200])
    w = head.split()
    d = {"exit": int(w[0][5:]), "est": w[1] == "est:1", "status": w[2][7:], "chdir": w[3][6:], "cwd": w[4][4:]}
    npre = int(w[5][4:])
    pre = w[6:6 + npre]
    ntr = int(w[6 + npre][3:])
    tr = w[7 + npre:7 + npre + ntr]
    if len(pre) != npre or len(tr) != ntr or len(w) != 7 + npre + ntr:
        raise Infra("main answer with inconsistent counts: %r" % head[:300])

    def sp(t):
        tok, _, res = t.rpartition("=")
        return (tok, res)
    d["pre"], d["tr"] = [sp(t) for t in pre], [sp(t) for t in tr]
    st = {}
    for t in tail.split():
        k, _, v = t.partition("@")
        st[k] = v
    d["state"] = st
    return d


def model_seq(m):
    """the model's calls in global order with their fault index: mkdir_p's, chdir, the walks'"""
    seq = [("pre", j, t, r) for j, (t, r) in enumerate(m["pre"])]
    n = len(seq)
    if m["chdir"] != "-":
        seq.append(("chdir", n, "chdir", m["chdir"]))
        n += 1
    seq += [("tr", n + j, t, r) for j, (t, r) in enumerate(m["tr"])]
    return seq


def fine(tok, res):
    return res == "0" or (tok.startswith("mkdir:") and res == "EEXIST")


def walks_all_fine(m):
    """no call of the walks ended the run.  For the repaired create_node a `mkdir`/`EEXIST` that is the *last* call of the trace
    ended the run unless the name is a directory (lstat) — read off the model's final state at that path (nothing the unpacker does
    replaces or removes an object, so it is what lstat saw)."""
    if not all(fine(t, r) for t, r in m["tr"]):
        return False
    if MAIN_OP[0] == "mainr" and m["tr"] and m["tr"][-1][0].startswith("mkdir:") and m["tr"][-1][1] == "EEXIST":
        path = unhx(m["tr"][-1][0].split(":")[1])
        key = (m["cwd"] if m["cwd"] != "/" else "") + "".join("/" + c.hex() for c in path.split(b"/"))
        return m["state"].get(key, "-").startswith("d:")
    return True


def phase_split(seq, in_order):
    """(create, fill, attrs) of a token sequence; the fill phase sorted unless its order is defined"""
    i = 0
    while i < len(seq) and not seq[i][0].startswith("opent:"):
        i += 1
    j = i
    while j < len(seq) and seq[j][0].startswith("opent:"):
        j += 1
    return seq[:i], (seq[i:j] if in_order else sorted(seq[i:j])), seq[j:]


def first_diff(a, b):
    for i, (x, y) in enumerate(zip(a, b)):
        if x != y:
            return ("#%d %s" % (i, x), "#%d %s" % (i, y))
    n = min(len(a), len(b))
    return ("#%d %s" % (n, a[n] if n < len(a) else "<end>"), "#%d %s" % (n, b[n] if n < len(b) else "<end>"))


STATUS_MSG = {"corrupted@create": "constructing full path: data corrupted.", "argInvalid@create": "constructing full path: invalid argument.",
              "corrupted@fill": "assembling file path: data corrupted.", "argInvalid@fill": "assembling file path: invalid argument.",
              "corrupted@attr": "reconstructing full path: data corrupted.", "argInvalid@attr": "reconstructing full path: invalid argument.",
              "dataRead@fill": ": unpacking: ", "duplicate": "found more than once!"}
XATTR_MSGS = ["Error resolving xattr index", "Error locating xattr key-value pairs", "Error reading xattr key", "Error reading xattr value"]


def split_calls(rec):
    """(calls before chdir, the chdir (tok,res) or None, calls after) of the implementation's run"""
    if rec["rstr_real"] is None:
        return [], None, list(rec["calls"])
    pre, post, chd = [], [], None
    for tok, res in rec["calls"]:
        if chd is None and tok.startswith("chdir:"):
            chd = (tok, res)
            continue
        (post if chd is not None else pre).append((tok, res))
    return pre, chd, post


def compare_stdout(rec):
    """without -q: one "creating <path>" line before every call of the create walk (the failing one included) and one
    "unpacking <path>" line after every successful open of the fill walk, in order, nothing else — read off the traced calls"""
    if rec["stdout"] is None or rec["fault"] is not None or any("~" in t or t.startswith(("truncated", "other", "unparsed")) for t, _ in rec["calls"]):
        return []                            # (an injected failing call never reaches the kernel: not in the trace; "~": strace cut the path)
    want = b""
    for tok, res in split_calls(rec)[2]:
        f = tok.split(":")
        if f[0] in ("mkdir", "mknod", "openx"):
            want += b"creating " + unhx(f[1]) + b"\n"
        elif f[0] == "symlink":
            want += b"creating " + unhx(f[2]) + b"\n"
        elif f[0] == "opent" and res == "0":
            want += b"unpacking " + unhx(f[1]) + b"\n"
    got = rec["stdout"].encode("latin-1")
    return [] if got == want else ["stdout of the run without -q is not the progress lines of the traced calls: got %r want %r" % (got[-300:], want[-300:])]


def compare(rec, m):
    """→ list of disagreement strings between the implementation's run and the model's answer"""
    bad = []
    pre, chd, post = split_calls(rec)
    if "special" in m:
        # `-u` cannot be resolved: the tool stops before tree_sort, nothing is called
        if m["special"] not in ("invalid-path", "lookup:noEntry", "lookup:notDir"):
            raise Infra("unexpected model answer %r" % m["special"])
        if rec["calls"]:
            bad.append("model says the tool stops before touching the file system (%s) but calls were made: %s" % (m["special"], rec["calls"][:4]))
        if rec["rc"] != 1:
            bad.append("exit status %s, expected 1 (%s)" % (rec["rc"], m["special"]))
        return bad
    mpre, mtr, mchd = list(m["pre"]), list(m["tr"]), m["chdir"]
    # an injected fault never reaches the kernel: strace does not show that call
    if rec["fault"] is not None:
        inj = rec.get("inject")
        if inj is None:
            raise Infra("fault case without injection index")
        where, j = inj
        if rec["fired"] is None:
            bad.append("the injected fault (%s) never fired: the tool made fewer calls of that class than the model" % (rec["fault"],))
        else:
            want = {"pre": lambda: mpre[j][0], "chdir": lambda: "chdir:" + (rec["rstr_real"] or "-"), "tr": lambda: mtr[j][0]}[where]()
            got_path = rec["fired"][3]
            if want.split(":")[1 if not want.startswith("symlink:") else 2] != got_path:
                bad.append("the injected fault hit the call on path %s, the model's call at that position is %s" % (got_path, want))
        if where == "pre":
            del mpre[j]
        elif where == "tr":
            del mtr[j]
        else:
            mchd = "-"
    exp_pre = [(norm_tok(t), r) for t, r in mpre]
    if pre != exp_pre:
        bad.append("calls before chdir(R) (mkdir_p): impl %s model %s" % first_diff(pre, exp_pre))
    if mchd == "-":
        if chd is not None:
            bad.append("chdir %s although the model says it is never reached" % (chd,))
    else:
        want = ("chdir:" + (rec["rstr_real"] or "-"), mchd)
        if chd != want:
            bad.append("chdir: impl %s model %s" % (chd, want))
    # fill order = qsort(compare_files) = by data start; hard links share a start, qsort may order them either way
    in_order = not rec["has_links"]
    ic, ifl, ia = phase_split(post, in_order)
    mc, mfl, ma = phase_split([(norm_tok(strip_data(t)), r) for t, r in mtr], in_order)
    if ic != mc:
        bad.append("create phase differs: impl %s model %s" % first_diff(ic, mc))
    if ifl != mfl:
        bad.append("fill phase differs (%s): impl %s model %s" % (("in order" if in_order else "as multisets",) + first_diff(ifl, mfl)))
    if ia != ma:
        bad.append("attribute phase differs: impl %s model %s" % first_diff(ia, ma))
    if rec["rc"] != m["exit"]:
        bad.append("exit status %s, model %d (%s)" % (rec["rc"], m["exit"], m["status"]))
    # the plan's own error is the reason of the failure only if every call was fine
    if m["est"] and walks_all_fine(m) and m["status"].startswith("err:"):
        kind = m["status"][4:]
        if kind == "xattrRead@attr":
            if not any(x in rec["stderr"] for x in XATTR_MSGS):
                bad.append("model: xattr reader failure, stderr has none of its messages: %r" % rec["stderr"][-200:])
        elif kind not in STATUS_MSG:
            raise Infra("no message known for model status %r" % m["status"])
        elif STATUS_MSG[kind] not in rec["stderr"]:
            bad.append("model: %s, stderr lacks %r: %r" % (m["status"], STATUS_MSG[kind], rec["stderr"][-200:]))
    if m["status"] == "err:duplicate" and STATUS_MSG["duplicate"] not in rec["stderr"]:
        bad.append("model: duplicate entry, stderr lacks the message: %r" % rec["stderr"][-200:])
    return bad


def compare_skips(rec, m, plan_line):
    if "special" in m or not plan_line.startswith(("ok", "err:")):
        return []
    mskips = [t[5:] for t in plan_line.split()[1:] if t.startswith("skip:")]
    # the model's plan lists skip events of a phase that is not reached after a failing system call; the implementation
    # prints a prefix of them
    mine = [("" if s == "-" else s) for s in mskips]
    got = rec["skips"]
    if not m["est"]:
        return ["skip reports %s although the walks are not reached" % got[:4]] if got else []
    if got != mine[:len(got)]:
        return ["stderr skip reports %s are not a prefix of the model's skip events %s" % (got[:6], mine[:6])]
    if rec["rc"] == 0 and got != mine:
        return ["run succeeded but skip reports differ: stderr %s model %s" % (got[:6], mine[:6])]
    return []


def compare_state(rec, m):
    """final content of R against the model's final state"""
    if "special" in m or not m["est"] or rec["root"] is None:
        return []
    bad = []
    impl = rec["state"]
    rootb = os.fsencode(rec["root"])
    if key_of(rootb) != m["cwd"]:
        return ["the unpack root resolves to %s, the model's working directory is %s" % (key_of(rootb), m["cwd"])]
    runner = NOBODY if rec["priv"] == "nobody" else 0
    ok_run = rec["rc"] == 0 and m["exit"] == 0
    seen = set()
    initial = {e.split(":")[0] for e in rec["fsents"]}
    touched = set()
    for t, r in m["tr"]:
        if r == "0" and not t.startswith("mkdir:"):
            f = t.split(":")
            pth = unhx(f[2] if f[0] == "symlink" else f[1])
            touched.add(m["cwd"] + "".join("/" + hx(c) for c in pth.split(b"/")))
    for ktok, ntok in m["state"].items():
        if not ktok.startswith(m["cwd"] + "/"):
            continue
        comps = [unhx(c) for c in ktok[len(m["cwd"]) + 1:].split("/")]
        if b"" in comps or not comps:
            continue
        path = rootb + b"/" + b"/".join(comps)
        seen.add(path)
        got = impl.get(path)
        if ntok == "-":
            if got is not None:
                bad.append("%r exists but not in the model" % path[len(rootb):])
            continue
        if got is None:
            bad.append("%r missing (model: %s)" % (path[len(rootb):], ntok[:40])); continue
        kind = ntok[0]
        head, *at = ntok.split(":")
        perm, uid, gid, mtime, nx = [int(x) for x in at]
        tmode = {"d": stat.S_ISDIR, "f": stat.S_ISREG, "l": stat.S_ISLNK}.get(kind)
        if kind == "s":
            sk = head.split("=")[1]
            tmode = {"b": stat.S_ISBLK, "c": stat.S_ISCHR, "p": stat.S_ISFIFO, "s": stat.S_ISSOCK}[sk]
        if not tmode(got["mode"]):
            bad.append("%r has type %o, model %s" % (path[len(rootb):], stat.S_IFMT(got["mode"]), head[:6])); continue
        if ktok in initial and ktok not in touched:
            continue                       # was there before and no successful call names it: only its sort is the model's business
        if kind == "f" and got.get("content") != unhx(head[2:]):
            bad.append("%r content differs from the model's (%d bytes, model %d)" % (path[len(rootb):], len(got.get("content", b"")), len(unhx(head[2:]))))
        if kind == "l" and got.get("target") != unhx(head[2:]).hex():
            bad.append("%r link target differs" % path[len(rootb):])
        if kind == "s" and head.split("=")[1] in "bc":
            dev = int(head.split("=")[2])
            if got.get("rdev") != os.makedev((dev >> 8) & 0xfff, (dev & 0xff) | ((dev >> 12) & 0xfff00)):
                bad.append("%r device number differs" % path[len(rootb):])
        if "C" in rec["flags"] and kind != "l" and ok_run and stat.S_IMODE(got["mode"]) != perm:
            bad.append("%r mode %o, model %o" % (path[len(rootb):], stat.S_IMODE(got["mode"]), perm))
        if "O" in rec["flags"] and ok_run:
            # the model's objects are born with owner 0:0; the kernel's with the runner's
            want = (runner if uid == 0 and runner else uid, runner if gid == 0 and runner else gid)
            if (got["uid"], got["gid"]) != want:
                bad.append("%r owner %s, model %s" % (path[len(rootb):], (got["uid"], got["gid"]), want))
        if "T" in rec["flags"] and ok_run and kind != "d" and got["mtime_s"] != mtime:
            bad.append("%r mtime %s, model %s" % (path[len(rootb):], got["mtime_s"], mtime))
    for path in impl:
        if path not in seen:
            bad.append("%r exists below R but neither the model's plan nor the initial state names it" % path[len(rootb):])
    return bad[:6]


def sane(name):
    return name not in (b".", b"..") and b"/" not in name


def spec_complete(rec):
    """The second half of the property, evaluated on the implementation without the model: "skipped entries are reported
    and the rest of the image is still unpacked or the tool fails".  For a run that ended with status 0 into a fresh R:
    every entry not hidden below a refused name exists with its type, content, link target (and, as root with -X, its
    xattrs); every refused entry directly below a visited directory is named on stderr."""
    if rec["rc"] != 0 or rec["root"] is None or rec["rstate"] not in ("absent", "empty") or rec["upath"] not in ("2f", ""):
        return []
    if any(c in rec["flags"] for c in "DSFLE"):
        return []
    t = node_from_tokens(rec["tokens"])
    if t.kind != "d":
        return []
    rootb, bad, skipped = os.fsencode(rec["root"]), [], []
    st = rec["state"]
    KT = {"d": stat.S_ISDIR, "f": stat.S_ISREG, "l": stat.S_ISLNK, "b": stat.S_ISBLK, "c": stat.S_ISCHR, "p": stat.S_ISFIFO, "s": stat.S_ISSOCK}

    def walk(n, path):
        for c in n.children:
            nm = cstr(c.name)
            if not sane(nm):
                skipped.append(nm.hex())
                continue
            p = path + b"/" + nm
            got = st.get(p)
            if got is None:
                bad.append("exit status 0 but %r of the image is not in R" % p[len(rootb):]); continue
            if not KT[c.kind](got["mode"]):
                bad.append("exit status 0 but %r is not a %s" % (p[len(rootb):], c.kind)); continue
            if c.kind == "f" and got.get("content") != c.payload:
                bad.append("exit status 0 but %r has %d bytes of content, the image %d" % (p[len(rootb):], len(got.get("content", b"")), len(c.payload)))
            if c.kind == "l" and got.get("target") != cstr(c.payload).hex():
                bad.append("exit status 0 but the target of %r differs" % p[len(rootb):])
            if "X" in rec["flags"] and rec["xattr_table"] and rec["priv"] == "root" and got["xattrs"] != "?":
                want = {}
                for k, v in c.xattrs:
                    want[os.fsdecode(cstr(k))] = v.hex()
                have = dict(got["xattrs"])
                for k, v in want.items():
                    if have.get(k) != v:
                        bad.append("exit status 0 but xattr %r of %r is not set" % (k, p[len(rootb):]))
            if c.kind == "d":
                walk(c, p)
    walk(t, rootb)
    for nm in skipped:
        if nm not in rec["skips"]:
            bad.append("entry %r was refused but not reported" % bytes.fromhex(nm))
    return bad[:6]


# ---------------------------------------------------------------------------------------------- unprivileged runs
def nobody_can(st, need):
    bits = (st.st_mode >> 6) if st.st_uid == NOBODY else (st.st_mode >> 3) if st.st_gid == NOBODY else st.st_mode
    return (bits & need) == need


def lookup_perm(cwd, path, creating):
    """EACCES if uid 65534 may not search a directory on the way, or (creating) not write the parent of a name that does not
    exist; None: permissions do not decide.  The kernel does the walk (stat as root), this only reads mode bits."""
    cur = cwd if not path.startswith(b"/") else b"/"
    comps = [c for c in path.split(b"/") if c]
    for i, c in enumerate(comps):
        try:
            st = os.stat(cur)
        except OSError:
            return None
        if not stat.S_ISDIR(st.st_mode):
            return None
        if not nobody_can(st, 1):
            return "EACCES"
        last = i == len(comps) - 1
        nxt = os.path.join(cur, c)
        if last and creating and not os.path.lexists(nxt) and not nobody_can(st, 3):
            return "EACCES"
        cur = nxt
    return None


def nobody_predict(rec, m, where, tok, res):
    """errno the kernel answers to uid 65534 where the model (which has no permissions) says something else"""
    f = tok.split(":")
    if where == "pre":
        return rec["perm"].get("mkdir:" + f[1])
    if where == "chdir":
        return rec["perm"].get("chdir")
    if res != "0":
        return None                       # the path lookup fails first, as for root
    if f[0] == "mknod" and f[2] in "bc" and not (f[2] == "c" and f[4] == "0"):
        return "EPERM"                    # CAP_MKNOD; the whiteout device (char 0:0) is free for everybody
    if f[0] == "setxattr" and unhx(f[2]).startswith((b"trusted.", b"security.")):
        return "EPERM"
    if f[0] == "chown":
        u, g = int(f[2]), int(f[3])
        if u not in (NOBODY, 0xFFFFFFFF) or g not in (NOBODY, 0xFFFFFFFF):
            return "EPERM"
    if f[0] == "opent":
        # open(O_RDWR) of the file create_node made with mode (perm | 0200) under -C
        for t, r in m["tr"]:
            g = t.split(":")
            if g[0] == "openx" and g[1] == f[1] and r == "0":
                return None if (int(g[2]) & 0o600) == 0o600 else "EACCES"
    return None


# ---------------------------------------------------------------------------------------------- monitor on real calls
def monitor_request(rec, m):
    """the model's POSIX semantics (and its confinement verdict) applied to the calls the tool really made once it stands
    in the unpack root; → (request, kernel results) or (None, reason)"""
    if rec["root"] is None:
        return None, "no root"
    pre, chd, post = split_calls(rec)
    if rec["rstr_real"] is not None and (chd is None or chd[1] != "0"):
        return None, "root not entered"
    if not post:
        return None, "no calls"
    scs, res = [], []
    for tok, r in post:
        if tok.startswith(("open?", "other", "truncated", "unparsed", "chdir")) or "~" in tok:
            return None, "unparsable call"
        t = tok + ":-" if tok.startswith("opent:") else tok
        if rec["priv"] == "nobody" and r in ("EPERM", "EACCES") and "special" not in m and nobody_predict(rec, m, "tr", tok, "0") == r:
            t += "!" + r                       # refused to uid 65534 for a reason the model has no notion of
        scs.append(t)
        res.append(r)
    ents = list(rec["fsents"]) + [key_of(os.fsencode(p)) + ":d" for p in rec["new_dirs"]]
    return "monitor %s %d %s %s" % (key_of(os.fsencode(rec["root"])), len(ents), " ".join(ents), " ".join(scs)), res


# ---------------------------------------------------------------------------------------------- POSIX model probe
def posix_probe(ctx, n):
    """random system-call scripts executed for real (python os.*) in a jail with symlinks vs `monitor`"""
    rng = ctx.rng
    lines, reals = [], []
    for i in range(n):
        top = ctx.scratch / ("probe%d" % i)
        base = top / "p1" / "p2" / "p3"         # padding: no script can climb out of `top` (at most 3 levels up from R/..)
        os.makedirs(base)
        R = base / "j" / "R"
        os.makedirs(R)
        (base / "j" / "dd").mkdir()
        (base / "j" / "ff").write_bytes(b"ff\n")
        os.symlink("dd", base / "j" / "ll")
        ents = fs_entries(top)
        Rb = os.fsencode(R)
        jd = os.fsencode(str(base / "j"))
        names = [b"a", b"b", b"a/b", b"a/c", b"../dd/n", b"../ll/n", b"../ff", b"../ff/x", b"s", b"s/x", b"t", b"t/y", b"../zz", b"a/../b", b"./a", b"s/../../dd/m",
                 jd + b"/dd/abs", b"u", b"a//b", b""]
        # no "." target: a followed utimens on R itself changes only R's mtime, which the snapshot cannot tell from entry creation
        targets = [b"../dd", b"../ff", b"a", b"b", b"..", b"t", b"s", jd + b"/dd", b"../nonexist", jd + b"/nonexistent_abs"]
        xkeys = [b"user.c06", b"trusted.c06", b"security.c06", b"user.", b"trusted."]
        scs, res = [], []
        before = snapshot(top, Rb)
        cwd = os.getcwd()
        os.chdir(R)
        try:
            for _ in range(rng.randint(3, 14)):
                op = rng.choice(["mkdir", "symlink", "openx", "opent", "chmod", "chown0", "chown1", "utimens0", "utimens1", "mknod", "setxattr0", "setxattr1"])
                nm = rng.choice(names)
                try:
                    if op == "mkdir":
                        tok = "mkdir:%s:493" % hx(nm); os.mkdir(nm, 0o755)
                    elif op == "symlink":
                        t = rng.choice(targets); tok = "symlink:%s:%s" % (hx(t), hx(nm)); os.symlink(t, nm)
                    elif op == "openx":
                        tok = "openx:%s:420" % hx(nm); os.close(os.open(nm, os.O_WRONLY | os.O_CREAT | os.O_EXCL, 0o644))
                    elif op == "opent":
                        tok = "opent:%s:-" % hx(nm); os.close(os.open(nm, os.O_RDWR | os.O_CREAT | os.O_TRUNC, 0o644))
                    elif op == "chmod":
                        tok = "chmod:%s:448" % hx(nm); os.chmod(nm, 0o700)
                    elif op in ("chown0", "chown1"):
                        nf = op[-1]; tok = "chown:%s:1:1:%s" % (hx(nm), nf); os.chown(nm, 1, 1, follow_symlinks=(nf == "0"))
                    elif op in ("utimens0", "utimens1"):
                        nf = op[-1]; tok = "utimens:%s:5:%s" % (hx(nm), nf); os.utime(nm, (5, 5), follow_symlinks=(nf == "0"))
                    elif op in ("setxattr0", "setxattr1"):
                        nf = op[-1]; k = rng.choice(xkeys); tok = "setxattr:%s:%s:76:%s" % (hx(nm), hx(k), nf)
                        os.setxattr(nm, k, b"v", follow_symlinks=(nf == "0"))
                    else:
                        tok = "mknod:%s:p:448:0" % hx(nm); os.mknod(nm, stat.S_IFIFO | 0o700)
                    r = "0"
                except OSError as e:
                    r = errno.errorcode.get(e.errno, str(e.errno))
                scs.append(tok); res.append(r)
        finally:
            os.chdir(cwd)
        escaped = bool(diff_snap(before, snapshot(top, Rb), Rb, [], 0))
        lines.append("monitor %s %d %s %s" % (key_of(Rb), len(ents), " ".join(ents), " ".join(scs)))
        reals.append((scs, res, escaped))
        shutil.rmtree(top, ignore_errors=True)
    out = drive(ctx, lines, "probe monitor")
    bad, nesc, ncalls = [], 0, 0
    for (scs, res, escaped), ml, ln in zip(reals, out, lines):
        w = ml.split()
        mres = [x.split("@")[0] for x in w[1:]]
        if len(mres) != len(scs):
            raise Infra("probe monitor answered %d results to %d calls" % (len(mres), len(scs)))
        ncalls += len(scs)
        nesc += escaped
        if mres != res or (w[0] == "escaped") != escaped:
            bad.append({"script": scs, "kernel": res, "model": mres, "kernel_escaped": escaped, "model_verdict": w[0], "request": ln})
    if n and not ncalls:
        raise Infra("the POSIX probe evaluated no call")
    return bad, {"scripts": n, "calls": ncalls, "scripts_escaping_R_in_kernel_and_model": nesc}


# ---------------------------------------------------------------------------------------------- driver
# (state of R, spelling of -p, start directory): every way R can be there, not be there, or fail to be created / entered
ROOT_SHAPES = [
    ("absent", b"R", "jail"), ("empty", b"R", "jail"), ("file", b"R", "jail"), ("dangling", b"R", "jail"), ("link_dir", b"R", "jail"),
    ("link_file", b"R", "jail"), ("loop", b"R", "jail"), ("populated", b"R", "jail"),
    ("absent", b"R/", "jail"), ("absent", b"./R", "jail"), ("absent", b"R/sub/deep", "jail"), ("empty", b"R/sub/deep", "jail"),
    ("file", b"R/sub/deep", "jail"), ("link_dir", b"R/sub", "jail"), ("dangling", b"R/sub", "jail"), ("absent", b"//ABS/R", "jail"),
    ("empty", b"ABS/R", "start"), ("absent", b"R//x", "jail"), ("empty", b"", "jail"), ("absent", b"blocker/R", "jail"),
    ("absent", b"dangling/R", "jail"), ("absent", b"loop/R", "jail"), ("absent", b"x", "jail"), ("absent", b"decoy_link/newR", "jail"),
    ("absent", b"../jail/R", "jail"), ("absent", b"ro/R", "jail"), ("absent", b"noexec/R", "jail"), ("absent", b"ro", "jail"),
    ("absent", b"../R", "start"), ("file", b"../R", "start"), ("absent", b"../blocker/R", "start"), ("absent", b"ABS/blocker/R", "start"),
    ("dangling", b"../R", "start"), ("absent", b"../dangling/R/deeper", "start"), ("link_file", b"../R", "start"),
    ("empty", None, "jail"), ("populated", None, "jail"), ("absent", b"R/../R2", "jail"),
]
NOBODY_SHAPES = [("absent", b"R", "jail"), ("empty", b"R", "jail"), ("absent", b"R/sub/deep", "jail"), ("absent", b"ro/R", "jail"),
                 ("absent", b"noexec/R", "jail"), ("absent", b"noexec", "jail"), ("absent", b"blocker/R", "jail"), ("file", b"R", "jail"),
                 ("empty", None, "jail"), ("absent", b"../R", "start"), ("absent", b"../ro/R", "start"), ("populated", b"R", "jail")]


def build_cases(ctx, can_nobody):
    cases = []
    cdir = vlib.CORPUS / "C06"
    if cdir.exists():
        for p in sorted(cdir.glob("*.json")):
            for c in json.loads(p.read_text()):
                rstate = c.get("rstate", "empty" if c.get("precreate", True) else "absent")
                rstr = c.get("rstr", "52")
                cases.append(mk_case(p.stem + ":" + c.get("label", ""), node_from_tokens(c["tokens"]), c.get("flags", "-"), bytes.fromhex(c.get("upath", "2f")),
                                     rstate, None if rstr is None else bytes.fromhex(rstr), c.get("start", "jail"),
                                     c.get("priv", "root") if can_nobody else "root"))
    n = {"corpus": len(cases)}
    rng = ctx.rng
    for label, t in corpus_builtin():
        for fl in ALLFLAGS:
            cases.append(mk_case("builtin:" + label, t, fl, b"/", "empty" if rng.random() < 0.5 else "absent"))
        cases.append(mk_case("builtin:" + label, t, "COXTZv", b"/", "absent"))           # --no-sparse, without -q
        cases.append(mk_case("builtin:" + label, t, rng.choice(ALLFLAGS).replace("-", "") + "v", b"/", "empty"))
    n["builtin"] = len(cases) - n["corpus"]
    small = small_trees()
    # every shape of the unpack root with two option sets and two trees each
    k0 = len(cases)
    for rstate, rstr, start in ROOT_SHAPES:
        for fl in ("-", "COXT"):
            for label, t in rng.sample(small, 2):
                cases.append(mk_case("root:%s:%s:%s" % (rstate, rstr, label), t, fl, b"/", rstate, rstr, start))
    n["root_shapes"] = len(cases) - k0
    # R holding symbolic links before the run (directory / file / dangling / absolute / inner links at depth 1..3, links at paths
    # the image does not name): the image that names those paths with four option sets, -p and no -p, and one other tree
    k0 = len(cases)
    lh = link_hit_tree()
    for rstate in sorted(LINK_STATES):
        for fl in ("-", "COXT", "T", "CX"):
            cases.append(mk_case("linked:%s:hit" % rstate, lh, fl, b"/", rstate, b"R", "jail"))
        cases.append(mk_case("linked:%s:hit:nop" % rstate, lh, "OT", b"/", rstate, None, "jail"))
        cases.append(mk_case("linked:%s:hit:deep-p" % rstate, lh, "-", b"/", rstate, b"./R/", "start" if False else "jail"))
        label, t = rng.choice(small)
        cases.append(mk_case("linked:%s:%s" % (rstate, label), t, rng.choice(ALLFLAGS), b"/", rstate, b"R", "jail"))
    n["linked_R"] = len(cases) - k0
    k0 = len(cases)
    for label, t in small:
        for fl in ("-", "X", "COXT", "CT"):
            cases.append(mk_case("small:" + label, t, fl, b"/", rng.choice(["absent", "empty"])))
    n["small"] = len(cases) - k0
    k0 = len(cases)
    if can_nobody:
        for rstate, rstr, start in NOBODY_SHAPES:
            for fl in ("-", "COXT", rng.choice(ALLFLAGS)):
                label, t = rng.choice(small)
                cases.append(mk_case("nobody:%s:%s:%s" % (rstate, rstr, label), t, fl, b"/", rstate, rstr, start, "nobody"))
        for label, t in corpus_builtin():
            cases.append(mk_case("nobody:builtin:" + label, t, rng.choice(ALLFLAGS), b"/", rng.choice(["absent", "empty"]), priv="nobody"))
    n["nobody_fixed"] = len(cases) - k0
    nrand = 1200 if ctx.quick() else 30000
    k0, nwide = len(cases), 0
    for i in range(nrand):
        r = rng.random()
        dmg = 0.15 if rng.random() < 0.15 else 0.0
        lnk = 0.3 if not dmg and rng.random() < 0.08 else 0.0
        if r < 0.35:
            t = rnd_tree(rng, hostile=0.0, dup=0.0, damage=dmg, links=lnk)                 # benign names, hostile targets
        elif r < 0.7:
            t = rnd_tree(rng, hostile=0.12, dup=0.0, damage=dmg, links=lnk)
        elif r < 0.85:
            t = rnd_tree(rng, hostile=0.1, dup=0.12, damage=dmg)
        else:
            t = rnd_tree(rng, hostile=0.3, dup=0.05, depth=4, fan=4, damage=dmg)
        if rng.random() < 0.2:                                      # wide directories (8..14 siblings), listed in random order
            t = rnd_tree(rng, hostile=0.08, dup=rng.choice([0.0, 0.0, 0.08]), depth=2, fan=14, damage=dmg, minfan=8)
            nwide += 1
        fl = ALLFLAGS[i % 16] if rng.random() < 0.7 else rng.choice(ALLFLAGS)
        if rng.random() < 0.15:
            fl = (fl if fl != "-" else "") + "Z"
        if rng.random() < 0.15:
            fl = (fl if fl != "-" else "") + "v"
        if rng.random() < 0.25:                                     # -D -S -F -L -E prune the tree before unpacking
            fl = (fl if fl != "-" else "") + "".join(c for c in "DSFLE" if rng.random() < 0.4) or "-"
        up = b"/"
        if rng.random() < 0.15:
            tops = [cstr(c.name) for c in t.children if cstr(c.name)] or [b"a"]
            sub = rng.choice(tops + [b"nonexistent"])
            up = rng.choice([b"/" + sub, sub, b"//" + sub + b"/", b"./" + sub, sub + b"/..", sub + b"/x", b"", b"."])
        rstate, rstr, start = ("empty" if rng.random() < 0.5 else "absent", b"R", "jail")
        if rng.random() < 0.12:
            rstate, rstr, start = rng.choice(ROOT_SHAPES)
        elif rng.random() < 0.06:
            rstate, rstr, start = rng.choice(sorted(LINK_STATES)), b"R", "jail"          # random trees often name `a`, `d`, `f`
            if rng.random() < 0.5:
                t = Node(b"", "d", children=link_hit_tree().children[:3] + [c for c in t.children if cstr(c.name) not in (b"a", b"d", b"f")])
        priv = "root"
        if can_nobody and not lnk and rng.random() < 0.12:
            priv = "nobody"
            if (rstate, rstr, start) not in NOBODY_SHAPES:
                rstate, rstr, start = rng.choice(NOBODY_SHAPES)
        cases.append(mk_case("random", t, fl, up, rstate, rstr, start, priv))
    n["random"] = len(cases) - k0
    n["random_with_8_to_14_siblings"] = nwide
    return cases, n


def fault_cases(ctx, cases, recs, models):
    """One injected failure per derived case: a (class, occurrence) the fault-free model run reaches, with an errno.
    quick: a random sample; thorough: in addition every (call, errno) of the small trees with all options."""
    rng = ctx.rng
    out = []

    def candidates(m):
        seq = model_seq(m)
        nopent = sum(1 for _, _, t, _ in seq if t.startswith("opent:"))
        cnt, cands = {}, []
        for where, idx, tok, res in seq:
            cls = CLASS_OF[tok.split(":")[0]]
            cnt[cls] = cnt.get(cls, 0) + 1
            if tok.startswith("opent:") and nopent > 1:
                continue                 # the order of the fill phase is qsort's: the k-th open there is not the model's k-th
            j = idx if where == "pre" else idx - len(m["pre"]) - (1 if m["chdir"] != "-" else 0) if where == "tr" else 0
            cands.append((cls, cnt[cls], where, j, idx))
        return cands
    pool = [i for i, (c, r, m) in enumerate(zip(cases, recs, models)) if c["priv"] == "root" and c["fault"] is None
            and "special" not in m and r["rc"] in (0, 1) and not r["changed"] and len(r["tokens"]) <= 40 and model_seq(m)]
    if not pool:
        raise Infra("no base case for fault injection")
    # systematically, on every run: each call of two small trees with all options x the errnos a "fall back to a laxer
    # variant" patch would key on
    for i in pool:
        if cases[i]["label"] in ("small:links out", "small:all kinds") and cases[i]["flags"] == "COXT":
            for cls, k, where, j, idx in candidates(models[i]):
                for en in ("EEXIST", "ENOTSUP", "ENOSYS", "EPERM", "EACCES"):
                    c = dict(cases[i]); c["fault"] = (cls, k, en); c["label"] = "fault-sys:" + c["label"]; c["inject"] = (where, j); c["inject_idx"] = idx
                    out.append(c)
    if not out:
        raise Infra("the systematic fault stream is empty")
    want = 160 if ctx.quick() else 1500
    pref = [i for i in pool if cases[i]["label"].startswith(("small:", "root:", "builtin:symlinks anywhere", "builtin:devices"))]
    for _ in range(want):
        i = rng.choice(pref if pref and rng.random() < 0.7 else pool)
        cands = candidates(models[i])
        if not cands:
            continue
        classes = sorted({c[0] for c in cands})
        cls = rng.choice(classes)                                    # every class equally often, whatever its share of the calls
        cls, k, where, j, idx = rng.choice([c for c in cands if c[0] == cls])
        en = rng.choice(FAULT_ERRNOS)
        c = dict(cases[i]); c["fault"] = (cls, k, en); c["label"] = "fault:" + c["label"]; c["inject"] = (where, j); c["inject_idx"] = idx
        out.append(c)
    if not ctx.quick():
        for i in pool:
            if cases[i]["label"].startswith("small:") and cases[i]["flags"] == "COXT":
                for cls, k, where, j, idx in candidates(models[i]):
                    for en in FAULT_ERRNOS:
                        c = dict(cases[i]); c["fault"] = (cls, k, en); c["label"] = "fault-all:" + c["label"]; c["inject"] = (where, j); c["inject_idx"] = idx
                        out.append(c)
    return out


def wfault_cases(ctx, cases, recs):
    """Injected failures of write / pwrite / ftruncate / fsync / close on the descriptor of a file being filled (and of the close
    after open(O_EXCL)).  Base cases: fault-free successful runs as root into a fresh R of images with regular files (several blocks,
    sparse blocks and sparse tails so that lseek+ftruncate is reached).  A counting run (fault class `count`, which no wrapper
    knows) tells how many calls of each class a run makes; then every class x a sample of (k, errno)."""
    rng = ctx.rng
    N = Node
    sparse = N(b"", "d", children=[N(b"s1", "f", payload=b"\0" * 9000 + b"tail"), N(b"s2", "f", payload=b"head" + b"\0" * 12000),
                                   N(b"s3", "f", payload=b"\0" * 8192), N(b"e", "f"), N(b"big", "f", payload=bytes(range(256)) * 64),
                                   N(b"d", "d", children=[N(b"z", "f", payload=b"z" * 5000, perm=0o600, uid=2, mtime=9)])])
    base = [mk_case("wfault-base:sparse files", sparse, fl, b"/", "absent") for fl in ("-", "COXT", "Z", "ZT")]
    pool = [i for i, (c, r) in enumerate(zip(cases, recs)) if c["priv"] == "root" and c["fault"] is None and r["rc"] == 0 and not r["changed"]
            and c["rstate"] in ("absent", "empty") and c["upath"] == b"/" and c["rstr"] == b"R" and any(t.startswith("opent:") for t, _ in r["calls"])]
    for i in rng.sample(pool, min(len(pool), 6 if ctx.quick() else 40)):
        c = dict(cases[i]); c["label"] = "wfault-base:" + c["label"]
        base.append(c)
    counting = []
    for c in base:
        c = dict(c); c["fault"] = ("count", 1, "EIO")
        counting.append(c)
    return base, counting


def wfault_derive(ctx, base, crecs):
    rng = ctx.rng
    out = []
    for c, r in zip(base, crecs):
        if r["rc"] != 0 or not r["fault_counts"]:
            raise Infra("counting run of %s: rc=%s counts=%s stderr=%s" % (c["label"], r["rc"], r["fault_counts"], r["stderr"][-300:]))
        for cls in WCLASSES:
            n = r["fault_counts"].get(cls, 0)
            if n == 0:
                continue
            ks = list(range(1, n + 1))
            if len(ks) > (4 if ctx.quick() else 12):
                ks = sorted(rng.sample(ks, 4 if ctx.quick() else 12))
            for k in ks:
                for en in (["EIO", "EINTR", "EINVAL"] + rng.sample(WFAULT_ERRNOS, 1) if ctx.quick() else WFAULT_ERRNOS):
                    d = dict(c); d["fault"] = (cls, k, en); d["label"] = c["label"].replace("wfault-base:", "wfault:"); d["base_calls"] = r["calls"]
                    out.append(d)
    return out


def judge_wfaults(ctx, wcases, wrecs, stats):
    """specification only: nothing outside R changes; no abnormal end; exit status 0 only for a failure the code is meant to survive,
    and then everything must have been unpacked completely; the traced calls are a prefix of the fault-free run's"""
    h = stats["hist"].setdefault("wfaults", {})
    nrep = [0]

    def report(*a, **kw):
        nrep[0] += 1
        if nrep[0] <= 5:
            report(*a, **kw)
    for c, rec in zip(wcases, wrecs):
        cls, k, en = c["fault"]
        key = "%s|%s|%s:%d:%s" % (vlib.sha(" ".join(rec["template"]))[:16], rec["flags"], cls, k, en)
        if rec["fired"] is None:
            h["not fired"] = h.get("not fired", 0) + 1
            continue
        tol = (cls, en) in WTOLERATED
        outcome = "%s:%s:%s" % (cls, en if tol or en in ("EINTR", "EINVAL") else "other", "rc=%s" % rec["rc"])
        h[outcome] = h.get(outcome, 0) + 1
        stats["wfaults_fired"] += 1
        stats["nontrivial"].add("wfault|" + key)
        if rec["changed"]:
            stats["nviol"] += 1
            report("escape:wfault:" + key, "rdsquashfs changed objects outside the unpack root after an injected %s failure: %s" % (cls, json.dumps(rec["changed"][:3])[:500]),
                          replay_dict(rec, "jail snapshot differs outside R"))
        elif isinstance(rec["rc"], str) or rec["rc"] not in (0, 1):
            stats["nviol"] += 1
            report("crash:wfault:" + key, "rdsquashfs ended abnormally (rc=%s) after an injected %s failure: %s" % (rec["rc"], cls, rec["stderr"][-400:]),
                          replay_dict(rec, "abnormal end"))
        elif rec["rc"] == 0 and not tol:
            stats["nviol"] += 1
            report("fill-error-ignored:" + key, "the %d-th %s() of the run was made to fail with %s and rdsquashfs still exited 0" % (k, cls, en),
                          replay_dict(rec, "injected %s failure ignored" % cls))
        elif rec["rc"] == 0 and spec_complete(rec):
            stats["nviol"] += 1
            report("incomplete:wfault:" + key, "exit status 0 after a (survivable) injected %s/%s but the image was not completely unpacked: %s" % (
                cls, en, "; ".join(spec_complete(rec))[:600]), replay_dict(rec, spec_complete(rec)))
        elif rec["rc"] == 0 and rec["calls"] != c["base_calls"] or rec["rc"] == 1 and rec["calls"] != c["base_calls"][:len(rec["calls"])]:
            stats["ndis"] += 1
            report("corr:wfault:" + key, "after an injected %s/%s the traced calls are not %s the fault-free run's" % (cls, en, "equal to" if rec["rc"] == 0 else "a prefix of"),
                          dict(replay_dict(rec, "calls differ"), fault_free_calls=c["base_calls"][:60]), found_input=False)
        else:
            stats["wfaults_ok"] += 1


def build_rd(ctx):
    # fill_files.c calls qsort(NULL, 0, …) when the image has no regular file: UBSan's nonnull-attribute check
    # reports that (harmless in glibc, not a C06 matter; noted in docs/design/C06.md), so that one check is off.
    # The fault-injection wrappers (harness/h_c06_fault.c) are linked in; without C06_FAULT they are the identity.
    shim = ctx.scratch / "h_c06_fault.o"
    if not shim.exists():
        r = vlib.sh(["gcc", "-O1", "-g", "-w", "-c", str(vlib.HARNESS / "h_c06_fault.c"), "-o", str(shim)])
        if r.returncode != 0:
            raise vlib.CheckFailure("compile of harness/h_c06_fault.c failed:\n" + r.stderr[-2000:])
    return ctx.build_tool("rdsquashfs", tag="c06", flags=["-fno-sanitize=nonnull-attribute"], extra_objs=[str(shim)],
                          ldflags=["-Wl,--wrap=" + x for x in WRAPPED])


def probe_nobody(ctx):
    """can this sandbox run a traced process as uid 65534?"""
    d = ctx.scratch / "nobody_probe"
    d.mkdir()
    os.chown(d, NOBODY, NOBODY)
    try:
        r = subprocess.run(["setpriv", "--reuid=%d" % NOBODY, "--regid=%d" % NOBODY, "--clear-groups", "strace", "-f", "-o", str(d / "log"),
                            "-e", "trace=mkdir", "mkdir", str(d / "x")], stdout=subprocess.PIPE, stderr=subprocess.PIPE, timeout=120)
        ok = r.returncode == 0 and os.stat(d / "x").st_uid == NOBODY and "mkdir(" in (d / "log").read_text()
    except (OSError, subprocess.SubprocessError):
        ok = False
    shutil.rmtree(d, ignore_errors=True)
    return ok


def through_planted_link(rec):
    """every change outside R lies at or below jail/lt_dir, jail/lt_file — the targets of the links make_jail put *below R* — and R
    was in one of the LINK_STATES: the escape went through a link that was there before the run"""
    if rec["rstate"] not in LINK_STATES or MAIN_OP[0] != "main":
        return False
    # … and the walks made a `mkdir` on the name of one of those links that answered EEXIST and went on.  (The caller also requires
    # that the run agrees call by call with the model of the *current* code: a mutant that, say, drops O_EXCL and writes through
    # `f -> ../lt_file` differs from it and is reported as an ordinary escape.)
    names = {hx(rel) for rel, _ in LINK_STATES[rec["rstate"]]}
    post = split_calls(rec)[2]
    if not any(t.startswith("mkdir:") and t.split(":")[1] in names and r == "EEXIST" and i + 1 < len(post) for i, (t, r) in enumerate(post)):
        return False
    ok = tuple(rec["jail"] + "/" + x for x in ("lt_dir", "lt_file"))
    return all(any(c["path"] == o or c["path"].startswith(o + "/") for o in ok) for c in rec["changed"])


def probe_variant(ctx, rd):
    """Which create_node does the tree under test have?  R/a -> ../lt_dir, image with a/x: the current code unpacks through the
    link (exit 0, lt_dir/x appears); the repaired one (fixes/C06-mkdir-eexist-lstat.patch) fails at `mkdir a` and changes nothing.
    Anything else is neither: treated as current code, so that the ordinary comparison reports it."""
    rec = run_case(ctx, rd, 10**6, mk_case("probe:variant", link_hit_tree(), "-", b"/", "lnk_dir1", b"R", "jail"))
    repaired = rec["rc"] == 1 and not rec["changed"] and not any(c.startswith(("openx:", "opent:")) for c, _ in rec["calls"])
    return repaired, rec


def replay_dict(rec, why):
    return {"why": why, "label": rec["label"], "flags": rec["flags"], "upath": rec["upath"], "rstate": rec["rstate"], "rstr": rec["rstr"],
            "start": rec["start"], "priv": rec["priv"], "fault": rec["fault"],
            "tokens": rec["template"], "rc": rec["rc"], "stderr": rec["stderr"][-600:], "calls": rec["calls"][-40:], "changed_outside_R": rec["changed"][:10],
            "cmd": "[setpriv 65534] rdsquashfs -q -u <upath> [-p <rstr>] <flags> img (image forged by tools/sqfs_forge.py from `tokens`), "
                   "cwd = jail | jail/start | jail/R (no -p); jail as tools/checks/c06.py make_jail(rstate); fault = C06_FAULT class:k:errno"}


def run_all(ctx, rd, cases, first_idx=0):
    recs = []
    with concurrent.futures.ThreadPoolExecutor(max_workers=WORKERS) as ex:
        futs = [ex.submit(run_case, ctx, rd, first_idx + i, c) for i, c in enumerate(cases)]
        for f in futs:
            recs.append(f.result())
    # a timeout under load is not a finding: re-run such cases alone with a much longer limit
    for i, r in enumerate(recs):
        if r["rc"] == "timeout":
            ctx.log("case %d timed out under load; re-running it in isolation" % (first_idx + i))
            recs[i] = run_case(ctx, rd, first_idx + i, cases[i], timeout=6 * CASE_TIMEOUT)
    for r in recs:
        if r["rc"] != "timeout" and r["strace_lines"] == 0:
            raise Infra("strace logged nothing for case %d (%s): %s" % (r["idx"], r["label"], r["stderr"][-300:]))
    return recs


def model_pass(ctx, cases, recs):
    """→ (models, plans): `unpackMain` for every run; for unprivileged runs with the kernel's refusal as environment fault,
    for fault cases with the injected one"""
    reqs = []
    for c, r in zip(cases, recs):
        faults = [(c["inject_idx"], c["fault"][2])] if c["fault"] is not None else []
        reqs.append(main_request(r, faults))
    models = [parse_main(l) for l in drive(ctx, reqs, "main")]
    redo = []
    for i, (c, r, m) in enumerate(zip(cases, recs, models)):
        if c["priv"] != "nobody" or "special" in m:
            continue
        for where, idx, tok, res in model_seq(m):
            e = nobody_predict(r, m, where, tok, res)
            if e is not None and e != res:
                redo.append((i, idx, e))
                break
            if not fine(tok, res):
                break
    if redo:
        again = drive(ctx, [main_request(recs[i], [(idx, e)]) for i, idx, e in redo], "main (unprivileged)")
        for (i, idx, e), l in zip(redo, again):
            models[i] = parse_main(l)
            recs[i]["nobody_fault"] = [idx, e]
    plans = drive(ctx, [plan_request(r) for r in recs], "plan")
    for c, r in zip(cases, recs):
        if c["fault"] is not None:
            r["inject"] = c["inject"]
    return models, plans


def judge(ctx, recs, models, plans, stats):
    """specification monitor + correspondence for each run"""
    for rec, m, pl in zip(recs, models, plans):
        hist = stats["hist"]
        hist["rc"][str(rec["rc"])] = hist["rc"].get(str(rec["rc"]), 0) + 1
        st = m.get("special") or m["status"]
        hist["model_status"][st] = hist["model_status"].get(st, 0) + 1
        hist["impl_calls"] += len(rec["calls"])
        hist["skips_reported"] += len(rec["skips"])
        hist["rstate"][rec["rstate"]] = hist["rstate"].get(rec["rstate"], 0) + 1
        hist["priv"][rec["priv"]] = hist["priv"].get(rec["priv"], 0) + 1
        if "special" not in m:
            est = "established" if m["est"] else "mkdir_p failed" if m["chdir"] == "-" and m["status"] != "err:duplicate" and rec["rstr"] is not None else \
                "chdir failed" if m["chdir"] not in ("-", "0") else "not reached"
            hist["root"][est] = hist["root"].get(est, 0) + 1
            if rec.get("nobody_fault"):
                hist["nobody_refusals"][rec["nobody_fault"][1]] = hist["nobody_refusals"].get(rec["nobody_fault"][1], 0) + 1
        if rec["fault"] is not None:
            k = "%s:%s" % (rec["fault"][0], rec["fault"][2])
            hist["faults"][k] = hist["faults"].get(k, 0) + 1
        key = "%s|%s|%s|%s|%s|%s|%s" % (vlib.sha(" ".join(rec["template"]))[:16], rec["flags"], rec["upath"], rec["rstate"], rec["rstr"], rec["priv"],
                                        "-" if rec["fault"] is None else "%s:%d:%s" % tuple(rec["fault"]))
        if rec["skips"] or st != "ok" or any(r != "0" for _, r in rec["calls"][1:]) or rec["fault"] is not None:
            stats["nontrivial"].add(key)
        # 1. the specification, on the implementation: nothing outside R changed
        if rec["changed"] and through_planted_link(rec) and not (compare(rec, m) + compare_state(rec, m)):
            # the recorded defect: create_node tolerates EEXIST from mkdir without looking at what exists, so a symbolic link that
            # was below R before the run is walked through.  One key for the defect, not one per image; the run is still
            # compared with the model (which follows the link the same way) below.
            stats["link_escapes"] += 1
            if stats["link_escapes"] == 1:
                ctx.violation(KNOWN_LINK_ESCAPE, "rdsquashfs wrote outside the unpack root through a symbolic link that was below R before the run "
                              "(create_node tolerates EEXIST from mkdir without lstat): %s" % json.dumps(rec["changed"][:2])[:500],
                              replay_dict(rec, "jail snapshot differs outside R, below the target of a link planted in R"))
        elif rec["changed"]:
            stats["nviol"] += 1
            if stats["nviol"] <= 5:
                ctx.violation("escape:" + key, "rdsquashfs changed objects outside the unpack root: %s" % json.dumps(rec["changed"][:3])[:600],
                              replay_dict(rec, "jail snapshot differs outside R"))
            continue
        if isinstance(rec["rc"], str) or rec["rc"] not in (0, 1):
            stats["nviol"] += 1
            if stats["nviol"] <= 5:
                ctx.violation("crash:" + key, "rdsquashfs ended abnormally (rc=%s): %s" % (rec["rc"], rec["stderr"][-400:]), replay_dict(rec, "abnormal end"))
            continue
        inc = spec_complete(rec)
        stats["complete_checked"] += rec["rc"] == 0
        if inc:
            stats["nviol"] += 1
            if stats["nviol"] <= 5:
                ctx.violation("incomplete:" + key, "rdsquashfs reported success although part of the image was not unpacked (or a refused entry not reported): " + "; ".join(inc)[:700],
                              replay_dict(rec, inc))
            continue
        # 2. correspondence
        bad = compare(rec, m) + compare_skips(rec, m, pl) + compare_state(rec, m) + compare_stdout(rec)
        stats["compared"] += 1
        stats["noisy_compared"] += rec["stdout"] is not None
        stats["nosparse_runs"] += "Z" in rec["flags"]
        if bad:
            stats["ndis"] += 1
            if stats["ndis"] <= 5:
                ctx.violation("corr:" + key, "model and rdsquashfs disagree (nothing outside R changed): " + "; ".join(bad)[:900],
                              dict(replay_dict(rec, bad), model={k: v for k, v in m.items() if k != "state"}), found_input=False)
    # 3. the model's POSIX semantics on the calls the tool really made (every run, not only on disagreement)
    mreqs = []
    for i, (r, m) in enumerate(zip(recs, models)):
        q, res = monitor_request(r, m)
        if q:
            mreqs.append((i, q, res))
        else:
            stats["monitor_skipped"][res] = stats["monitor_skipped"].get(res, 0) + 1
    mouts = drive(ctx, [q for _, q, _ in mreqs], "monitor")
    for (i, q, res), ml in zip(mreqs, mouts):
        w = ml.split()
        mres = [x.split("@")[0] for x in w[1:]]
        if len(mres) != len(res):
            raise Infra("monitor answered %d results to %d calls" % (len(mres), len(res)))
        stats["monitored"] += 1
        stats["monitored_calls"] += len(res)
        esc_model, esc_real = w[0] == "escaped", bool(recs[i]["changed"])
        if mres == res and esc_model and not esc_real:
            # every errno agrees, and by the model's semantics a successful call wrote an object that is not below R, but the
            # snapshot shows no difference: the value written equals the old one (e.g. chmod to the mode it already had)
            stats["nmon"] += 1
            if stats["nmon"] <= 3:
                ctx.violation("escape-by-model:" + vlib.sha(q)[:12], "a system call of the unpack run resolved, by the model's POSIX semantics, to an object outside R "
                              "and succeeded (the jail snapshot shows no difference because the value written equals the old one): %s" % ml[:300],
                              dict(replay_dict(recs[i], "model monitor: write outside R"), monitor=ml[:4000]))
        elif mres != res or esc_model != esc_real:
            stats["nmon"] += 1
            if stats["nmon"] <= 3:
                ctx.violation("posix-model:run:" + vlib.sha(q)[:12], "the abstract POSIX model disagrees with the kernel on the calls of an unpack run: kernel %s model %s; "
                              "changed outside R: kernel %s, model %s" % (res[:12], mres[:12], esc_real, w[0]),
                              dict(replay_dict(recs[i], "monitor"), request=q[:20000], kernel=res, model=ml[:4000]), found_input=False)


def run(ctx):
    ok, problems = vlib.proof_gate(ctx, MODULE, REQUIRED)
    if not ok:
        ctx.violation("proof:C06", "proof obligations of C06 no longer check: " + " | ".join(problems)[:1500],
                      {"broken": problems, "theorems_file": "lean/Sqfs/Props/C06.lean"}, found_input=False)
    wok, wlog = ctx.lean_build(["Sqfs.Witness.C06"])
    if not wok:
        ctx.violation("proof:C06-witness", "the necessity witnesses (Sqfs/Witness/C06.lean) no longer check: the abstract file system may have lost the ability to express an escape",
                      {"log": wlog[-1500:]}, found_input=False)
    os.chmod(ctx.scratch, 0o755)                 # uid 65534 has to reach its jail
    rd = build_rd(ctx)
    can_nobody = os.geteuid() == 0 and probe_nobody(ctx)
    ctx.log("unprivileged runs (setpriv uid 65534 under strace): %s" % ("possible" if can_nobody else "NOT possible in this sandbox"))
    repaired, prec = probe_variant(ctx, rd)
    MAIN_OP[0] = "mainr" if repaired else "main"
    ctx.log("create_node of the tree under test: %s (probe: rc=%s, changed outside R: %d)" % (
        "REPAIRED (mkdir/EEXIST accepted only after lstat says directory) - model unpackMainR" if repaired else "current (EEXIST tolerated blindly) - model unpackMain",
        prec["rc"], len(prec["changed"])))
    cases, ncase = build_cases(ctx, can_nobody)
    ctx.log("cases: " + ", ".join("%d %s" % (v, k) for k, v in ncase.items()))
    recs = run_all(ctx, rd, cases)
    ctx.log("implementation runs done")
    models, plans = model_pass(ctx, cases, recs)
    stats = {"hist": {"rc": {}, "model_status": {}, "impl_calls": 0, "skips_reported": 0, "rstate": {}, "priv": {}, "root": {}, "faults": {},
                      "nobody_refusals": {}},
             "nontrivial": set(), "ndis": 0, "nviol": 0, "link_escapes": 0, "wfaults_fired": 0, "wfaults_ok": 0, "noisy_compared": 0, "nosparse_runs": 0, "nmon": 0, "compared": 0, "complete_checked": 0, "monitored": 0, "monitored_calls": 0, "monitor_skipped": {}}
    judge(ctx, recs, models, plans, stats)
    # fault injection: derived from the fault-free runs
    fcases = fault_cases(ctx, cases, recs, models)
    ctx.log("fault-injection runs: %d" % len(fcases))
    frecs = run_all(ctx, rd, fcases, first_idx=len(cases))
    fmodels, fplans = model_pass(ctx, fcases, frecs)
    nfired = sum(1 for r in frecs if r["fired"] is not None)
    if fcases and nfired * 2 < len(fcases):
        raise Infra("only %d of %d injected faults fired: the wrappers are not in effect" % (nfired, len(fcases)))
    judge(ctx, frecs, fmodels, fplans, stats)
    # failures of write / ftruncate / fsync / close while a file is being filled
    wbase, wcount = wfault_cases(ctx, cases, recs)
    wcrecs = run_all(ctx, rd, wcount, first_idx=len(cases) + len(fcases))
    wcases = wfault_derive(ctx, wbase, wcrecs)
    ctx.log("fill-phase fault runs (write/ftruncate/fsync/close): %d from %d base cases" % (len(wcases), len(wbase)))
    wrecs = run_all(ctx, rd, wcases, first_idx=len(cases) + len(fcases) + len(wcount))
    judge_wfaults(ctx, wcases, wrecs, stats)
    # (ftruncate and pwrite are wrapped but an unpack run never reaches them: sqfs_istream_splice hands the output stream real
    # buffers also for sparse blocks, so realize_sparse's lseek+ftruncate is dead for `rdsquashfs -u`, with or without -Z)
    wcalled = sorted(c for c in WCLASSES if any(r["fault_counts"].get(c, 0) for r in wcrecs))
    stats["wclasses_called"] = wcalled
    if stats["wfaults_fired"] * 2 < len(wcases) or not {"write", "fsync", "close"} <= set(wcalled) or \
            not all(any(k.startswith(c + ":") for k in stats["hist"]["wfaults"]) for c in wcalled):
        raise Infra("fill-phase faults: %d of %d fired, classes seen %s" % (stats["wfaults_fired"], len(wcases), sorted(stats["hist"]["wfaults"])))
    if not stats["compared"] or not stats["monitored"] or not stats["monitored_calls"] or not stats["complete_checked"]:
        raise Infra("nothing was compared (%d) or monitored (%d runs, %d calls)" % (stats["compared"], stats["monitored"], stats["monitored_calls"]))
    if not stats["hist"]["root"].get("chdir failed") or not stats["hist"]["root"].get("mkdir_p failed"):
        raise Infra("no generated case made mkdir_p / chdir fail: %s" % stats["hist"]["root"])
    pbad, pstat = posix_probe(ctx, 400 if ctx.quick() else 8000)
    for b in pbad[:5]:
        ctx.violation("posix-model:" + vlib.sha(json.dumps(b["script"]))[:12],
                      "the abstract POSIX model and the kernel disagree on a system-call script: kernel %s model %s (verdicts: kernel escaped=%s, model %s)" % (
                          b["kernel"], b["model"], b["kernel_escaped"], b["model_verdict"]), b, found_input=False)
    samples = []
    allrecs, allmodels = recs + frecs, models + fmodels
    for i in (0, len(recs) // 3, len(recs) - 1, len(allrecs) - 1):
        r = allrecs[i]
        samples.append({"label": r["label"], "flags": r["flags"], "upath": r["upath"], "rstate": r["rstate"], "rstr": r["rstr"], "priv": r["priv"],
                        "fault": r["fault"], "nodes": len(r["tokens"]), "rc": r["rc"], "calls": [c for c, _ in r["calls"]][:8],
                        "model": {k: v for k, v in allmodels[i].items() if k in ("exit", "est", "status", "chdir", "special")}})
    ctx.cov.update({
        "evaluations": len(allrecs) + len(wrecs) + pstat["scripts"],
        "distinct_nontrivial": len(stats["nontrivial"]),
        "rule": "forged images (%s; all 16 subsets of -C -O -X -T, 25%% also with a subset of -D -S -F -L -E; 15%% with an unpack sub-path; 15%% of the random "
                "trees with damaged data blocks / xattr records, 8%% with hard links) unpacked by the ASan+UBSan rdsquashfs of the working tree under strace in a jail "
                "with decoys and an empty sentinel start directory; R absent / empty / a file / a dangling link / a link to a directory / to a file / a loop / populated / "
                "populated with symbolic links below it (14 LINK_STATES: directory, file, dangling, absolute, inner links at depth 1..3, links at unnamed paths); "
                "15%% of the random runs with -Z, 15%% without -q (stdout compared), 20%% of the random trees with 8..14 siblings in the top directory; "
                "-p spelled %d ways or not given; unprivileged runs: %s; then %d runs with one injected system-call failure each (classes %s x errnos %s); "
                "non-trivial = distinct (tree, flags, path, R state, -p, user, fault) where an entry was skipped, the tool failed, a system call failed or was made to fail" % (
                    ", ".join("%d %s" % (v, k) for k, v in ncase.items()), len({s[1] for s in ROOT_SHAPES}), "yes" if can_nobody else "not possible here",
                    len(fcases), sorted(set(CLASS_OF.values())), FAULT_ERRNOS),
        "samples": samples,
        "disagreements_checked": stats["ndis"] + stats["nviol"] + len(pbad) + stats["nmon"],
        "histogram": stats["hist"],
        "posix_model_probe": pstat,
        "monitor_on_real_calls": {"runs": stats["monitored"], "calls": stats["monitored_calls"], "disagreements": stats["nmon"], "not_monitored": stats["monitor_skipped"]},
        "faults_fired": nfired,
        "fill_phase_faults": {"classes": WCLASSES, "errnos": WFAULT_ERRNOS, "runs": len(wcases), "fired": stats["wfaults_fired"], "as_specified": stats["wfaults_ok"],
                              "classes_an_unpack_run_calls": stats["wclasses_called"],
                              "survivable_by_design": sorted("%s/%s" % x for x in WTOLERATED if x[0] != "close") + ["close/*"]},
        "successful_runs_checked_for_completeness": stats["complete_checked"],
        "unprivileged_runs_possible": can_nobody,
        # explicit flag: a capability the check needs and this run did not have — the evidence of such a run is weaker and says so
        "capabilities_missing": [] if can_nobody else ["unprivileged-runs: setpriv --reuid=65534 under strace is not possible here (not root, or the sandbox "
                                                       "refuses it): the nobody stream (EPERM/EACCES reactions of the real kernel) was NOT exercised"],
        "runs_without_q_stdout_compared": stats["noisy_compared"], "runs_with_no_sparse_Z": stats["nosparse_runs"],
        "create_node_variant": "repaired (model unpackMainR / op mainr)" if repaired else "current (model unpackMain / op main)",
        "runs_into_R_with_symlinks_below": sum(v for k, v in stats["hist"]["rstate"].items() if k in LINK_STATES),
        "escapes_through_a_link_planted_below_R": stats["link_escapes"],
    })
    if not can_nobody:
        ctx.log("CAPABILITY MISSING: unprivileged runs were not possible; evidence flag capabilities_missing is set")
    if not stats["noisy_compared"] or not stats["nosparse_runs"]:
        raise Infra("no run without -q (%d) or with -Z (%d) was compared" % (stats["noisy_compared"], stats["nosparse_runs"]))
    return ctx.finish(LEVEL, trusted_extra=[
        "abstract POSIX file system of Sqfs/Model/Unpack.lean (path resolution, symlink following, O_EXCL / O_CREAT|O_TRUNC / AT_SYMLINK_NOFOLLOW rules): "
        "hypothesis of the theorems, validated against the kernel by random system-call scripts on every run (posix_model_probe)",
        "strace (system-call log), tools/sqfs_forge.py (image writer), the jail snapshot and the table of calls refused to uid 65534 in tools/checks/c06.py, "
        "harness/h_c06_fault.c (link-time wrappers that make one call fail)",
        "modelled: rdsquashfs.c (tree_sort, OP_UNPACK incl. mkdir_p/chdir), restore_fstree.c, fill_files.c, mkdir_p.c, dir_tree.c (sqfs_tree_node_get_path), read_tree.c "
        "(names as C strings, children only below directory inodes, --unpack-path lookup); canonicalize_name / is_filename_sane via the C18 model"],
        assumptions=(["CURRENT create_node: the confinement theorems of the current code need `NoLinkBelow` (no symbolic link strictly below the directory the tool "
                      "stands in after chdir(R)); the property states no such hypothesis: an R that already holds a symbolic link at the path of a directory of the "
                      "image is walked through (Witness.C06.prepopulated_symlink_escapes; generated on every run: LINK_STATES; recorded as known finding "
                      "escape:symlink-below-R).  REPAIRED create_node (fixes/C06-mkdir-eexist-lstat.patch): C06.confinement_any_R, no hypothesis on R"]
                     if not repaired else ["repaired create_node: confinement_any_R applies, no hypothesis on what R holds"]) +
                    ["no other process modifies R during the run"] + ([] if can_nobody else ["UNPRIVILEGED RUNS NOT EXERCISED in this run (capabilities_missing)"]))


def replay(ctx, path):
    body = json.loads(open(path).read())
    rp = body.get("replay", {})
    if "tokens" not in rp:
        print("replay file names a broken obligation / model probe, no image to replay:", json.dumps(rp)[:800])
        return 1
    ctx.lean_build(["sqfsmodel"])
    os.chmod(ctx.scratch, 0o755)
    rd = build_rd(ctx)
    MAIN_OP[0] = "mainr" if probe_variant(ctx, rd)[0] else "main"
    print("model       :", "unpackMainR (repaired create_node)" if MAIN_OP[0] == "mainr" else "unpackMain (current create_node)")
    rstr = rp.get("rstr", "52")
    case = mk_case(rp.get("label", "replay"), node_from_tokens(rp["tokens"]), rp["flags"], bytes.fromhex(rp["upath"]),
                   rp.get("rstate", "empty" if rp.get("precreate", True) else "absent"), None if rstr is None else bytes.fromhex(rstr),
                   rp.get("start", "jail"), rp.get("priv", "root"), tuple(rp["fault"]) if rp.get("fault") else None)
    if case["fault"] is not None:
        base = dict(case); base["fault"] = None
        r0 = run_case(ctx, rd, 0, base)
        m0 = parse_main(drive(ctx, [main_request(r0)], "main")[0])
        cnt = {}
        for where, idx, tok, res in model_seq(m0) if "special" not in m0 else []:
            cls = CLASS_OF[tok.split(":")[0]]
            cnt[cls] = cnt.get(cls, 0) + 1
            if (cls, cnt[cls]) == (case["fault"][0], case["fault"][1]):
                j = idx if where == "pre" else idx - len(m0["pre"]) - (1 if m0["chdir"] != "-" else 0) if where == "tr" else 0
                case["inject"], case["inject_idx"] = (where, j), idx
        if "inject" not in case:
            print("the fault-free model run has no such call to inject the fault into")
            return 1
    rec = run_case(ctx, rd, 1, case)
    models, plans = model_pass(ctx, [case], [rec])
    m, pl = models[0], plans[0]
    print("exit status :", rec["rc"])
    print("stderr      :", rec["stderr"][-500:])
    print("calls       :", rec["calls"][:60])
    print("model       :", json.dumps({k: v for k, v in m.items() if k != "state"})[:2000])
    print("changed outside R:", json.dumps(rec["changed"])[:1500])
    bad = compare(rec, m) + compare_skips(rec, m, pl) + compare_state(rec, m)
    print("disagreements:", bad)
    return 1 if rec["changed"] or bad or rec["rc"] not in (0, 1) else 0
