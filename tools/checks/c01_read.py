"""
C01 (tool level) -- packing one case with the real gensquashfs and reading the image back five ways.

  (a) independent parser (harness/unz.c + `sqfsmodel c03 parse`, via checks.c03.describe) for the tree, and file contents
      rebuilt from the raw image bytes with Python's zlib/lzma (ctypes liblz4/libzstd) -- no code of /repo involved
  (b) rdsquashfs -d        (c) rdsquashfs -l / -s / -x        (d) rdsquashfs -c        (e) rdsquashfs -u + lstat & co.

Every comparison is against the oracle's expected tree (c01_gen.expected).  A mismatch is a tuple
(read-back path, class, image path, detail).
"""
import hashlib, json, mmap, os, re, shutil, stat, subprocess, time
from pathlib import Path

import sqfsraw
from checks import c03
from checks import c01_gen as G

U32 = 0xFFFFFFFF
TIMEOUT = 300
COMP_ID = {1: "gzip", 2: "lzma", 3: "lzo", 4: "xz", 5: "lz4", 6: "zstd"}
TYPE_D = {"dir": "dir", "file": "file", "slink": "slink", "cdev": "nod", "bdev": "nod", "fifo": "pipe", "sock": "sock"}


class Env:
    def __init__(self, ctx, gen, rd, unz, caps):
        self.ctx, self.gen, self.rd, self.unz, self.caps = ctx, str(gen), str(rd), str(unz), caps
        self.san = ctx.san_env()
        self.thorough = not ctx.quick()


def crashed(rc, err):
    if rc is None or rc < 0 or rc in (98, 99):
        return True
    return b"AddressSanitizer" in err or b"runtime error:" in err or b"LeakSanitizer" in err


def san_summary(err):
    txt = err.decode("latin-1")
    lines = [l for l in txt.splitlines() if "ERROR: AddressSanitizer" in l or "runtime error" in l or "TIMEOUT" in l
             or l.lstrip().startswith(("#0 ", "#1 ", "#2 "))]
    return (" | ".join(l.strip() for l in lines[:5]) or txt[-300:])[:700]


def run(cmd, env, timeout=TIMEOUT, cwd=None, stdout=subprocess.PIPE, fsize=None):
    pre = None
    if fsize is not None:
        import resource
        pre = lambda: resource.setrlimit(resource.RLIMIT_FSIZE, (fsize, fsize))
    try:
        r = subprocess.run(cmd, env=env, stdout=stdout, stderr=subprocess.PIPE, timeout=timeout, cwd=cwd, preexec_fn=pre)
        return r.returncode, r.stdout if stdout == subprocess.PIPE else b"", r.stderr
    except subprocess.TimeoutExpired as e:
        return None, b"", b"TIMEOUT after %d s" % timeout


# ----------------------------------------------------------------------------------------------------------------
# packing

def prepare(case, wd):
    """build the input below wd (bytes path); returns the gensquashfs argument list (without binary and image)"""
    root = os.path.join(wd, b"in")
    G.build_fs(root, case.get("fs", []))
    args = []
    mode = case["mode"]
    if mode in ("packfile", "glob"):
        with open(os.path.join(wd, b"pack.txt"), "wb") as f:
            f.write(G.packfile_text(case))
        args += [b"-F", os.path.join(wd, b"pack.txt")]
        if not case.get("no_packdir"):
            args += [b"-D", root]
    else:
        args += [b"-D", root]
    if case.get("xa"):
        with open(os.path.join(wd, b"xattr.txt"), "wb") as f:
            f.write(G.xattrfile_text(case))
        args += [b"-A", os.path.join(wd, b"xattr.txt")]
    args += [a.encode() for a in G.argv_of(case.get("opts", {}))]
    return args


def pack(env, case, wd, timeout=TIMEOUT):
    args = prepare(case, wd)
    img = os.path.join(wd, b"out.sqfs")
    opts = case.get("opts", {})
    if opts.get("f"):
        with open(img, "wb") as f:
            f.write(b"stale output that -f has to replace" * 300)
        args.append(b"-f")
    if opts.get("q", True):
        args.append(b"-q")
    e = dict(env.san)
    e.pop("SOURCE_DATE_EPOCH", None)
    if opts.get("sde") is not None:
        e["SOURCE_DATE_EPOCH"] = opts["sde"]
    cmd = [env.gen.encode()] + args + [img]
    t0 = time.time()
    # a runaway packer must not fill the disk: no image is larger than twice its (non-hole) input plus slack
    phys = sum(seg[1] for n in case.get("fs", []) for seg in (n.get("c") or []) if seg[0] != "h")
    rc, out, err = run(cmd, e, timeout=timeout, stdout=subprocess.DEVNULL, fsize=2 * phys + (256 << 20))
    return {"rc": rc, "stderr": err, "img": img, "cmd": cmd, "t": time.time() - t0}


def show_cmd(cmd, wd):
    return " ".join(G.s(c).replace(G.s(wd), "$WD") for c in cmd)


# ----------------------------------------------------------------------------------------------------------------
# (a) independent parser + raw content reconstruction

def jpath(o):
    return o["path"].encode("latin-1")


def read_a(env, case, img, exp, st):
    bad = []
    devblk = case.get("opts", {}).get("B") or 4096
    val, par = c03.describe(env.ctx, env.unz, G.s(img), devblk)
    summary = None
    for v in val:
        if v.startswith("viol ") or v.startswith("layout-model "):
            bad.append(("a", "validate", "", v[:300]))
        elif v.startswith("summary "):
            summary = dict(kv.split("=", 1) for kv in v.split()[1:] if "=" in kv)
    # the validator must have answered, must have seen every compressed data block unpacked by unz (`unz -b` ran to the end) and
    # must have scanned as many inodes as the input has link groups
    if summary is None:
        bad.append(("a", "helper", "", "sqfsmodel c03 validate printed no summary line (%d lines)" % len(val)))
    else:
        if summary.get("data_unverified") != "0":
            bad.append(("a", "helper", "", "validator could not check %s data blocks (unz -b did not deliver them)" % summary.get("data_unverified")))
        if not bad and summary.get("inodes") != str(len(set(e.grp for e in exp.values()))):
            bad.append(("a", "inode-count", "", "image has %s inodes, the input %d (distinct hard-link groups)" % (summary.get("inodes"), len(set(e.grp for e in exp.values())))))
    got, sup, frags = {}, None, []
    for l in par:
        try:
            o = json.loads(l)
        except ValueError:
            bad.append(("a", "parser", "", "unparsable parser line " + l[:100])); continue
        if "problem" in o or "error" in o:
            bad.append(("a", "parser", "", l[:300]))
        elif "super" in o:
            sup = o["super"]
        elif "fragments" in o:
            frags = o["fragments"]
        elif "path" in o:
            p = jpath(o)
            if p in got:
                bad.append(("a", "duplicate-path", G.s(p), "listed twice"))
            got[p] = o
    if sup is None:
        bad.append(("a", "parser", "", "no superblock"))
        return bad, got
    opts = case.get("opts", {})
    if sup["mtime"] != G.default_mtime(opts):
        bad.append(("a", "super-mtime", "", "superblock mtime %d, expected %d" % (sup["mtime"], G.default_mtime(opts))))
    if sup["block_size"] != (opts.get("bs") or 131072):
        bad.append(("a", "super-blocksize", "", "block size %d" % sup["block_size"]))
    want_comp = opts.get("comp") or "xz"
    if COMP_ID.get(sup["compressor"]) != want_comp:
        bad.append(("a", "super-compressor", "", "compressor id %d, expected %s" % (sup["compressor"], want_comp)))
    if bool(sup.get("export_table") is not None) != bool(opts.get("e")):
        bad.append(("a", "super-export", "", "export table present=%s but -e=%s" % (sup.get("export_table") is not None, bool(opts.get("e")))))
    # tree
    for p in exp:
        if p not in got:
            bad.append(("a", "missing", G.s(p), "path not in the image"))
    for p in got:
        if p not in exp:
            bad.append(("a", "unexpected", G.s(p), "path in the image that was not in the input (%s)" % got[p].get("type")))
    gsz = G.group_sizes(exp)
    ino_of_grp, grp_of_ino = {}, {}
    for p, e in exp.items():
        o = got.get(p)
        if o is None:
            continue
        st["a_nodes"] = st.get("a_nodes", 0) + 1
        bad += [("a", c, G.s(p), d) for c, d in cmp_fields(e, o["type"], o["mode"], o["uid"], o["gid"], o["mtime"],
                                                            o.get("target", "").encode("latin-1") if o["type"] == "slink" else None,
                                                            o.get("dev"), o.get("size"))]
        if o["type"] != "dir":
            if o["nlink"] != gsz[e.grp]:
                bad.append(("a", "nlink", G.s(p), "link count %d, expected %d" % (o["nlink"], gsz[e.grp])))
            i = o["ino"]
            if ino_of_grp.setdefault(e.grp, i) != i:
                bad.append(("a", "hardlink-split", G.s(p), "inode %d but %s has inode %d" % (i, G.s(e.grp), ino_of_grp[e.grp])))
            if grp_of_ino.setdefault(i, e.grp) != e.grp:
                bad.append(("a", "hardlink-merged", G.s(p), "shares inode %d with %s" % (i, G.s(grp_of_ino[i]))))
            if gsz[e.grp] > 1:
                st["a_link_names"] = st.get("a_link_names", 0) + 1
        gx = o.get("xattrs")
        if not isinstance(gx, list):
            bad.append(("a", "xattrs", G.s(p), "xattrs unreadable: %r" % (gx,)))
        else:
            gxd = {}
            for k, v in gx:
                if k in gxd:
                    bad.append(("a", "xattrs", G.s(p), "key %s twice" % k))
                gxd[k] = bytes.fromhex(v)
            if gxd != e.xattrs:
                txt, info = xdiff(e.xattrs, gxd)
                bad.append(("a", "xattrs", G.s(p), txt, info))
    # contents, straight from the image bytes
    bs = sup["block_size"]
    for p, e in exp.items():
        o = got.get(p)
        if o is not None and o["type"] == "file" and e.type == "file":
            # doc/format.adoc: `sparse` = "number of bytes saved by omitting zero bytes" = the unpacked sizes of the blocks with size word 0
            left, saved = o["size"], 0
            for w in o["blocks"]:
                n = min(bs, left)
                saved += n if w == 0 else 0
                left -= n
            if (o.get("sparse") or 0) != saved:
                bad.append(("a", "sparse-count", G.s(p), "inode says %s sparse bytes, its block list omits %d" % (o.get("sparse"), saved)))
    comp = COMP_ID.get(sup["compressor"], "?")
    with open(img, "rb") as f:
        size = os.fstat(f.fileno()).st_size
        mm = mmap.mmap(f.fileno(), 0, access=mmap.ACCESS_READ) if size else b""
        fcache = {}
        done = set()
        for p, e in exp.items():
            o = got.get(p)
            if o is None or e.type != "file" or o["type"] != "file" or o["ino"] in done:
                continue
            done.add(o["ino"])
            try:
                h = raw_file_hash(mm, o, frags, bs, comp, fcache)
            except Exception as ex:
                bad.append(("a", "content", G.s(p), "cannot rebuild the file from the image: %s" % ex)); continue
            st["a_files"] = st.get("a_files", 0) + 1
            st["a_bytes"] = st.get("a_bytes", 0) + o["size"]
            if o["size"] >= 1 << 32:
                st["a_files_4g"] = st.get("a_files_4g", 0) + 1
            fr = o.get("frag")
            if (o["blocks"] and o["start"] >= 1 << 32) or (fr and fr[0] != U32 and fr[0] < len(frags) and frags[fr[0]][0] >= 1 << 32):
                st["a_starts_4g"] = st.get("a_starts_4g", 0) + 1
            if h != G.content_hash(e.content):
                bad.append(("a", "content", G.s(p), "bytes rebuilt from the image differ from the input (size %d, %d block words, frag %s)" % (o["size"], len(o["blocks"]), o.get("frag"))))
        if size:
            mm.close()
    return bad, got


def xdiff(want, got):
    """(text, info): info = {"only_missing_empty": bool} tells whether the only difference is that empty-valued keys are absent"""
    parts, only_missing_empty = [], True
    short = lambda k: k if len(k) <= 48 else k[:45] + "..."
    for k in sorted(set(want) | set(got)):
        if k not in got:
            parts.append("missing %s (%d bytes)" % (short(k), len(want[k])))
            if len(want[k]) != 0:
                only_missing_empty = False
        elif k not in want:
            parts.append("unexpected %s" % short(k)); only_missing_empty = False
        elif want[k] != got[k]:
            parts.append("%s: value %s, expected %s" % (short(k), got[k][:24].hex(), want[k][:24].hex())); only_missing_empty = False
    return "; ".join(parts)[:600], {"only_missing_empty": bool(parts) and only_missing_empty}


def cmp_fields(e, typ, mode, uid, gid, mtime, target, dev, size):
    """expected node vs one reader's view; None = this reader does not show the field"""
    out = []
    if typ is not None and typ != e.type:
        out.append(("type", "type %s, expected %s" % (typ, e.type)))
        return out
    if mode is not None and mode != e.mode:
        out.append(("mode", "mode %04o, expected %04o" % (mode, e.mode)))
    if uid is not None and uid != e.uid:
        out.append(("uid", "uid %s, expected %d" % (uid, e.uid)))
    if gid is not None and gid != e.gid:
        out.append(("gid", "gid %s, expected %d" % (gid, e.gid)))
    if mtime is not None and mtime != e.mtime:
        out.append(("mtime", "mtime %s, expected %d" % (mtime, e.mtime)))
    if e.type == "slink" and target is not None and target != e.target:
        out.append(("target", "target %r, expected %r" % (target[:60], e.target[:60])))
    if e.type in ("cdev", "bdev") and dev is not None and dev != e.dev:
        out.append(("devno", "device number %s, expected %d (%d:%d)" % (dev, e.dev, G.major32(e.dev), G.minor32(e.dev))))
    if e.type == "file" and size is not None and size != e.size():
        out.append(("size", "size %s, expected %d" % (size, e.size())))
    return out


def raw_file_hash(mm, o, frags, bs, comp, fcache):
    h = hashlib.sha1()
    size, off, left = o["size"], o["start"], o["size"]
    zero = bytes(bs)
    for w in o["blocks"]:
        want = min(bs, left)
        n = w & 0xFFFFFF
        if w == 0:
            h.update(zero[:want])
        else:
            raw = mm[off:off + n]
            if len(raw) != n:
                raise ValueError("block at %d runs past the end of the image" % off)
            data = raw if w & (1 << 24) else sqfsraw.decompress(comp, raw, bs)
            if len(data) != want:
                raise ValueError("block unpacks to %d bytes, %d expected" % (len(data), want))
            h.update(data)
            off += n
        left -= want
    fr = o.get("frag")
    if left and fr is not None and fr[0] != U32:
        idx, foff = fr
        if idx not in fcache:
            fstart, fw = frags[idx]
            n = fw & 0xFFFFFF
            raw = mm[fstart:fstart + n]
            if len(fcache) > 64:
                fcache.clear()
            fcache[idx] = raw if fw & (1 << 24) else sqfsraw.decompress(comp, raw, bs)
        tail = fcache[idx][foff:foff + left]
        if len(tail) != left:
            raise ValueError("tail end [%d,+%d) not inside fragment %d" % (foff, left, idx))
        h.update(tail)
        left = 0
    if left:
        raise ValueError("%d bytes of the file are not covered by blocks or a fragment" % left)
    return h.hexdigest()


# ----------------------------------------------------------------------------------------------------------------
# (b) rdsquashfs -d

def split_desc_line(line):
    """tokens of one description line (gensquashfs(1) PACK FILE FORMAT: blank separated, quotes with \\" and \\\\)"""
    out, i, n = [], 0, len(line)
    while i < n:
        while i < n and line[i] in b" \t":
            i += 1
        if i >= n:
            break
        if line[i] == 0x22:
            i += 1
            tok = bytearray()
            while i < n and line[i] != 0x22:
                if line[i] == 0x5c and i + 1 < n and line[i + 1] in (0x22, 0x5c):
                    tok.append(line[i + 1]); i += 2
                else:
                    tok.append(line[i]); i += 1
            if i >= n:
                return None
            i += 1
            out.append(bytes(tok))
        else:
            j = i
            while j < n and line[j] not in b" \t":
                j += 1
            out.append(line[i:j]); i = j
    return out


def read_b(env, case, img, exp, st):
    bad = []
    if any(b"\n" in p or (e.type == "slink" and b"\n" in e.target) for p, e in exp.items()):
        # a line feed cannot be written into the line based listing: rdsquashfs -d refuses such a tree (by design, /repo 4b35342;
        # C16 excludes LF as well).  That refusal is checked; the nodes are compared on the other paths.
        rc, out, err = run([env.rd, "-d", img], env.san)
        if crashed(rc, err):
            return [("b", "crash", "", "rdsquashfs -d: rc=%s %s" % (rc, san_summary(err)))]
        if rc == 0 or not err.strip():
            return [("b", "describe-lf", "", "rdsquashfs -d exits %s %s a diagnostic on a tree with a line feed in a name or target" % (rc, "with" if err.strip() else "without"))]
        st["b_skipped"] = "a name or target contains a line feed: rdsquashfs -d refuses the tree (checked)"
        return bad
    lf_names = False
    rc, out, err = run([env.rd, "-d", img], env.san)
    if crashed(rc, err):
        return [("b", "crash", "", "rdsquashfs -d: rc=%s %s" % (rc, san_summary(err)))]
    if rc != 0:
        return [("b", "reader-failed", "", "rdsquashfs -d failed (%d): %s" % (rc, err[-200:].decode("latin-1")))]
    got = {}
    for line in out.split(b"\n"):
        if not line:
            continue
        f = split_desc_line(line)
        if not f or len(f) < 5 or f[0] not in (b"dir", b"file", b"slink", b"nod", b"pipe", b"sock"):
            if lf_names:
                continue
            bad.append(("b", "describe-syntax", "", "line cannot be read back as a pack file line: %r" % line[:120])); continue
        p = b"/" + f[1].strip(b"/")
        try:
            rec = {"kind": f[0].decode(), "mode": int(f[2], 8), "uid": int(f[3]), "gid": int(f[4]), "extra": f[5:]}
        except ValueError:
            if not lf_names:
                bad.append(("b", "describe-syntax", G.s(p), "numbers unreadable in %r" % line[:120]))
            continue
        if p in got:
            bad.append(("b", "duplicate-path", G.s(p), "described twice"))
        got[p] = rec
    for p, e in exp.items():
        if b"\n" in p:
            st["b_lf_nodes"] = st.get("b_lf_nodes", 0) + 1
            continue
        o = got.get(p)
        if o is None:
            bad.append(("b", "missing", G.s(p), "not described")); continue
        st["b_nodes"] = st.get("b_nodes", 0) + 1
        if o["kind"] != TYPE_D[e.type]:
            bad.append(("b", "type", G.s(p), "described as %s, expected %s" % (o["kind"], e.type))); continue
        target = dev = None
        x = o["extra"]
        if e.type == "slink":
            target = x[0] if len(x) == 1 else b"<%d tokens>" % len(x)
        elif e.type in ("cdev", "bdev"):
            if len(x) != 3 or x[0] != (b"c" if e.type == "cdev" else b"b"):
                bad.append(("b", "type", G.s(p), "device described as %r" % (x,))); continue
            dev = G.makedev32(int(x[1]), int(x[2])) if G.dev_representable(int(x[1]), int(x[2])) else -1
        elif x:
            bad.append(("b", "describe-syntax", G.s(p), "unexpected extra tokens %r" % (x[:3],)))
        bad += [("b", c, G.s(p), d) for c, d in cmp_fields(e, None, o["mode"], o["uid"], o["gid"], None, target, dev, None)]
    for p in got:
        if p not in exp and not lf_names:
            bad.append(("b", "unexpected", G.s(p), "described but not in the input"))
    return bad


# ----------------------------------------------------------------------------------------------------------------
# (c) rdsquashfs -l / -s / -x

def mode_str(typ, m):
    c = {"dir": "d", "cdev": "c", "bdev": "b", "file": "-", "slink": "l", "sock": "s", "fifo": "p"}[typ]
    def tri(r, w, x, sp, ch):
        return ("r" if r else "-") + ("w" if w else "-") + ((ch if x else ch.upper()) if sp else ("x" if x else "-"))
    return (c + tri(m & 0o400, m & 0o200, m & 0o100, m & 0o4000, "s") + tri(m & 0o40, m & 0o20, m & 0o10, m & 0o2000, "s")
            + tri(m & 0o4, m & 0o2, m & 0o1, m & 0o1000, "t"))


LS_HEAD = re.compile(rb"([dcb\-lsp][rwxsStT\-]{9}) +(\d+)/(\d+) +(\S+) ")


def children(exp, p):
    pre = p if p.endswith(b"/") else p + b"/"
    return sorted(q for q in exp if q != b"/" and q.startswith(pre) and b"/" not in q[len(pre):])


def size_classes(n):
    """what `ls`-style rounding may print for n bytes: exact below 1 KiB, else a rounded number with k/M/G suffix"""
    return n


def read_c_list(env, img, exp, got_a, d, st):
    bad = []
    rc, out, err = run([env.rd, "-l", d, img], env.san)
    if crashed(rc, err):
        return [("c", "crash", G.s(d), "rdsquashfs -l: rc=%s %s" % (rc, san_summary(err)))]
    if rc != 0:
        return [("c", "reader-failed", G.s(d), "rdsquashfs -l failed (%d): %s" % (rc, err[-200:].decode("latin-1")))]
    pos = 0
    kids = children(exp, d) if exp[d].type == "dir" else [d]
    for q in kids:
        e = exp[q]
        m = LS_HEAD.match(out, pos)
        if not m:
            bad.append(("c", "list-syntax", G.s(q), "listing of %s: cannot read entry at byte %d: %r" % (G.s(d), pos, out[pos:pos + 80]))); break
        pos = m.end()
        name = q.rsplit(b"/", 1)[1]
        tail = name + (b" -> " + e.target if e.type == "slink" else b"") + b"\n"
        if out[pos:pos + len(tail)] != tail:
            bad.append(("c", "list-name", G.s(q), "listing of %s shows %r, expected %r" % (G.s(d), out[pos:pos + len(tail) + 10][:100], tail[:100]))); break
        pos += len(tail)
        st["c_list_entries"] = st.get("c_list_entries", 0) + 1
        if m.group(1).decode() != mode_str(e.type, e.mode):
            bad.append(("c", "mode", G.s(q), "listed as %s, expected %s" % (m.group(1).decode(), mode_str(e.type, e.mode))))
        if int(m.group(2)) != e.uid:
            bad.append(("c", "uid", G.s(q), "listed uid %s, expected %d" % (m.group(2).decode(), e.uid)))
        if int(m.group(3)) != e.gid:
            bad.append(("c", "gid", G.s(q), "listed gid %s, expected %d" % (m.group(3).decode(), e.gid)))
        szs = m.group(4)
        if e.type in ("cdev", "bdev"):
            if szs != b"%d:%d" % (G.major32(e.dev), G.minor32(e.dev)):
                bad.append(("c", "devno", G.s(q), "listed device %s, expected %d:%d" % (szs.decode(), G.major32(e.dev), G.minor32(e.dev))))
        elif e.type in ("file", "slink"):
            n = e.size() if e.type == "file" else len(e.target)
            if n <= 1024 and szs != b"%d" % n:
                bad.append(("c", "size", G.s(q), "listed size %s, expected %d" % (szs.decode(), n)))
            elif n > 1024 and not size_matches(szs, n):
                bad.append(("c", "size", G.s(q), "listed size %s for %d bytes" % (szs.decode(), n)))
    else:
        if out[pos:] != b"":
            bad.append(("c", "list-extra", G.s(d), "listing of %s has extra output %r" % (G.s(d), out[pos:pos + 100])))
    return bad


def size_matches(txt, n):
    """a rounded size with a binary suffix must be within one unit of the true size"""
    m = re.match(rb"^(\d+)([kMGTPE])$", txt)
    if not m:
        return False
    unit = 1024 ** (b"kMGTPE".index(m.group(2)) + 1)
    return int(m.group(1)) in (n // unit, -(-n // unit)) and n > unit // 1


STAT_TYPES = {"directory": "dir", "file": "file", "symbolic link": "slink", "block device": "bdev", "character device": "cdev",
              "named pipe": "fifo", "socket": "sock"}


def read_c_stat(env, img, exp, got_a, p, gsz, st):
    bad = []
    e = exp[p]
    rc, out, err = run([env.rd, "-s", p, img], env.san)
    if crashed(rc, err):
        return [("c", "crash", G.s(p), "rdsquashfs -s: rc=%s %s" % (rc, san_summary(err)))]
    if rc != 0:
        return [("c", "reader-failed", G.s(p), "rdsquashfs -s failed (%d): %s" % (rc, err[-200:].decode("latin-1")))]
    f = {}
    name = p.rsplit(b"/", 1)[1]
    head = b"Name: " + name + b"\n"
    if not out.startswith(head):
        bad.append(("c", "stat-name", G.s(p), "stat shows %r" % out[:60]))
        return bad
    rest = out[len(head):]
    tgt = None
    if e.type == "slink":
        k = rest.find(b"Link target: ")
        if k >= 0:
            tgt = rest[k + 13:k + 13 + len(e.target)]
            after = rest[k + 13 + len(e.target):]
            if not (after == b"\n" or after.startswith(b"\n")):
                tgt = rest[k + 13:].split(b"\n")[0] + b"..."
            rest = rest[:k]
    for line in rest.split(b"\n"):
        if b": " in line and not line.startswith(b"\t"):
            k, v = line.split(b": ", 1)
            f[k.decode("latin-1")] = v.decode("latin-1")
    st["c_stat"] = st.get("c_stat", 0) + 1
    ityp = f.get("Inode type", "?")
    base = ityp[9:] if ityp.startswith("extended ") else ityp
    def num(key, rx=r"^(\d+)"):
        m = re.search(rx, f.get(key, ""))
        return int(m.group(1)) if m else None
    mt = num("Last modified", r"\((\d+)\)$")
    dev = num("Device number", r"\((\d+)\)$")
    bad += [("c", c, G.s(p), "stat: " + d) for c, d in cmp_fields(e, STAT_TYPES.get(base, base), int(f.get("Access", "0"), 8), num("UID"), num("GID"), mt,
                                                                  tgt, dev, num("File size") if e.type == "file" else None)]
    if e.type != "dir" and "Hard link count" in f and num("Hard link count") != gsz[e.grp]:
        bad.append(("c", "nlink", G.s(p), "stat: hard link count %s, expected %d" % (f["Hard link count"], gsz[e.grp])))
    if e.type != "dir" and "Hard link count" not in f and gsz[e.grp] != 1:
        bad.append(("c", "nlink", G.s(p), "stat: basic file inode (one link) but %d names expected" % gsz[e.grp]))
    a = got_a.get(p)
    if a is not None:       # the reader's view of fields the oracle does not define, against the independent parser
        if num("Inode number") != a["ino"]:
            bad.append(("c", "reader-vs-parser", G.s(p), "stat: inode number %s, parser %d" % (f.get("Inode number"), a["ino"])))
        if e.type == "dir" and num("Hard link count") != a["nlink"]:
            bad.append(("c", "reader-vs-parser", G.s(p), "stat: link count %s, parser %d" % (f.get("Hard link count"), a["nlink"])))
        if e.type == "file" and a["type"] == "file":
            if num("Block count") != len(a["blocks"]):
                bad.append(("c", "reader-vs-parser", G.s(p), "stat: block count %s, parser %d" % (f.get("Block count"), len(a["blocks"]))))
            if "Sparse" in f and num("Sparse") != a.get("sparse"):
                bad.append(("c", "reader-vs-parser", G.s(p), "stat: sparse %s, parser %s" % (f.get("Sparse"), a.get("sparse"))))
    return bad


def xattr_render(k, v):
    """rdsquashfs(1) -x: 'dump them as key value pairs'; binary values are shown as 0x<HEX>"""
    printable = True
    cont = 0
    for i, c in enumerate(v):
        if cont:
            if c & 0xC0 != 0x80:
                printable = False; break
            cont -= 1
            continue
        if c < 0x80:
            if c < 0x20 and not (7 <= c <= 13):
                printable = False; break            # NUL and other control bytes cannot be shown as text
            if c == 0x7f:
                printable = False; break
            continue
        for mask, val, n in ((0xE0, 0xC0, 1), (0xF0, 0xE0, 2), (0xF8, 0xF0, 3), (0xFC, 0xF8, 4), (0xFE, 0xFC, 5)):
            if c & mask == val:
                cont = n
        if cont and len(v) - i - 1 < cont:
            printable = False; break
    return k.encode("latin-1") + b"=" + (v if printable else b"0x" + v.hex().upper().encode()) + b"\n"


def read_c_xattr(env, img, exp, got_a, p, st):
    e = exp[p]
    rc, out, err = run([env.rd, "-x", p, img], env.san)
    if crashed(rc, err):
        return [("c", "crash", G.s(p), "rdsquashfs -x: rc=%s %s" % (rc, san_summary(err)))]
    if rc != 0:
        return [("c", "reader-failed", G.s(p), "rdsquashfs -x failed (%d): %s" % (rc, err[-200:].decode("latin-1")))]
    st["c_xattr"] = st.get("c_xattr", 0) + 1
    a = got_a.get(p)
    order = [k for k, _ in a["xattrs"]] if a is not None and isinstance(a.get("xattrs"), list) else sorted(e.xattrs)
    if sorted(order) != sorted(e.xattrs):
        order = sorted(e.xattrs)
    want = b"".join(xattr_render(k, e.xattrs[k]) for k in order)
    if out != want:
        # any order of the pairs is fine
        if sorted(out.split(b"\n")) == sorted(want.split(b"\n")) and not any(b"\n" in v for v in e.xattrs.values()):
            return []
        cls = "xattr-dump"
        if any(0 in v for v in e.xattrs.values()):
            cls = "xattr-dump-nul"
        return [("c", cls, G.s(p), "-x prints %r, expected %r" % (out[:150], want[:150]))]
    return []


# ----------------------------------------------------------------------------------------------------------------
# (d) rdsquashfs -c

def read_d(env, img, exp, p, st):
    e = exp[p]
    proc = subprocess.Popen([env.rd, "-c", p, img], env=env.san, stdout=subprocess.PIPE, stderr=subprocess.PIPE)
    h = hashlib.sha1()
    n = 0
    t0 = time.time()
    try:
        while True:
            ch = proc.stdout.read(1 << 20)
            if not ch:
                break
            h.update(ch); n += len(ch)
            if n > e.size() + (1 << 20):
                proc.kill()
                return [("d", "content", G.s(p), "-c wrote more than %d bytes, expected %d (stopped reading)" % (n, e.size()))]
            if time.time() - t0 > 4 * TIMEOUT:
                proc.kill()
                return [("d", "crash", G.s(p), "rdsquashfs -c: timeout")]
        err = proc.stderr.read()
        rc = proc.wait()
    finally:
        if proc.poll() is None:
            proc.kill()
        proc.stdout.close(); proc.stderr.close()
    if crashed(rc, err):
        return [("d", "crash", G.s(p), "rdsquashfs -c: rc=%s %s" % (rc, san_summary(err)))]
    if rc != 0:
        return [("d", "reader-failed", G.s(p), "rdsquashfs -c failed (%d): %s" % (rc, err[-200:].decode("latin-1")))]
    st["d_files"] = st.get("d_files", 0) + 1
    st["d_bytes"] = st.get("d_bytes", 0) + n
    if n != e.size() or h.hexdigest() != G.content_hash(e.content):
        return [("d", "content", G.s(p), "-c wrote %d bytes, expected %d%s" % (n, e.size(), "" if n != e.size() else " (bytes differ)"))]
    return []


# ----------------------------------------------------------------------------------------------------------------
# (e) rdsquashfs -u

def file_hash(path):
    h = hashlib.sha1()
    with open(path, "rb") as f:
        while True:
            ch = f.read(1 << 20)
            if not ch:
                break
            h.update(ch)
    return h.hexdigest()


def unpack_flags(exp, caps):
    """-C -O -T always; -X only if every attribute can be set in this sandbox (user.* only on files and directories)"""
    fl = ["-C", "-O", "-T"]
    x_ok = caps.get("xattr_user") and caps.get("xattr_trusted")
    for e in exp.values():
        for k in e.xattrs:
            if k.startswith("user.") and e.type not in ("file", "dir"):
                x_ok = False
            if k.startswith("security.") and not caps.get("xattr_security"):
                x_ok = False
    if x_ok:
        fl.append("-X")
    return fl, x_ok


def read_e(env, case, img, exp, wd, st):
    bad = []
    dst = os.path.join(wd, b"unp")
    if any(len(c) > 255 for p in exp for c in p.split(b"/")):
        st["e_skipped"] = "a name longer than NAME_MAX (255) cannot be created on the scratch file system"
        return bad
    if any(len(p) > 3900 for p in exp):
        st["e_skipped"] = "a path longer than PATH_MAX cannot be created by rdsquashfs -u (it uses full relative paths)"
        return bad
    fl, x_ok = unpack_flags(exp, env.caps)
    if not env.caps.get("mknod_dev") and any(e.type in ("cdev", "bdev") for e in exp.values()):
        fl.append("-D")
    if any(e.type == "slink" and len(e.target) > 4095 for e in exp.values()):
        fl.append("-L")            # symlink(2) refuses targets of PATH_MAX bytes and more: such trees are unpacked without symlinks
    biggest = max([e.size() for e in exp.values() if e.type == "file"] + [0])
    rc, out, err = run([env.rd, "-q", "-u", "/", "-p", dst] + fl + [img], env.san, timeout=4 * TIMEOUT, fsize=biggest + (1 << 20))
    if rc == -25:
        shutil.rmtree(dst, ignore_errors=True)
        return [("e", "content", "", "rdsquashfs -u wrote a file larger than the largest input file (%d bytes): stopped by RLIMIT_FSIZE" % biggest)]
    if crashed(rc, err):
        return [("e", "crash", "", "rdsquashfs -u: rc=%s %s" % (rc, san_summary(err)))]
    if rc != 0:
        return [("e", "reader-failed", "", "rdsquashfs -u failed (%d): %s" % (rc, err[-300:].decode("latin-1")))]
    st["e_flags"] = " ".join(fl)
    st["e_planned"] = sum(1 for p, e in exp.items() if p != b"/" and not ("-D" in fl and e.type in ("cdev", "bdev")) and not ("-L" in fl and e.type == "slink"))
    seen = set()
    for dp, dns, fns in os.walk(dst):
        for nme in dns + fns:
            full = os.path.join(dp, nme)
            seen.add(b"/" + os.path.relpath(full, dst))
    for p, e in exp.items():
        if p == b"/":
            continue
        if "-D" in fl and e.type in ("cdev", "bdev"):
            continue
        if "-L" in fl and e.type == "slink":
            continue
        full = os.path.join(dst, p[1:])
        try:
            s_ = os.lstat(full)
        except OSError:
            bad.append(("e", "missing", G.s(p), "not unpacked")); continue
        st["e_nodes"] = st.get("e_nodes", 0) + 1
        typ = {stat.S_IFDIR: "dir", stat.S_IFREG: "file", stat.S_IFLNK: "slink", stat.S_IFCHR: "cdev", stat.S_IFBLK: "bdev",
               stat.S_IFIFO: "fifo", stat.S_IFSOCK: "sock"}.get(stat.S_IFMT(s_.st_mode), "?")
        target = os.readlink(full) if typ == "slink" else None
        dev = None
        if typ in ("cdev", "bdev"):
            dev = G.makedev32(os.major(s_.st_rdev), os.minor(s_.st_rdev))
        mode = None if typ == "slink" else stat.S_IMODE(s_.st_mode)
        uid = None if e.uid == U32 else s_.st_uid          # chown(-1) means "leave unchanged"
        gid = None if e.gid == U32 else s_.st_gid
        bad += [("e", c, G.s(p), "unpacked: " + d) for c, d in cmp_fields(e, typ, mode, uid, gid, int(s_.st_mtime), target, dev, s_.st_size if typ == "file" else None)]
        if typ == "file" and e.type == "file" and s_.st_size == e.size():
            st["e_files"] = st.get("e_files", 0) + 1
            if file_hash(full) != G.content_hash(e.content):
                bad.append(("e", "content", G.s(p), "unpacked file differs from the input"))
        if x_ok and typ == e.type:
            try:
                keys = os.listxattr(full, follow_symlinks=False)
                gx = {k: os.getxattr(full, k, follow_symlinks=False) for k in keys}
            except OSError as ex:
                bad.append(("e", "xattrs", G.s(p), "cannot read xattrs of the unpacked node: %s" % ex)); continue
            if gx != e.xattrs:
                txt, info = xdiff(e.xattrs, gx)
                bad.append(("e", "xattrs", G.s(p), "unpacked: " + txt, info))
            elif e.xattrs:
                st["e_xattr_nodes"] = st.get("e_xattr_nodes", 0) + 1
    for p in seen:
        if p not in exp:
            bad.append(("e", "unexpected", G.s(p), "unpacked but not in the input"))
    shutil.rmtree(dst, ignore_errors=True)
    return bad
