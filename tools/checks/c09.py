"""
C09 — worker pool: FIFO, exactly-once, deadlock-free under every interleaving.

Proof: lean/Sqfs/Props/C09.lean over the small-step model lean/Sqfs/Model/Pool.lean (any number of workers and
items, every execution, spurious wake-ups included).  Tie: the real lib/util/src/threadpool.c, #included into
harness/h_c09.c and compiled with `-include harness/shim_sched.h` (ASan+UBSan), runs on the controlled cooperative
scheduler harness/sched.c; harness and `sqfsmodel c09` replay the same schedules and print, after every step, the
complete pool state read from the real struct / from the model; the two streams must be identical.

Schedules: depth-first enumeration by the model driver (complete for the smallest configurations, pre-emption
bounded for the others) x every position of a failing item x spurious wake-ups; model-guided random schedules
for the larger configurations; unguided random long scripts (choices that are not enabled must be refused by
both sides).  Independently of the model, every history the *implementation* produced is passed through the
specification monitors (FIFO, at-most-once, processed-before-returned, scheduler-detected deadlock, harness
assertions on mutex/context use).

Granularity (review finding: a shared write moved out of the critical section but before the next blocking point was
invisible): three further ties, all in the quick tier —
  * fine mode of the scheduler shim (scheduling points right after every lock acquisition and right after every
    unlock): seeded random schedules at that granularity; the harness derives the coarse schedule (each model step
    where its critical section ran), the model replays it and must reproduce every snapshot taken when all threads
    are at coarse blocking points, the final state, the API return values and the history; any dead-lock is a
    violation (theorem x_no_deadlock);
  * real threads (harness/h_c09rt.c, shim_c09_rt.h: seeded random yields/sleeps before and after every pthread
    call, hang detector based on /proc task states and CPU time): return values of failure-free runs = the serial
    pool model's (theorem refines_serial), all runs through the API/FIFO/once monitors;
  * the same under -fsanitize=thread: happens-before monitor for the pool's shared fields (lockset discipline).

D1 (DESIGN.md §5): the pinned `dequeue` never looks at `status`.  The check first replays the witness of
lean/Sqfs/Witness/C09.lean on the real code.  If it dead-locks, the tree has the pinned behaviour: the finding is
reported under key D1_KEY and the model variant `repaired = 0` is the reference for the rest of the run; every
further dead-lock must then have exactly that shape.  If it returns NULL, the tree is repaired and the reference
is `repaired = 1`, for which `no_deadlock` is a theorem: any dead-lock is a violation.
"""
import json, os, re, subprocess, time
import vlib

LEVEL = "proof"
MODULE = "Sqfs.Props.C09"
REQUIRED = ["Sqfs.C09." + t for t in (
    "inv_init", "inv_step", "inv_reachable", "run_reachable", "strict_reachable", "fifo", "fifo_run", "at_most_once",
    "returned_at_most_once", "no_item_lost", "exactly_once", "ctx_exclusive", "ctx_owner", "no_lost_wakeup", "no_deadlock",
    "no_deadlock_flag", "api_returns", "failure_recorded", "failure_sticky", "failure_reported_submit", "failure_reported_get_status",
    "failure_reported_dequeue", "healthy_status_zero", "dequeue_null_only_if", "refines_serial", "refines_serial_prefix",
    "x_projects", "xrun_reachable", "ctx_exclusive_users", "ctx_read_at_entry", "set_worker_ptr_returns", "submit_oom",
    "x_no_deadlock", "x_no_deadlock_flag", "fine_refines_coarse", "frun_reachable", "fine_mutex", "fine_safety", "fine_no_deadlock")]
WITNESS_MODULE = "Sqfs.Witness.C09"
WITNESS_REQUIRED = ["Sqfs.Witness.C09." + t for t in (
    "schedule_is_strict_execution", "deadlock_after_failure", "hang_forever", "no_deadlock_fails_for_pinned_code",
    "repaired_reports_failure")]
D1_KEY = "D1:dequeue-waits-forever-after-worker-failure"
WITNESS_CHOICES = "s0 m s1 m w0 w0 w0 q m q m"
WITNESS_RC = "0:-5"


def zip_strict(*seqs):
    """zip() that refuses streams of different length (a short stream is an infrastructure failure, not a pass)"""
    n = len(seqs[0])
    for q in seqs[1:]:
        if len(q) != n:
            raise vlib.CheckFailure("internal: streams of different length (%s)" % ", ".join(str(len(x)) for x in seqs))
    return zip(*seqs)


def need(cond, what):
    """a part of the check that evaluated nothing is a failure of the check, never a pass"""
    if not cond:
        raise vlib.CheckFailure("check infrastructure: " + what)


def driver_lines(ctx, lines):
    """one answer per line from `sqfsmodel c09` (none for no lines)"""
    lines = list(lines)
    if not lines:
        return []
    out = ctx.driver(["c09"], "\n".join(lines) + "\n")
    if len(out) != len(lines):
        raise vlib.CheckFailure("model driver answered %d of %d lines" % (len(out), len(lines)))
    return out


def harness_build(ctx):
    return ctx.cc("h_c09", ["h_c09.c", "sched.c", "lib/util/src/alloc.c"],
                  flags=["-include", str(vlib.HARNESS / "shim_sched.h")], libs=["-lpthread"])


def jobs(ctx):
    j = os.environ.get("VERIF_JOBS")
    if j:
        return max(1, int(j))
    return min(len(os.sched_getaffinity(0)), 8 if ctx.quick() else 12)


def run_parallel(ctx, argv, lines, timeout, pin=True, per_job=200, env_extra=None):
    """feed `lines` to `argv` split over several processes (order preserved); returns (outputs, problems).
    Every process must exit 0 and answer every line; anything else is a problem (the caller reports it)."""
    if not lines:
        return [], []
    cpus = sorted(os.sched_getaffinity(0))
    nj = max(1, min(jobs(ctx), len(lines) // per_job + 1))
    size = (len(lines) + nj - 1) // nj
    chunks = [lines[i:i + size] for i in range(0, len(lines), size)]
    procs = []
    for k, ch in enumerate(chunks):
        env = ctx.san_env({"VS_CPU": str(cpus[(k * max(1, len(cpus) // len(chunks))) % len(cpus)])} if pin else None)
        if env_extra:
            env.update(env_extra)
        inp = ctx.scratch / ("in_%d_%d.txt" % (os.getpid(), k))
        inp.write_text("\n".join(ch) + "\n")
        f = open(inp)
        procs.append((ch, subprocess.Popen(argv, stdin=f, stdout=subprocess.PIPE, stderr=subprocess.PIPE, text=True, env=env), f))
    out, problems = [], []
    deadline = time.time() + timeout
    for ch, p, f in procs:
        try:
            o, e = p.communicate(timeout=max(1, deadline - time.time()))
        except subprocess.TimeoutExpired:
            p.kill()
            o, e = p.communicate()
            e = "TIMEOUT\n" + (e or "")
        f.close()
        got = o.splitlines()
        if p.returncode != 0 or len(got) != len(ch):
            k = min(len(got), len(ch) - 1)
            problems.append({"script": ch[k], "rc": p.returncode, "stderr": e[-2000:], "answered": len(got)})
            got = got[:len(ch)] + ["<no output>"] * (len(ch) - len(got))
        out.extend(got)
    return out, problems


def model_run(ctx, lines):
    out, problems = run_parallel(ctx, [str(ctx.driver_path()), "c09"], lines, 1800, pin=False)
    if problems:
        raise vlib.CheckFailure("model driver failed: %s" % problems[0])
    bad = [(l, o) for l, o in zip_strict(lines, out) if o == "bad-op"]
    if bad:
        raise vlib.CheckFailure("model driver does not understand a generated line: %s" % bad[0][0][:300])
    return out


def enum_scripts(ctx, rep, n, rc, pre, spur, cap, ops):
    r = vlib.sh([str(ctx.driver_path()), "c09", "enum", str(rep), str(n), rc, str(pre), str(spur), str(cap)] + ops, timeout=600)
    if r.returncode != 0:
        raise vlib.CheckFailure("enum failed: " + r.stderr[-500:])
    ls = r.stdout.splitlines()
    need(ls and ls[-1].startswith("#paths ") and int(ls[-1].split()[1]) == len(ls) - 1 and len(ls) > 1,
         "schedule enumeration printed no schedule or an inconsistent count: %s" % (ls[-1:] or ["<nothing>"])[0])
    tail = ls[-1].split()
    return ls[:-1], tail[2] == "complete"


def rand_scripts(ctx, rep, n, rc, seed, count, psw, psp, ops):
    r = vlib.sh([str(ctx.driver_path()), "c09", "rand", str(rep), str(n), rc, str(seed), str(count), str(psw), str(psp)] + ops, timeout=600)
    if r.returncode != 0:
        raise vlib.CheckFailure("rand failed: " + r.stderr[-500:])
    ls = r.stdout.splitlines()
    need(len(ls) == count and all(l.startswith("run ") for l in ls), "random schedule generator returned %d of %d schedules" % (len(ls), count))
    return ls


# ---- API scripts ---------------------------------------------------------------------------------------------
def api_scripts(k):
    sub = ["s%d" % i for i in range(k)]
    out = {
        "all-then-all": sub + ["q"] * k + ["x"],
        "interleaved": [t for i in range(k) for t in ("s%d" % i, "q")] + ["x"],
        "status+extra-dequeue": sub + ["g"] + ["q"] * (k + 1) + ["g", "x"],
        "early-destroy": sub + ["q"] * (k // 2) + ["x"],
        "no-destroy": sub + ["q"] * k + ["q"],
        # set_worker_ptr (in range, NULL, out of range; also while callbacks run) and calloc failure in submit (first call:
        # recycle list empty -> -1; later: recycle list may be non-empty -> ordinary submit)
        "ptr+oom": ["o0"] + sub[:1] + ["p0:5"] + sub[1:] + ["q"] * ((k + 1) // 2) + ["o%d" % (k + 1), "p0:0", "p9:3"] + ["q"] * (k // 2 + 1) + ["x"],
    }
    return out


def rc_specs(k):
    """no failure, then every single position of a failing item, then (k>=2) first and last both failing"""
    out = ["-"] + ["%d:%d" % (j, -(j + 1)) for j in range(k)]
    if k >= 2:
        out.append("0:7,%d:-9" % (k - 1))
    return out


def plan(ctx):
    """list of (label, n, k, script-name, pre, spur, cap) for the DFS, by tier"""
    q = ctx.quick()
    P = []
    # complete for the smallest configurations
    P += [("complete", 1, 1, nm, 99, 2, 10 ** 7) for nm in ("all-then-all", "status+extra-dequeue", "early-destroy", "no-destroy")]
    P += [("complete", 1, 1, "ptr+oom", 99, 0, 10 ** 7), ("bounded", 2, 2, "ptr+oom", 1 if q else 2, 0, 3000 if q else 10 ** 6),
          ("bounded", 3, 3, "ptr+oom", 0 if q else 1, 1, 1000 if q else 20000)]
    P += [("complete", 1, 2, "all-then-all", 99, 0 if q else 1, 10 ** 7), ("complete", 1, 2, "interleaved", 99, 0 if q else 1, 10 ** 7)]
    P += [("complete", 2, 1, "all-then-all", 99, 0, 10 ** 7)]
    if not q:
        P += [("complete", 2, 1, "all-then-all", 99, 1, 10 ** 7), ("complete", 1, 3, "all-then-all", 99, 0, 10 ** 7),
              ("complete", 2, 1, "status+extra-dequeue", 99, 0, 10 ** 7)]
    # pre-emption bounded
    P += [("bounded", 1, 3, "all-then-all", 3, 0, 4000 if q else 10 ** 6), ("bounded", 1, 5, "all-then-all", 2, 0, 2000 if q else 10 ** 6),
          ("bounded", 2, 2, "all-then-all", 2 if q else 3, 0, 4000 if q else 10 ** 6), ("bounded", 2, 2, "interleaved", 2, 0, 3000 if q else 10 ** 6),
          ("bounded", 2, 2, "early-destroy", 2, 0, 2000 if q else 10 ** 6),
          ("bounded", 2, 3, "all-then-all", 1 if q else 2, 0, 3000 if q else 60000), ("bounded", 2, 3, "status+extra-dequeue", 1, 1, 2000 if q else 40000),
          ("bounded", 3, 3, "all-then-all", 1, 0, 3000 if q else 15000), ("bounded", 3, 2, "interleaved", 1, 0, 2000 if q else 15000),
          ("bounded", 2, 5, "all-then-all", 1, 0, 2000 if q else 40000), ("bounded", 3, 5, "all-then-all", 0 if q else 1, 0, 2000 if q else 15000),
          ("bounded", 3, 4, "interleaved", 1, 0, 1500 if q else 12000), ("bounded", 3, 5, "no-destroy", 0, 1, 1000 if q else 20000)]
    return P


HIST_KEYS = ("waitQ0", "waitQ1", "deqWait0", "deqWait1", "join:", "fin:", "exit", "deq:null", "dl=1", "| ne", "setPtrLock", "r=sub:-1", "r=set")


def classify_impl(line):
    """facts about the implementation's own trace, independent of the model"""
    head, _, tail = line.partition(" || ")
    snaps = head.split(" | ")
    info = {"deadlock": None, "err": None, "sub": "-", "cb": "-", "ret": "-", "ev": "-"}
    for i, sn in enumerate(snaps):
        if " dl=1" in sn:
            info["deadlock"] = (i, sn)
            break
    m = re.search(r"sub=(\S+) cb=(\S+) ret=(\S+)(?: ev=(\S+))?(?: err=(\S+))?", tail)
    if m:
        info["sub"], info["cb"], info["ret"], info["ev"], info["err"] = m.group(1), m.group(2), m.group(3), m.group(4) or "-", m.group(5)
    else:
        info["err"] = "no-history"
    return info


def d1_shaped(snap):
    """dead-lock of the D1 kind: main waits unsignalled on done_cond although the status is already non-zero"""
    m = re.search(r" st=(-?\d+) .* m=(\S+) ", snap)
    return bool(m) and m.group(1) != "0" and m.group(2) == "deqWait0"


def monitor_lines(infos):
    out = []
    for inf in infos:
        sub = [] if inf["sub"] == "-" else inf["sub"].split(",")
        pos = {}
        for t, d in enumerate(sub):
            pos.setdefault(d, []).append(t)
        # map callback data to tickets (data values are distinct in generated scripts; duplicates use first free)
        used, st = {}, []
        for c in ([] if inf["cb"] == "-" else inf["cb"].split(",")):
            d = c.split(":")[1]
            k = used.get(d, 0)
            used[d] = k + 1
            cand = pos.get(d, [])
            st.append(str(cand[min(k, len(cand) - 1)]) if cand and k < len(cand) else ("99999" if not cand else str(cand[-1])))
        out.append("monitor %s %s %s" % (inf["sub"], ",".join(st) if st else "-", inf["ret"]))
    return out


def compare(ctx, harness, rep, scripts, stats, label, batch=40000):
    """run scripts on the real code and the model (in batches, to bound memory); report violations"""
    n = 0
    for i in range(0, len(scripts), batch):
        n += compare_batch(ctx, harness, rep, scripts[i:i + batch], stats, label)
    return n


def compare_batch(ctx, harness, rep, scripts, stats, label):
    if not scripts:
        return 0
    t0 = time.time()
    impl, problems = run_parallel(ctx, [str(harness)], scripts, 300 + len(scripts) // 20)
    t1 = time.time()
    model = model_run(ctx, scripts)
    stats["harness_s"] += t1 - t0
    stats["model_s"] += time.time() - t1
    stats["scripts"] += len(scripts)
    stats["by_label"][label] = stats["by_label"].get(label, 0) + len(scripts)
    for pb in problems[:3]:
        ctx.violation("crash:" + pb["script"], "real threadpool.c under the scheduler aborted / hung (rc=%s) in or after script: %s :: %s" % (
            pb["rc"], pb["script"], pb["stderr"][-300:]), {"script": pb["script"], "stderr": pb["stderr"], "rc": pb["rc"]})
    infos = [classify_impl(l) for l in impl]
    mon = driver_lines(ctx, monitor_lines(infos))
    cmon = driver_lines(ctx, ["ctxmon " + inf["ev"] for inf in infos])
    nbad = 0
    answered = 0
    for i, (sc, a, b, mo, cm) in enumerate(zip_strict(scripts, impl, model, mon, cmon)):
        if a == "<no output>":
            continue                                  # the process died: reported above as crash
        answered += 1
        stats["steps"] += a.count(" | ")
        for k in HIST_KEYS:
            if k in a:
                stats["hist"][k] = stats["hist"].get(k, 0) + 1
        if ("waitQ" in a or "deqWait" in a) and len(set(re.findall(r"\b[wW](\d+)\b", sc))) + 1 >= 2:
            stats["nontrivial"].add(sc)
        inf = infos[i]
        spec_bad = []
        if mo != "ok":
            spec_bad.append(mo)
        if cm == "undisciplined":
            stats["ctx_undisciplined"] = stats.get("ctx_undisciplined", 0) + 1
        elif cm != "ok":
            spec_bad.append(cm)
        else:
            stats["ctx_monitored"] = stats.get("ctx_monitored", 0) + 1
        if inf["err"]:
            spec_bad.append("harness-assertion:" + inf["err"])
        if inf["deadlock"]:
            k, snap = inf["deadlock"]
            msn = b.split(" || ")[0].split(" | ")
            if rep == 0 and d1_shaped(snap) and k < len(msn) and msn[k] == snap:
                # the pinned model predicts exactly this dead-lock: an instance of the known finding D1
                stats["d1_deadlocks"] += 1          # the finding itself is reported once, by the witness probe
            else:
                spec_bad.append("deadlock")
        if spec_bad:
            nbad += 1
            if stats["reported"] < 6:
                stats["reported"] += 1
                ctx.violation("spec:" + sc, "real threadpool.c violates %s under schedule: %s" % (spec_bad, sc),
                              {"script": sc, "impl": a, "model": b, "clauses": spec_bad})
        elif a != b:
            nbad += 1
            sa, sb = a.split(" | "), b.split(" | ")
            k = next((j for j, (x, y) in enumerate(zip(sa, sb)) if x != y), min(len(sa), len(sb)))
            if stats["reported"] < 6:
                stats["reported"] += 1
                ctx.violation("corr:" + sc, "real threadpool.c and the model (repaired=%d) differ at step %d of schedule '%s': impl=[%s] model=[%s]; "
                              "no clause of the property fails on this schedule" % (rep, k, sc, sa[k] if k < len(sa) else "-", sb[k] if k < len(sb) else "-"),
                              {"script": sc, "step": k, "impl": a, "model": b, "correspondence": "harness/h_c09.c vs Driver/C09.lean"},
                              found_input=False)
    need(answered > 0 or problems, "the harness answered none of the %d '%s' schedules" % (len(scripts), label))
    stats["disagreements"] += nbad
    if stats.get("hserial") is not None:
        threaded_vs_serial(ctx, stats["hserial"], scripts, impl, stats)
    return nbad


def random_long(ctx, rep, count, maxn, maxitems, length):
    """unguided random scripts: the choice may well not be enabled — then both sides must refuse it"""
    out = []
    for _ in range(count):
        n = ctx.rng.randint(1, maxn)
        k = ctx.rng.randint(1, maxitems)
        rc = ",".join("%d:%d" % (d, ctx.rng.choice([-1, 3, -22, 1])) for d in range(k) if ctx.rng.random() < 0.08) or "-"
        toks, nxt = [], 0
        for _ in range(length):
            r = ctx.rng.random()
            if r < 0.30:
                toks.append("m")
            elif r < 0.42 and nxt < k:
                toks.append("s%d" % nxt); nxt += 1
            elif r < 0.52:
                toks.append("q")
            elif r < 0.54:
                toks.append("g")
            elif r < 0.545:
                toks.append("x")
            elif r < 0.552:
                toks.append("p%d:%d" % (ctx.rng.randrange(n + 1), ctx.rng.randrange(0, 9)))
            elif r < 0.556:
                toks.append("o%d" % ctx.rng.randrange(k))
            elif r < 0.57:
                toks.append("M")
            elif r < 0.59:
                toks.append("W%d" % ctx.rng.randrange(n))
            else:
                toks.append("w%d" % ctx.rng.randrange(n))
        if ctx.rng.random() < 0.5:
            toks += ["x"] + ["m", "w%d" % ctx.rng.randrange(n)] * (2 * n + 4) + ["w%d" % i for i in range(n)] * 3 + ["m"] * (n + 2)
        out.append("run %d %d %s %s" % (rep, n, rc, " ".join(toks)))
    return out


def serial_scripts(ctx):
    """serial pool: every op sequence over {submit next, dequeue, get_status} up to a length x failing position, plus random"""
    import itertools
    out = []
    maxlen = 7 if ctx.quick() else 9
    for n in range(0, maxlen + 1):
        for t in itertools.product("sqg", repeat=n):
            ops, k = [], 0
            for c in t:
                if c == "s":
                    ops.append("s%d" % k); k += 1
                else:
                    ops.append(c)
            for rc in (["-"] + ["%d:%d" % (j, -(j + 2)) for j in range(min(k, 3))]):
                out.append("serial %s %s" % (rc, " ".join(ops + ["x"])))
    for _ in range(2000 if ctx.quick() else 40000):
        k, ops = 0, []
        for _ in range(ctx.rng.randint(1, 120)):
            r = ctx.rng.random()
            if r < 0.45:
                ops.append("s%d" % k); k += 1
            elif r < 0.9:
                ops.append("q")
            else:
                ops.append("g")
        rc = ",".join("%d:%d" % (d, ctx.rng.choice([-1, 5, -7])) for d in range(k) if ctx.rng.random() < 0.05) or "-"
        out.append("serial %s %s" % (rc, " ".join(ops)))
    return out


def compare_serial(ctx, stats):
    """threadpool_serial.c (the FIFO reference the property names) against its model"""
    h = ctx.cc("h_c09s", ["h_c09s.c", "lib/util/src/threadpool_serial.c"])
    lines = serial_scripts(ctx)
    impl, problems = run_parallel(ctx, [str(h)], lines, 600, pin=False)
    model = model_run(ctx, lines)
    for pb in problems[:2]:
        ctx.violation("crash-serial:" + pb["script"], "threadpool_serial.c aborted (rc=%s) on: %s" % (pb["rc"], pb["script"]),
                      {"script": pb["script"], "stderr": pb["stderr"]})
    bad = 0
    need(len(lines) > 1000, "no serial pool scripts generated")
    for l, a, b in zip_strict(lines, impl, model):
        if a == "<no output>":
            continue
        if a != b:
            bad += 1
            if bad <= 3:
                ctx.violation("corr-serial:" + l, "threadpool_serial.c and its model differ on '%s': impl=%s model=%s" % (l, a, b),
                              {"script": l, "impl": a, "model": b}, found_input=False)
    stats["serial_scripts"] = len(lines)
    stats["disagreements"] += bad
    return h


def threaded_vs_serial(ctx, hserial, scripts, impl_lines, stats):
    """failure-free schedules in which every API call returned: the threaded pool's return values must be the serial pool's"""
    want, got = [], []
    for sc, a in zip(scripts, impl_lines):
        parts = sc.split()
        if parts[3] != "-" or " | ne" in a or a == "<no output>" or any(t[0] in "po" for t in parts[4:]):
            continue
        ops = [t for t in parts[4:] if t in ("q", "g", "x") or (t[0] == "s" and t[1:].isdigit())]
        rets = [m for m in re.findall(r" r=(\S+)", a.split(" || ")[0]) if m != "-"]
        if len(rets) != len(ops) or not ops:
            continue
        want.append("serial - " + " ".join(ops))
        got.append(",".join(rets))
    if not want:
        return
    ser, problems = run_parallel(ctx, [str(hserial)], want, 600, pin=False)
    if problems:
        raise vlib.CheckFailure("serial pool harness failed: %s" % problems[0])
    nb = 0
    for w, g, s_ in zip_strict(want, got, ser):
        if g != s_:
            nb += 1
            if nb <= 3:
                ctx.violation("refine:" + w, "failure-free run of the threaded pool returns %s where the serial pool returns %s for the calls '%s'" % (g, s_, w),
                              {"ops": w, "threaded": g, "serial": s_})
    stats["threaded_vs_serial"] = stats.get("threaded_vs_serial", 0) + len(want)
    stats["disagreements"] += nb


def bp_workloads(ctx, count):
    """block-processor workloads: (line-suffix, has_failing_block)"""
    out = []
    for _ in range(count):
        bs = ctx.rng.choice([4096, 4096, 8192])
        nf = ctx.rng.randint(1, 12)
        fail = ctx.rng.random() < 0.4
        files = []
        for i in range(nf):
            kind = ctx.rng.choice("rrrcczd")
            size = ctx.rng.choice([0, 1, 100, bs - 1, bs, bs + 1, 2 * bs, 3 * bs + 17, ctx.rng.randint(1, 6 * bs)])
            files.append("%d:%s" % (size, kind))
        if fail:
            files.insert(ctx.rng.randrange(len(files) + 1), "%d:e" % ctx.rng.choice([bs, 2 * bs + 5, 300, 4 * bs]))
            # a failing *fragment* (< block size) is never compressed by a worker; make sure one full block fails
            if all(int(f.split(":")[0]) < bs for f in files if f.endswith(":e")):
                files.append("%d:e" % bs)
            elif ctx.rng.random() < 0.3:
                # the failing block last in the stream: nothing is submitted after the failure (the schedule decides whether
                # the block processor still notices it — see the side finding in docs/design/C09.md)
                e = [f for f in files if f.endswith(":e")]
                files = [f for f in files if not f.endswith(":e")] + ["%d:e" % (int(e[0].split(":")[0]) // bs * bs or bs)]
        out.append(("%d %s" % (bs, " ".join(files)), fail))
    return out


def compare_block_processor(ctx, rep, stats):
    """the real block processor (frontend/backend/block writer) on the controlled pool under seeded random schedules:
    never dead-locks; a failing compressor is reported, not hung on; failure-free output = serial-pool output"""
    inc = ["-include", str(vlib.HARNESS / "shim_sched.h")]
    lib = ctx.build_lib("shim", flags=inc)
    h = ctx.cc("h_c09bp", ["h_c09bp.c", "sched.c"], flags=inc, libs=[str(lib)] + vlib.CODEC_LIBS)
    libs = ctx.build_lib("serialpool", serial_pool=True)
    hs = ctx.cc("h_c09bp_serial", ["h_c09bp.c", "sched.c"], libs=[str(libs)] + vlib.CODEC_LIBS)
    wl = bp_workloads(ctx, 80 if ctx.quick() else 1500)
    lines, meta = [], []
    for w, fail in wl:
        for _ in range(20 if ctx.quick() else 30):
            n, bl = ctx.rng.choice([1, 2, 2, 3, 3, 4, 8]), ctx.rng.choice([3, 3, 4, 5, 8, 16])
            lines.append("bp %d %d %d %s" % (n, bl, ctx.rng.randrange(1 << 30), w))
            meta.append((w, fail))
    # reference: serial pool; for failing workloads additionally with the failure ignored (`bpn`)
    ref_lines = ["bp 1 3 0 %s" % w for w, _ in wl] + ["bpn 1 3 0 %s" % w for w, _ in wl]
    t0 = time.time()
    impl, problems = run_parallel(ctx, [str(h)], lines, 600)
    ref, rproblems = run_parallel(ctx, [str(hs)], ref_lines, 600, pin=False)
    for pb in (problems + rproblems)[:2]:
        ctx.violation("crash-bp:" + pb["script"], "block processor on the controlled pool aborted / hung (rc=%s): %s :: %s" % (
            pb["rc"], pb["script"], pb["stderr"][-300:]), {"script": pb["script"], "stderr": pb["stderr"]})
    need(len(ref) == 2 * len(wl) and len(impl) == len(lines), "block processor harness: missing answers")
    refmap = {w: dict(kv.split("=") for kv in r.split()) for (w, _), r in zip_strict(wl, ref[:len(wl)]) if r.startswith("rc=")}
    ignmap = {w: dict(kv.split("=") for kv in r.split()) for (w, _), r in zip_strict(wl, ref[len(wl):]) if r.startswith("rc=")}
    need(len(refmap) > len(wl) // 2, "block processor harness (serial pool build) produced no reference results")
    bad = d1 = nfail = swallowed = answered = overl = spur = 0
    for l, (w, fail), a in zip_strict(lines, meta, impl):
        if not a.startswith("rc="):
            continue
        answered += 1
        r, want = dict(kv.split("=") for kv in a.split()), refmap.get(w)
        nfail += fail
        spur += int(r["spur"])
        why = None
        if r["mtx"] != "0":
            why = "a mutex was held at a scheduling point"
        elif r["shared"] != "0":
            why = "two workers were inside do_block of the same compressor object at the same time (per-worker context shared)"
        elif r["dl"] == "1":
            if rep == 0 and fail:
                d1 += 1                       # D1 seen through the block processor (pinned code only)
            else:
                why = "dead-lock: no runnable thread while the block processor was inside the pool"
        elif want is None:
            continue
        elif fail:
            # The compressor failed on (at least) one block.  The worker must have handed the error to the pool
            # (pool status = SQFS_ERROR_COMPRESSOR when the processor is done) whatever the schedule, and the block
            # processor must report it (rc = SQFS_ERROR_COMPRESSOR) whatever the schedule (repaired by /repo 69db961).
            if int(r["cfail"]) > 0 and r["pst"] != r["cerr"]:
                why = "the compressor failed %s time(s) but the pool's status is %s, not SQFS_ERROR_COMPRESSOR=%s: the worker's error never " \
                      "reached the pool" % (r["cfail"], r["pst"], r["cerr"])
            elif r["rc"] == "0":
                # Since /repo 69db961 sqfs_block_processor_sync ends with the pool's status, so finish() reports the
                # compressor's error on every schedule; rc=0 after a failing block means the failure was swallowed again.
                swallowed += 1
                why = "the compressor failed on a block but sqfs_block_processor_finish returned 0: the worker's failure is not " \
                      "reported to the submitter (schedule %s)" % a
            elif r["rc"] != r["cerr"]:
                why = "a failing compressor is reported as rc=%s instead of SQFS_ERROR_COMPRESSOR=%s" % (r["rc"], r["cerr"])
            elif int(r["cfail"]) == 0:
                why = "rc=SQFS_ERROR_COMPRESSOR although the compressor never failed"
        elif (r["rc"], r["sz"], r["out"], r["ino"]) != (want["rc"], want["sz"], want["out"], want["ino"]):
            why = "failure-free output differs from the serial pool's (threaded %s / serial %s)" % (a, " ".join("%s=%s" % kv for kv in want.items()))
        if why:
            bad += 1
            if bad <= 3:
                ctx.violation("bp:" + l, "block processor on the controlled pool: %s; workload/schedule: %s" % (why, l),
                              {"bp_line": l, "impl": a, "serial": want})
    need(answered > len(lines) // 2 or problems, "block processor harness answered %d of %d schedules" % (answered, len(lines)))
    stats["bp"] = {"workloads": len(wl), "schedules": len(lines), "answered": answered, "with_failing_block": nfail, "d1_deadlocks_pinned_code": d1,
                   "failure_unnoticed_by_block_processor": swallowed, "spurious_wakeups_taken": spur,
                   "violations": bad, "wall_s": round(time.time() - t0, 1)}
    stats["disagreements"] += bad


def compare_create_failure(ctx, harness, stats):
    """pthread_create failing inside thread_pool_create (k-th of n): must return NULL with every created worker joined; the
    failure path is `destroy` on a pool with the k-1 workers created so far — its program-counter trace under seeded random
    schedules (with spurious wake-ups) must be the model's for `x` on `init (k-1)`"""
    lines = ["cfail %d %d %d" % (n, k, ctx.rng.randrange(1 << 30)) for n in range(1, 7) for k in range(1, n + 1)
             for _ in range(10 if ctx.quick() else 200)]
    impl, problems = run_parallel(ctx, [str(harness)], lines, 300)
    bad = 0
    for pb in problems[:2]:
        ctx.violation("crash-cfail:" + pb["script"], "thread_pool_create with a failing pthread_create aborted / hung: %s :: %s" % (
            pb["script"], pb["stderr"][-300:]), {"cfail_line": pb["script"], "stderr": pb["stderr"]})
    idx = [i for i, a in enumerate(impl) if a != "<no output>"]
    need(idx or problems, "create-failure harness answered nothing")
    scripts = []
    for i in idx:
        m = re.search(r" \|\| derived=(.*) pcs=", impl[i])
        scripts.append("run 1 %d - %s" % (int(lines[i].split()[2]) - 1, m.group(1) if m and m.group(1) != "-" else ""))
    model = model_run(ctx, [sc.strip() for sc in scripts])
    compared = 0
    for i, sc, mo in zip_strict(idx, scripts, model):
        l, a = lines[i], impl[i]
        head, _, tail = a.partition(" || ")
        why = None
        if not (head.startswith("null=1 dl=0 alive=0 ") and head.endswith("mtx=0")):
            why = "gives %s, expected NULL, no dead-lock, all workers joined, no mutex held at a scheduling point" % head
        else:
            want = re.findall(r"(m=\S+ w=\S+)", mo.split(" || ")[0])[1:]          # [0] = state before the call
            got = tail.split(" pcs=", 1)[1].split(" | ") if " pcs=" in tail else []
            compared += 1
            if " | ne" in mo or want != got:
                why = "does not behave like destroy() on a pool with the workers created so far: program counters %s, model %s" % (got, want)
        if why:
            bad += 1
            if bad <= 2:
                ctx.violation("cfail:" + l, "thread_pool_create with a failing pthread_create (%s) %s" % (l, why), {"cfail_line": l, "impl": a, "model": mo})
    need(compared > 0 or bad or problems, "create-failure traces: nothing compared")
    stats["create_failure_runs"] = len(lines)
    stats["create_failure_traces_compared_with_model"] = compared
    stats["disagreements"] += bad


# ---- fine mode: scheduling points after every lock acquisition and after every unlock ------------------------
def fine_lines(ctx, rep, count):
    out = []
    for _ in range(count):
        n = ctx.rng.choice([1, 1, 2, 2, 3, 4])
        k = ctx.rng.randint(1, 6)
        ops = []
        # set_worker_ptr only before the first submit: afterwards the unlocked read of `user` in worker_proc makes the
        # context a callback sees depend on the fine schedule (documented in docs/design/C09.md; the tools never do that)
        for _ in range(ctx.rng.choice([0, 0, 1, 2])):
            ops.append("p%d:%d" % (ctx.rng.randrange(n + 1), ctx.rng.randrange(0, 9)))
        subs = ["s%d" % j for j in range(k)]
        shape = ctx.rng.randrange(4)
        if shape == 0:
            body = subs + ["q"] * k
        elif shape == 1:
            body = [t for sname in subs for t in (sname, "q")]
        elif shape == 2:
            body = subs[:k // 2] + ["q"] * (k // 2) + subs[k // 2:] + ["q"] * (k - k // 2 + 1)
        else:
            body = subs + ["q"] * (k // 2)
        for extra, pr in (("g", 0.4), ("o%d" % (k + 1), 0.25), ("q", 0.2), ("g", 0.2)):
            if ctx.rng.random() < pr:
                body.insert(ctx.rng.randrange(len(body) + 1), extra)
        ops += body
        if ctx.rng.random() < 0.75:
            ops.append("x")
        r = ctx.rng.random()
        rc = "-" if r < 0.5 else "%d:%d" % (ctx.rng.randrange(k), ctx.rng.choice([-1, -7, 5])) if (r < 0.9 or k < 2) else "0:3,%d:-2" % (k - 1)
        # schedules without set_worker_ptr / failing calloc are also compared, fine step by fine step, with the fine model
        cmd = "fine" if any(t[0] in "po" for t in ops) else "finev"
        out.append("%s %d %d %s %d %d %s" % (cmd, rep, n, rc, ctx.rng.randrange(1 << 30), ctx.rng.choice([0, 0, 5, 15]), " ".join(ops)))
    return out


def _norm_r(snap):
    return re.sub(r" r=\S+", "", snap)


def _hist_canon(h):
    d = dict(kv.split("=", 1) for kv in h.split())
    ev = [] if d.get("ev", "-") == "-" else d["ev"].split(",")
    # callback-entry events are logged in the lock-free tail of the worker's step: their position among the other
    # events is not determined by the derived coarse schedule; everything else is
    d["ev_enter"] = sorted(e for e in ev if e[0] == "E")
    d["ev"] = [e for e in ev if e[0] != "E"]
    return d


def fine_verdict(line, out, mout):
    """compare one fine-mode run of the real code with the model run on the derived coarse schedule; -> (problems, info)"""
    out = out.split(" ## ftrace=")[0]
    head, sep, hist = out.partition(" ||")
    body, sep2, tail = head.partition(" # ")
    m = re.match(r"dl=(\d) steps=(\d+) derived=(.*) rets=(\S+)$", tail)
    if not sep or not sep2 or not m:
        return ["unparsable harness output"], {}
    dl, steps, derived, rets = m.group(1), int(m.group(2)), m.group(3), m.group(4)
    mhead, _, mhist = mout.partition(" ||")
    snaps = mhead.split(" | ")
    bad = []
    if dl != "0":
        bad.append("deadlock")
    if " err=" in hist:
        bad.append("harness-assertion:" + hist.split(" err=")[1])
        hist = hist.split(" err=")[0]
    if "ne" in snaps:
        bad.append("the model refuses choice %d of the derived coarse schedule" % snaps.index("ne"))
    sync = re.findall(r" @(final)?(\d+):(.*?)(?= @|$)", body)
    if not sync or sync[-1][0] != "final":
        bad.append("no final snapshot")
    for fin, k, sn in sync:
        k = int(k)
        if k >= len(snaps) or _norm_r(snaps[k]) != _norm_r(sn):
            bad.append("state after %d derived choices: impl [%s] model [%s]" % (k, sn, snaps[k] if k < len(snaps) else "-"))
            break
    mrets = ",".join(r for r in re.findall(r" r=(\S+)", mhead) if r != "-") or "-"
    if mrets != rets:
        bad.append("API return values: impl %s model %s" % (rets, mrets))
    try:
        if _hist_canon(hist) != _hist_canon(mhist):
            bad.append("history: impl [%s] model [%s]" % (hist.strip(), mhist.strip()))
    except ValueError:
        bad.append("unparsable history")
    return bad, {"steps": steps, "derived": derived, "sync": len(sync), "hist": hist}


def fine_model_script(line, out):
    """`frun` line for the fine model from the fine schedule a `finev` run took"""
    m = re.search(r" ## ftrace=(.*) ## fsnaps=", out)
    parts = line.split()
    t = "" if (not m or m.group(1) == "-") else m.group(1)
    return ("frun %s %s %s %s" % (parts[1], parts[2], parts[3], t)).strip()


def fine_model_verdict(out, mout):
    """the real code, fine step by fine step, against the fine model (Model/C09PoolFine.lean)"""
    m = re.search(r" ## fsnaps=(.*)$", out)
    if not m:
        return ["no fine snapshots in the harness output"], 0
    got = m.group(1).split(" | ")
    mhead, _, mhist = mout.partition(" || ")
    want = mhead.split(" | ")
    bad = []
    if "ne" in want:
        bad.append("the fine model refuses step %d of the fine schedule the real code took" % want.index("ne"))
    k = next((j for j, (x, y) in enumerate(zip(got, want)) if x != y), None)
    if k is None and len(got) != len(want):
        k = min(len(got), len(want))
    if k is not None:
        bad.append("fine step %d: impl [%s] fine model [%s]" % (k, got[k] if k < len(got) else "-", want[k] if k < len(want) else "-"))
    hist = out.split(" ## ftrace=")[0].partition(" ||")[2]
    try:
        hd = dict(kv.split("=", 1) for kv in hist.split())
        md = dict(kv.split("=", 1) for kv in mhist.split())
        if any(hd.get(f) != md.get(f) for f in ("sub", "cb", "ret")):
            bad.append("history: impl [%s] fine model [%s]" % (hist.strip(), mhist.strip()))
    except ValueError:
        bad.append("unparsable history")
    return bad, len(got)


def derived_script(line, out):
    out = out.split(" ## ftrace=")[0]
    m = re.search(r" derived=(.*) rets=\S+ \|\|", out)
    parts = line.split()
    d = "" if (not m or m.group(1) == "-") else m.group(1)
    return ("run %s %s %s %s" % (parts[1], parts[2], parts[3], d)).strip()


def compare_fine(ctx, harness, rep, stats):
    lines = fine_lines(ctx, rep, 5000 if ctx.quick() else 80000)
    t0 = time.time()
    impl, problems = run_parallel(ctx, [str(harness)], lines, 600)
    for pb in problems[:2]:
        ctx.violation("crash-fine:" + pb["script"], "real threadpool.c under the fine-grained scheduler aborted / hung (rc=%s): %s :: %s" % (
            pb["rc"], pb["script"], pb["stderr"][-300:]), {"fine_line": pb["script"], "stderr": pb["stderr"]})
    idx = [i for i, a in enumerate(impl) if a.startswith("fine ")]
    need(len(idx) > len(lines) // 2 or problems, "fine-mode harness answered %d of %d lines" % (len(idx), len(lines)))
    model = model_run(ctx, [derived_script(lines[i], impl[i]) for i in idx])
    cmon = driver_lines(ctx, ["ctxmon " + (re.search(r" ev=(\S+)", impl[i]) or [None, "-"])[1] for i in idx])
    vidx = [i for i in idx if lines[i].startswith("finev ")]
    need(len(vidx) > len(idx) // 4, "too few fine schedules are comparable with the fine model (%d of %d)" % (len(vidx), len(idx)))
    fmodel = dict(zip_strict(vidx, model_run(ctx, [fine_model_script(lines[i], impl[i]) for i in vidx])))
    bad = steps = sync = fsteps = 0
    for i, mo, cm in zip_strict(idx, model, cmon):
        probs, info = fine_verdict(lines[i], impl[i], mo)
        if i in fmodel:
            fp, nst = fine_model_verdict(impl[i], fmodel[i])
            probs += fp
            fsteps += nst
        if cm not in ("ok", "undisciplined"):
            probs.append(cm)
        steps += info.get("steps", 0)
        sync += info.get("sync", 0)
        if probs:
            bad += 1
            if bad <= 3:
                spec = [p for p in probs if p == "deadlock" or p.startswith("violated") or p.startswith("harness-assertion")]
                ctx.violation("fine:" + lines[i], "real threadpool.c at lock/unlock granularity (%s) %s: %s" % (
                    lines[i], "violates the property" if spec else "is not the models' behaviour (fine model step by step / base model on the derived coarse schedule: "
                    "a lock-free segment is not thread-private?)", "; ".join(probs)[:900]),
                    {"fine_line": lines[i], "impl": impl[i][:20000], "model": mo, "problems": probs}, found_input=bool(spec))
    need(sync > len(idx) and fsteps > 10 * len(vidx), "fine mode produced no comparable snapshots")
    stats["fine"] = {"schedules": len(lines), "answered": len(idx), "fine_steps": steps, "state_comparisons": sync,
                     "schedules_compared_step_by_step_with_the_fine_model": len(vidx), "fine_model_state_comparisons": fsteps, "violations": bad,
                     "wall_s": round(time.time() - t0, 1)}
    stats["disagreements"] += bad


# ---- real threads: random perturbation at every pthread call, hang detector, ThreadSanitizer -------------------
def rt_build(ctx, tsan):
    inc = ["-include", str(vlib.HARNESS / "shim_c09_rt.h")]
    return ctx.cc("h_c09rt_tsan" if tsan else "h_c09rt", ["h_c09rt.c", "lib/util/src/alloc.c"], flags=inc + (["-fsanitize=thread"] if tsan else []),
                  sanitize=False, libs=["-lpthread"])


def rt_lines(ctx, count):
    out = []
    for _ in range(count):
        n = ctx.rng.choice([1, 2, 2, 3, 4, 4, 8])
        k = ctx.rng.randint(1, 24)
        subs = ["s%d" % j for j in range(k)]
        shape = ctx.rng.randrange(4)
        if shape == 0:
            body = subs + ["q"] * k
        elif shape == 1:
            body = [t for sname in subs for t in (sname, "q")]
        elif shape == 2:
            body, pending = [], 0
            for sname in subs:
                body.append(sname); pending += 1
                while pending > ctx.rng.randint(0, 4):
                    body.append("q"); pending -= 1
            body += ["q"] * (pending + 1)
        else:
            body = subs + ["q"] * (k // 2)
        for _ in range(ctx.rng.randint(0, 2)):
            body.insert(ctx.rng.randrange(len(body) + 1), "g")
        if ctx.rng.random() < 0.85:
            body += ["g", "x"] if ctx.rng.random() < 0.5 else ["x"]
        r = ctx.rng.random()
        rc = "-" if r < 0.55 else "%d:%d" % (ctx.rng.randrange(k), ctx.rng.choice([-1, -7, 5])) if (r < 0.9 or k < 2) else "0:3,%d:-2" % (k - 1)
        out.append("rt %d %d %s %d %s" % (ctx.rng.randrange(1 << 30), n, rc, ctx.rng.choice([0, 1, 2, 2, 3, 3]), " ".join(body)))
    return out


def compare_real_threads(ctx, stats):
    """threadpool.c on real threads, perturbed at every pthread call: plain build (hang detector) and TSan build"""
    res = {}
    for tsan in (False, True):
        tag = "tsan" if tsan else "plain"
        h = rt_build(ctx, tsan)
        lines = rt_lines(ctx, (300 if tsan else 600) if ctx.quick() else (3000 if tsan else 8000))
        t0 = time.time()
        env = {"TSAN_OPTIONS": "halt_on_error=1 exitcode=66 report_thread_leaks=0 second_deadlock_stack=1"} if tsan else None
        impl, problems = run_parallel(ctx, [str(h)], lines, 1200, pin=False, per_job=20, env_extra=env)
        hangs = races = 0
        hung = [a for a in impl if "HANG" in a]
        for a in hung:
            hangs += 1
            sc = a.split(" script: ", 1)[1] if " script: " in a else "?"
            if hangs <= 2:
                ctx.violation("rt-%s:%s" % (tag, sc), "real threads (%s build): the pool hung — no pthread call, API return or callback for 4 s, every thread "
                              "sleeping — in: %s :: %s" % (tag, sc, a[:400]), {"rt_line": sc, "build": tag, "impl": a})
        for pb in problems:
            if pb["rc"] == 3:
                continue                                  # the hang reported above (the process exits with 3)
            elif pb["rc"] == 66 or "ThreadSanitizer" in pb["stderr"]:
                races += 1
                mm = re.search(r"WARNING: ThreadSanitizer: [^\n]*\n(?:[^\n]*\n){0,12}", pb["stderr"])
                what = "real threads, ThreadSanitizer: %s in: %s" % ((mm.group(0) if mm else pb["stderr"][:600]).replace("\n", " | ")[:900], pb["script"])
            else:
                races += 1
                what = "real threads: harness died (rc=%s) in: %s :: %s" % (pb["rc"], pb["script"], pb["stderr"][-300:])
            if races <= 3:
                ctx.violation("rt-%s:%s" % (tag, pb["script"]), what, {"rt_line": pb["script"], "build": tag, "stderr": pb["stderr"][-3000:]})
        idx = [i for i, a in enumerate(impl) if a.startswith("r=") and "HANG" not in a]
        need(len(idx) > len(lines) // 2 or problems, "real-thread harness (%s) answered %d of %d scripts" % (tag, len(idx), len(lines)))
        infos = [classify_impl(impl[i]) for i in idx]
        rets = [impl[i].split(" ||")[0][2:] for i in idx]
        ops = [lines[i].split()[5:] for i in idx]
        rcs = [lines[i].split()[3] for i in idx]
        mon = driver_lines(ctx, monitor_lines(infos))
        amon = driver_lines(ctx, ["apimon %s %s %s" % (rc, r, " ".join(o)) for rc, r, o in zip_strict(rcs, rets, ops)])
        ser = driver_lines(ctx, ["serial - " + " ".join(o) for o in ops])
        bad = nser = 0
        for i, inf, r, rc, mo, am, se in zip_strict(idx, infos, rets, rcs, mon, amon, ser):
            probs = []
            if mo != "ok":
                probs.append(mo)
            if am != "ok":
                probs.append(am)
            if inf["err"]:
                probs.append("harness-assertion:" + inf["err"])
            if rc == "-":
                nser += 1
                if r != se:
                    probs.append("failure-free run returns %s, the serial pool model %s (theorem refines_serial)" % (r, se))
            if probs:
                bad += 1
                if bad <= 3:
                    ctx.violation("rt-%s:%s" % (tag, lines[i]), "real threads (%s build): %s on: %s -> %s" % (tag, "; ".join(probs)[:600], lines[i], impl[i][:400]),
                                  {"rt_line": lines[i], "build": tag, "impl": impl[i], "problems": probs})
        res[tag] = {"scripts": len(lines), "answered": len(idx), "compared_with_serial_model": nser, "hangs": hangs, "tsan_reports": races,
                    "violations": bad + len(problems), "wall_s": round(time.time() - t0, 1)}
        stats["disagreements"] += bad + len(problems)
    stats["real_threads"] = res


def probe_variant(ctx, harness):
    """replay the D1 witness on the real code: 0 = pinned behaviour (dead-lock), 1 = repaired (NULL), None = neither"""
    line = "run 0 1 %s %s" % (WITNESS_RC, WITNESS_CHOICES)
    impl, problems = run_parallel(ctx, [str(harness)], [line], 60)
    m0 = ctx.driver(["c09"], line + "\n")[0]
    m1 = ctx.driver(["c09"], line.replace("run 0", "run 1", 1) + "\n")[0]
    if problems:
        return None, impl[0], line
    if impl[0] == m0:
        return 0, impl[0], line
    if impl[0] == m1:
        return 1, impl[0], line
    return None, impl[0], line


def run(ctx):
    if vlib.REPO.resolve() != vlib.Path("/repo") and not os.environ.get("VERIF_EVIDENCE_DIR"):
        # a run against a tree other than /repo (mutant, scratch worktree) must never overwrite the committed evidence
        vlib.EVIDENCE = vlib.REPLAYS / "evidence-nonrepo"
        vlib.EVIDENCE.mkdir(parents=True, exist_ok=True)
        ctx.log("VERIF_REPO=%s is not /repo: evidence goes to %s" % (vlib.REPO, vlib.EVIDENCE))
    ok, problems = vlib.proof_gate(ctx, MODULE, REQUIRED)
    if not ok:
        ctx.violation("proof:C09", "proof obligations of C09 no longer check: " + " | ".join(problems)[:1500],
                      {"broken": problems, "theorems_file": "lean/Sqfs/Props/C09.lean"}, found_input=False)
        if not ctx.driver_path().exists():
            return ctx.finish(LEVEL)
    # the witness of D1 (negation of no_deadlock on the model of the pinned code) is audited as well, but is not
    # counted among the obligations of the property
    nprop = len(ctx.theorems)
    wok, wproblems = ctx.audit(WITNESS_MODULE, WITNESS_REQUIRED)
    witness_theorems, ctx.theorems = ctx.theorems[nprop:], ctx.theorems[:nprop]
    if not wok:
        ctx.violation("proof:C09-witness", "the D1 witness no longer checks: " + " | ".join(wproblems)[:1000],
                      {"broken": wproblems, "theorems_file": "lean/Sqfs/Witness/C09.lean"}, found_input=False)
    harness = harness_build(ctx)
    stats = {"scripts": 0, "steps": 0, "harness_s": 0.0, "model_s": 0.0, "by_label": {}, "hist": {}, "nontrivial": set(),
             "disagreements": 0, "reported": 0, "d1_deadlocks": 0}
    rep, wimpl, wline = probe_variant(ctx, harness)
    if rep == 0:
        ctx.log("D1 witness dead-locks on the real code: tree has the pinned dequeue; reference model: repaired=0")
        ctx.violation(D1_KEY, "dequeue waits forever after a worker failure (1 worker, 2 items, first fails; second dequeue never returns): %s" % wline,
                      {"script": wline, "impl": wimpl})
    elif rep == 1:
        ctx.log("D1 witness returns NULL on the real code: tree is repaired; reference model: repaired=1")
    else:
        ctx.violation("corr:witness", "the real code follows neither the pinned nor the repaired model on the D1 witness schedule: %s" % wimpl,
                      {"script": wline, "impl": wimpl}, found_input=False)
        rep = 1
    stats["hserial"] = compare_serial(ctx, stats)
    # corpus first
    corpus = []
    cdir = vlib.CORPUS / "C09"
    if cdir.exists():
        for p in sorted(cdir.glob("*.txt")):
            for l in p.read_text().splitlines():
                if l.startswith("run "):
                    parts = l.split()
                    parts[1] = str(rep)
                    corpus.append(" ".join(parts))
    compare(ctx, harness, rep, corpus, stats, "corpus")
    # enumerated schedules
    enum_cfgs, scripts, labels = [], [], []
    for (label, n, k, nm, pre, spur, cap) in plan(ctx):
        ops = api_scripts(k)[nm]
        for rc in rc_specs(k):
            ls, complete = enum_scripts(ctx, rep, n, rc, pre, spur, cap, ops)
            enum_cfgs.append({"kind": label, "workers": n, "items": k, "api": nm, "rc": rc, "preemptions": pre, "spurious": spur,
                              "schedules": len(ls), "complete_within_bound": complete})
            scripts += ls
            labels += [label] * len(ls)
    for lab in ("complete", "bounded"):
        compare(ctx, harness, rep, [s for s, l in zip(scripts, labels) if l == lab], stats, lab)
    # model-guided random schedules on larger configurations
    guided = []
    nrand = 40 if ctx.quick() else 600
    for n in (1, 2, 3, 4, 8):
        for k in (3, 5, 9):
            for nm, ops in api_scripts(k).items():
                rc = ctx.rng.choice(rc_specs(k))
                guided += rand_scripts(ctx, rep, n, rc, ctx.rng.randrange(1 << 30), nrand, ctx.rng.choice([10, 30, 60]), ctx.rng.choice([0, 3, 10]), ops)
    compare(ctx, harness, rep, guided, stats, "guided-random")
    compare(ctx, harness, rep, random_long(ctx, rep, 1500 if ctx.quick() else 30000, 8, 40, 300), stats, "unguided-random")
    compare_fine(ctx, harness, rep, stats)
    compare_real_threads(ctx, stats)
    compare_block_processor(ctx, rep, stats)
    compare_create_failure(ctx, harness, stats)
    for lab in ("corpus", "complete", "bounded", "guided-random", "unguided-random"):
        need(stats["by_label"].get(lab, 0) > 0, "no '%s' schedule was evaluated" % lab)
    need(stats["steps"] > 10 * stats["scripts"] > 0, "implausibly few steps compared (%d in %d schedules)" % (stats["steps"], stats["scripts"]))
    need(stats.get("ctx_monitored", 0) > 0 and stats.get("threaded_vs_serial", 0) > 0, "context monitor / serial comparison evaluated nothing")
    ctx.cov.update({
        "evaluations": stats["scripts"],
        "steps": stats["steps"],
        "distinct_nontrivial": len(stats["nontrivial"]),
        "rule": "one evaluation = one schedule replayed on the real threadpool.c (ASan+UBSan, controlled scheduler) and on the model, complete "
                "state compared after every step, then the specification monitors on the implementation's own history; non-trivial = distinct "
                "schedule in which at least one worker ran and some thread blocked on a condition variable",
        "reference_model": "repaired=%d" % rep,
        "witness_theorems": witness_theorems,
        "by_kind": stats["by_label"],
        "enumerations": enum_cfgs,
        "histogram_scripts_reaching": stats["hist"],
        "d1_deadlock_schedules": stats["d1_deadlocks"],
        "fine_granularity_schedules": stats.get("fine"),
        "real_threads": stats.get("real_threads"),
        "context_clause_monitor": {"schedules_checked": stats.get("ctx_monitored", 0), "schedules_outside_the_usage_discipline": stats.get("ctx_undisciplined", 0)},
        "block_processor_on_controlled_pool": stats.get("bp"),
        "create_failure_runs": stats.get("create_failure_runs", 0),
        "create_failure_traces_compared_with_model": stats.get("create_failure_traces_compared_with_model", 0),
        "serial_pool_scripts": stats.get("serial_scripts", 0),
        "threaded_vs_serial_return_value_comparisons": stats.get("threaded_vs_serial", 0),
        "disagreements_checked": stats["disagreements"],
        "harness_scripts_per_s": round(stats["scripts"] / stats["harness_s"], 1) if stats["harness_s"] else None,
        "harness_wall_s": round(stats["harness_s"], 1), "model_wall_s": round(stats["model_s"], 1),
        "samples": (scripts[:1] + scripts[len(scripts) // 2:len(scripts) // 2 + 1] + guided[:1])[:3],
    })
    return ctx.finish(LEVEL, trusted_extra=[
        "pthread semantics are the model's: mutual exclusion, pthread_cond_wait releases the mutex atomically and may wake spuriously, "
        "broadcast wakes every current waiter, join returns after the target returned; harness/sched.c implements exactly these",
        "modelled: lib/util/src/threadpool.c (POSIX branch, incl. set_worker_ptr and the calloc failure of submit; thread_pool_create and its "
        "pthread_create failure path are exercised only), threadpool_serial.c as the FIFO specification; not modelled: the C memory model "
        "(the shim serialises all threads; the TSan build of harness/h_c09rt.c monitors happens-before on real threads), the w32 branch",
        "harness/h_c09rt.c + shim_c09_rt.h (real threads, perturbation, hang detector), libtsan"],
        assumptions=["a step of the model = the code one thread runs between two blocking points; justified by: no critical section of "
                     "threadpool.c contains a blocking point (asserted by the harness at every scheduling point) and the code between "
                     "unlock and the next lock touches only thread-private state — not proved, checked on every run by the fine-mode "
                     "schedules (derived coarse schedule must reproduce every state) and by the ThreadSanitizer build on real threads"])


def replay(ctx, path):
    body = json.loads(open(path).read())
    rp = body.get("replay", {})
    if "bp_line" in rp:
        inc = ["-include", str(vlib.HARNESS / "shim_sched.h")]
        lib = ctx.build_lib("shim", flags=inc)
        h = ctx.cc("h_c09bp", ["h_c09bp.c", "sched.c"], flags=inc, libs=[str(lib)] + vlib.CODEC_LIBS)
        impl, problems = run_parallel(ctx, [str(h)], [rp["bp_line"]], 120)
        print("workload/schedule:", rp["bp_line"])
        print("real code        :", impl[0], problems[:1])
        print("serial (recorded):", rp.get("serial"))
        r = dict(kv.split("=") for kv in impl[0].split()) if impl[0].startswith("rc=") else {}
        want = rp.get("serial") or {}
        fail = ":e" in rp["bp_line"]
        bad = bool(problems) or r.get("dl") == "1" or r.get("mtx") == "1" or r.get("shared") == "1" or \
            (fail and int(r.get("cfail", "0")) > 0 and r.get("pst") != r.get("cerr")) or \
            (fail and r.get("rc") not in ("0", r.get("cerr"))) or \
            (not fail and want and any(r.get(k) != want.get(k) for k in ("rc", "sz", "out", "ino")))
        print("violated:", bad)
        return 1 if bad else 0
    if "fine_line" in rp:
        ctx.lean_build(["sqfsmodel"])
        harness = harness_build(ctx)
        impl, problems = run_parallel(ctx, [str(harness)], [rp["fine_line"]], 120)
        print("fine schedule :", rp["fine_line"])
        print("real code     :", impl[0] if impl else "-", problems[:1])
        if problems or not impl[0].startswith("fine "):
            print("violated: crash/hang")
            return 1
        mo = ctx.driver(["c09"], derived_script(rp["fine_line"], impl[0]) + "\n")[0]
        probs, _ = fine_verdict(rp["fine_line"], impl[0], mo)
        if rp["fine_line"].startswith("finev "):
            fmo = ctx.driver(["c09"], fine_model_script(rp["fine_line"], impl[0]) + "\n")[0]
            probs += fine_model_verdict(impl[0], fmo)[0]
        print("model on the derived coarse schedule:", mo)
        print("violated:", probs)
        return 1 if probs else 0
    if "rt_line" in rp:
        tsan = rp.get("build") == "tsan"
        h = rt_build(ctx, tsan)
        ctx.lean_build(["sqfsmodel"])
        env = {"TSAN_OPTIONS": "halt_on_error=1 exitcode=66 report_thread_leaks=0"} if tsan else None
        seen = 0
        for rnd in range(30):                      # real threads: the interleaving is not reproducible exactly; repeat
            impl, problems = run_parallel(ctx, [str(h)], [rp["rt_line"]], 300, pin=False, env_extra=env)
            if problems or "HANG" in impl[0]:
                print("round %d:" % rnd, impl[0][:300], (problems[0]["stderr"][-1500:] if problems else ""))
                seen += 1
                break
            parts = rp["rt_line"].split()
            am = ctx.driver(["c09"], "apimon %s %s %s\n" % (parts[3], impl[0].split(" ||")[0][2:], " ".join(parts[5:])))[0]
            mo = ctx.driver(["c09"], "\n".join(monitor_lines([classify_impl(impl[0])])) + "\n")[0]
            if am != "ok" or mo != "ok" or " err=" in impl[0]:
                print("round %d:" % rnd, impl[0], am, mo)
                seen += 1
                break
        print("violated:", bool(seen))
        return 1 if seen else 0
    if "cfail_line" in rp:
        harness = harness_build(ctx)
        impl, problems = run_parallel(ctx, [str(harness)], [rp["cfail_line"]], 60)
        print(rp["cfail_line"], "->", impl[0], problems[:1])
        ok = not problems and impl[0].startswith("null=1 dl=0 alive=0 ") and impl[0].split(" || ")[0].endswith("mtx=0")
        return 0 if ok else 1
    if "script" not in rp:
        print("replay file names a broken obligation, no schedule to replay:", json.dumps(rp)[:500])
        return 1
    ctx.lean_build(["sqfsmodel"])
    harness = harness_build(ctx)
    line = rp["script"]
    impl, problems = run_parallel(ctx, [str(harness)], [line], 60)
    m0 = ctx.driver(["c09"], re.sub(r"^run \d", "run 0", line) + "\n")[0]
    m1 = ctx.driver(["c09"], re.sub(r"^run \d", "run 1", line) + "\n")[0]
    print("schedule      :", line)
    print("real code     :", impl[0].replace(" | ", "\n                "))
    print("model pinned  :", "same as real code" if m0 == impl[0] else m0)
    print("model repaired:", "same as real code" if m1 == impl[0] else m1)
    inf = classify_impl(impl[0])
    mon = ctx.driver(["c09"], "\n".join(monitor_lines([inf])) + "\n")[0]
    bad = []
    if problems:
        bad.append("crash/hang: %s" % problems[0]["stderr"][-300:])
    if inf["deadlock"]:
        bad.append("deadlock at step %d" % inf["deadlock"][0])
    if mon != "ok":
        bad.append(mon)
    if inf["err"]:
        bad.append("harness-assertion:" + inf["err"])
    if not bad and impl[0] != m1 and impl[0] != m0:
        bad.append("differs from both models")
    print("violated:", bad)
    return 1 if bad else 0
