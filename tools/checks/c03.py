"""
C03 — every produced image satisfies the on-disk invariants other readers rely on.

Proof: Sqfs/Props/C03.lean (models of the writer's pieces: dir writer header runs and index on the real meta writer model,
export table, sorted insertion into a directory, meta writer chunking, write_table locations, block size rule and size word
under the codec contract, id table bound, inode numbering incl. reorder_hard_links, file inode thresholds, layout/padding;
all inputs).  Tie:
  (1) harness/h_c03.c, h_c03n.c, h_c03f.c run the real functions (#included or linked from the working tree, ASan+UBSan) on
      the same generated lines as `sqfsmodel c03 ops`; independent Python monitors evaluate the specification on the
      implementation's answers; one answer per line is enforced on both sides;
  (2) every backend's do_block is probed against the size contract the theorems assume;
  (3) real gensquashfs / tar2sqfs build images from generated trees hitting the quantifier's boundaries; each image goes
      through harness/unz.c -> `sqfsmodel c03 validate` (the executable invariant list, written from format.adoc) which
      must report nothing; `sqfsmodel c03 parse` is compared with the generated tree (attributes, link counts, xattrs, every
      file's content reassembled from the unpacked blocks) and with rdsquashfs.  Jobs with `-X` per compressor reach every
      write_options path; the compressor options block of *every* image is decoded here (copt_problems: presence flag,
      uncompressed block at 96, payload size and field ranges per format.adoc, fields equal to what the command line asks
      for).  The mixed trees carry hard links to fifos / sockets / symlinks / device nodes and files (pack file `link`
      lines, tar LNKTYPE): two paths, one inode, link count = number of paths (validator's nlink rule + compare_tree).
"""
import concurrent.futures as cf
import io, json, os, struct, subprocess, tarfile, time
from pathlib import Path
import vlib

LEVEL = "proof"
MODULE = "Sqfs.Props.C03"
REQUIRED = ["Sqfs.C03.conseq_count_ok", "Sqfs.C03.dir_end_headers_ok", "Sqfs.C03.add_entry_name_fits",
            "Sqfs.C03.meta_block_le_8k", "Sqfs.C03.meta_stored_le_unpacked", "Sqfs.C03.data_block_size_rule",
            "Sqfs.C03.id_count_fits", "Sqfs.C03.finish_order", "Sqfs.C03.pad_multiple",
            "Sqfs.C03.inode_numbers_bijective", "Sqfs.C03.children_before_parent", "Sqfs.C03.dir_index_count_exact",
            "Sqfs.C03.dir_index_points_at_headers", "Sqfs.C03.export_table_resolves", "Sqfs.C03.write_table_locations",
            "Sqfs.C03.keep_in_memory_same_blocks", "Sqfs.C03.listing_strictly_sorted",
            "Sqfs.C03.inode_numbers_dense_after_reorder", "Sqfs.C03.link_targets_before_linking_dirs", "Sqfs.C03.file_inode_values_exact"]

K_D11 = "D11:lz4-block-not-smaller"
K_D8 = "D8:id-count-wraps"
K_D18 = "D18:dir-name-too-long"
K_D25 = "D25:dir-index-count-wraps"

NOIDX = 0xFFFFFFFF


def hx(b):
    return b.hex() if b else "-"


MAX_REPORTS = 6          # per kind of finding (key prefix): keeps one broken rule from hiding the others
_reported = {}


def report(ctx, key, what, replay, found_input=True):
    """ctx.violation with a cap on the number of VIOLATION lines per kind in one run (known findings always go through)"""
    if ctx.known_finding(key) is None:
        kind = key.split(":")[0]
        _reported[kind] = _reported.get(kind, 0) + 1
        if _reported[kind] > MAX_REPORTS:
            ctx.cov["violations_suppressed_after_cap"] = ctx.cov.get("violations_suppressed_after_cap", 0) + 1
            return
    ctx.violation(key, what, replay, found_input)


def shx(cmd, **kw):
    """vlib.sh, tolerant of binary bytes in the tools' chatter"""
    kw.setdefault("errors", "replace")
    return vlib.sh(cmd, **kw)


def zip_strict(*seqs):
    """zip() that refuses streams of unequal length: a short answer stream must never silently drop comparisons"""
    n = len(seqs[0])
    for q in seqs[1:]:
        if len(q) != n:
            raise vlib.CheckFailure("internal: streams of unequal length compared (%s)" % [len(x) for x in seqs])
    return zip(*seqs)


def driver_lines(ctx, lines, timeout=1500):
    """`sqfsmodel c03 ops` on `lines`; exactly one answer per line or the check cannot complete"""
    if not lines:
        return []
    out = ctx.driver(["c03", "ops"], "\n".join(lines) + "\n", timeout)
    if len(out) != len(lines):
        raise vlib.CheckFailure("model driver answered %d lines for %d op lines" % (len(out), len(lines)))
    return out


# ----------------------------------------------------------------------------------------------------------------
# (1) writer pieces: generators

def gen_name(rng, n=None):
    n = n if n is not None else rng.choice([1, 1, 2, 3, 5, 8, 13, 30, 60, 120, 200, 255, 256])
    return bytes(rng.choice(b"abcdefghijklmnopqrstuvwxyz0123456789._-") for _ in range(n))


def gen_entries(rng, n, kind):
    """(name, num, ref, mode) lists shaped to hit the limits of get_conseq_entry_count"""
    out = []
    blk = rng.choice([0, 0, 8194, 16388, 123456])
    num = rng.choice([1, 5, 1000, 40000, 0xFFFF0000])
    for i in range(n):
        if kind == "same":
            pass
        elif kind == "blocks" and rng.random() < 0.08:
            blk += rng.choice([8194, 300, 5000])
        elif kind == "jumps" and rng.random() < 0.15:
            num = (num + rng.choice([32766, 32767, 32768, 32769, 70000, -32767, -32768, -40000])) % (1 << 32)
            num = max(num, 1)
        elif kind == "wrap" and rng.random() < 0.2:
            num = rng.choice([1, 2, 0xFFFFFFFF, 0xFFFFFFFE, 0x80000000, 0x7FFFFFFF])
        num = (num + 1) % (1 << 32) or 1
        nl = rng.choice([1, 2, 3, 8]) if kind == "short" else 256 if kind == "long256" else rng.choice([1, 4, 9, 30, 100, 250]) if kind != "long" else rng.choice([200, 255, 256])
        mode = rng.choice([0o100644, 0o100755, 0o40755, 0o120777, 0o60600, 0o20600, 0o10644, 0o140644])
        out.append((gen_name(rng, nl), num, (blk << 16) | rng.randrange(0, 8192), mode))
    return out


def tok_dirw(e):
    return "%s/%d/%d/%o" % (hx(e[0]), e[1], e[2], e[3])


TYPE_OF_MODE = {0o140000: 7, 0o010000: 6, 0o120000: 3, 0o060000: 4, 0o020000: 5, 0o040000: 1, 0o100000: 2}


def gen_ops(ctx):
    rng = ctx.rng
    q = ctx.quick()
    lines, meta = [], []     # meta: dict per line for the monitors

    def add(line, **kw):
        lines.append(line)
        meta.append(kw)

    # conseq / dirw
    shapes = [("same", n) for n in (1, 2, 255, 256, 257, 300, 513)] + [("short", n) for n in (255, 256, 257, 513, 700)] + \
             [("blocks", n) for n in (5, 40, 300)] + [("jumps", n) for n in (5, 40, 300)] + \
             [("wrap", 12), ("long", 40), ("long", 300), ("long256", 249), ("long256", 255)]
    reps = 2 if q else 12
    for _ in range(reps):
        for kind, n in shapes:
            ents = gen_entries(rng, n, kind)
            off = rng.choice([0, 1, 100, 4000, 8191 - 12, 8192 - 12, 8192 - 13, 8180, 8191, rng.randrange(8192)])
            add("conseq %d %s" % (off, " ".join("%d/%d/%d/%s" % (e[2], e[1], TYPE_OF_MODE[e[3] & 0o170000], hx(e[0])) for e in ents)),
                op="conseq", off=off, ents=ents)
            off0 = rng.choice([0, 100, 8100, 8191, 8192, 20000, rng.randrange(30000)])
            xattr = rng.choice([NOIDX, NOIDX, 0, 7])
            add("dirw %d %d %d %d %s" % (off0, rng.choice([0, 0, 3]), xattr, rng.choice([0, 9, 0xFFFFFFFF]), " ".join(tok_dirw(e) for e in ents)),
                op="dirw", ents=ents, off0=off0)
    # add_entry edge cases
    base = gen_entries(rng, 3, "same")
    for bad in [(b"", 5, 0, 0o100644), (b"x", 0, 0, 0o100644), (b"x", 5, 0, 0o000644), (b"x", 5, 0, 0o170644)]:
        add("dirw 0 0 %d 0 %s" % (NOIDX, " ".join(tok_dirw(e) for e in base[:2] + [bad] + base[2:])), op="dirw", ents=None, off0=0)
    add("dirw 0 0 %d 0" % NOIDX, op="dirw", ents=[], off0=0)
    for ln in ([257, 300] if q else [257, 258, 300, 1000, 65535, 65536, 65537]):
        e = (gen_name(rng, ln), 7, 0x10000, 0o100644)
        add("dirw 0 0 %d 0 %s" % (NOIDX, " ".join(tok_dirw(x) for x in [base[0], e, base[1]])), op="dirw", ents=None, off0=0, longname=ln)
    # 65536 headers (entries alternate between two inode blocks): the u16 index count of the extended directory inode
    for n in (65535, 65536, 65541):
        ents = [(b"n%07d" % i, 1 + (i % 2), ((i % 2) * 8194) << 16, 0o100644) for i in range(n)]
        add("dirw 0 0 %d 0 %s" % (NOIDX, " ".join(tok_dirw(e) for e in ents)), op="dirw", ents=ents, off0=0, manyhdr=n)
    # meta writer
    for codec in ("raw", "toy", "grow", "trail"):
        pats = [[], [1], [8191], [8192], [8193], [8192, 8192], [16384], [3 * 8192 + 5], [5000, 5000], [1] * 40,
                [8000, 100, 92, 1], [4, 4, 4], [12], [13]]
        for _ in range(1 if q else 6):
            pats.append([rng.randrange(0, 9000) for _ in range(rng.randrange(1, 8))])
        for p in pats:
            chunks = []
            for n in p:
                if codec == "toy" and rng.random() < 0.6:
                    chunks.append(bytes([rng.randrange(256)]) * n)
                else:
                    chunks.append(bytes(rng.randrange(256) for _ in range(n)) if n < 64 else os.urandom(0) + rng.randbytes(n))
            add("meta %s %s" % (codec, " ".join(hx(c) for c in chunks)), op="meta", codec=codec, chunks=chunks)
    # block rule
    for codec in ("raw", "toy", "grow"):
        # incl. SQFS_BLK_FRAGMENT_BLOCK (0x4000): never sparse since /repo 47f7b3d, alone and with the flags it travels with
        for flags in (0, 1, 16, 17, 8192, 8192 | 16, 4, 2, 16384, 16384 | 1, 16384 | 16, 16384 | 2, 8192 | 1, 8, 16384 | 8):
            for data in (b"", b"\0", b"\0" * 100, b"\x07" * 50, b"\x07" * 3, rng.randbytes(5), rng.randbytes(12), rng.randbytes(13), rng.randbytes(300)):
                add("blk %s %d %s" % (codec, flags, hx(data)), op="blk", codec=codec, flags=flags, data=data)
    # id table
    for _ in range(6 if q else 40):
        n = rng.choice([1, 2, 10, 100, 400])
        pool = [rng.choice([0, 1, 1000, 65534, 65535, 65536, 0xFFFFFFFF, rng.randrange(1 << 32)]) for _ in range(max(1, n // 2))]
        ids = [rng.choice(pool) for _ in range(n)]
        add("ids " + " ".join(map(str, ids)), op="ids", ids=ids)
    for n in ([3000] if q else [3000, 65535]):
        add("idsrange %d" % n, op="idsrange", n=n)
    gen_ops_more(ctx, add)
    return lines, meta


DEVBLKS = [1024, 1031, 1536, 3000, 3072, 4096, 4097, 5120, 7919, 12288, 65536, 65537, 1000000, 1048573, 1048576]


def gen_entries_x(rng, n, kind):
    """entry lists for `dirx`: inode numbers 1..3000 (the export table has one slot per number), a number always comes with
    the same reference (as in the serializer), names end in runs so that the `trail` codec shrinks some blocks"""
    blk_of = lambda num: (num // rng_blk) * 300
    rng_blk = rng.choice([7, 40, 5000])
    out, used = [], set()
    num = rng.choice([1, 2, 700])
    for i in range(n):
        if kind == "hl" and i and rng.random() < 0.3:
            num = rng.choice(sorted(used))          # a hard link: the same inode under another name
        else:
            num = num + rng.choice([1, 1, 1, 2, 5]) if kind != "jump" or rng.random() > 0.1 else num + rng.choice([300, 900])
            num = (num - 1) % 3000 + 1
        used.add(num)
        nl = rng.choice([1, 3, 9, 30, 100, 200, 256])
        k = min(nl - 1, rng.choice([0, 2, 5, 40, 250]))
        name = (b"%04d" % i + gen_name(rng, nl))[:nl - k] + bytes([rng.choice(b"xyz_")]) * k
        mode = rng.choice([0o100644, 0o40755, 0o120777, 0o10644])
        out.append((name, num, (blk_of(num) << 16) | (num * 32 % 8192), mode))
    return out


def gen_ops_more(ctx, add):
    rng = ctx.rng
    q = ctx.quick()
    # sqfs_write_table: locations, start, blocks; codecs that shrink some blocks and not others
    for codec in ("raw", "toy", "trail", "grow"):
        sizes = [0, 1, 4, 12, 8191, 8192, 8193, 16384, 16385, 3 * 8192 + 5] + [rng.randrange(1, 40000) for _ in range(2 if q else 8)]
        for n in sizes:
            for kind in (("rand", "runs") if q else ("rand", "runs", "ff", "const")):
                if kind == "rand":
                    d = rng.randbytes(n)
                elif kind == "const":
                    d = bytes([rng.randrange(256)]) * n
                elif kind == "ff":        # like an export table with holes
                    d = b"".join(rng.choice([b"\xff" * 8, rng.randbytes(8)]) for _ in range(n // 8 + 1))[:n]
                else:                     # runs of random length: chunk boundaries fall inside and outside runs
                    d = b""
                    while len(d) < n:
                        d += bytes([rng.randrange(256)]) * rng.choice([1, 2, 3, 4, 5, 17, 300, 5000, 9000])
                    d = d[:n]
                base = rng.choice([0, 96, 4096, 123457])
                add("table %s %d %s" % (codec, base, hx(d)), op="table", codec=codec, base=base, data=d)
    # KEEP_IN_MEMORY + write_to_file
    for codec in ("raw", "toy", "trail"):
        for p in [[], [1], [8192], [8193], [8192, 8192, 5], [3 * 8192 + 5], [5000, 5000, 5000], [100] * 200] + \
                 [[rng.randrange(0, 9000) for _ in range(rng.randrange(1, 8))] for _ in range(1 if q else 5)]:
            chunks = [bytes([rng.randrange(256)]) * n if rng.random() < 0.5 else rng.randbytes(n) for n in p]
            add("metak %s %s" % (codec, " ".join(hx(c) for c in chunks)), op="metak", codec=codec, chunks=chunks)
    # the dir writer on a compressing meta writer, in memory or not, with and without export table
    shapes = [("plain", 1), ("plain", 2), ("plain", 40), ("plain", 300), ("hl", 60), ("hl", 400), ("jump", 300), ("plain", 700)]
    for rep in range(1 if q else 4):
        for kind, n in shapes:
            ents = gen_entries_x(rng, n, kind)
            codec = rng.choice(["trail", "trail", "toy", "raw"])
            keep, exp = rng.choice([0, 1, 1]), rng.choice([0, 1, 1])
            off0 = rng.choice([0, 100, 8100, 8191, 8192, 8193, 20000, rng.randrange(40000)])
            rootnum = max(e[1] for e in ents) + rng.choice([1, 1, 2, 600])
            xattr = rng.choice([NOIDX, NOIDX, 3])
            add("dirx %s %d %d %d %d %d %d %d %d %s" % (codec, keep, exp, off0, rng.choice([0, 2]), xattr, rng.choice([0, 9]), rootnum,
                                                       (77 << 16) | 5, " ".join(tok_dirw(e) for e in ents)),
                op="dirx", codec=codec, keep=keep, exp=exp, off0=off0, ents=ents, rootnum=rootnum, rootref=(77 << 16) | 5)
    add("dirx trail 1 1 0 0 %d 0 0 5 %s" % (NOIDX, tok_dirw((b"a", 1, 32, 0o100644))), op="dirx", codec="trail", keep=1, exp=1, off0=0,
        ents=[(b"a", 1, 32, 0o100644)], rootnum=0, rootref=5)          # root inode number 0: refused
    add("dirx raw 0 1 0 0 %d 0 1 5" % NOIDX, op="dirx", codec="raw", keep=0, exp=1, off0=0, ents=[], rootnum=1, rootref=5)
    # insert_sorted / child_by_name: names in arbitrary order with repetitions, prefixes, bytes >= 0x80 (strcmp is unsigned)
    alpha = [b for b in range(1, 256) if b != 0x2f]
    for _ in range(40 if q else 400):
        n = rng.choice([0, 1, 2, 5, 20, 120])
        pool = []
        for _ in range(max(1, n // 2 + 1)):
            base = bytes(rng.choice([rng.choice(alpha), rng.choice(b"ab\x7f\x80\xff")]) for _ in range(rng.choice([1, 1, 2, 3, 6])))
            pool += [base, base + bytes([rng.choice(alpha)])] if rng.random() < 0.4 else [base]
        names = [rng.choice(pool) for _ in range(n)]
        add("names " + " ".join(n_.hex() for n_ in names) if names else "names", op="names", names=names)
    # inode.c: basic vs extended file inodes around the 32-bit limits
    big = [0, 1, 0xFFFFFFFE, 0xFFFFFFFF, 0x100000000, 0x100000001, 0x1FFFFFFFF, 1 << 40, (1 << 64) - 1]
    for _ in range(60 if q else 600):
        toks = []
        for _ in range(rng.choice([1, 2, 3, 5, 9])):
            k = rng.choice("SSSBBXPFeb")
            if k in "SB":
                toks.append("%s%d" % (k, rng.choice(big + [rng.randrange(1 << 34)])))
            elif k == "X":
                toks.append("X%d" % rng.choice([NOIDX, NOIDX, 0, 5, 0xFFFFFFFE]))
            elif k == "P":
                toks.append("P%d" % rng.choice([0, 1, 4096, 0xFFFFFFFF]))
            elif k == "F":
                toks.append("F%d,%d" % (rng.choice([0, 7, NOIDX]), rng.choice([0, 4095, NOIDX])))
            else:
                toks.append(k)
        add("fino " + " ".join(toks), op="fino", toks=toks)
    # padd_sqfs: device block sizes that are and are not powers of two
    for bs in DEVBLKS + [rng.randrange(1024, 1 << 20) | 1 for _ in range(4 if q else 40)] + [rng.randrange(1024, 1 << 20) for _ in range(3 if q else 30)]:
        for size in [0, 1, bs - 1, bs, bs + 1, 7 * bs, 96, rng.randrange(1 << 20), rng.randrange(1 << 33), (1 << 40) + rng.randrange(1 << 20)]:
            add("pad %d %d" % (size, bs), op="pad", size=size, bs=bs)


def gen_dirsize_targets(ctx):
    """`dirw` lines whose listing size is exactly 65531..65536 with fewer than 256 entries: the window in which the choice
    between a basic and an extended directory inode (dir_writer.c: `dir_size > 0xFFFF - 3`) matters.  The sizes are
    reached by asking the model for the size of a candidate and lengthening names one byte at a time."""
    rng = ctx.rng
    out = []
    for target in (65531, 65532, 65533, 65534, 65535, 65536):
        n = 248
        lens = [255] * n
        blk = rng.choice([0, 8194])
        line = None
        for _ in range(6):
            ents = [(b"%03d" % i + b"q" * (lens[i] - 3), 10 + i, (blk << 16) | (i * 32), 0o100644) for i in range(n)]
            line = "dirw 0 0 %d 0 %s" % (NOIDX, " ".join(tok_dirw(e) for e in ents))
            ans = driver_lines(ctx, [line])[0]
            size = int(ans.split(" size=")[1].split()[0])
            if size == target:
                break
            d = target - size
            idx = [i for i in range(n) if (lens[i] < 256 if d > 0 else lens[i] > 200)]
            for i in idx[:abs(d)]:
                lens[i] += 1 if d > 0 else -1
        out.append((line, dict(op="dirw", ents=ents, off0=0, dirsize_target=target, dirsize=size)))
    return out


# ----------------------------------------------------------------------------------------------------------------
# independent monitors: the specification evaluated on the implementation's answers

def s16(v):
    return v - 65536 if v >= 32768 else v


def monitor_conseq(m, ans):
    try:
        n = int(ans)
    except ValueError:
        return ["not a number"]
    ents, off = m["ents"], m["off"]
    bad = []
    if not (1 <= n <= 256 and n <= len(ents)):
        bad.append("count %d outside 1..min(256,%d)" % (n, len(ents)))
        return bad
    h = ents[0]
    for e in ents[:n]:
        if e[2] >> 16 != h[2] >> 16:
            bad.append("entry in another inode block inside the run")
        d = (e[1] - h[1]) % (1 << 32)
        d = d - (1 << 32) if d >= (1 << 31) else d
        if not -32768 <= d <= 32767:
            bad.append("delta %d does not fit s16" % d)
    return bad


def decode_listing(b):
    runs, p = [], 0
    while p < len(b):
        cnt, start, ino = struct.unpack_from("<III", b, p)
        hp = p
        p += 12
        ents = []
        for _ in range(cnt + 1):
            off, dl, typ, ns = struct.unpack_from("<HHHH", b, p)
            ents.append((off, s16(dl), typ, b[p + 8:p + 8 + ns + 1]))
            if p + 8 + ns + 1 > len(b):
                raise ValueError("entry runs past the listing")
            p += 8 + ns + 1
        runs.append((hp, cnt + 1, start, ino, ents))
    return runs


def monitor_dirw(m, ans):
    """returns (violated clauses, names too long?)"""
    if not ans.startswith("ok "):
        return [], False
    ents = m.get("ents")
    f = ans.split()
    b = bytes.fromhex(f[1]) if f[1] != "-" else b""
    bad = []
    try:
        runs = decode_listing(b)
    except (struct.error, ValueError) as e:
        return ["listing does not decode: %s" % e], True
    flat = []
    toolong = False
    for hp, cnt, start, ino, es in runs:
        if cnt > 256:
            bad.append("header with %d entries" % cnt)
        for off, dl, typ, nm in es:
            flat.append((nm, (ino + dl) % (1 << 32), (start << 16) | off, typ))
            if len(nm) > 256:
                toolong = True
    if ents is not None:
        want = [(e[0], e[1], ((e[2] >> 16) % (1 << 32)) << 16 | (e[2] & 0xFFFF), TYPE_OF_MODE[e[3] & 0o170000]) for e in ents]
        if flat != want:
            bad.append("decoded entries differ from the entries added")
        names = [e[0] for e in ents]
    size = int(f[2].split("=")[1])
    if size != len(b):
        bad.append("dir_size %d but %d bytes written" % (size, len(b)))
    if toolong:
        bad.append("name longer than 256 bytes stored")
    # the directory inode must announce the listing size (+3) without truncation, and a basic inode only fits 16 bits
    try:
        k = f.index(next(x for x in f if x.startswith("inode=")))
        isize = int(f[k + 2])
        if isize != size + 3:
            bad.append("directory inode announces size %d for a listing of %d bytes (+3)" % (isize, size))
        if f[k] == "inode=ext":
            n_ann = int(next(x for x in f if x.startswith("n=")).split("=")[1])
            idx = next(x for x in f if x.startswith("idx=")).split("=", 1)[1]
            n_idx = 0 if idx == "-" else idx.count(",") + 1
            if n_ann != n_idx:
                bad.append("INDEXCOUNT extended directory inode announces %d index entries, %d follow it" % (n_ann, n_idx))
    except (StopIteration, ValueError, IndexError):
        bad.append("inode fields missing")
    return bad, toolong


def monitor_meta(m, ans):
    f = ans.split()
    if len(f) != 3:
        return ["unexpected answer"]
    b = bytes.fromhex(f[2]) if f[2] != "-" else b""
    blocks, p = [], 0
    while p + 2 <= len(b):
        h = struct.unpack_from("<H", b, p)[0]
        blocks.append((h >> 15, b[p + 2:p + 2 + (h & 0x7FFF)]))
        p += 2 + (h & 0x7FFF)
    bad = []
    if p != len(b):
        bad.append("trailing bytes")
    stream = b"".join(m["chunks"])
    if m["codec"] == "raw":
        if b"".join(x[1] for x in blocks) != stream:
            bad.append("stream not preserved")
        for i, (raw, d) in enumerate(blocks):
            if not raw or not (1 <= len(d) <= 8192) or (i + 1 < len(blocks) and len(d) != 8192):
                bad.append("block %d: raw=%d len=%d" % (i, raw, len(d)))
    want_blocks = (len(stream) + 8191) // 8192
    if len(blocks) != want_blocks:
        bad.append("%d blocks for %d bytes" % (len(blocks), len(stream)))
    for i, (raw, d) in enumerate(blocks):
        chunk = stream[i * 8192:(i + 1) * 8192]
        if len(d) > 8192:
            bad.append("block %d stored %d bytes" % (i, len(d)))
        if raw and d != chunk:
            bad.append("block %d flagged uncompressed but differs from its chunk" % i)
        if not raw and m["codec"] != "grow" and len(d) >= len(chunk):
            bad.append("block %d flagged compressed, %d >= %d" % (i, len(d), len(chunk)))
    return bad


def monitor_blk(m, ans):
    f = ans.split()
    if len(f) != 4 or not f[2].startswith("iw=") or not f[3].startswith("fw="):
        return ["unexpected answer"]
    flags, d = int(f[0]), (bytes.fromhex(f[1]) if f[1] != "-" else b"")
    bad = []
    # the size word process_completed_block records: stored size in the low 24 bits, bit 24 set iff stored uncompressed
    words = [int(x.split("=")[1]) for x in f[2:] if not x.endswith("=-")]
    if len(words) > 1:
        bad.append("both an inode word and a fragment table word recorded")
    if d and not flags & 0x0400:
        if len(words) != 1 or words[0] & 0xFFFFFF != len(d) or bool(words[0] >> 24 & 1) == bool(flags & 0x8000) or words[0] >> 25:
            bad.append("size word %s for %d stored bytes, compressed=%s" % (words, len(d), bool(flags & 0x8000)))
        if bool(flags & 0x4000) != f[2].endswith("=-"):
            bad.append("size word recorded in the wrong place (%s %s)" % (f[2], f[3]))
    comp = bool(flags & 0x8000)
    if m["codec"] != "grow":
        if len(d) > len(m["data"]):
            bad.append("stored larger than input")
        if comp != (len(d) < len(m["data"])):
            bad.append("compressed flag %s but %d vs %d bytes" % (comp, len(d), len(m["data"])))
    if not comp and d != m["data"]:
        bad.append("not flagged compressed but bytes changed")
    if m["flags"] & 0x4000 and flags & 0x0400:
        bad.append("a fragment block was flagged sparse (it would not be written and its table entry stay (0,0))")
    return bad


def monitor_ids(m, ans):
    f = ans.split()
    idx = [int(x) for x in f[1:] if x.isdigit()]
    kv = dict(x.split("=") for x in f if "=" in x)
    bad = []
    ids = m["ids"]
    distinct = list(dict.fromkeys(ids))
    if "overflow-at" in kv:
        if len(distinct) <= 65535:
            bad.append("overflow reported for %d distinct ids" % len(distinct))
        return bad
    if int(kv["id_count"]) != len(distinct):
        bad.append("id_count %s for %d distinct ids" % (kv["id_count"], len(distinct)))
    if idx != [distinct.index(i) for i in ids]:
        bad.append("indices do not name the ids")
    return bad


def monitor_idsrange(m, ans):
    kv = dict(x.split("=") for x in ans.split() if "=" in x)
    n = m["n"]
    if "overflow-at" in kv:
        return [] if n > 65535 else ["overflow reported for %d ids" % n]
    return [] if int(kv.get("id_count", -1)) == n else ["id_count %s for %d distinct ids" % (kv.get("id_count"), n)]


def unpack_test_block(codec, comp, d):
    """inverse of the harness' test codecs (raw never compresses)"""
    if not comp:
        return d
    if codec == "toy" and len(d) == 3:
        return bytes([d[0]]) * (d[1] | d[2] << 8)
    if codec == "trail" and len(d) >= 3:
        return d[:-3] + bytes([d[-3]]) * (d[-2] | d[-1] << 8)
    if codec == "grow" and len(d) >= 1:
        return d[1:]
    raise ValueError("block flagged compressed cannot come from codec %s" % codec)


def split_meta_blocks(b):
    """[(offset, compressed, stored bytes)] of a run of metadata blocks; raises if the run does not end on a block boundary"""
    out, p = [], 0
    while p < len(b):
        if p + 2 > len(b):
            raise ValueError("truncated block header at %d" % p)
        h = struct.unpack_from("<H", b, p)[0]
        n = h & 0x7FFF
        if p + 2 + n > len(b):
            raise ValueError("block at %d runs past the end" % p)
        out.append((p, not (h >> 15), b[p + 2:p + 2 + n]))
        p += 2 + n
    return out


def check_table(codec, base, start, locs_txt, filehex, data):
    """the specification of sqfs_write_table evaluated on what the implementation wrote; returns violated clauses"""
    bad = []
    b = bytes.fromhex(filehex) if filehex != "-" else b""
    locs = [] if locs_txt == "-" else [int(x) for x in locs_txt.split(",")]
    nblk = (len(data) + 8191) // 8192
    if len(locs) != nblk:
        bad.append("%d locations for a table of %d bytes (%d blocks)" % (len(locs), len(data), nblk))
    if start - base < 0 or start - base > len(b):
        return bad + ["start %d outside what was written" % start]
    try:
        blocks = split_meta_blocks(b[:start - base])
    except ValueError as e:
        return bad + ["blocks before the location list do not parse: %s" % e]
    if len(blocks) != nblk:
        bad.append("%d metadata blocks for a table of %d bytes" % (len(blocks), len(data)))
    if b[start - base:] != b"".join(struct.pack("<Q", x) for x in locs):
        bad.append("bytes at `start` are not the location list")
    for i, (off, comp, d) in enumerate(blocks):
        if i < len(locs) and locs[i] != base + off:
            bad.append("location %d is %d, block %d starts at %d" % (i, locs[i], i, base + off))
        try:
            raw = unpack_test_block(codec, comp, d)
        except ValueError as e:
            bad.append("block %d: %s" % (i, e)); continue
        if raw != data[i * 8192:(i + 1) * 8192]:
            bad.append("block %d does not unpack to bytes %d.. of the table" % (i, i * 8192))
    return bad


def monitor_table(m, ans):
    kv = dict(x.split("=", 1) for x in ans.split() if "=" in x)
    if not {"start", "locs", "file"} <= set(kv):
        return ["unexpected answer"]
    return check_table(m["codec"], m["base"], int(kv["start"]), kv["locs"], kv["file"], m["data"])


def monitor_metak(m, ans):
    f = ans.split()
    if len(f) != 4 or not f[2].startswith("filebefore="):
        return ["unexpected answer"]
    bad = []
    if f[2] != "filebefore=0":
        bad.append("a KEEP_IN_MEMORY meta writer wrote to the file before write_to_file (%s)" % f[2])
    b = bytes.fromhex(f[3]) if f[3] != "-" else b""
    stream = b"".join(m["chunks"])
    try:
        blocks = split_meta_blocks(b)
        raw = [unpack_test_block(m["codec"], c, d) for _, c, d in blocks]
    except ValueError as e:
        return bad + [str(e)]
    if b"".join(raw) != stream:
        bad.append("stream not preserved")
    if any(len(r) != 8192 for r in raw[:-1]) or (raw and not 1 <= len(raw[-1]) <= 8192):
        bad.append("block sizes %s" % [len(r) for r in raw][:6])
    end = f[1].split("=")[1].split(",")
    if int(end[0]) != len(b) or int(end[1]) != 0:
        bad.append("final position %s for %d bytes written" % (f[1], len(b)))
    return bad


def monitor_dirx(m, ans):
    if not ans.startswith("ok "):
        if m["rootnum"] == 0 or not m["ents"]:
            return []
        return ["refused: " + ans[:60]]
    f = ans.split()
    kv = dict(x.split("=", 1) for x in f if "=" in x)
    bad = []
    ents, off0, codec = m["ents"], m["off0"], m["codec"]
    if m["keep"] and kv.get("filebefore") != "0":
        bad.append("KEEP_IN_MEMORY writer wrote %s bytes before write_to_file" % kv.get("filebefore"))
    tb = bytes.fromhex(kv["table"]) if kv["table"] != "-" else b""
    try:
        blocks = split_meta_blocks(tb)
        raws = [unpack_test_block(codec, c, d) for _, c, d in blocks]
    except ValueError as e:
        return bad + ["directory table does not parse: %s" % e]
    stream = b"".join(raws)
    if any(len(r) != 8192 for r in raws[:-1]):
        bad.append("a directory table block other than the last does not hold 8192 bytes")
    if stream[:off0] != b"\x55" * off0:
        bad.append("bytes in front of the listing changed")
    listing = stream[off0:]
    try:
        runs = decode_listing(listing)
    except (struct.error, ValueError) as e:
        return bad + ["listing does not decode: %s" % e]
    flat = [(nm, (ino + dl) % (1 << 32), (start << 16) | off, typ) for _, _, start, ino, es in runs for off, dl, typ, nm in es]
    want = [(e[0], e[1], ((e[2] >> 16) % (1 << 32)) << 16 | (e[2] & 0xFFFF), TYPE_OF_MODE[e[3] & 0o170000]) for e in ents]
    if flat != want:
        bad.append("decoded entries differ from the entries added")
    if any(cnt > 256 for _, cnt, _, _, _ in runs):
        bad.append("header with more than 256 entries")
    if int(kv["size"]) != len(listing):
        bad.append("dir_size %s but %d bytes written" % (kv["size"], len(listing)))
    blkoff = [o for o, _, _ in blocks]
    # the reference recorded by sqfs_dir_writer_begin
    ref = int(kv["ref"])
    if off0 // 8192 < len(blkoff) or not listing:
        want_blk = blkoff[off0 // 8192] if off0 // 8192 < len(blkoff) else len(tb)
        if ref != (want_blk << 16 | off0 % 8192):
            bad.append("dir_ref %d, the listing starts in the block at %d, offset %d" % (ref, want_blk, off0 % 8192))
    k = f.index(next(x for x in f if x.startswith("inode=")))
    if f[k] == "inode=ext":
        n_ann = int(kv["n"])
        idx = [] if kv["idx"] == "-" else [x.split(";") for x in kv["idx"].split(",")]
        if n_ann != len(idx) or len(idx) != min(len(runs), 65535):
            bad.append("index count %d, %d index entries, %d headers" % (n_ann, len(idx), len(runs)))
        for j, (ix, ib, nm) in enumerate(idx):
            hp, cnt, start, ino, es = runs[j] if j < len(runs) else (None, 0, 0, 0, [])
            if hp is None or int(ix) != hp:
                bad.append("index entry %d: offset %s, header %d is at %s" % (j, ix, j, hp)); break
            holder = (off0 + hp) // 8192
            if holder >= len(blkoff) or int(ib) != blkoff[holder]:
                bad.append("index entry %d names block %s, the header lies in block %d at %s" % (j, ib, holder, blkoff[holder] if holder < len(blkoff) else None)); break
            if bytes.fromhex(nm) != es[0][3]:
                bad.append("index entry %d is named %s, first entry is %r" % (j, nm, es[0][3])); break
        if int(f[k + 2]) != len(listing) + 3:
            bad.append("directory inode announces size %s for a listing of %d bytes (+3)" % (f[k + 2], len(listing)))
    else:
        if int(f[k + 2]) != len(listing) + 3 or len(listing) + 3 > 0xFFFF or len(ents) >= 256:
            bad.append("basic directory inode (size field %s) for a listing of %d bytes / %d entries" % (f[k + 2], len(listing), len(ents)))
    if m["exp"] and m["rootnum"] == 0:
        if not any(x.startswith("export=err") for x in f):
            bad.append("root inode number 0 accepted for the export table")
    elif m["exp"]:
        if "export" not in f:
            bad.append("export table missing: " + ans[-60:])
        else:
            e = f.index("export")
            start = int(f[e + 1].split("=")[1])
            nums = {x[1]: x[2] for x in ents}
            nums[m["rootnum"]] = m["rootref"]
            table = b"".join(struct.pack("<Q", nums.get(i, 0xFFFFFFFFFFFFFFFF)) for i in range(1, max(nums) + 1))
            eb = bytes.fromhex(f[e + 2]) if f[e + 2] != "-" else b""
            nloc = (len(table) + 8191) // 8192
            locs = struct.unpack_from("<%dQ" % nloc, eb, len(eb) - 8 * nloc) if len(eb) >= 8 * nloc else ()
            bad += ["export table: " + x for x in check_table(codec, len(tb), start, ",".join(map(str, locs)) or "-", f[e + 2], table)]
    return bad


def monitor_names(m, ans):
    kv = dict(x.split("=", 1) for x in ans.split() if "=" in x)
    names = m["names"]
    order = [] if kv.get("order", "-") == "-" else [bytes.fromhex(x) for x in kv["order"].split(",")]
    bad = []
    if any(not a < b for a, b in zip(order, order[1:])):
        bad.append("children not strictly sorted by strcmp")
    if set(order) != set(names) or len(order) != len(set(names)):
        bad.append("children are not the distinct names that were added")
    if int(kv.get("link", -1)) != 2 + len(order):
        bad.append("link count %s with %d children" % (kv.get("link"), len(order)))
    seen, rcs = set(), []
    for n in names:
        rcs.append("EEXIST" if n in seen else "0")
        seen.add(n)
    if kv.get("rc", "") != ",".join(rcs):
        bad.append("return codes %s, expected %s" % (kv.get("rc", "")[:60], ",".join(rcs)[:60]))
    return bad


def monitor_fino(m, ans):
    """no value is narrowed: whatever layout inode.c picked, a reader gets back exactly the values that were set"""
    want = {"start": 0, "size": 0, "sparse": 0, "nlink": 1, "frag": "0,0", "xattr": NOIDX}
    for t in m["toks"]:
        if t[0] == "S":
            want["size"] = int(t[1:])
        elif t[0] == "B":
            want["start"] = int(t[1:])
        elif t[0] == "X":
            want["xattr"] = int(t[1:])
        elif t[0] == "P":
            want["sparse"] = (want["sparse"] + int(t[1:])) % (1 << 64)
        elif t[0] == "F":
            want["frag"] = t[1:]
    f = ans.split()
    if not f or f[0] not in ("basic", "ext"):
        return ["unexpected answer"]
    got = {"sparse": 0, "nlink": 1, "xattr": NOIDX}
    for x in f[1:]:
        k, v = x.split("=")
        got[k] = v if k == "frag" else int(v)
    return ["%s inode reads back %s=%s, %s was set" % (f[0], k, got.get(k), want[k]) for k in want if got.get(k) != want[k]]


def monitor_pad(m, ans):
    kv = dict(x.split("=", 1) for x in ans.split() if "=" in x)
    bad = []
    if "BAD-WRITE" in ans:
        bad.append("padding is not zero bytes appended at the end of the file")
    if kv.get("rc") != "0":
        bad.append("padd_sqfs failed: " + ans)
    pad = int(kv.get("pad", -1))
    if (m["size"] + pad) % m["bs"] != 0 or not 0 <= pad < m["bs"]:
        bad.append("size %d + padding %d is not the next multiple of the device block size %d" % (m["size"], pad, m["bs"]))
    return bad


MONITORS = {"conseq": monitor_conseq, "meta": monitor_meta, "blk": monitor_blk, "ids": monitor_ids, "idsrange": monitor_idsrange,
            "table": monitor_table, "metak": monitor_metak, "dirx": monitor_dirx, "names": monitor_names, "pad": monitor_pad,
            "fino": monitor_fino}
HARNESS_OF = {"names": "h_c03n", "num": "h_c03n", "pad": "h_c03f"}       # every other op: h_c03


def gen_spec(rng, depth, width, hl):
    out = []
    for _ in range(rng.randrange(0, width + 1)):
        r = rng.random()
        if r < 0.25 and depth > 0:
            out.append("(" + gen_spec(rng, depth - 1, width, hl) + ")")
        elif r < 0.25 + hl:
            out.append("h")
        else:
            out.append("f")
    return "".join(out)


def parse_num(ans):
    """'(4 (2 - (1)3)5 6)7 count=7' -> (nested structure, count); structure: ('d', n, [children]) | ('f', n) | ('h',)"""
    body, cnt = ans.rsplit(" count=", 1)
    pos = [0]

    def forest():
        kids = []
        while pos[0] < len(body) and body[pos[0]] != ")":
            c = body[pos[0]]
            if c == " ":
                pos[0] += 1
            elif c == "-":
                kids.append(("h",)); pos[0] += 1
            elif c == "(":
                pos[0] += 1
                k = forest()
                pos[0] += 1          # ')'
                kids.append(("d", num(), k))
            else:
                kids.append(("f", num()))
        return kids

    def num():
        j = pos[0]
        while j < len(body) and body[j].isdigit():
            j += 1
        v = int(body[pos[0]:j]); pos[0] = j
        return v

    t = forest()
    return t[0], int(cnt)


def monitor_num(m, ans):
    try:
        root, cnt = parse_num(ans)
    except (ValueError, IndexError):
        return ["answer does not parse: " + ans[:80]]
    bad, allnums = [], []

    def walk(n):
        if n[0] == "h":
            return []
        if n[0] == "f":
            allnums.append(n[1]); return [n[1]]
        sub = []
        for k in n[2]:
            sub += walk(k)
        if any(x >= n[1] for x in sub):
            bad.append("directory %d has a descendant with a larger number" % n[1])
        allnums.append(n[1])
        return sub + [n[1]]

    walk(root)
    if sorted(allnums) != list(range(1, cnt + 1)):
        bad.append("numbers are not exactly 1..%d" % cnt)
    want = m["spec"].count("f") + m["spec"].count("(") + 1
    if cnt != want:
        bad.append("count %d for %d inode-bearing nodes" % (cnt, want))
    return bad


def link_targets(rng, sp):
    """give every `h` of a spec a target: the k-th `f` (any of them, before or after the link)"""
    nf = sp.count("f")
    if "h" in sp and nf == 0:
        sp, nf = "f" + sp, 1
    return "".join("h%d" % rng.randrange(nf) if c == "h" else c for c in sp)


def monitor_num_links(spec, ans):
    """children before parent also for hard links: a directory's number exceeds that of every inode its hard-link entries
    name (the target must have been serialised, its reference known, when the directory's listing is written)"""
    import re
    try:
        root, _ = parse_num(ans)
    except (ValueError, IndexError):
        return []
    toks = re.findall(r"h\d*|f|\(|\)", spec)
    files, bad = [], []

    def walk(node, it):          # collect file numbers in spec order
        for k in node[2]:
            t = next(it)
            if t == "(":
                walk(k, it); next(it)
            elif t == "f":
                files.append(k[1])
    walk(root, iter(toks))

    def check(node, it):
        for k in node[2]:
            t = next(it)
            if t == "(":
                check(k, it); next(it)
            elif t.startswith("h"):
                tgt = files[int(t[1:] or 0)]
                if tgt >= node[1]:
                    bad.append("directory %d links inode %d, which is serialised after it" % (node[1], tgt))
    check(root, iter(toks))
    return bad


def numbering(ctx, harness_n):
    rng = ctx.rng
    specs = ["", "f", "()", "(())", "f(fh1(f))f", "(h0)f", "(f)(f)h1", "ff(h0h1)(h1(h0))f", "((((((f))))))", "(h1)(f)f", "((h3f)(h2fh3))ff(f)",
             "(h2h1h0)fff(h0)"]
    for _ in range(150 if ctx.quick() else 2500):
        sp = gen_spec(rng, rng.randrange(0, 5), rng.choice([2, 4, 8, 30]), rng.choice([0.0, 0.0, 0.15, 0.4]))
        specs.append(link_targets(rng, sp))
    specs.append("f" * 3000 + "(" + "f" * 300 + ")" * 1)
    specs.append("(" + "".join("h%d" % k for k in range(0, 400, 3)) + ")" + "f" * 200 + "(" + "f" * 200 + "h7)")
    lines = ["num " + sp if sp else "num" for sp in specs]
    impl, crash = run_harness(ctx, harness_n, lines)
    if crash:
        k, rc, err = crash
        report(ctx, "crash:num:" + vlib.sha(lines[min(k, len(lines) - 1)])[:10], "fstree_post_process aborted (rc=%d): %s" % (rc, err[-300:]),
               {"kind": "num", "line": lines[min(k, len(lines) - 1)][:500]})
        return {"numbering_lines": len(impl)}
    model = driver_lines(ctx, lines)
    linked = exact = 0
    for l, sp, a, b in zip_strict(lines, specs, impl, model):
        bad = monitor_num({"spec": sp}, a) + monitor_num_links(sp, a)
        if bad:
            report(ctx, "num:" + vlib.sha(l)[:10], "inode numbering violates its specification: %s" % "; ".join(bad)[:300],
                   {"kind": "num", "line": l[:2000], "impl": a[:500], "model": b[:500]})
        elif a != b:
            report(ctx, "corr:num:" + vlib.sha(l)[:10], "numbering model (DFS + reorder_hard_links) and fstree_post_process disagree: %s vs %s" % (a[:100], b[:100]),
                   {"kind": "num", "line": l[:2000], "impl": a[:500], "model": b[:500]}, found_input=False)
        else:
            exact += 1
            linked += "h" in sp
    if linked == 0:
        raise vlib.CheckFailure("internal: no tree with hard links was numbered")
    return {"numbering_lines": len(lines), "numbering_equal_to_model": exact, "numbering_trees_with_hard_links": linked}


def run_harness(ctx, harness, lines, timeout=1500):
    text = "\n".join(lines) + "\n"
    r = shx([str(harness)], input=text, env=ctx.san_env(), timeout=timeout)
    out = r.stdout.splitlines()
    crash = None
    if r.returncode != 0 or len(out) != len(lines):
        crash = (len(out), r.returncode, r.stderr[-3000:])
    return out, crash


def run_batch(ctx, harness, lines):
    """(implementation answers, model answers, crash) for one batch of op lines; both streams have one answer per line"""
    t0 = time.time()
    impl, crash = run_harness(ctx, harness, lines)
    t1 = time.time()
    model = driver_lines(ctx, lines)
    if time.time() - t0 > 5:
        ctx.log("  batch of %d lines (%d bytes): real code %.1fs, model %.1fs" % (len(lines), sum(map(len, lines)), t1 - t0, time.time() - t1))
    return impl, model, crash


def pieces(ctx, harnesses):
    """harnesses: {"h_c03": path, "h_c03n": path, "h_c03f": path}"""
    t0 = time.time()
    lines, meta = gen_ops(ctx)
    for l, m in gen_dirsize_targets(ctx):
        lines.append(l); meta.append(m)
    cdir = vlib.CORPUS / "C03"
    ncorpus = 0
    if cdir.exists():
        for p in sorted(cdir.glob("*.ops")):
            for l in p.read_text().splitlines():
                if l.strip():
                    lines.insert(ncorpus, l.strip()); meta.insert(ncorpus, {"op": "corpus"}); ncorpus += 1
    # batches: one per harness, very long lines (tens of thousands of entries: ~20 s each in the list-based model) on their own
    groups = {}
    for i, (l, m) in enumerate(zip_strict(lines, meta)):
        h = HARNESS_OF.get(m["op"], "h_c03")
        if m["op"] == "corpus":
            h = HARNESS_OF.get(l.split()[0], "h_c03")
        key = (h, i) if len(l) > 400000 else (h, -1)
        groups.setdefault(key, []).append(i)
    d8_lines = ["idsrange 65536"] + ([] if ctx.quick() else ["idsrange 65537"])
    impl, model = [None] * len(lines), [None] * len(lines)
    crashes = []
    with cf.ThreadPoolExecutor(5) as ex:
        futs = {key: ex.submit(run_batch, ctx, harnesses[key[0]], [lines[i] for i in idx]) for key, idx in sorted(groups.items(), key=lambda kv: -len(lines[kv[1][0]]))}
        # D8 replay: 65536 distinct ids (slow in the list-based model, run concurrently)
        fut_d8i = ex.submit(run_harness, ctx, harnesses["h_c03"], d8_lines)
        fut_d8m = ex.submit(driver_lines, ctx, d8_lines)
        for key, fu in futs.items():
            a, b, crash = fu.result()
            idx = groups[key]
            if crash:
                crashes.append((idx[min(crash[0], len(idx) - 1)], crash))
                a = a + ["<no answer: harness stopped>"] * (len(idx) - len(a))
            for i, x, y in zip_strict(idx, a[:len(idx)], b):
                impl[i], model[i] = x, y
        d8i, d8crash = fut_d8i.result()
        d8m = fut_d8m.result()
    hist = {}
    nontrivial = set()
    disagreements = 0
    for i, (k, rc, err) in crashes:
        report(ctx, "crash:pieces:" + vlib.sha(lines[i])[:10],
               "real writer code aborted (rc=%d) on an ops line: %s" % (rc, err[-400:]),
               {"kind": "ops", "line": lines[i], "stderr": err})
    if crashes:
        return {"evaluations": len(lines)}
    for i, (l, m) in enumerate(zip_strict(lines, meta)):
        op = m["op"]
        hist[op] = hist.get(op, 0) + 1
        a, b = impl[i], model[i]
        if op == "dirw":
            bad, toolong = monitor_dirw(m, a)
            if a.startswith("ok ") and len(a) > 40:
                nontrivial.add(vlib.sha(l)[:12])
            if toolong:
                # the witness model (unrepaired add_entry) must predict exactly this answer
                old = driver_lines(ctx, [l.replace("dirw ", "dirwold ", 1)])[0]
                what = "sqfs_dir_writer_add_entry stores a directory entry name of %s bytes (kernel limit 256; size field is 16 bit)" % m.get("longname")
                if old == a:
                    report(ctx, K_D18, what, {"kind": "ops", "line": l[:200] + "...", "impl": a[:200], "witness_model": "dirwold agrees"})
                else:
                    report(ctx, "dirw-long:" + vlib.sha(l)[:10], what + " and differs from the witness model", {"kind": "ops", "line": l})
                disagreements += 1
                continue
        else:
            bad = MONITORS[op](m, a) if op in MONITORS else []
            if a not in ("0", "-") and not a.startswith("err"):
                nontrivial.add(vlib.sha(l)[:12])
        if op == "dirw" and bad and all(x.startswith("INDEXCOUNT") for x in bad):
            old = driver_lines(ctx, [l.replace("dirw ", "dirwold ", 1)])[0]
            what = "sqfs_dir_writer_create_inode: %s (a directory with more than 65535 headers; the u16 index count wraps)" % bad[0][11:]
            if old == a:
                report(ctx, K_D25, what, {"kind": "ops", "line": "dirw with %s alternating entries (see gen_ops)" % m.get("manyhdr"), "impl": a[-120:]})
            else:
                report(ctx, "dirw-index:" + vlib.sha(l)[:10], what + " and differs from the witness model", {"kind": "ops", "line": l[:300] + "..."})
            disagreements += 1
            continue
        if bad:
            disagreements += 1
            report(ctx, "piece:%s:%s" % (op, vlib.sha(l)[:10]), "real %s violates its specification: %s" % (op, "; ".join(bad)[:300]),
                          {"kind": "ops", "line": l, "impl": a[:500], "model": b[:500], "clauses": bad})
        elif a != b:
            disagreements += 1
            report(ctx, "corr:%s:%s" % (op, vlib.sha(l)[:10]),
                          "correspondence broke for %s (impl=%s model=%s) but no specification clause fails" % (op, a[:120], b[:120]),
                          {"kind": "ops", "line": l, "impl": a[:2000], "model": b[:2000]}, found_input=False)
    # D8
    if d8crash:
        report(ctx, "crash:ids65536", "real id table code aborted: %s" % d8crash[2][-300:], {"kind": "ops", "line": d8_lines[0]})
    else:
        for l, a, b in zip_strict(d8_lines, d8i, d8m):
            bad = monitor_idsrange({"n": int(l.split()[1])}, a)
            # the witness model (unrepaired limit) is only consulted when something is off: it costs a minute
            o = driver_lines(ctx, [l.replace("idsrange", "idsrangeold")])[0] if bad or a != b else None
            if bad and a == o:
                report(ctx, K_D8, "sqfs_id_table accepts 65536 distinct ids; the u16 id_count written to the superblock wraps (%s)" % a,
                              {"kind": "ops", "line": l, "impl": a, "witness_model": o, "repaired_model": b})
            elif bad:
                report(ctx, "ids:" + l, "id table: %s (impl=%s)" % (bad, a), {"kind": "ops", "line": l, "impl": a, "model": b})
            elif a != b and a == o:
                # the limit of the unrepaired code (0x10000 instead of 0xFFFF) seen from the other side: same defect
                report(ctx, K_D8, "sqfs_id_table refuses only the 65537th distinct id (%s); the u16 id_count can announce 65535" % a,
                       {"kind": "ops", "line": l, "impl": a, "witness_model": o, "repaired_model": b})
            elif a != b:
                report(ctx, "corr:" + l, "correspondence broke for %s: impl=%s model=%s" % (l, a, b), {"kind": "ops", "line": l}, found_input=False)
    want_ops = {"conseq", "dirw", "dirx", "meta", "metak", "table", "blk", "ids", "idsrange", "names", "pad", "fino"}
    if not want_ops <= set(hist):
        raise vlib.CheckFailure("internal: no op line generated for %s" % sorted(want_ops - set(hist)))
    targets = sorted(m["dirsize"] for m in meta if "dirsize" in m)
    ctx.log("writer pieces: %d op lines, %.1fs" % (len(lines) + len(d8_lines), time.time() - t0))
    return {"evaluations": len(lines) + len(d8_lines), "ops_histogram": hist, "nontrivial": len(nontrivial), "disagreements": disagreements,
            "corpus_lines": ncorpus, "dir_listing_sizes_near_64k": targets,
            "samples": [{"line": lines[i][:160], "impl": impl[i][:160], "model": model[i][:160]} for i in (0, len(lines) // 3, len(lines) - 1)]}


# ----------------------------------------------------------------------------------------------------------------
# (2) codec contract probe

def codec_probe(ctx, harness):
    rng = ctx.rng
    lines, meta = [], []
    sizes = [1, 2, 3, 4, 5, 8, 12, 13, 14, 16, 31, 64, 100, 255, 256, 1000, 4096, 8191, 8192]
    if not ctx.quick():
        sizes += [6, 7, 9, 10, 11, 15, 17, 100, 500, 65536, 131072]
    kinds = ["random", "zeros", "text", "low"]
    for backend in ("gzip", "xz", "lz4", "lz4hc", "zstd"):
        for n in sizes:
            for kind in kinds:
                if kind == "random":
                    d = rng.randbytes(n)
                elif kind == "zeros":
                    d = b"\0" * n
                elif kind == "text":
                    d = (b"the quick brown fox jumps over the lazy dog " * (n // 40 + 1))[:n]
                else:
                    d = bytes(rng.choice(b"ab") for _ in range(n))
                for outsize in ({8192, max(n, 1), 131072} if n <= 8192 else {131072, n}):
                    if outsize < n and outsize != 8192:
                        continue
                    lines.append("codec %s %d %s" % (backend, outsize, hx(d)))
                    meta.append((backend, n, kind, outsize, d))
    out, crash = run_harness(ctx, harness, lines)
    if crash:
        k, rc, err = crash
        report(ctx, "crash:codec:" + vlib.sha(lines[min(k, len(lines) - 1)])[:10], "compressor backend aborted (rc=%d): %s" % (rc, err[-300:]),
                      {"kind": "ops", "line": lines[min(k, len(lines) - 1)][:300]})
        return {"codec_probes": len(out)}
    hist = {}
    short_lz4 = []
    for l, (backend, n, kind, outsize, d), a in zip_strict(lines, meta, out):
        kv = dict(x.split("=", 1) for x in a.split() if "=" in x)
        ret = int(kv.get("ret", "-1000"))
        cls = "zero" if ret == 0 else "smaller" if 0 < ret < n else "not-smaller" if ret >= n else "error"
        hist["%s:%s" % (backend, cls)] = hist.get("%s:%s" % (backend, cls), 0) + 1
        if ret > 0 and kv.get("roundtrip") != "ok":
            report(ctx, "codec-roundtrip:%s:%d" % (backend, n), "%s do_block output does not unpack to its input (size %d, %s)" % (backend, n, kind),
                          {"kind": "ops", "line": l[:400]})
        if cls == "error":
            report(ctx, "codec-error:%s:%d" % (backend, n), "%s do_block failed with %d on %d bytes" % (backend, ret, n), {"kind": "ops", "line": l[:400]})
        if cls == "not-smaller":
            what = "%s do_block returns %d for %d input bytes (contract: 0 when the result is not smaller); e.g. %d %s bytes" % (
                "lz4" if backend.startswith("lz4") else backend, ret, n, n, kind)
            if backend.startswith("lz4"):
                if n < 13:
                    short_lz4.append((l, a, d))
                report(ctx, K_D11, "comp/lz4.c lz4_comp_block returns LZ4's size even when it is not smaller than the input "
                              "(blocks are then stored larger than their data and flagged compressed)",
                              {"kind": "ops", "line": l[:400], "impl": a})
            else:
                report(ctx, "codec-contract:%s:%d:%s" % (backend, n, kind), what, {"kind": "ops", "line": l[:400], "impl": a})
    # the witness model of the unrepaired wrapper predicts the short cases byte for byte
    if short_lz4:
        pred = driver_lines(ctx, ["lz4short " + hx(d) for _, _, d in short_lz4])
        for (l, a, d), p in zip_strict(short_lz4, pred):
            kv = dict(x.split("=", 1) for x in a.split() if "=" in x)
            if p != "ret=%s out=%s" % (kv.get("ret"), kv.get("out")):
                report(ctx, "witness-lz4:" + vlib.sha(l)[:10], "witness model lz4Short does not predict the real wrapper: %s vs %s" % (p, a),
                              {"kind": "ops", "line": l}, found_input=False)
    return {"codec_probes": len(lines), "codec_histogram": hist}


# ----------------------------------------------------------------------------------------------------------------
# (3) images

def makedev(ma, mi):
    return ((ma & 0xfff) << 8) | (mi & 0xff) | ((mi & ~0xff) << 12)


class Tree:
    def __init__(self):
        self.nodes = {}          # path -> dict
        self.files = {}          # source name -> bytes
        self.links = []          # (link path, target path): hard links, also to fifos / sockets / symlinks / device nodes

    def ensure_parents(self, path):
        parts = path.strip("/").split("/")
        for i in range(1, len(parts)):
            p = "/" + "/".join(parts[:i])
            self.nodes.setdefault(p, {"type": "dir", "mode": 0o755, "uid": 0, "gid": 0, "implicit": True})

    def add(self, path, **kw):
        self.ensure_parents(path)
        self.nodes[path] = kw

    def add_file(self, path, data, mode=0o644, uid=0, gid=0, xattrs=None):
        key = "f%d" % len(self.files)
        for k, v in self.files.items():
            if v == data and len(data) < 64:
                key = k
        self.files[key] = data
        self.add(path, type="file", mode=mode, uid=uid, gid=gid, src=key, size=len(data), xattrs=xattrs or [])


def build_tree(rng, shape, bs):
    t = Tree()
    ids = lambda: rng.choice([0, 0, 1, 1000, 65534, 65535, 65536, 0xFFFFFFFE])
    # extended symlink / device / fifo / socket inodes exist only with an xattr: give some of them one
    oxattr = lambda: [("user.t", rng.choice([b"1", b"tagged-node"]))] if rng.random() < 0.4 else []
    if shape["kind"] == "mixed":
        n = shape.get("n", 40)
        sizes = [0, 1, 100, bs - 1, bs, bs + 1, 2 * bs + 7, 3 * bs]
        for i in range(n):
            d = rng.choice(["", "/a", "/a/b", "/c", "/d/e/f"])
            nm = "%s/%s%d" % (d, rng.choice(["f", "file_", "x", "data-"]), i)
            r = rng.random()
            if r < 0.55:
                sz = rng.choice(sizes)
                kind = rng.choice(["rand", "zero", "text", "dup", "halfzero"])
                if kind == "rand":
                    data = rng.randbytes(sz)
                elif kind == "zero":
                    data = b"\0" * sz
                elif kind == "text":
                    data = (b"squashfs " * (sz // 9 + 1))[:sz]
                elif kind == "dup":
                    data = (b"D" * 13 + b"\n") * (sz // 14) + b"D" * (sz % 14)
                else:
                    data = rng.randbytes(sz // 2) + b"\0" * (sz - sz // 2)
                xs = []
                if rng.random() < 0.25:
                    xs = [("user.k%d" % rng.randrange(3), rng.choice([b"v", b"shared-value-123456", rng.randbytes(20)]))]
                    if rng.random() < 0.4:
                        xs.append(("security.selinux", b"system_u:object_r:thing_t:s0"))
                t.add_file(nm, data, mode=rng.choice([0o644, 0o600, 0o755, 0o4755]), uid=ids(), gid=ids(), xattrs=xs)
            elif r < 0.65:
                t.add(nm, type="slink", mode=0o777, uid=ids(), gid=ids(), target=rng.choice(["/x", "../y", "t" * rng.choice([1, 100, 300])]),
                      xattrs=oxattr())
            elif r < 0.75:
                ma, mi = rng.randrange(0, 4096), rng.choice([0, 1, 255, 256, 70000])
                t.add(nm, type=rng.choice(["cdev", "bdev"]), mode=0o600, uid=ids(), gid=ids(), major=ma, minor=mi, xattrs=oxattr())
            elif r < 0.85:
                t.add(nm, type=rng.choice(["fifo", "sock"]), mode=0o644, uid=ids(), gid=ids(), xattrs=oxattr())
            else:
                t.add(nm + "_dir", type="dir", mode=rng.choice([0o755, 0o700, 0o1777]), uid=ids(), gid=ids(),
                      xattrs=[("user.dirattr", b"1")] if rng.random() < 0.3 else [])
        # hard links to inodes of every kind but directories (pack file `link` lines since /repo 99d70b1, tar LNKTYPE): the
        # link count of a fifo / socket / symlink / device inode then exceeds 1 (extended inode), two paths share one inode
        cand = {}
        for p in sorted(t.nodes):
            ty = t.nodes[p]["type"]
            if ty != "dir":
                cand.setdefault({"cdev": "dev", "bdev": "dev"}.get(ty, ty), []).append(p)
        k = 0
        for ty in ("fifo", "slink", "dev", "sock", "file"):
            for tp in rng.sample(cand.get(ty, []), min(len(cand.get(ty, [])), 2 if ty != "file" else 1)):
                for _ in range(rng.choice([1, 1, 2])):
                    lp = ["/hl_%d", "/zz_links/l%d", "/a/a_early/l%d", "/d/e/f/l%d"][k % 4] % k
                    k += 1
                    t.ensure_parents(lp)
                    t.links.append((lp, tp))
    elif shape["kind"] == "bigdir":
        n, nl = shape["n"], shape.get("namelen", 8)
        for i in range(n):
            nm = "/big/%0*d" % (nl, i)
            if shape.get("empty"):
                t.add(nm, type="fifo", mode=0o644, uid=0, gid=0)
            else:
                t.add_file(nm, b"x" * (i % 3), uid=i % 5)
        t.add("/big", type="dir", mode=0o755, uid=0, gid=0, xattrs=[("user.a", b"b")] if shape.get("xattr") else [])
        t.add_file("/z", b"tail")
    elif shape["kind"] == "ids":
        n = shape["n"]
        for i in range(n):
            t.add("/ids/p%d" % i, type="fifo", mode=0o644, uid=i + shape.get("base", 0), gid=shape.get("base", 0))
    elif shape["kind"] == "xattrs":
        n = shape["n"]
        for i in range(n):
            t.add("/x/f%d" % i, type="fifo", mode=0o644, uid=0, gid=0,
                  xattrs=[("user.n", str(i).encode()), ("user.shared", b"0123456789abcdef" if i % 2 else b"short")])
    elif shape["kind"] == "periodic":
        # runs of identical non-zero full blocks: file `a` (M blocks) directly followed by file `b` (N blocks) of the same
        # byte; block deduplication then matches b against a run that starts in a's blocks and runs into b's own fresh ones
        # (M < N), is exactly a (M = N) or a prefix of it (M > N).  Files are packed in name order.
        blk = bytes([shape.get("byte", 0x41)]) * bs
        tail = b"A" * 100 if shape.get("tail") else b""
        t.add_file("/p/a", blk * shape["m"] + (tail if shape.get("tail") == "both" else b""))
        t.add_file("/p/b", blk * shape["n"] + tail)
        if shape.get("third"):
            t.add_file("/p/b2", blk * shape["third"])
        if shape.get("follow"):
            t.add_file("/p/c", rng.randbytes(bs + bs // 2))
            t.add_file("/p/d", blk * 2 + b"zz")
    elif shape["kind"] == "manyfrags":
        # > 512 fragment blocks: the fragment table (16 bytes per entry) needs more than one metadata block
        for i in range(shape["n"]):
            t.add_file("/fr/t%04d" % i, rng.randbytes(bs // 2 + 1 + i % 7))
    elif shape["kind"] == "small-random":
        # D11 shape: short incompressible files, tail packing off and on
        for i, sz in enumerate([100, 1, 12, 13, 4095, bs + 100]):
            t.add_file("/r%d" % i, rng.randbytes(sz))
    return t


def write_inputs(t, d):
    d.mkdir(parents=True, exist_ok=True)
    for k, v in t.files.items():
        (d / k).write_bytes(v)
    lines, xl = [], []
    for p in sorted(t.nodes):
        n = t.nodes[p]
        if n.get("implicit"):
            continue
        ty = n["type"]
        head = "%s %04o %d %d" % (p, n["mode"], n["uid"], n["gid"])
        if ty == "dir":
            lines.append("dir " + head)
        elif ty == "file":
            lines.append("file %s %s" % (head, n["src"]))
        elif ty == "slink":
            lines.append("slink %s %s" % (head, n["target"]))
        elif ty in ("cdev", "bdev"):
            lines.append("nod %s %s %d %d" % (head, ty[0], n["major"], n["minor"]))
        elif ty == "fifo":
            lines.append("pipe " + head)
        elif ty == "sock":
            lines.append("sock " + head)
        if n.get("xattrs"):
            xl.append("# file: " + p.lstrip("/"))
            for k, v in n["xattrs"]:
                xl.append("%s=0x%s" % (k, v.hex()))
            xl.append("")
    for lp, tp in t.links:
        lines.append("link %s 0 0 0 %s" % (lp, tp))
    (d / "pack.txt").write_text("\n".join(lines) + "\n")
    (d / "xattr.txt").write_text("\n".join(xl) + "\n")
    return bool(xl)


def write_tar(t, path):
    with tarfile.open(path, "w", format=tarfile.PAX_FORMAT) as tf:
        for p in sorted(t.nodes):
            n = t.nodes[p]
            ti = tarfile.TarInfo(p.lstrip("/"))
            ti.mode, ti.uid, ti.gid, ti.mtime = n["mode"], n["uid"], n["gid"], 0
            ty = n["type"]
            data = None
            if ty == "dir":
                ti.type = tarfile.DIRTYPE
            elif ty == "file":
                data = t.files[n["src"]]
                ti.size = len(data)
            elif ty == "slink":
                ti.type, ti.linkname = tarfile.SYMTYPE, n["target"]
            elif ty in ("cdev", "bdev"):
                ti.type = tarfile.CHRTYPE if ty == "cdev" else tarfile.BLKTYPE
                ti.devmajor, ti.devminor = n["major"], n["minor"]
            elif ty == "fifo":
                ti.type = tarfile.FIFOTYPE
            else:
                continue      # tar has no sockets
            if n.get("xattrs"):
                ti.pax_headers = {"SCHILY.xattr." + k: v.decode("latin-1") for k, v in n["xattrs"] if all(32 <= c < 127 for c in v)}
            tf.addfile(ti, io.BytesIO(data) if data is not None else None)
        # hard links (tar is the only way to get them into an image on the unrepaired tree; pack files: D10)
        files = [p for p in sorted(t.nodes) if t.nodes[p]["type"] == "file"]
        links = {}
        # every third link sits in a directory that is numbered *before* its target's directory (reorder_hard_links must move
        # the target in front of it), the others in directories numbered after their targets
        for k, p in enumerate(files[:4] + files[-4:] if len(files) >= 8 else files[:6]):
            ti = tarfile.TarInfo(["a_hardlink_%d" % k, "zz_hardlinks/l%d" % k, "a/a/early/l%d" % k][k % 3])
            ti.type, ti.linkname, ti.mtime = tarfile.LNKTYPE, p.lstrip("/"), 0
            tf.addfile(ti)
            links[p] = links.get(p, 0) + 1
        for lp, tp in t.links:                      # hard links to fifos / symlinks / device nodes / files (tar has no sockets)
            if t.nodes[tp]["type"] == "sock":
                continue
            ti = tarfile.TarInfo(lp.lstrip("/"))
            ti.type, ti.linkname, ti.mtime = tarfile.LNKTYPE, tp.lstrip("/"), 0
            tf.addfile(ti)
    return links


def describe(ctx, unz, img, devblk=4096, want_parse=True, payload=False):
    """image -> (validate lines, parse lines[, {(offset, stored size): unpacked bytes} of every data/fragment block])
    Every helper's exit status and answer count is checked: a block request without an answer is an error of the
    check, never a silently skipped rule."""
    r = shx([str(unz), str(img)], timeout=300)
    if r.returncode != 0:
        return (["viol desc-unz unz failed: " + r.stderr[-200:]], []) + (({},) if payload else ())
    desc = r.stdout
    if not desc.rstrip().endswith("end"):
        raise vlib.CheckFailure("unz: description of %s is incomplete (no `end` line)" % img)
    reqs = ctx.driver(["c03", "blockreq"] + (["all"] if payload else []), desc)
    rq = Path(str(img) + ".req")
    rq.write_text("\n".join(reqs) + "\n")
    r2 = shx([str(unz), "-b", str(rq)] + (["-P"] if payload else []) + [str(img)], timeout=300)
    rq.unlink()
    if r2.returncode != 0:
        raise vlib.CheckFailure("unz -b failed (%d) on %s: %s" % (r2.returncode, img, r2.stderr[-300:]))
    answers = [l for l in r2.stdout.splitlines() if l.startswith("d ")]
    if len(answers) != len([q for q in reqs if q.startswith("blk ")]):
        raise vlib.CheckFailure("unz -b answered %d of %d block requests for %s" % (len(answers), len(reqs), img))
    blocks = {}
    if payload:
        for l in answers:
            f = l.split(" ")
            if f[4] == "ok" and len(f) >= 8:
                blocks[(int(f[1]), int(f[2]))] = bytes.fromhex(f[7]) if f[7] != "-" else b""
        keep = "\n".join(" ".join(l.split(" ")[:7]) if l.startswith("d ") else l for l in r2.stdout.splitlines()) + "\n"
    else:
        keep = r2.stdout
    full = desc + keep
    val = ctx.driver(["c03", "validate", str(devblk)], full)
    if not any(v.startswith("summary ") for v in val):
        raise vlib.CheckFailure("validator printed no summary line for %s" % img)
    summ = dict(kv.split("=") for kv in next(v for v in val if v.startswith("summary ")).split()[1:])
    if int(summ.get("data_unverified", "1")) != 0:
        raise vlib.CheckFailure("validator left %s compressed data blocks unverified although every block was requested (%s)" % (summ.get("data_unverified"), img))
    par = ctx.driver(["c03", "parse"], desc) if want_parse else []
    # tie of the `finish` layout model: predicted table starts / bytes_used / file size vs the real superblock
    line, actual = layout_line(desc, devblk)
    if line:
        pred = driver_lines(ctx, [line])[0]
        if pred != actual:
            val = val + ["layout-model %s => model %s, image %s" % (line, pred, actual)]
    else:
        val = val + ["viol desc-super no superblock in the description"]
    # the raw superblock and the compressor options block, for copt_problems (fields vs format.adoc and the command line)
    dl = desc.splitlines()
    val = val + ["info-super " + next((l.split(" ")[1] for l in dl if l.startswith("super ")), "-"),
                 "info-copt " + next((l[len("m copt "):] for l in dl if l.startswith("m copt ")), "none")]
    return (val, par, blocks) if payload else (val, par)


COMP_ID = {"gzip": 1, "lzma": 2, "lzo": 3, "xz": 4, "lz4": 5, "zstd": 6}
GZIP_STRATEGY = {"default": 1, "filtered": 2, "huffman": 4, "rle": 8, "fixed": 16}
XZ_FILTER = {"x86": 1, "powerpc": 2, "ia64": 4, "arm": 8, "armthumb": 16, "sparc": 32}


def parse_size_opt(v, ref):
    """lib/common/src/parse_size.c: bytes, K/M suffix, or a percentage of the block size"""
    if v[-1] in "kK":
        return int(v[:-1]) * 1024
    if v[-1] in "mM":
        return int(v[:-1]) << 20
    if v[-1] == "%":
        return int(v[:-1]) * ref // 100
    return int(v)


def expected_copt(comp, bs, xopts):
    """The options block the command line asks for, from format.adoc "Compression Options" + the tools' -X syntax
    (gensquashfs(1) / `-X help`): None = no block and flag 0x0400 clear (every option at its default), else the payload.
    gzip: u32 level, u16 window, u16 strategies; xz: u32 dictionary size, u32 filters (level/lc/lp/pb/extreme are not
    conveyed; `extreme` alone still makes the writer emit the block); lz4: u32 version 1, u32 flags (always present);
    zstd: u32 level."""
    kv, names = {}, []
    for tok in (xopts.split(",") if xopts else []):
        if "=" in tok:
            k, v = tok.split("=", 1)
            kv[k] = v
        elif tok:
            names.append(tok)
    if comp == "gzip":
        level, window = int(kv.get("level", 9)), int(kv.get("window", 15))
        strat = 0
        for n in names:
            strat |= GZIP_STRATEGY[n]
        return None if (level, window, strat) == (9, 15, 0) else struct.pack("<IHH", level, window, strat)
    if comp == "xz":
        # default: the block size, but never below SQFS_XZ_MIN_DICT_SIZE = 8 KiB (sqfs_compressor_config_init), so a 4 KiB
        # image carries an options block with dictionary size 8192 even without -X
        dict_size = parse_size_opt(kv["dictsize"], bs) if "dictsize" in kv else max(bs, 8192)
        filt = 0
        for n in names:
            filt |= XZ_FILTER.get(n, 0)
        return None if (dict_size == bs and not names) else struct.pack("<II", dict_size, filt)
    if comp == "lz4":
        return struct.pack("<II", 1, 1 if "hc" in names else 0)
    if comp == "zstd":
        level = int(kv.get("level", 15))
        return None if level == 15 else struct.pack("<I", level)
    return None


def copt_range_problems(comp_id, pl):
    """format.adoc "Compression Options": payload size and field ranges per compressor, whatever the command line was"""
    bad = []
    size = {1: 8, 4: 8, 5: 8, 6: 4, 3: 8}.get(comp_id)
    if size is None:
        return ["compressor id %d has no options block" % comp_id]
    if len(pl) != size:
        return ["options payload of %d bytes, the format has %d for compressor %d" % (len(pl), size, comp_id)]
    if comp_id == 1:
        level, window, strat = struct.unpack("<IHH", pl)
        if not 1 <= level <= 9:
            bad.append("gzip compression level %d not in 1..9" % level)
        if not 8 <= window <= 15:
            bad.append("gzip window size %d not in 8..15" % window)
        if strat & ~0x1F:
            bad.append("gzip strategies 0x%x has bits outside 0x001F" % strat)
    elif comp_id == 4:
        dict_size, filt = struct.unpack("<II", pl)
        x = dict_size & (dict_size - 1)
        if dict_size < 8192 or not (x == 0 or dict_size == (x | (x >> 1))):
            bad.append("xz dictionary size %d is not >= 8 KiB and a power of two or the sum of two consecutive powers of two" % dict_size)
        if filt & ~0x3F:
            bad.append("xz filters 0x%x has bits outside 0x003F" % filt)
    elif comp_id == 5:
        version, flags = struct.unpack("<II", pl)
        if version != 1:
            bad.append("lz4 version %d, must be 1" % version)
        if flags & ~1:
            bad.append("lz4 flags 0x%x has bits other than 0x0001" % flags)
    elif comp_id == 6:
        level, = struct.unpack("<I", pl)
        if not 1 <= level <= 22:
            bad.append("zstd compression level %d not in 1..22" % level)
    return bad


def copt_problems(d, val):
    """`viol copt-…` lines: the compressor options block of the image vs format.adoc and vs the job's command line"""
    sup = next((v.split(" ", 1)[1] for v in val if v.startswith("info-super ")), "-")
    co = next((v.split(" ", 1)[1] for v in val if v.startswith("info-copt ")), None)
    if sup == "-" or co is None or len(sup) < 192:
        return ["viol copt-desc no superblock / options line in the description"]
    sb = bytes.fromhex(sup)
    comp_id, flags = struct.unpack_from("<H", sb, 20)[0], struct.unpack_from("<H", sb, 24)[0]
    out = []
    xo = d["opts"][d["opts"].index("-X") + 1] if "-X" in d["opts"] else ""
    want = expected_copt(d["comp"], d["bs"], xo)
    if comp_id != COMP_ID[d["comp"]]:
        out.append("viol copt-compressor super block names compressor %d, the command line %s" % (comp_id, d["comp"]))
    have = bool(flags & 0x0400)
    if have != (want is not None):
        out.append("viol copt-presence `-c %s -X '%s'`: options block %s, expected %s" % (
            d["comp"], xo, "present" if have else "absent", "absent (all defaults)" if want is None else want.hex()))
    if have:
        f = co.split(" ")               # <off> <len> <u|c> <status> <hex>
        if co == "none" or len(f) < 5 or f[3] != "ok":
            out.append("viol copt-block flag 0x0400 set but no readable metadata block at 96: %s" % co[:80])
        else:
            pl = bytes.fromhex(f[4]) if f[4] != "-" else b""
            if f[0] != "96" or f[2] != "u":
                out.append("viol copt-block options block at %s stored %s (must follow the super block, uncompressed)" % (f[0], f[2]))
            for b in copt_range_problems(comp_id, pl):
                out.append("viol copt-range " + b)
            if want is not None and pl != want:
                out.append("viol copt-fields `-c %s -b %d -X '%s'`: options payload %s, expected %s" % (d["comp"], d["bs"], xo, pl.hex(), want.hex()))
    return out


def layout_line(desc, devblk):
    """inputs of the `finish` model read off a description: bytes appended by every step of sqfs_writer_finish"""
    sup, size, xh = None, 0, None
    byt, cnt, locs = {}, {}, {}
    for l in desc.splitlines():
        f = l.split(" ")
        if f[0] == "super":
            sup = bytes.fromhex(f[1])
        elif f[0] == "size":
            size = int(f[1])
        elif f[0] == "m":
            byt[f[1]] = byt.get(f[1], 0) + int(f[3]) + 2
            cnt[f[1]] = cnt.get(f[1], 0) + 1
        elif f[0] == "locs":
            locs[f[1]] = int(f[3])
        elif f[0] == "xhdr":
            xh = f
    if sup is None or len(sup) < 96:
        return None, None
    (idt, xat, ino, dirt, frag, exp) = struct.unpack_from("<6Q", sup, 48)
    bytes_used = struct.unpack_from("<Q", sup, 40)[0]
    NOT = 0xFFFFFFFFFFFFFFFF
    tbl = lambda n: "-" if n is None else "%d,%d" % (byt.get(n, 0), locs.get(n, 0))
    line = "finish %d %d %d %s %s %s %s %d" % (ino, byt.get("inode", 0), byt.get("dir", 0), tbl("frag" if frag != NOT else None),
                                             tbl("export" if exp != NOT else None), tbl("id"),
                                             "-" if xat == NOT else "%d,%d,%d" % (byt.get("xattrkv", 0), byt.get("xattr", 0), locs.get("xattr", 0)), devblk)
    actual = "%d %d %d %d %d %d %d %d" % (ino, dirt, frag, exp, idt, xat, bytes_used, size)
    return line, actual


def file_content(o, frags, bs, blocks):
    """bytes of a regular file reassembled from the independent parser's inode description and the unpacked blocks;
    raises ValueError when a block the inode names was not on disk where the inode says"""
    out = bytearray()
    loc = o["start"]
    for w in o["blocks"]:
        want = min(bs, o["size"] - len(out))
        if w == 0:
            out += b"\0" * want
            continue
        sz = w & 0xFFFFFF
        d = blocks.get((loc, sz))
        if d is None:
            raise ValueError("block at %d (+%d) could not be read back" % (loc, sz))
        if len(d) != want:
            raise ValueError("block at %d unpacks to %d bytes, the file needs %d there" % (loc, len(d), want))
        out += d
        loc += sz
    if len(out) < o["size"]:
        fi, fo = o["frag"]
        if fi == 0xFFFFFFFF or fi >= len(frags):
            raise ValueError("%d bytes not covered by blocks and no fragment" % (o["size"] - len(out)))
        fs, fw = frags[fi]
        d = blocks.get((fs, fw & 0xFFFFFF))
        if d is None:
            raise ValueError("fragment block %d could not be read back" % fi)
        tail = d[fo:fo + o["size"] - len(out)]
        if len(tail) != o["size"] - len(out):
            raise ValueError("tail [%d,+%d) not inside fragment block %d (%d bytes)" % (fo, o["size"] - len(out), fi, len(d)))
        out += tail
    return bytes(out)


def compare_tree(t, parse_lines, via_tar=False, blocks=None, extra_links=None):
    """generated tree vs the independent parser's output (attributes, link counts, xattrs and — given the unpacked
    data blocks — every file's content)"""
    bad = []
    got = {}
    frags, bs = [], 0
    for l in parse_lines:
        try:
            o = json.loads(l)
        except ValueError:
            bad.append("unparsable parser line: " + l[:100]); continue
        if "problem" in o or "error" in o:
            bad.append("parser reports: " + l[:200])
        if "path" in o:
            got[o["path"].encode("latin-1").decode("latin-1")] = o
        if "fragments" in o:
            frags = o["fragments"]
        if "super" in o:
            bs = o["super"]["block_size"]
    want = dict(t.nodes)
    want.setdefault("/", {"type": "dir", "mode": 0o755, "uid": 0, "gid": 0})
    nlinks = dict(extra_links or {})
    for lp, tp in getattr(t, "links", []):
        if via_tar and t.nodes[tp]["type"] == "sock":
            continue
        want[lp] = dict(t.nodes[tp], link_of=tp)       # a second name of the same inode: same type, attributes, xattrs
        nlinks[tp] = nlinks.get(tp, 0) + 1
    tmap = {"dir": "dir", "file": "file", "slink": "slink", "cdev": "cdev", "bdev": "bdev", "fifo": "fifo", "sock": "sock"}
    nchk = 0
    for p, n in want.items():
        if via_tar and n["type"] == "sock":
            continue
        o = got.get(p)
        if o is None:
            bad.append("missing in image: " + p); continue
        if o["type"] != tmap[n["type"]]:
            bad.append("%s: type %s, expected %s" % (p, o["type"], n["type"]))
            continue
        if p != "/" and not n.get("mode_any") and (o["mode"] != n["mode"] or o["uid"] != n["uid"] or o["gid"] != n["gid"]):
            bad.append("%s: mode/uid/gid %o/%s/%s, expected %o/%d/%d" % (p, o["mode"], o["uid"], o["gid"], n["mode"], n["uid"], n["gid"]))
        if n["type"] == "file" and o["size"] != n["size"]:
            bad.append("%s: size %d, expected %d" % (p, o["size"], n["size"]))
        elif n["type"] == "file" and blocks is not None:
            try:
                if file_content(o, frags, bs, blocks) != t.files[n["src"]]:
                    bad.append("%s: content read back from the image differs from the packed file" % p)
                nchk += 1
            except ValueError as e:
                bad.append("%s: %s" % (p, e))
        if n["type"] == "slink" and o["target"] != n["target"]:
            bad.append("%s: target differs" % p)
        if n["type"] in ("cdev", "bdev") and o["dev"] != makedev(n["major"], n["minor"]):
            bad.append("%s: dev %d, expected %d" % (p, o["dev"], makedev(n["major"], n["minor"])))
        if n["type"] != "dir":
            links = 1 + nlinks.get(n.get("link_of", p), 0)
            if o["nlink"] != links:
                bad.append("%s: link count %d, expected %d" % (p, o["nlink"], links))
            tgt = got.get(n.get("link_of"))
            if tgt is not None and o.get("ino") != tgt.get("ino"):
                bad.append("%s: a hard link to %s has inode number %s, its target %s" % (p, n["link_of"], o.get("ino"), tgt.get("ino")))
        if not via_tar:
            wx = sorted((k, v.hex()) for k, v in n.get("xattrs", []))
            gx = sorted((k, v) for k, v in o["xattrs"]) if isinstance(o["xattrs"], list) else o["xattrs"]
            if wx != gx:
                bad.append("%s: xattrs %s, expected %s" % (p, gx, wx))
    # this writer's rule for directories (fstree.c mknode: every entry, of any kind, bumps the parent): exactly entries + 2
    for p, o in got.items():
        if o["type"] == "dir" and o["nlink"] != o["entries"] + 2:
            bad.append("%s: directory link count %d with %d entries" % (p, o["nlink"], o["entries"]))
    extra = [p for p in got if p not in want]
    if extra and not via_tar:
        bad.append("unexpected paths in image: %s" % extra[:5])
    if blocks is not None and nchk == 0 and any(n["type"] == "file" for n in want.values()):
        bad.append("no file content could be compared")
    return bad


def classify(ctx, job, viols, comp):
    """turn validator lines into violations / known findings"""
    n = 0
    # 65536 ids: once id_count has wrapped to 0 every later finding about that image is a consequence (the id table blocks are
    # no longer announced, so they are scanned as part of the directory table and bytes_used does not add up)
    wrapped = job.get("ids65536") and any(v.startswith("viol super-id-count") for v in viols)
    for v in viols:
        if not v.startswith("viol "):
            continue
        n += 1
        code = v.split()[1]
        replay = {"kind": "image", "job": job["desc"], "violation": v[:400]}
        if job["desc"]["shape"]["kind"] == "manyheaders" and code in ("inode-scan", "inode-count", "inode-misaligned", "inode-unreachable", "dir-index-count"):
            report(ctx, K_D25, "a directory with more than 65535 headers: exit 0 and an inode table that cannot be parsed: " + v[5:200], replay)
            continue
        if wrapped:
            report(ctx, K_D8, "65536 distinct ids: exit 0 and an image whose id_count is 0: " + v[5:200], replay)
            continue
        if comp == "lz4" and code in ("meta-not-smaller", "data-not-smaller", "frag-not-smaller", "data-larger-than-input", "frag-larger-than-input"):
            report(ctx, K_D11, "lz4 images contain blocks stored compressed that are not smaller than their data: " + v[5:200], replay)
        elif code.startswith("copt-"):          # own kind per compressor: one broken write_options must not hide another
            report(ctx, "copt-%s:%s:%s" % (comp, code, vlib.sha(json.dumps(job["desc"], sort_keys=True))[:10]),
                   "compressor options block differs from format.adoc / the command line: " + v[5:300], replay)
        elif code == "dir-name-too-long":
            report(ctx, K_D18, "image contains a directory entry name longer than 256 bytes: " + v[5:160], replay)
        else:
            report(ctx, "image:%s:%s" % (code, vlib.sha(json.dumps(job["desc"], sort_keys=True))[:10]),
                          "produced image violates an on-disk invariant: " + v[5:300], replay)
    return n


def image_jobs(ctx):
    rng = ctx.rng
    q = ctx.quick()
    jobs = []
    comps = ["gzip", "xz", "lz4", "zstd"]

    def job(shape, comp, bs, opts, tool="gensquashfs", packdir=False, **kw):
        desc = {"shape": shape, "comp": comp, "bs": bs, "opts": opts, "tool": tool, "seed": rng.randrange(1 << 30)}
        if packdir:
            desc["packdir"] = True
        jobs.append(dict(desc=desc, **kw))

    # device block sizes (-B): the tools accept anything >= 1024; powers of two and not (primes, odd multiples, 10^6)
    odd = [b for b in DEVBLKS if b & (b - 1)]
    rng.shuffle(odd)
    devs = odd + [rng.randrange(1024, 1 << 20) | 1 for _ in range(4)]
    nb = lambda: ["-B", str(devs.pop() if devs else rng.choice(DEVBLKS))]
    for comp in comps:
        job({"kind": "small-random"}, comp, 4096, nb())
        job({"kind": "small-random"}, comp, 4096, ["-T"] + (nb() if rng.random() < 0.5 else []))
        job({"kind": "mixed", "n": 40}, comp, rng.choice([4096, 8192]), rng.choice([[], ["-e"], ["-T"], ["-e", "-T", "-j", "4"]]) + (nb() if rng.random() < 0.5 else []))
        job({"kind": "mixed", "n": 25}, comp, rng.choice([4096, 16384]), ["-e"] + nb(), tool="tar2sqfs")
    for n in ([255, 256, 257] if q else [1, 2, 255, 256, 257, 258, 511, 512, 513, 1024, 3000]):
        job({"kind": "bigdir", "n": n, "namelen": rng.choice([4, 24])}, rng.choice(comps), 4096, rng.choice([[], ["-e"]]))
    # listing around 8 KiB of metadata and around 64 KiB (basic vs extended directory inode)
    for n, nl in ([(30, 250), (254, 256)] if q else [(30, 250), (31, 255), (32, 256), (247, 256), (248, 256), (249, 256), (254, 256), (251, 252), (260, 256), (700, 100)]):
        job({"kind": "bigdir", "n": n, "namelen": nl, "empty": True, "xattr": rng.random() < 0.3}, rng.choice(comps), 4096, rng.choice([[], ["-e"]]))
    job({"kind": "packdir", "n": 20}, rng.choice(comps), 4096, rng.choice([[], ["-e"]]))
    # periodic / overlapping-run shapes for the block writer's deduplication (M < N, M = N, M > N; with/without tail; with and
    # without later data; two block sizes; pack-file order and --pack-dir name order)
    k = 0
    for bs in (4096, 16384):
        for m, n in ((1, 2), (2, 3), (1, 4), (2, 2), (3, 2), (3, 5)):
            k += 1
            shp = {"kind": "periodic", "m": m, "n": n, "tail": [False, True, "both"][k % 3], "follow": k % 2 == 0, "byte": 0x41 + k}
            if k % 4 == 0:
                shp["third"] = n + 1
            job(shp, comps[k % 4] if not q else ["gzip", "zstd", "xz", "lz4"][k % 4], bs, [] if k % 5 else ["-T"], packdir=(k % 3 == 0))
    # compressor options (-X): every write_options path; the options block is decoded and compared with the command line
    # (copt_problems); the image goes through the whole validator and the content comparison like any other
    xjobs = [("gzip", 4096, "level=3,window=12,filtered,rle"), ("gzip", 8192, "huffman"), ("gzip", 4096, "level=1"),
             ("gzip", 4096, "window=9,default,fixed"), ("gzip", 4096, "level=9,window=15"),
             ("xz", 16384, "dictsize=8192"), ("xz", 32768, "dictsize=50%,x86,arm"), ("xz", 16384, "extreme"),
             ("xz", 65536, "dictsize=12K,level=3,lc=2,lp=1,pb=0,sparc"), ("xz", 8192, "level=1,lc=4,lp=0"),
             ("xz", 8192, "powerpc,ia64,armthumb"),
             ("zstd", 4096, "level=1"), ("zstd", 8192, "level=22"), ("zstd", 4096, "level=15"),
             ("lz4", 4096, "hc")]
    for k, (comp, bs, xo) in enumerate(xjobs if not q else xjobs[:4] + xjobs[5:8] + xjobs[9:10] + xjobs[11:12] + xjobs[13:]):
        job({"kind": "mixed", "n": 14} if k % 3 else {"kind": "small-random"}, comp, bs,
            ["-X", xo] + (["-T"] if k % 4 == 1 else []), tool="tar2sqfs" if k % 5 == 4 else "gensquashfs")
    job({"kind": "ids", "n": 300}, rng.choice(comps), 4096, [])
    # id table and export table of more than one metadata block (> 2048 ids, > 1024 inodes): the location lists
    job({"kind": "ids", "n": rng.choice([2049, 2100, 4100])}, rng.choice(comps), 4096, ["-e"] + nb())
    job({"kind": "xattrs", "n": 600 if q else 1100}, rng.choice(comps), 4096, [])
    job({"kind": "mixed", "n": 30}, "gzip", 131072, ["-B", "8192"])
    job({"kind": "mixed", "n": 12}, "zstd", 1048576, ["-j", "3"])
    if not q:
        for comp in comps:
            for bs in (4096, 65536, 131072):
                job({"kind": "mixed", "n": 60}, comp, bs, rng.choice([[], ["-e"], ["-T"], ["-e", "-T"], ["-j", "1"], ["-j", "6", "-Q", "3"]]))
                job({"kind": "mixed", "n": 40}, comp, bs, rng.choice([[], ["-e"], ["-T"]]), tool="tar2sqfs")
        job({"kind": "ids", "n": 65535}, "gzip", 4096, [])
        job({"kind": "manyfrags", "n": 1100}, rng.choice(comps), 4096, [])
        job({"kind": "bigfile"}, "gzip", 1048576, [])
        for b in DEVBLKS:
            job({"kind": "small-random"}, rng.choice(comps), 4096, ["-B", str(b)], tool=rng.choice(["gensquashfs", "tar2sqfs"]))
        job({"kind": "manyheaders", "n": 65540}, "gzip", 4096, [], tool="tar2sqfs")
        job({"kind": "ids", "n": 2049, "base": 70000}, "lz4", 4096, ["-e"])
        job({"kind": "bigdir", "n": 40000, "namelen": 6, "empty": True}, "zstd", 4096, ["-e"])
        # D8 at tool level: 65536 distinct ids (about 100 s under ASan: the id search is quadratic), thorough only;
        # the quick tier replays D8 through the `idsrange 65536` op on the real id table
        job({"kind": "ids", "n": 65536}, "gzip", 4096, [], ids65536=True, expect_refusal_ok=True)
    return jobs


def run_image_job(ctx, tools, unz, job, idx):
    d = job["desc"]
    t0 = time.time()
    import random
    rng = random.Random(d["seed"])
    wd = ctx.scratch / ("img%d" % idx)
    t = build_tree(rng, d["shape"], d["bs"])
    has_x = write_inputs(t, wd)
    img = wd / "out.sqfs"
    env = ctx.san_env()
    res = {"job": job, "viol": [], "tree_bad": [], "rc": None, "stderr": "", "nodes": len(t.nodes), "summary": ""}
    devblk = int(d["opts"][d["opts"].index("-B") + 1]) if "-B" in d["opts"] else 4096
    links = None
    if d["shape"]["kind"] == "bigfile":
        # a file of 4 GiB + 1 byte (a hole): the size no longer fits the basic file inode
        t = Tree()
        wd.mkdir(parents=True, exist_ok=True)
        with open(wd / "big", "wb") as f:
            f.truncate((1 << 32) + 1)
        t.add("/big", type="file", mode=0o644, uid=0, gid=0, src="big", size=(1 << 32) + 1, xattrs=[])
        (wd / "pack.txt").write_text("file /big 0644 0 0 big\n")
        r = shx([str(tools["gensquashfs"]), "-q", "-f", "-c", d["comp"], "-b", str(d["bs"]), "-F", str(wd / "pack.txt"), "-D", str(wd), str(img)],
                env=env, timeout=1500)
        (wd / "big").unlink()
    elif d["shape"]["kind"] == "manyheaders":
        # 65540 hard links alternating between two files whose inodes live in different metadata blocks: one header each
        t = None
        wd.mkdir(parents=True, exist_ok=True)
        with tarfile.open(wd / "in.tar", "w", format=tarfile.GNU_FORMAT) as tf:
            def tadd(name, typ=tarfile.REGTYPE, link="", data=b""):
                ti = tarfile.TarInfo(name); ti.type = typ; ti.linkname = link; ti.size = len(data); ti.mode = 0o644
                tf.addfile(ti, io.BytesIO(data) if data else None)
            tadd("a/f0", data=b"x")
            for i in range(600):
                tadd("m/p%04d" % i, typ=tarfile.FIFOTYPE)
            tadd("y/f1", data=b"y")
            for i in range(d["shape"]["n"]):
                tadd("z/l%06d" % i, typ=tarfile.LNKTYPE, link="a/f0" if i % 2 == 0 else "y/f1")
        with open(wd / "in.tar", "rb") as f:
            r = shx([str(tools["tar2sqfs"]), "-q", "-f", "-c", d["comp"], "-b", str(d["bs"])] + d["opts"] + [str(img)], stdin=f, env=env, timeout=1500)
    elif d["shape"]["kind"] == "packdir":
        # a real directory with hard links (dir scan + hard link detection + reorder_hard_links)
        root = wd / "root"
        (root / "a" / "b").mkdir(parents=True)
        (root / "z").mkdir()
        for i in range(d["shape"]["n"]):
            (root / "a" / ("f%03d" % i)).write_bytes(rng.randbytes(rng.choice([0, 1, 50, d["bs"] + 3])))
        for i in range(0, d["shape"]["n"], 3):
            os.link(root / "a" / ("f%03d" % i), root / ("l%03d" % i))
            os.link(root / "a" / ("f%03d" % i), root / "z" / ("m%03d" % i))
        os.symlink("a/f000", root / "a" / "b" / "sl")
        r = shx([str(tools["gensquashfs"]), "-q", "-f", "-c", d["comp"], "-b", str(d["bs"]), "-D", str(root)] + d["opts"] + [str(img)], env=env, timeout=600)
        t = None
    elif d.get("packdir"):
        root = wd / "root"
        for pth, nd in t.nodes.items():
            if nd["type"] == "file":
                (root / pth.lstrip("/")).parent.mkdir(parents=True, exist_ok=True)
                (root / pth.lstrip("/")).write_bytes(t.files[nd["src"]])
        r = shx([str(tools["gensquashfs"]), "-q", "-f", "-c", d["comp"], "-b", str(d["bs"]), "-D", str(root), "--all-root"] + d["opts"] + [str(img)], env=env, timeout=600)
        for nd in t.nodes.values():          # modes come from the scratch files: compare types, sizes only
            nd["mode_any"] = True
    elif d["tool"] == "gensquashfs":
        cmd = [str(tools["gensquashfs"]), "-q", "-f", "-c", d["comp"], "-b", str(d["bs"]), "-F", str(wd / "pack.txt"), "-D", str(wd)] + d["opts"]
        if has_x:
            cmd += ["-A", str(wd / "xattr.txt")]
        r = shx(cmd + [str(img)], env=env, timeout=600)
    else:
        links = write_tar(t, wd / "in.tar")
        with open(wd / "in.tar", "rb") as f:
            r = shx([str(tools["tar2sqfs"]), "-q", "-f", "-c", d["comp"], "-b", str(d["bs"])] + d["opts"] + [str(img)], stdin=f, env=env, timeout=600)
    res["rc"], res["stderr"] = r.returncode, r.stderr[-600:]
    res["t_pack"] = time.time() - t0
    if r.returncode == 0:
        content = t is not None and d["shape"]["kind"] != "bigfile" and not job.get("ids65536")
        if content:
            val, par, blocks = describe(ctx, unz, img, devblk, payload=True)
        else:
            (val, par), blocks = describe(ctx, unz, img, devblk), None
        cp = copt_problems(d, val)
        res["copt"] = next((v for v in val if v.startswith("info-copt ")), "")
        res["viol"] = [v for v in val if v.startswith("viol ")] + cp
        res["layout_bad"] = [v for v in val if v.startswith("layout-model ")]
        res["summary"] = next((v for v in val if v.startswith("summary")), "")
        if not job.get("ids65536") and t is not None:
            res["tree_bad"] = compare_tree(t, par, via_tar=(d["tool"] == "tar2sqfs"), blocks=blocks, extra_links=links)
            res["files_compared"] = sum(1 for n in t.nodes.values() if n["type"] == "file") if blocks is not None else 0
            seen = {}
            for l in par:
                try:
                    o = json.loads(l)
                except ValueError:
                    continue
                if o.get("type") in ("fifo", "sock", "slink", "cdev", "bdev") and o.get("nlink", 1) > 1:
                    seen[o.get("ino")] = 1
            res["hardlinked_other"] = len(seen)
        if t is None and d["shape"]["kind"] == "packdir":
            # hard links must show up as several paths sharing one inode whose link count is the number of paths
            inos = {}
            for l in par:
                o = json.loads(l)
                if o.get("type") == "file":
                    inos.setdefault(o["ino"], []).append(o["nlink"])
            if not any(len(v) == 3 and v[0] == 3 for v in inos.values()):
                res["tree_bad"] = ["no file with three hard links found in an image packed from a directory that has them"]
        if d["shape"]["kind"] in ("mixed", "bigdir"):
            res["rd_bad"] = cross_rdsquashfs(ctx, tools, img, par)
    import shutil
    shutil.rmtree(wd, ignore_errors=True)
    res["t_all"] = time.time() - t0
    return res


def cross_rdsquashfs(ctx, tools, img, par):
    """our parser vs the library's own reader (rdsquashfs -d)"""
    r = shx([str(tools["rdsquashfs"]), "-d", str(img)], env=ctx.san_env(), timeout=300)
    if r.returncode != 0:
        return ["rdsquashfs -d failed (%d): %s" % (r.returncode, r.stderr[-200:])]
    theirs = set()
    for l in r.stdout.splitlines():
        f = l.split(" ")
        if len(f) >= 5 and f[0] in ("dir", "file", "slink", "nod", "pipe", "sock") and not f[1].startswith('"') and f[1] != "/":
            theirs.add((f[0] if f[0] != "nod" else "nod", "/" + f[1], int(f[2], 8), int(f[3]), int(f[4])))
    ours = set()
    kind = {"dir": "dir", "file": "file", "slink": "slink", "cdev": "nod", "bdev": "nod", "fifo": "pipe", "sock": "sock"}
    for l in par:
        o = json.loads(l)
        if "path" in o and o["path"] != "/" and " " not in o["path"]:
            ours.add((kind[o["type"]], o["path"], o["mode"], o["uid"], o["gid"]))
    diff = sorted(ours ^ theirs)
    return ["parser and rdsquashfs -d disagree on %d entries, e.g. %s" % (len(diff), diff[:3])] if diff else []


def long_name_probe(ctx, tools, unz):
    """D18 at tool level: names of 256 (legal), 257 and 300 bytes; 65537 in the thorough tier"""
    res = []
    for ln in ([256, 257, 300] if ctx.quick() else [255, 256, 257, 300, 65536, 65537]):
        wd = ctx.scratch / ("ln%d" % ln)
        wd.mkdir()
        (wd / "pack.txt").write_text("pipe /%s 0644 0 0\npipe /b 0644 0 0\n" % ("n" * ln))
        img = wd / "o.sqfs"
        r = shx([str(tools["gensquashfs"]), "-q", "-f", "-c", "gzip", "-F", str(wd / "pack.txt"), str(img)], env=ctx.san_env(), timeout=120)
        entry = {"len": ln, "rc": r.returncode}
        if r.returncode >= 90 or r.returncode < 0:
            report(ctx, "crash:longname:%d" % ln, "gensquashfs aborted on a %d byte name: %s" % (ln, r.stderr[-300:]), {"kind": "longname", "len": ln})
        elif r.returncode == 0:
            val, par = describe(ctx, unz, img)
            viol = [v for v in val if v.startswith("viol ")]
            probs = [l for l in par if '"problem"' in l or '"error"' in l]
            entry["viol"] = len(viol) + len(probs)
            if ln > 256:
                report(ctx, K_D18, "gensquashfs packs a %d byte file name with exit 0 (%s)" % (ln, (viol + probs + ["image accepted by the validator?!"])[0][:160]),
                              {"kind": "longname", "len": ln})
            elif viol or probs:
                report(ctx, "longname:%d" % ln, "legal %d byte name yields an invalid image: %s" % (ln, (viol + probs)[0][:200]), {"kind": "longname", "len": ln})
        elif ln <= 256:
            report(ctx, "longname-refused:%d" % ln, "gensquashfs refuses a legal %d byte name: %s" % (ln, r.stderr[-200:]), {"kind": "longname", "len": ln})
        res.append(entry)
        import shutil
        shutil.rmtree(wd, ignore_errors=True)
    return res


def hostile(ctx, tools, unz):
    """self-check of the shared parser: on damaged images `unz` (ASan build) and the Lean parser/validator must terminate
    normally (they are total by construction: fuel / structural recursion / bounds-checked reads)"""
    import random, shutil
    rng = random.Random("hostile/%d" % ctx.seed)
    wd = ctx.scratch / "hostile"
    t = build_tree(rng, {"kind": "mixed", "n": 30}, 4096)
    has_x = write_inputs(t, wd)
    img = wd / "base.sqfs"
    r = shx([str(tools["gensquashfs"]), "-q", "-f", "-c", "gzip", "-b", "4096", "-e", "-F", str(wd / "pack.txt"), "-D", str(wd)]
            + (["-A", str(wd / "xattr.txt")] if has_x else []) + [str(img)], env=ctx.san_env(), timeout=300)
    if r.returncode != 0:
        return {"hostile_mutants": 0}
    unz_san = ctx.cc("unz_san", ["unz.c"], libs=["-lz", "-llzma", "-llz4", "-lzstd"])
    base = img.read_bytes()
    n = 30 if ctx.quick() else 250
    failed = 0
    for it in range(n):
        b = bytearray(base)
        for _ in range(rng.choice([1, 2, 5, 20])):
            x = rng.random()
            pos = rng.randrange(0, 96) if x < 0.5 else rng.randrange(max(0, len(b) - 6000), len(b)) if x < 0.8 else rng.randrange(len(b))
            if rng.random() < 0.3 and pos + 8 <= len(b):
                struct.pack_into("<Q", b, pos, rng.choice([0, 1, 0xFFFFFFFFFFFFFFFF, 0xFFFFFFFFFFFFFFFE, len(b), 2 ** 63, rng.randrange(2 ** 64)]))
            else:
                b[pos] = rng.randrange(256)
        if rng.random() < 0.1:
            b = b[:rng.randrange(0, len(b))]
        m = wd / "m.sqfs"
        m.write_bytes(b)
        try:
            r = shx([str(unz_san), str(m)], env=ctx.san_env(), timeout=120)
            if r.returncode != 0:
                raise RuntimeError("unz exit %d: %s" % (r.returncode, r.stderr[-200:]))
            for mode in (["validate"], ["parse"], ["blockreq"]):
                ctx.driver(["c03"] + mode, r.stdout, timeout=120)
        except Exception as e:      # noqa: the parser is shared infrastructure: any failure here is reported as such
            failed += 1
            keep = vlib.REPLAYS / ("C03-hostile-%d-%d.sqfs" % (ctx.seed, it))
            vlib.REPLAYS.mkdir(exist_ok=True)
            keep.write_bytes(b)
            report(ctx, "infra:parser-robustness:%d" % it, "the independent parser/unz did not terminate normally on a damaged image (%s); image kept at %s" % (str(e)[:200], keep),
                   {"kind": "hostile", "image": str(keep)}, found_input=False)
    shutil.rmtree(wd, ignore_errors=True)
    return {"hostile_mutants": n, "hostile_failures": failed}


def images(ctx, tools, unz):
    jobs = image_jobs(ctx)
    results = []
    with cf.ThreadPoolExecutor(6 if ctx.quick() else 10) as ex:
        futs = [ex.submit(run_image_job, ctx, tools, unz, j, i) for i, j in enumerate(jobs)]
        for f in futs:
            results.append(f.result())
    nviol, hist, refused = 0, {}, 0
    slow = sorted(results, key=lambda r: -r["t_all"])[:3]
    ctx.log("images: %d jobs, slowest: %s" % (len(results), [(r["job"]["desc"]["shape"], round(r["t_pack"], 1), round(r["t_all"], 1)) for r in slow]))
    tot = {"inodes": 0, "entries": 0, "meta_blocks": 0, "data_blocks": 0, "data_checked": 0, "data_unverified": 0, "headers": 0, "xattr_sets": 0}
    for r in results:
        job, d = r["job"], r["job"]["desc"]
        key = "%s:%s:%s" % (d["tool"], d["comp"], d["shape"]["kind"])
        hist[key] = hist.get(key, 0) + 1
        if r["rc"] is None or r["rc"] < 0 or r["rc"] >= 90:
            report(ctx, "crash:image:" + vlib.sha(json.dumps(d, sort_keys=True))[:10], "%s aborted (rc=%s): %s" % (d["tool"], r["rc"], r["stderr"][-300:]),
                          {"kind": "image", "job": d})
            continue
        if r["rc"] != 0:
            refused += 1
            if not job.get("expect_refusal_ok"):
                report(ctx, "refused:" + vlib.sha(json.dumps(d, sort_keys=True))[:10], "%s refused a representable input (rc=%d): %s" % (d["tool"], r["rc"], r["stderr"][-300:]),
                              {"kind": "image", "job": d})
            continue
        nviol += classify(ctx, job, r["viol"], d["comp"])
        for b in r.get("layout_bad", []):
            if not (job.get("ids65536") and r["viol"]):
                report(ctx, "corr:finish:" + vlib.sha(json.dumps(d, sort_keys=True))[:10],
                       "the layout model of sqfs_writer_finish does not predict the image's table starts: " + b[:300],
                       {"kind": "image", "job": d, "detail": b}, found_input=False)
        for b in r["tree_bad"][:3]:
            report(ctx, "tree:" + vlib.sha(json.dumps(d, sort_keys=True) + b)[:10], "independent parser disagrees with the packed tree: " + b[:300],
                          {"kind": "image", "job": d, "detail": b}, found_input=True)
        for b in r.get("rd_bad", []):
            report(ctx, "rdsquashfs:" + vlib.sha(json.dumps(d, sort_keys=True))[:10], b[:300], {"kind": "image", "job": d}, found_input=False)
        for kv in r["summary"].split()[1:]:
            k, v = kv.split("=")
            if k in tot:
                tot[k] += int(v)
        tot["files_compared"] = tot.get("files_compared", 0) + r.get("files_compared", 0)
    copt, hl_other = {}, 0
    for r in results:
        if r["rc"] == 0 and r.get("copt") and not r["copt"].endswith(" none") and "-X" in r["job"]["desc"]["opts"]:
            copt[r["job"]["desc"]["comp"]] = copt.get(r["job"]["desc"]["comp"], 0) + 1
        hl_other += r.get("hardlinked_other", 0)
    if not ctx.violations and (set(copt) != {"gzip", "xz", "lz4", "zstd"} or hl_other == 0):
        raise vlib.CheckFailure("internal: options blocks written for -X only with %s; %d hard-linked non-regular inodes seen" % (sorted(copt), hl_other))
    packed = len(results) - refused
    if not results or packed == 0 or tot["inodes"] == 0 or tot["data_checked"] == 0 or tot.get("files_compared", 0) == 0:
        raise vlib.CheckFailure("internal: the image part validated nothing (%d jobs, %d packed, totals %s)" % (len(results), packed, tot))
    return {"images": len(results), "images_refused": refused, "image_histogram": hist, "options_blocks_from_X": copt,
            "hardlinked_non_regular_inodes": hl_other, "validator_violation_lines": nviol, "image_totals": tot,
            "image_samples": [{"job": r["job"]["desc"], "rc": r["rc"], "summary": r["summary"], "viol": r["viol"][:2]} for r in results[:3]]}


# ----------------------------------------------------------------------------------------------------------------

def build_all(ctx):
    lib = ctx.build_lib()
    harness = ctx.cc("h_c03", ["h_c03.c", str(lib)], libs=vlib.CODEC_LIBS)
    unz = ctx.cc("unz", ["unz.c"], sanitize=False, libs=["-lz", "-llzma", "-llz4", "-lzstd"])
    tools = {t: ctx.build_tool(t) for t in ("gensquashfs", "tar2sqfs", "rdsquashfs")}
    tools["h_c03n"] = ctx.cc("h_c03n", ["h_c03n.c", str(lib)], libs=vlib.CODEC_LIBS)
    tools["h_c03f"] = ctx.cc("h_c03f", ["h_c03f.c", str(lib)], libs=vlib.CODEC_LIBS)
    tools["h_c03"] = harness
    return harness, unz, tools


def run(ctx):
    ok, problems = vlib.proof_gate(ctx, MODULE, REQUIRED)
    if not ok:
        report(ctx, "proof:C03", "proof obligations of C03 no longer check: " + " | ".join(problems)[:1500],
                      {"broken": problems, "theorems_file": "lean/Sqfs/Props/C03.lean"}, found_input=False)
    wok, wlog = ctx.lean_build(["Sqfs.Witness.C03"])
    if not wok:
        report(ctx, "proof:C03-witness", "Sqfs/Witness/C03.lean no longer builds", {"log": wlog[-1500:]}, found_input=False)
    harness, unz, tools = build_all(ctx)
    ctx.log("built library, harness, unz, tools")
    with cf.ThreadPoolExecutor(3) as ex:
        f1 = ex.submit(pieces, ctx, tools)
        f3 = ex.submit(images, ctx, tools, unz)
        c2 = codec_probe(ctx, harness)
        ctx.log("codec probe done")
        ln = long_name_probe(ctx, tools, unz)
        ctx.log("long-name probe done")
        c4 = numbering(ctx, tools["h_c03n"])
        ctx.log("numbering done")
        c4.update(hostile(ctx, tools, unz))
        ctx.log("parser robustness self-check done")
        c1, c3 = f1.result(), f3.result()
    ctx.cov.update(c1)
    ctx.cov.update(c2)
    ctx.cov.update(c3)
    ctx.cov.update(c4)
    ctx.cov["long_name_probe"] = ln
    for part, n in (("writer pieces", c1.get("evaluations", 0)), ("codec probe", c2.get("codec_probes", 0)), ("images", c3.get("images", 0)),
                    ("numbering", c4.get("numbering_lines", 0)), ("long names", len(ln)), ("parser self-check", c4.get("hostile_mutants", 0))):
        if n == 0 and not ctx.violations:
            raise vlib.CheckFailure("internal: part '%s' of the check evaluated nothing" % part)
    ctx.cov["evaluations"] = c1.get("evaluations", 0) + c2.get("codec_probes", 0) + c3.get("images", 0) + len(ln) + c4.get("numbering_lines", 0)
    ctx.cov["distinct_nontrivial"] = c1.get("nontrivial", 0) + c3.get("images", 0) - c3.get("images_refused", 0) + c4.get("numbering_equal_to_model", 0)
    ctx.cov["disagreements_checked"] = c1.get("disagreements", 0) + c3.get("validator_violation_lines", 0)
    ctx.cov["rule"] = ("writer pieces: generated entry lists (same block / block changes / inode-number jumps of +-32767..70000 / u32 wrap / long names; "
                       "lengths 1..513 around 256; start offsets around the 8 KiB boundary; listing sizes 65531..65536; 65535..65541 headers) through "
                       "the real dir writer on a never-shrinking (dirw) and on shrinking, optionally in-memory meta writers with export table (dirx); "
                       "meta writer chunk patterns around multiples of 8192 with four test codecs (never shrinks / shrinks constant runs / grows like the "
                       "unrepaired lz4 / shrinks trailing runs, invertible), with and without KEEP_IN_MEMORY; sqfs_write_table over sizes around multiples "
                       "of 8192 x data kinds x base offsets; process_block + process_completed_block over 15 flag sets (incl. FRAGMENT_BLOCK) x data; inode.c "
                       "operation sequences with values around 2^32; id sequences incl. 65535/65536 distinct ids; name sequences with repetitions, prefixes "
                       "and bytes >= 0x80 through fstree_add_generic; trees with hard links to arbitrary files through fstree_post_process; padd_sqfs over "
                       "device block sizes that are and are not powers of two — each through the real C function (ASan+UBSan) and the Lean model, answers "
                       "compared and checked by independent Python monitors; non-trivial = distinct op line with a non-error, non-empty answer. codec probe: "
                       "every backend x size class x data kind. images: generated trees (mixed inode kinds/sizes 0,1,bs-1,bs,bs+1,sparse,dup, xattrs on every "
                       "inode type; directories of 255..513 (thorough: ..40000) entries, listings around 8 KiB and 64 KiB, 300..65536 ids incl. multi-block id "
                       "and export tables, 600..1100 xattr sets, hard links that need reorder_hard_links) x {gzip,xz,lz4,zstd} x block sizes x -T/-e/-j x -B "
                       "(non powers of two in >= 9 images per run) through real gensquashfs and tar2sqfs, validated by the Lean validator and compared with the "
                       "generated tree incl. file contents; every image that packs counts as non-trivial")
    return ctx.finish(LEVEL, trusted_extra=[
        "harness/unz.c (locates regions from superblock offsets, strips the 2-byte metadata headers, calls zlib/liblzma/liblz4/libzstd); "
        "all structure is decoded in Lean from doc/format.adoc",
        "the validator Sqfs/Model/ImageValidate.lean is the executable statement of the invariants (trusted as a specification, not proved about a whole-writer model)",
        "the four test codecs of harness/h_c03.c, their Lean mirrors in Driver/C03.lean and their inverses in tools/checks/c03.py",
        "modelled, not verified directly: dir_writer.c, meta_writer.c, write_table.c, block_processor.c process_block, backend.c process_completed_block "
        "(size word), id_table.c, fstree.c (insert_sorted, child_by_name, mknode), post_process.c, inode.c (file inodes), finish.c (padd_sqfs, layout arithmetic)",
    ], assumptions=[
        "Codec.Shrinks (do_block returns 0 unless strictly smaller) is a hypothesis of meta_stored_le_unpacked and data_block_size_rule; it is probed on the "
        "real gzip/xz/lz4/zstd backends on every run, not proved (third-party libraries)",
        "link_targets_before_linking_dirs assumes hard links name existing non-directory nodes (what resolve_link enforces; not modelled here)",
        "theorems cover the writer's pieces; the composition into a whole image is covered by running the validator and the tree/content comparison on real images only",
    ])


def replay(ctx, path):
    body = json.loads(open(path).read())
    rp = body.get("replay", {})
    ctx.lean_build(["sqfsmodel"])
    harness, unz, tools = build_all(ctx)
    kind = rp.get("kind")
    if kind == "ops":
        line = rp["line"]
        if line.endswith("..."):
            print("replay line was truncated in the record; re-run the check with the recorded seed:", body.get("seed"))
            return 1
        impl, crash = run_harness(ctx, tools[HARNESS_OF.get(line.split()[0], "h_c03")], [line])
        model = driver_lines(ctx, [line])
        print("line :", line[:300])
        print("impl :", impl, "crash:", crash)
        print("model:", model)
        return 1 if crash or impl != model else 0
    if kind == "image":
        job = {"desc": rp["job"], "ids65536": rp["job"]["shape"] == {"kind": "ids", "n": 65536}}
        r = run_image_job(ctx, tools, unz, job, 0)
        print("exit:", r["rc"], r["stderr"][-300:])
        for v in r["viol"] + r["tree_bad"] + r.get("layout_bad", []):
            print(v)
        classify(ctx, job, r["viol"], rp["job"]["comp"])        # known findings do not count
        return 1 if ctx.violations or r["tree_bad"] or (r["rc"] or 0) >= 90 or (r["rc"] or 0) < 0 else 0
    if kind == "num":
        impl, crash = run_harness(ctx, tools["h_c03n"], [rp["line"]])
        model = ctx.driver(["c03", "ops"], rp["line"] + "\n")
        print("impl :", impl, "crash:", crash)
        print("model:", model)
        bad = monitor_num({"spec": rp["line"][4:]}, impl[0]) + monitor_num_links(rp["line"][4:], impl[0]) if impl else ["crash"]
        print("clauses:", bad)
        return 1 if bad or crash or impl != model else 0
    if kind == "longname":
        before = len(ctx.violations) + len(ctx.known_hits)
        print(long_name_probe(ctx, tools, unz))
        return 1 if len(ctx.violations) + len(ctx.known_hits) > before else 0
    print("replay file names a broken obligation, no input to replay:", json.dumps(rp)[:500])
    return 1
