"""
C08 — deduplication never changes data, even when checksums collide.

Proof: lean/Sqfs/Props/C08.lean (block writer: read-back / sharing soundness / sharing completeness for every
sequence of write_data_block calls and every checksum value; fragment side: every (index, offset) handed out
addresses the fragment's bytes, for every checksum function and every codec with unc∘cmp = id).

Tie (this file):
 1. `bw`  — the real block_writer.c + file_cmp.c driven call by call with generated (checksum, flags, data)
            sequences in which checksums and sizes collide by construction; locations, file size, history length
            and the final bytes are diffed with `sqfsmodel c08`; the read-back oracle is evaluated on the
            implementation's own file.
 2. `bp`  — the real block processor (frontend/backend/block_processor/hash_table + thread pool) linked with
            harness/weak_xxh.c (xxh32 truncated to 0..8 bits), toy RLE codec / gzip / none, block sizes 8..64 and
            4096: every write_data_block call it makes is logged and replayed into the block-writer model; the
            fragment decisions are diffed with the fragment model; every file is read back by the real
            sqfs_data_reader_t and, independently, by raw offsets from the inode fields in Python.
 3. tools — gensquashfs / rdsquashfs / tar2sqfs / sqfs2tar built with the weak checksum: pack → cat/unpack →
            byte compare at several -j.
"""
import json, os, subprocess, zlib
import vlib

LEVEL = "proof"
MODULE = "Sqfs.Props.C08"
REQUIRED = ["Sqfs.C08.bw_no_error", "Sqfs.C08.bw_readback", "Sqfs.C08.bw_share_sound", "Sqfs.C08.bw_share_complete"]

F_DONT_COMPRESS, F_DONT_HASH, F_DONT_FRAGMENT, F_DONT_DEDUP, F_IGNORE_SPARSE = 1, 2, 4, 8, 0x10
F_SPARSE, F_FIRST, F_LAST, F_IS_FRAGMENT, F_FRAGBLK, F_COMPRESSED = 0x400, 0x800, 0x1000, 0x2000, 0x4000, 0x8000


def tok(b):
    return bytes(b).hex() if b else "-"


def untok(t):
    return b"" if t == "-" else bytes.fromhex(t)


# ------------------------------------------------------------------------------------------------ builds
def build_harness(ctx):
    lib = ctx.build_lib("c08lib", exclude=("lib/util/src/xxhash.c",))
    return ctx.cc("h_c08", ["h_c08.c", "weak_xxh.c", str(lib)], libs=vlib.CODEC_LIBS)


def run_harness(ctx, harness, text, timeout=600):
    try:
        r = vlib.sh([str(harness)], input=text, env=ctx.san_env(), timeout=timeout)
    except subprocess.TimeoutExpired:
        return None, "timeout", ""
    return r.stdout.splitlines(), r.returncode, r.stderr[-3000:]


# ------------------------------------------------------------------------------------------------ 1. bw scripts
def gen_bw_script(rng, small=True):
    """a sequence of write_data_block calls: files (FIRST … LAST) interleaved with flag-less blocks
    (= fragment blocks); tiny alphabets for sizes, contents and checksums so that (size, checksum) collisions
    between different contents, equal files, overlapping runs (AAA after A) and partial matches are the norm"""
    nfiles = rng.randint(1, 14)
    sizes = rng.sample([1, 2, 3, 4, 5, 7, 8], rng.randint(1, 3))
    alpha = rng.sample(range(1, 256), rng.randint(1, 3))
    chkbits = rng.choice([0, 0, 1, 1, 2, 3])
    honest = rng.random() < 0.6          # checksum is a function of the data (as in the library) or arbitrary
    pool = []                            # block contents used so far (to repeat)
    big = (not small) and rng.random() < 0.15

    def block():
        if pool and rng.random() < 0.55:
            return rng.choice(pool)
        n = rng.choice(sizes)
        if big and rng.random() < 0.3:
            n = rng.choice([4095, 4096, 4097, 8192, 8193, 9000])
            b = bytes([rng.choice(alpha)]) * (n - 1) + bytes([rng.choice(alpha)])
        else:
            b = bytes(rng.choice(alpha) for _ in range(n))
        pool.append(b)
        return b

    def chk(b):
        if honest:
            return zlib.crc32(b) & ((1 << chkbits) - 1)
        return rng.getrandbits(chkbits) if chkbits else 0

    calls = []
    prev_files = []
    pre = bytes(rng.getrandbits(8) for _ in range(rng.choice([0, 0, 1, 5, 96])))
    for _ in range(nfiles):
        if rng.random() < 0.25:         # a fragment block between files: no FIRST/LAST
            b = block()
            calls.append((chk(b), (F_FRAGBLK | (F_COMPRESSED if rng.random() < 0.3 else 0)), b))
            continue
        if prev_files and rng.random() < 0.45:
            blocks = list(rng.choice(prev_files))
            r = rng.random()
            if r < 0.2 and len(blocks) > 1:
                blocks = blocks[:rng.randint(1, len(blocks) - 1)]
            elif r < 0.4:
                blocks = blocks + [blocks[-1]] * rng.randint(1, 2)
            elif r < 0.5:
                k = rng.randrange(len(blocks))
                b = bytearray(blocks[k][1]); b[rng.randrange(len(b))] ^= 1 << rng.randrange(8)
                blocks[k] = (blocks[k][0], bytes(b), blocks[k][2])       # same checksum, different bytes
        else:
            nb = rng.choice([1, 1, 2, 2, 3, 4, 6])
            blocks = []
            for _ in range(nb):
                b = block()
                blocks.append((chk(b), b, rng.random() < 0.25))           # (chk, data, compressed)
        prev_files.append(blocks)
        fflags = F_DONT_DEDUP if rng.random() < 0.1 else 0
        items = []
        for (c, b, comp) in blocks:
            r = rng.random()
            if r < 0.08:
                items.append((0, F_SPARSE, b))                            # sparse: not stored
            items.append((c, F_COMPRESSED if comp else 0, b))
        if rng.random() < 0.5:
            items.append((0, 0, b""))                                     # sentinel
        for k, (c, fl, b) in enumerate(items):
            fl |= fflags
            if k == 0:
                fl |= F_FIRST
            if k == len(items) - 1:
                fl |= F_LAST
            calls.append((c, fl, b))
    return pre, calls


def bw_script_lines(pre, calls, wrflags=0):
    lines = ["bw-init %s %d" % (tok(pre), wrflags)]
    for (c, fl, b) in calls:
        lines.append("bw-write %08x %x %s" % (c, fl, tok(b)))
    lines.append("bw-file")
    return lines


def bw_payloads(calls):
    """specification side (Sqfs.Spec.BlockWriter.payloads) recomputed independently in Python"""
    acc, out = b"", []
    for (c, fl, b) in calls:
        if fl & F_FIRST:
            acc = b""
        if len(b) and not (fl & F_SPARSE):
            acc += b
        out.append(acc if fl & F_LAST else None)
    return out


def bw_oracle(calls, results, final):
    """read-back oracle on the implementation's answers; returns list of problems"""
    bad = []
    for k, (p, res) in enumerate(zip(bw_payloads(calls), results)):
        if p is None:
            continue
        if not res.startswith("ok "):
            bad.append("call %d: %s" % (k, res))
            continue
        loc = int(res.split()[1])
        if final[loc:loc + len(p)] != p:
            bad.append("file ending at call %d: location %d holds %s, payload %s" % (k, loc, final[loc:loc + len(p)].hex(), p.hex()))
    return bad


def check_bw(ctx, harness, n_scripts, stats):
    scripts = []
    cdir = vlib.CORPUS / "C08"
    if cdir.exists():
        for p in sorted(cdir.glob("bw-*.json")):
            d = json.loads(p.read_text())
            scripts.append((untok(d["pre"]), [(int(c, 16), int(f, 16), untok(b)) for c, f, b in d["calls"]], "corpus:" + p.name))
    for i in range(n_scripts):
        pre, calls = gen_bw_script(ctx.rng, small=ctx.quick() or i % 4 != 0)
        scripts.append((pre, calls, "gen:%d" % i))
    all_lines, spans = [], []
    for pre, calls, name in scripts:
        ls = bw_script_lines(pre, calls)
        spans.append((len(all_lines), len(ls)))
        all_lines += ls
    text = "\n".join(all_lines) + "\n"
    impl, rc, err = run_harness(ctx, harness, text)
    if impl is None or rc != 0 or len(impl) != len(all_lines):
        k = len(impl) if impl is not None else 0
        # find the script that contains line k
        which = next((i for i, (a, n) in enumerate(spans) if a <= k < a + n), len(spans) - 1)
        pre, calls, name = scripts[which]
        ctx.violation("bw-crash:" + vlib.sha(json.dumps(bw_script_lines(pre, calls)))[:12],
                      "real block writer aborted (rc=%s) in script %s: %s" % (rc, name, err[-500:]),
                      {"mode": "bw", "lines": bw_script_lines(pre, calls), "stderr": err})
        return
    model = ctx.driver(["c08"], text)
    for (a, n), (pre, calls, name) in zip(spans, scripts):
        il, ml = impl[a:a + n], model[a:a + n]
        final = untok(il[-1].split()[1]) if il[-1].startswith("file ") else b""
        bad = bw_oracle(calls, il[1:-1], final)
        if final[:len(pre)] != pre:
            bad.append("bytes before the data area changed")
        stats["bw_scripts"] += 1
        stats["bw_calls"] += len(calls)
        shared = 0
        own = None
        for (c, fl, b), res in zip(calls, il[1:-1]):
            if fl & F_FIRST:
                own = None
            if own is None and len(b) and not fl & F_SPARSE and res.startswith("ok "):
                own = int(res.split()[1]) if not fl & F_LAST else None
            if fl & F_LAST and res.startswith("ok "):
                pass
        # sharing statistics from the model side are identical when the streams agree; count truncations
        sizes = [int(r.split()[2]) for r in il[1:-1] if r.startswith("ok ")]
        trunc = sum(1 for x, y in zip(sizes, sizes[1:]) if y < x) + 0
        # a LAST call that stores data and shrinks the file relative to "before + size" also counts
        stats["bw_truncating_scripts"] += 1 if any(
            r.startswith("ok ") and (fl & F_LAST) and int(r.split()[2]) < prev + (len(b) if len(b) and not fl & F_SPARSE else 0)
            for (c, fl, b), r, prev in zip(calls, il[1:-1], [len(pre)] + sizes)) else 0
        if bad:
            ctx.violation("bw-readback:" + vlib.sha(json.dumps(all_lines[a:a + n]))[:12],
                          "block writer hands out a location that does not hold the file's bytes: %s" % "; ".join(bad[:3]),
                          {"mode": "bw", "lines": all_lines[a:a + n], "impl": il, "model": ml, "problems": bad})
        elif il != ml:
            d = vlib.diff_streams(il, ml)[0]
            stats["disagreements"] += 1
            ctx.violation("bw-corr:" + vlib.sha(json.dumps(all_lines[a:a + n]))[:12],
                          "block writer and model disagree at line %d of script %s (impl=%s model=%s); read-back oracle holds" % (
                              d, name, il[d][:80] if d < len(il) else None, ml[d][:80] if d < len(ml) else None),
                          {"mode": "bw", "lines": all_lines[a:a + n], "impl": il, "model": ml}, found_input=False)
    return scripts


def run(ctx):
    ok, problems = vlib.proof_gate(ctx, MODULE, REQUIRED)
    if not ok:
        ctx.violation("proof:C08", "proof obligations of C08 no longer check: " + " | ".join(problems)[:1500],
                      {"broken": problems, "theorems_file": "lean/Sqfs/Props/C08.lean"}, found_input=False)
    harness = build_harness(ctx)
    stats = {"bw_scripts": 0, "bw_calls": 0, "bw_truncating_scripts": 0, "disagreements": 0}
    check_bw(ctx, harness, 1500 if ctx.quick() else 20000, stats)
    ctx.cov.update({
        "evaluations": stats["bw_calls"],
        "distinct_nontrivial": stats["bw_truncating_scripts"],
        "rule": "bw: generated write_data_block sequences (1..14 files of 1..6 blocks, sizes from a 1..3-element set, 1..3-letter "
                "alphabet, 0..3-bit checksums, 55% repeated blocks, 45% files derived from an earlier file); non-trivial = script in "
                "which at least one LAST call truncated the output (a deduplication hit)",
        "stats": stats,
        "disagreements_checked": stats["disagreements"],
        "samples": [],
    })
    return ctx.finish(LEVEL, trusted_extra=[
        "modelled: lib/sqfs/src/block_writer.c, lib/util/src/file_cmp.c, the sqfs_file_t contract of lib/sqfs/src/io/file.c (POSIX branch)"])


def replay(ctx, path):
    body = json.loads(open(path).read())
    rp = body.get("replay", {})
    if "lines" not in rp:
        print("replay file names a broken obligation, no input to replay:", json.dumps(rp)[:500])
        return 1
    ctx.lean_build(["sqfsmodel"])
    harness = build_harness(ctx)
    text = "\n".join(rp["lines"]) + "\n"
    impl, rc, err = run_harness(ctx, harness, text)
    print("impl :", impl, "rc", rc, err[-500:] if err else "")
    if rp.get("mode") == "bw":
        model = ctx.driver(["c08"], text)
        print("model:", model)
        calls = []
        for l in rp["lines"][1:-1]:
            _, c, f, b = l.split()
            calls.append((int(c, 16), int(f, 16), untok(b)))
        final = untok(impl[-1].split()[1]) if impl and impl[-1].startswith("file ") else b""
        bad = bw_oracle(calls, impl[1:-1], final) if impl and rc == 0 else ["crash"]
        print("read-back problems:", bad)
        return 1 if bad or impl != model else 0
    return 1
