"""
C08 — deduplication never changes data, even when checksums collide.

Proof: lean/Sqfs/Props/C08.lean (block writer: read-back / sharing soundness / sharing completeness for every
sequence of write_data_block calls and every checksum value; fragment side: every (index, offset) handed out
addresses the fragment's bytes, for every checksum function and every codec with unc∘cmp = id).

Tie (this file):
 1. `bw`  — the real block_writer.c + file_cmp.c driven call by call with generated (checksum, flags, data)
            sequences in which checksums and sizes collide by construction; locations, file size, history length
            and the final bytes are diffed with `sqfsmodel c08`; the read-back oracle is evaluated on the
            implementation's own file.
 2. `bp`  — the real block processor (frontend/backend/block_processor/hash_table + thread pool) linked with
            harness/weak_xxh.c (xxh32 truncated to 0..8 bits), toy RLE codec / gzip / none, block sizes 8..64 and
            4096: every write_data_block call it makes is logged and replayed into the block-writer model; the
            fragment decisions are diffed with the fragment model; every file is read back by the real
            sqfs_data_reader_t and, independently, by raw offsets from the inode fields in Python.
 3. tools — gensquashfs / rdsquashfs / tar2sqfs / sqfs2tar built with the weak checksum: pack → cat/unpack →
            byte compare at several -j.
"""
import json, os, subprocess, zlib
import vlib

LEVEL = "proof"
MODULE = "Sqfs.Props.C08"
REQUIRED = ["Sqfs.C08.bw_no_error", "Sqfs.C08.bw_readback", "Sqfs.C08.bw_readback_all", "Sqfs.C08.bw_fragblocks_kept",
            "Sqfs.C08.bw_share_sound", "Sqfs.C08.bw_share_complete",
            "Sqfs.C08.bw_refines_spec", "Sqfs.C08.bw_checksum_irrelevant", "Sqfs.C08.bw_translate",
            "Sqfs.C08.frag_no_error", "Sqfs.C08.frag_sound", "Sqfs.C08.frag_share", "Sqfs.C08.frag_lookup_unique",
            "Sqfs.C08.stream_wfS", "Sqfs.C08.stream_readback", "Sqfs.C08.stream_frag_link", "Sqfs.C08.stream_frag_sound", "Sqfs.C08.stream_no_error"]

F_DONT_COMPRESS, F_DONT_HASH, F_DONT_FRAGMENT, F_DONT_DEDUP, F_IGNORE_SPARSE = 1, 2, 4, 8, 0x10
F_SPARSE, F_FIRST, F_LAST, F_IS_FRAGMENT, F_FRAGBLK, F_COMPRESSED = 0x400, 0x800, 0x1000, 0x2000, 0x4000, 0x8000


def tok(b):
    return bytes(b).hex() if b else "-"


def untok(t):
    return b"" if t == "-" else bytes.fromhex(t)


# ------------------------------------------------------------------------------------------------ builds
def build_harness(ctx, serial=False):
    lib = ctx.build_lib("c08ser" if serial else "c08lib", exclude=("lib/util/src/xxhash.c",), serial_pool=serial)
    return ctx.cc("h_c08s" if serial else "h_c08", ["h_c08.c", "weak_xxh.c", str(lib)],
                  libs=["-Wl,--wrap=hash_table_search_pre_hashed", "-Wl,--wrap=hash_table_insert_pre_hashed"] + vlib.CODEC_LIBS)


def drv(ctx, lines, what):
    """run the model driver on `lines`; exactly one answer line per input line, else the check infrastructure failed"""
    if not lines:
        return []
    out = ctx.driver(["c08"], "\n".join(lines) + "\n")
    if len(out) != len(lines):
        raise vlib.CheckFailure("model driver answered %d lines to %d input lines (%s)" % (len(out), len(lines), what))
    return out


def zip_eq(what, *seqs):
    """zip() that refuses sequences of different length (a short stream must never silently drop comparisons)"""
    n = len(seqs[0])
    if any(len(x) != n for x in seqs):
        raise vlib.CheckFailure("internal: streams of different length in %s: %s" % (what, [len(x) for x in seqs]))
    return zip(*seqs)


def run_harness(ctx, harness, text, timeout=600):
    try:
        r = vlib.sh([str(harness)], input=text, env=ctx.san_env(), timeout=timeout)
    except subprocess.TimeoutExpired:
        return None, "timeout", ""
    return r.stdout.splitlines(), r.returncode, r.stderr[-3000:]


# ------------------------------------------------------------------------------------------------ 1. bw scripts
def gen_bw_script(rng, small=True):
    """a sequence of write_data_block calls: files (FIRST … LAST) interleaved with flag-less blocks
    (= fragment blocks); tiny alphabets for sizes, contents and checksums so that (size, checksum) collisions
    between different contents, equal files, overlapping runs (AAA after A) and partial matches are the norm"""
    nfiles = rng.randint(1, 14)
    sizes = rng.sample([1, 2, 3, 4, 5, 7, 8], rng.randint(1, 3))
    alpha = rng.sample(range(1, 256), rng.randint(1, 3))
    chkbits = rng.choice([0, 0, 1, 1, 2, 3])
    honest = rng.random() < 0.6          # checksum is a function of the data (as in the library) or arbitrary
    pool = []                            # block contents used so far (to repeat)
    big = (not small) and rng.random() < 0.15

    def block():
        if pool and rng.random() < 0.55:
            return rng.choice(pool)
        n = rng.choice(sizes)
        if big and rng.random() < 0.3:
            n = rng.choice([4095, 4096, 4097, 8192, 8193, 9000])
            b = bytes([rng.choice(alpha)]) * (n - 1) + bytes([rng.choice(alpha)])
        else:
            b = bytes(rng.choice(alpha) for _ in range(n))
        pool.append(b)
        return b

    def chk(b):
        if honest:
            return zlib.crc32(b) & ((1 << chkbits) - 1)
        return rng.getrandbits(chkbits) if chkbits else 0

    calls = []
    prev_files = []
    pre = bytes(rng.getrandbits(8) for _ in range(rng.choice([0, 0, 1, 5, 96])))
    for _ in range(nfiles):
        if rng.random() < 0.25:         # a fragment block between files: no FIRST/LAST
            b = block()
            calls.append((chk(b), (F_FRAGBLK | (F_COMPRESSED if rng.random() < 0.3 else 0)), b))
            continue
        if prev_files and rng.random() < 0.45:
            blocks = list(rng.choice(prev_files))
            r = rng.random()
            if r < 0.2 and len(blocks) > 1:
                blocks = blocks[:rng.randint(1, len(blocks) - 1)]
            elif r < 0.4:
                blocks = blocks + [blocks[-1]] * rng.randint(1, 2)
            elif r < 0.5:
                k = rng.randrange(len(blocks))
                b = bytearray(blocks[k][1]); b[rng.randrange(len(b))] ^= 1 << rng.randrange(8)
                # arbitrary-checksum scripts: same checksum, different bytes; honest scripts: the checksum stays a function of the data
                blocks[k] = (chk(bytes(b)) if honest else blocks[k][0], bytes(b), blocks[k][2])
        else:
            nb = rng.choice([1, 1, 2, 2, 3, 4, 6])
            blocks = []
            for _ in range(nb):
                b = block()
                blocks.append((chk(b), b, rng.random() < 0.25))           # (chk, data, compressed)
        prev_files.append(blocks)
        fflags = F_DONT_DEDUP if rng.random() < 0.1 else 0
        items = []
        for (c, b, comp) in blocks:
            r = rng.random()
            if r < 0.08:
                items.append((0, F_SPARSE, b))                            # sparse: not stored
            items.append((c, F_COMPRESSED if comp else 0, b))
        if rng.random() < 0.5:
            items.append((0, 0, b""))                                     # sentinel
        for k, (c, fl, b) in enumerate(items):
            fl |= fflags
            if k == 0:
                fl |= F_FIRST
            if k == len(items) - 1:
                fl |= F_LAST
            calls.append((c, fl, b))
    return pre, calls, honest


def gen_bw_big_script(rng):
    """multi-chunk comparisons of check_file_range_equal (4096-byte chunks of an 8192-byte scratch buffer): files of 1..3
    blocks of 4095..9000 bytes whose stored sizes and checksums all collide and whose bytes differ only *behind* the first
    chunk (sometimes only in the very last byte), mixed with exact repeats (which must share)"""
    sizes = rng.sample([4095, 4096, 4097, 5000, 8191, 8192, 8193, 9000], rng.randint(1, 2))
    letters = rng.sample(range(1, 256), 2)
    nblk = rng.randint(1, 3)
    base = [bytes([letters[0]]) * rng.choice(sizes) for _ in range(nblk)]
    total = sum(map(len, base))
    files = [base]
    pre = bytes(rng.getrandbits(8) for _ in range(rng.choice([0, 3, 96])))
    calls = []
    for _ in range(rng.randint(3, 6)):
        r = rng.random()
        if r < 0.3:
            blocks = list(rng.choice(files))                                  # exact repeat: must share
        else:
            blocks = [bytearray(x) for x in rng.choice(files)]
            # one changed byte at a file offset in a chunk behind the first one (or, rarely, anywhere)
            lo = 4096 if total > 4096 and rng.random() < 0.9 else 0
            pos = rng.choice([total - 1, rng.randrange(lo, total), (rng.randrange(lo, total) // 4096) * 4096 if total > 4096 else 0])
            pos = max(lo, min(total - 1, pos))
            for x in blocks:
                if pos < len(x):
                    x[pos] = letters[1] if x[pos] != letters[1] else letters[0]
                    break
                pos -= len(x)
            blocks = [bytes(x) for x in blocks]
        files.append(blocks)
    for blocks in files:
        for k, bdata in enumerate(blocks):
            fl = (F_FIRST if k == 0 else 0) | (F_LAST if k == len(blocks) - 1 else 0)
            calls.append((5, fl, bdata))                                      # one checksum for everything
        if rng.random() < 0.3:
            calls.append((5, F_FRAGBLK, bytes([letters[1]]) * rng.choice([1, 7, 4097])))
    return pre, calls, False


def gen_bw_long_script(rng):
    """histories beyond INIT_BLOCK_COUNT = 128 entries (array_t growth): 150..400 stored one- and two-byte blocks, every
    file after the first 130 blocks repeats or nearly repeats an early one"""
    letters = rng.sample(range(1, 256), 2)
    calls, files = [], []
    stored = 0
    want = rng.randint(150, 400)
    while stored < want:
        if files and (stored > 130 or rng.random() < 0.3):
            blocks = list(rng.choice(files))
            if rng.random() < 0.4:
                k = rng.randrange(len(blocks))
                blocks[k] = bytes([letters[1]]) * len(blocks[k])
        else:
            blocks = [bytes(rng.choice(letters) for _ in range(rng.choice([1, 2]))) for _ in range(rng.randint(1, 5))]
        files.append(blocks)
        dd = F_DONT_DEDUP if rng.random() < 0.5 else 0                     # keeps the history growing
        for k, bdata in enumerate(blocks):
            fl = dd | (F_FIRST if k == 0 else 0) | (F_LAST if k == len(blocks) - 1 else 0)
            calls.append((len(bdata), fl, bdata))
            stored += 1
        if rng.random() < 0.1:
            calls.append((1, F_FRAGBLK, bytes([rng.choice(letters)])))
            stored += 1
    return b"", calls, False


def bw_script_lines(pre, calls, wrflags=0, base=0):
    lines = ["bw-init %s %d" % (tok(pre), wrflags) + (" %d" % base if base else "")]
    for (c, fl, b) in calls:
        lines.append("bw-write %08x %x %s" % (c, fl, tok(b)))
    lines.append("bw-file")
    return lines


def bw_payloads(calls):
    """specification side (Sqfs.Spec.BlockWriter.claimsOf) recomputed independently in Python: per call the bytes the
    returned location has to hold for ever — a file's stored bytes for a LAST call, the block itself for a stored call
    made outside every file (fragment blocks), nothing for calls inside a file"""
    acc, out, opened = b"", [], False
    for (c, fl, b) in calls:
        stored = len(b) and not (fl & F_SPARSE)
        if fl & F_FIRST:
            acc = b""
        if stored:
            acc += b
        if fl & F_LAST:
            out.append(acc)
            opened = False
        else:
            out.append(b if stored and not (opened or fl & F_FIRST) else None)
            opened = opened or bool(fl & F_FIRST)
    return out


def bw_oracle(calls, results, final):
    """read-back oracle on the implementation's answers; returns list of problems"""
    bad = []
    for k, (p, res) in enumerate(zip_eq("bw_oracle", bw_payloads(calls), results)):
        if not res.startswith("ok "):
            bad.append("call %d: %s" % (k, res))
            continue
        if p is None:
            continue
        loc = int(res.split()[1])
        if final[loc:loc + len(p)] != p:
            bad.append("%s at call %d: location %d holds %s, expected %s" % (
                "file ending" if calls[k][1] & F_LAST else "fragment block", k, loc, final[loc:loc + len(p)].hex()[:60], p.hex()[:60]))
    return bad


def shift_base(lines, base):
    """answers of the real writer working at file offsets >= base (virtual zero bytes below) → offsets relative to base,
    which is what the model run on an empty prefix answers"""
    out = []
    for l in lines:
        t = l.split()
        if t and t[0] == "ok" and len(t) == 4:
            loc, size = int(t[1]), int(t[2])
            out.append("ok %d %d %s" % (loc - base if loc >= base else loc, size - base, t[3]))
        else:
            out.append(l)
    return out


def check_bw(ctx, harness, n_scripts, stats):
    scripts = []          # (pre, calls, name, base)
    cdir = vlib.CORPUS / "C08"
    for p in sorted(cdir.glob("bw-*.json")):
        d = json.loads(p.read_text())
        scripts.append((untok(d["pre"]), [(int(c, 16), int(f, 16), untok(b)) for c, f, b in d["calls"]], "corpus:" + p.name, int(d.get("base", 0))))
    honest_scripts = []
    for i in range(n_scripts):
        pre, calls, honest = gen_bw_script(ctx.rng, small=ctx.quick() or i % 4 != 0)
        base = 0
        if i % 10 == 9:
            # the same kind of script at file offsets around 4 GiB: the harness' file reports `base` more bytes than it stores
            # (virtual zeros), so a 32-bit offset anywhere in block_writer.c / file_cmp.c compares or returns the wrong range
            base = (1 << 32) - ctx.rng.choice([0, 1, 3, 7, 20, 60]) if ctx.rng.random() < 0.8 else (1 << 32) * ctx.rng.choice([1, 2, 5]) + ctx.rng.randrange(100)
            pre = b""
            stats["bw_4gib_scripts"] += 1
        scripts.append((pre, calls, "gen:%d" % i, base))
        if honest:
            honest_scripts.append(len(scripts) - 1)
    for i in range(n_bw_big(ctx)):
        pre, calls, _ = gen_bw_big_script(ctx.rng)
        scripts.append((pre, calls, "big:%d" % i, 0))
        stats["bw_multichunk_scripts"] += 1
    for i in range(n_bw_long(ctx)):
        pre, calls, _ = gen_bw_long_script(ctx.rng)
        scripts.append((pre, calls, "long:%d" % i, 0))
        stats["bw_long_history_scripts"] += 1
    all_lines, model_lines, spans = [], [], []
    for pre, calls, name, base in scripts:
        ls = bw_script_lines(pre, calls, base=base)
        spans.append((len(all_lines), len(ls)))
        all_lines += ls
        model_lines += bw_script_lines(pre, calls)
    text = "\n".join(all_lines) + "\n"
    impl, rc, err = run_harness(ctx, harness, text)
    if impl is None or rc != 0 or len(impl) != len(all_lines):
        k = len(impl) if impl is not None else 0
        # find the script that contains line k
        which = next((i for i, (a, n) in enumerate(spans) if a <= k < a + n), len(spans) - 1)
        pre, calls, name, base = scripts[which]
        ctx.violation("bw-crash:" + vlib.sha(json.dumps(bw_script_lines(pre, calls, base=base)))[:12],
                      "real block writer aborted (rc=%s) in script %s: %s" % (rc, name, err[-500:]),
                      {"mode": "bw", "lines": bw_script_lines(pre, calls, base=base), "stderr": err})
        return
    model = drv(ctx, model_lines, "bw scripts")
    # the checksum-free specification (Spec.BlockWriter.specRun, theorem bw_refines_spec) against the real code, on the
    # scripts whose checksums are a function of the data
    sp_lines, sp_spans = [], []
    for k in honest_scripts:
        pre, calls, name, base = scripts[k]
        ls = ["sp-init " + tok(pre)] + ["sp-write %x %s" % (fl, tok(b)) for (c, fl, b) in calls]
        sp_spans.append((k, len(sp_lines), len(ls)))
        sp_lines += ls
    sp_out = drv(ctx, sp_lines, "sp scripts")
    # the Lean specification predicates (Spec/BlockWriter.lean) evaluated on the implementation's calls, locations and file
    mon_lines, mon_at = [], []
    for (a, n), (pre, calls, name, base) in zip_eq("bw mon", spans, scripts):
        il = shift_base(impl[a:a + n], base)
        if not (il[-1].startswith("file ") and all(r.startswith("ok ") for r in il[1:-1])):
            mon_at.append(None)
            continue
        mon_lines.append("mon-init")
        for (c, fl, b), r in zip_eq("bw mon calls", calls, il[1:-1]):
            mon_lines.append("mon-call %x %x %s %s" % (c, fl, tok(b), r.split()[1]))
        mon_lines.append("mon-eval " + il[-1].split()[1])
        mon_at.append(len(mon_lines) - 1)
    mon_out = drv(ctx, mon_lines, "bw monitor")
    for k, a0, n0 in sp_spans:
        a, n = spans[k]
        il = shift_base(impl[a:a + n], scripts[k][3])
        if sp_out[a0 + 1:a0 + n0] != il[1:n - 1]:
            d = vlib.diff_streams(sp_out[a0 + 1:a0 + n0], il[1:n - 1])[0]
            stats["disagreements"] += 1
            ctx.violation("bw-spec:" + vlib.sha(json.dumps(all_lines[a:a + n]))[:12],
                          "block writer differs from the checksum-free specification at call %d of script %s (impl=%s spec=%s)" % (
                              d, scripts[k][2], il[1 + d] if 1 + d < n - 1 else None, sp_out[a0 + 1 + d] if d < n0 - 1 else None),
                          {"mode": "bw", "lines": all_lines[a:a + n], "spec": sp_out[a0:a0 + n0]}, found_input=False)
        stats["bw_spec_scripts"] += 1
    for (a, n), (pre, calls, name, base), mk in zip_eq("bw scripts", spans, scripts, mon_at):
        il, ml = shift_base(impl[a:a + n], base), model[a:a + n]
        final = untok(il[-1].split()[1]) if il[-1].startswith("file ") else b""
        bad = bw_oracle(calls, il[1:-1], final)
        if final[:len(pre)] != pre:
            bad.append("bytes before the data area changed")
        stats["bw_scripts"] += 1
        stats["bw_calls"] += len(calls)
        stats["bw_max_history"] = max(stats["bw_max_history"], max([int(r.split()[3]) for r in il[1:-1] if r.startswith("ok ")] or [0]))
        stats["bw_fragment_block_calls"] += sum(1 for (c, fl, b) in calls if fl & F_FRAGBLK)
        if stats["bw_scripts"] in (7, 1000):
            ctx.c08_samples.append({"kind": "bw", "script": all_lines[a:a + n][:12], "impl": il[:12], "model": ml[:12]})
        # a LAST call after which the file is shorter than "size before + bytes stored" was a deduplication hit
        sizes = [int(r.split()[2]) for r in il[1:-1] if r.startswith("ok ")]
        if len(sizes) == len(calls):
            stats["bw_truncating_scripts"] += 1 if any(
                (fl & F_LAST) and sz < prev + (len(b) if len(b) and not fl & F_SPARSE else 0)
                for (c, fl, b), sz, prev in zip_eq("bw sizes", calls, sizes, [len(pre)] + sizes[:-1])) else 0
        key = vlib.sha(json.dumps(all_lines[a:a + n]))[:12]
        if mk is not None:
            stats["bw_monitor_evals"] += 1
            if mon_out[mk] != "mon 1 1 1 1 1 1" and not bad:
                names = ["wf", "wfS", "readbackOk", "holdsAll", "fragBlocksOk", "shareCompleteOk"]
                failed = [nm for nm, v in zip_eq("mon", names, mon_out[mk].split()[1:]) if v != "1"]
                if set(failed) <= {"wf", "wfS"}:
                    raise vlib.CheckFailure("generated bw script %s violates the call protocol (%s): generator bug" % (name, failed))
                ctx.violation("bw-readback:" + key, "Lean specification predicate(s) %s fail on the implementation's output (script %s)" % (failed, name),
                              {"mode": "bw", "lines": all_lines[a:a + n], "impl": il, "monitor": mon_out[mk]})
                continue
        if bad:
            ctx.violation("bw-readback:" + key,
                          "block writer hands out a location that does not hold the bytes it stands for: %s" % "; ".join(bad[:3]),
                          {"mode": "bw", "lines": all_lines[a:a + n], "impl": il, "model": ml, "problems": bad})
        elif il != ml:
            d = vlib.diff_streams(il, ml)[0]
            stats["disagreements"] += 1
            ctx.violation("bw-corr:" + key,
                          "block writer and model disagree at line %d of script %s (impl=%s model=%s); read-back oracle holds" % (
                              d, name, il[d][:80] if d < len(il) else None, ml[d][:80] if d < len(ml) else None),
                          {"mode": "bw", "lines": all_lines[a:a + n], "impl": il, "model": ml}, found_input=False)
    return scripts


# ------------------------------------------------------------------------------------------------ 2. bp scripts
def toy_uncompress(b, limit):
    if len(b) % 2:
        return None
    out = bytearray()
    for k in range(0, len(b), 2):
        n = b[k + 1]
        if n == 0 or n > limit - len(out):
            return None
        out += bytes([b[k]]) * n
    return bytes(out)


def gen_bp_script(rng, big=False, many_tails=False):
    """files for the real block processor: few distinct full blocks and few distinct tails of equal sizes, so that
    with a 0..8-bit checksum different contents collide on (size, checksum) all the time.
    many_tails: 40..300 *distinct* tail ends under a 0..3-bit checksum, each submitted once or twice: the fragment hash
    table (lib/util/src/hash_table.c: 2, 4, 8, 16, 32, … entries) is re-hashed 5..8 times with long collision chains, and
    every later duplicate must still be found"""
    if many_tails:
        B = rng.choice([8, 16])
        ntails = rng.randint(40, 300)
        alpha = rng.sample(range(1, 256), 3)
        tails = set()
        while len(tails) < ntails:
            tails.add(bytes(rng.choice(alpha) for _ in range(rng.randint(max(1, B - 3), B - 1))))
        tails = sorted(tails)
        rng.shuffle(tails)
        files = [(t, 0, 0) for t in tails]
        for _ in range(ntails // 2):                       # duplicates, inserted anywhere after the original
            k = rng.randrange(len(files))
            files.insert(rng.randrange(k + 1, len(files) + 1), files[k])
        full = bytes(rng.choice(alpha) for _ in range(B))
        for _ in range(rng.randint(0, 6)):                 # a few files with full blocks in between
            files.insert(rng.randrange(len(files) + 1), (full * rng.randint(1, 2) + rng.choice(tails), 0, 0))
        return {"B": B, "codec": rng.choice(["toy", "none"]), "workers": rng.choice([1, 2, 4]), "backlog": rng.choice([3, 8, 30]),
                "hashbits": rng.choice([0, 1, 2, 3]), "pre": b"", "files": files, "sync_after": []}
    if big:
        B = 4096
        hashbits = rng.choice([0, 1, 2, 4, 8])
    else:
        B = rng.choice([8, 8, 16, 16, 32, 64])
        hashbits = rng.choice([0, 1, 2, 2, 3, 4, 8, 32])
    codec = rng.choice(["toy", "toy", "gzip", "none"])
    workers = rng.choice([1, 1, 2, 3, 4])
    backlog = rng.choice([3, 3, 4, 5, 8, 12, 30])
    pre = bytes(rng.getrandbits(8) for _ in range(rng.choice([0, 1, 96])))
    alpha = rng.sample(range(1, 256), rng.randint(2, 3))
    nblk = rng.randint(1, 5)
    blocks = []
    for _ in range(nblk):
        r = rng.random()
        if r < 0.35:      # two runs: compressible by the toy codec, many contents with the same compressed size
            k = rng.randrange(1, B)
            blocks.append(bytes([rng.choice(alpha)]) * k + bytes([rng.choice(alpha)]) * (B - k))
        elif r < 0.45:
            blocks.append(bytes(B))
        else:
            blocks.append(bytes(rng.choice(alpha) for _ in range(B)))
    tail_sizes = rng.sample(range(1, B), min(B - 1, rng.randint(1, 3)))
    tails = []
    for _ in range(rng.randint(1, 8)):
        n = rng.choice(tail_sizes)
        if rng.random() < 0.08:
            tails.append(bytes(n))
        else:
            tails.append(bytes(rng.choice(alpha) for _ in range(n)))
    files = []
    nfiles = rng.randint(1, 6) if big else rng.randint(1, 40)
    for _ in range(nfiles):
        if files and rng.random() < 0.3:
            data, flags = rng.choice(files)[:2]
            if rng.random() < 0.3:
                flags = 0
        else:
            k = rng.choice([0, 0, 0, 1, 1, 2, 3])
            data = b"".join(rng.choice(blocks) for _ in range(k))
            if rng.random() < 0.85:
                data += rng.choice(tails)
            flags = 0
            r = rng.random()
            if r < 0.08:
                flags |= F_DONT_FRAGMENT
            elif r < 0.16:
                flags |= F_DONT_DEDUP
            elif r < 0.22:
                flags |= F_DONT_COMPRESS
            elif r < 0.26:
                flags |= F_DONT_HASH
            elif r < 0.30:
                flags |= F_IGNORE_SPARSE
        if rng.random() < 0.04 and data and len(data) % B:
            # an all-zero tail end marked `nosparse` (the former D24 trigger; a fragment block is never sparse since 47f7b3d)
            data = data[:len(data) - len(data) % B] + bytes(len(data) % B)
            flags |= F_IGNORE_SPARSE
        chunk = rng.choice([0, 0, 0, 1, 3, B, B + 1])
        files.append((data, flags, chunk))
    return {"B": B, "codec": codec, "workers": workers, "backlog": backlog, "hashbits": hashbits, "pre": pre,
            "files": files, "sync_after": sorted(set(rng.sample(range(nfiles), rng.randint(0, min(3, nfiles)))))}


def bp_script_lines(sc, nofile=0):
    lines = ["bp-init %d %s %d %d %d %s %d" % (sc["B"], sc["codec"], sc["workers"], sc["backlog"], sc["hashbits"], tok(sc["pre"]), nofile)]
    for k, (data, flags, chunk) in enumerate(sc["files"]):
        lines.append("bp-file %x %d %s" % (flags, chunk, tok(data)))
        if k in sc["sync_after"]:
            lines.append("bp-sync")
    lines.append("bp-finish")
    return lines


def parse_bp_output(out):
    """out: lines of one script's output (op answers, then the dump). Returns dict."""
    res = {"ops": [], "events": [], "inodes": {}, "frag": {}, "fb": {}, "file": None, "rd": {}, "end": None, "rderr": None}
    for l in out:
        t = l.split()
        if not t:
            continue
        if t[0] in ("ok", "err", "bad-op"):
            res["ops"].append(l)
        elif t[0] in ("W", "T", "FR", "E", "S", "SC", "SF", "D"):
            res["events"].append(t)
        elif t[0] == "I":
            if t[2] == "none":
                res["inodes"][int(t[1])] = None
            else:
                kv = dict(x.split("=") for x in t[2:])
                fi, fo = kv["frag"].split(":")
                res["inodes"][int(t[1])] = {"size": int(kv["size"]), "start": int(kv["start"]), "sparse": int(kv["sparse"]),
                                            "frag": (int(fi, 16), int(fo, 16)),
                                            "blocks": [] if kv["blocks"] == "-" else [int(x, 16) for x in kv["blocks"].split(",")]}
        elif t[0] == "F":
            res["frag"][int(t[1])] = (int(t[2]), int(t[3], 16))
        elif t[0] == "FB":
            res["fb"][int(t[1])] = None if t[2] == "err" else untok(t[2])
        elif t[0] == "file":
            res["file"] = untok(t[1])
        elif t[0] == "R":
            res["rd"][int(t[1])] = " ".join(t[2:])
        elif t[0] == "RD":
            res["rderr"] = l
        elif t[0] == "end":
            res["end"] = int(t[1])
    return res


def raw_readback(sc, res, k):
    """independent reader: bytes of file k from the inode fields, the fragment table and the output bytes"""
    ino = res["inodes"].get(k)
    data, flags, _ = sc["files"][k]
    B = sc["B"]
    if ino is None:
        return None
    out = bytearray()
    pos = ino["start"]
    remaining = ino["size"]
    for w in ino["blocks"]:
        want = min(B, remaining)
        if w == 0:
            out += bytes(want)
        else:
            n = w & 0xFFFFFF
            raw = res["file"][pos:pos + n]
            pos += n
            if w & (1 << 24):
                blk = raw
            elif sc["codec"] == "gzip":
                try:
                    blk = zlib.decompress(raw)
                except zlib.error:
                    return b"<zlib error>"
            else:
                blk = toy_uncompress(raw, B)
                if blk is None:
                    return b"<toy error>"
            out += blk
        remaining -= want
        if remaining < 0:
            return b"<too many blocks>"
    if remaining > 0:
        fi, fo = ino["frag"]
        fb = res["fb"].get(fi)
        if fb is None:
            return bytes(out) + b"<no fragment block>"
        out += fb[fo:fo + remaining]
    return bytes(out)


def has_fragment(sc, k):
    """does file k reach process_completed_fragment as a non-sparse fragment?"""
    data, flags, _ = sc["files"][k]
    B = sc["B"]
    r = len(data) % B
    if r == 0 or flags & F_DONT_FRAGMENT:
        return False
    tail = data[len(data) - r:]
    if not any(tail) and not flags & F_IGNORE_SPARSE:
        return False
    return True


def fd_script(sc, res):
    """script for the fragment model from the implementation's event order; returns (lines, meta) where meta[i]
    says what line i is about"""
    B = sc["B"]
    lines = ["fd-init %d %s 1" % (B, "toy" if sc["codec"] == "toy" else "ident")]
    meta = [("init",)]
    fragfiles = [k for k in range(len(sc["files"])) if has_fragment(sc, k)]
    fr = 0
    nfb = sum(1 for t in res["events"] if t[0] == "W" and int(t[2], 16) & F_FRAGBLK)
    wfb = 0
    for t in res["events"]:
        if t[0] == "FR":
            if fr >= len(fragfiles):
                return None, "more fragments processed than submitted"
            k = fragfiles[fr]
            data, flags, _ = sc["files"][k]
            tail = data[len(data) - len(data) % B:]
            if int(t[2]) != len(tail):
                return None, "fragment %d has size %s, expected %d" % (fr, t[2], len(tail))
            lines.append("fd-frag %x %s %s" % (flags, t[1], tok(tail)))
            meta.append(("frag", k))
            fr += 1
        elif t[0] == "W" and int(t[2], 16) & F_FRAGBLK:
            if wfb == nfb - 1:
                lines.append("fd-finish")
                meta.append(("finish",))
            lines.append("fd-written %d" % wfb)
            meta.append(("written", wfb))
            wfb += 1
    if fr != len(fragfiles):
        return None, "%d fragments processed, %d submitted" % (fr, len(fragfiles))
    for i in range(nfb):
        lines.append("fd-read %d" % i)
        meta.append(("read", i))
    return (lines, meta), None


def st_script(sc, res):
    """script for the call-stream model (Sqfs.C08Stream) that follows the real main thread's event order (S/SC/SF/D/W lines
    of the harness log); returns ((lines, expect), None) or (None, why). expect[i] = what answer i must be: ("eq", text) |
    ("prefix", text) | ("deq", real D line, following SC index or None) | ("fin", index or None) | ("any",)"""
    B = sc["B"]
    ev = res["events"]
    subs = [t for t in ev if t[0] in ("S", "SC", "SF")]
    deqs = [t for t in ev if t[0] == "D"]
    if len(subs) != len(deqs):
        return None, "%d blocks submitted to the pool, %d dequeued" % (len(subs), len(deqs))
    lines = ["st-init %d %s %s" % (B, "toy" if sc["codec"] == "toy" else "table", tok(sc["pre"]))]
    expect = [("eq", "ok")]
    # what the implementation's workers computed: checksum function and (real codecs) compressor as tables; the pool is a
    # FIFO (include/util/threadpool.h, C09), so the k-th block submitted is the k-th block dequeued
    seen_h, seen_c = {}, {}
    for su, de in zip_eq("st pairs", subs, deqs):
        data_in = su[-1]
        fl_out = int(de[1], 16)
        if data_in != "-" and not fl_out & F_SPARSE and not fl_out & F_DONT_HASH:
            if seen_h.setdefault(data_in, de[2]) != de[2]:
                return None, "the checksum is not a function of the data: %s gives %s and %s" % (data_in[:40], seen_h[data_in], de[2])
        if fl_out & F_COMPRESSED and sc["codec"] != "toy":
            seen_c[data_in] = de[3]
    for d, c in seen_h.items():
        lines.append("st-hash %s %s" % (d, c)); expect.append(("eq", "ok"))
    for d, c in seen_c.items():
        lines.append("st-cmp %s %s" % (d, c)); expect.append(("eq", "ok"))
    for (data, flags, _) in sc["files"]:
        lines.append("st-file %x %s" % (flags, tok(data))); expect.append(("prefix", "blocks "))
    finished = False
    for k, t in enumerate(ev):
        if t[0] == "S":
            lines.append("st-submit"); expect.append(("eq", " ".join(t)))
        elif t[0] == "D":
            nxt = next((u for u in ev[k + 1:] if u[0] in ("S", "SC", "SF", "D", "W")), None)
            lines.append("st-dequeue"); expect.append(("deq", " ".join(t), int(nxt[2]) if nxt and nxt[0] == "SC" else None))
        elif t[0] == "W":
            lines.append("st-complete"); expect.append(("eq", " ".join(t)))
        elif t[0] == "SF":
            lines.append("st-finish"); expect.append(("fin", int(t[2])))
            finished = True
    if not finished:
        lines.append("st-finish"); expect.append(("fin", None))
    lines += ["st-tbl", "st-bytes", "st-check"]
    expect += [("eq", "tbl " + (",".join("%d:%x" % res["frag"][i] for i in sorted(res["frag"])) or "-")),
               ("eq", "file " + tok(res["file"])), ("eq", "check 1 1 1 1 1")]
    return (lines, expect), None


def st_compare(sc, res, lines, expect, out):
    """first disagreement between the call-stream model and the real main thread, or None"""
    B = sc["B"]
    tails = [k for k, (data, flags, _) in enumerate(sc["files"]) if len(data) % B and not flags & F_DONT_FRAGMENT]
    ti = 0
    for l, e, m in zip_eq("st answers", lines, expect, out):
        if e[0] == "eq":
            if m != e[1]:
                return "%s: impl '%s' model '%s'" % (l, e[1][:90], m[:90])
        elif e[0] == "prefix":
            if not m.startswith(e[1]):
                return "%s: model '%s'" % (l, m[:90])
        elif e[0] == "fin":
            want = "FIN none" if e[1] is None else "FIN close %d " % e[1]
            if not (m == want or (e[1] is not None and m.startswith(want))):
                return "finish: impl closes fragment block %s, model '%s'" % (e[1], m)
        elif e[0] == "deq":
            if not m.startswith(e[1] + " "):
                return "block returned by the pool: impl '%s' model '%s'" % (e[1][:90], m[:90])
            what = m[len(e[1]) + 1:].split()
            closed = int(what[what.index("close") + 1]) if "close" in what else None
            if closed != e[2]:
                return "after '%s': impl hands fragment block %s to the pool, model %s" % (e[1][:60], e[2], closed)
            if what[0] == "frag":
                if ti >= len(tails):
                    return "more tail ends dequeued than submitted"
                ino = res["inodes"][tails[ti]]
                ti += 1
                want = ["frag", "sparse"] if ino["frag"] == (0xFFFFFFFF, 0xFFFFFFFF) else ["frag", "loc", str(ino["frag"][0]), str(ino["frag"][1])]
                if what[:len(want)] != want:
                    return "tail end of file %d: inode says %s, model '%s'" % (tails[ti - 1], ino["frag"], " ".join(what))
    if ti != len(tails):
        return "%d tail ends dequeued, %d submitted" % (ti, len(tails))
    return None


def bp_model_script(sc, res):
    """everything the model driver is asked about one bp script: (lines, parts) with parts = dict name -> (start, count,
    meta)"""
    calls = [t for t in res["events"] if t[0] == "W"]
    bw_lines = ["bw-init %s 0" % tok(sc["pre"])] + ["bw-write %s %s %s" % (t[1], t[2], t[3]) for t in calls] + ["bw-file"]
    parts = {"bw": (0, len(bw_lines), None)}
    lines = list(bw_lines)
    fd, err = fd_script(sc, res)
    parts["fd_err"] = err
    if fd is not None:
        parts["fd"] = (len(lines), len(fd[0]), fd)
        lines += fd[0]
    # the Lean specification predicates on the implementation's own call stream, locations and output bytes
    if all(t[4] == "ok" for t in calls) and res["file"] is not None:
        mon = ["mon-init"] + ["mon-call %s %s %s %s" % (t[1], t[2], t[3], t[5]) for t in calls] + ["mon-eval " + tok(res["file"])]
        parts["mon"] = (len(lines), len(mon), None)
        lines += mon
    stc, err = st_script(sc, res)
    parts["st_err"] = err
    if stc is not None:
        parts["st"] = (len(lines), len(stc[0]), stc)
        lines += stc[0]
    return lines, parts


def check_bp_one(ctx, sc, res, model, parts, stats, name):
    """all oracles for one script; returns list of (kind, message) problems. kind: 'spec' (property violated on the
    implementation) or 'corr' (model and code disagree)"""
    problems = []
    B = sc["B"]
    # (1) the property's oracle, by the real reader and by raw offsets
    for k, (data, flags, _) in enumerate(sc["files"]):
        if res["rd"].get(k) != "ok":
            problems.append(("spec", "file %d read back through sqfs_data_reader_t: %s (input %s)" % (k, str(res["rd"].get(k))[:80], data.hex()[:80])))
        rb = raw_readback(sc, res, k)
        if rb != data:
            problems.append(("spec", "file %d read back by raw offsets gives %s, input %s" % (k, (rb or b"").hex()[:80], data.hex()[:80])))
    # (2) identical files share (completeness, evaluated on the implementation)
    first = {}
    for k, (data, flags, _) in enumerate(sc["files"]):
        ino = res["inodes"][k]
        stored = any(w != 0 for w in ino["blocks"])
        key = (data, flags)
        if key in first and not flags & F_DONT_DEDUP and stored:
            j = first[key]
            if ino["start"] > res["inodes"][j]["start"] or ino["blocks"] != res["inodes"][j]["blocks"]:
                problems.append(("spec", "file %d is identical to file %d but does not share its blocks (start %d vs %d)" % (
                    k, j, ino["start"], res["inodes"][j]["start"])))
            stats["bp_shared_files"] += 1
        first.setdefault(key, k)
    if not any(fl & (F_DONT_DEDUP | F_DONT_HASH) for _, fl, _ in sc["files"]):
        # the lookup key is (bytes, DONT_COMPRESS) since fcd11e4: each distinct pair is stored exactly once
        tails = {(sc["files"][k][0][len(sc["files"][k][0]) - len(sc["files"][k][0]) % B:], sc["files"][k][1] & F_DONT_COMPRESS)
                 for k in range(len(sc["files"])) if has_fragment(sc, k)}
        stored = sum(len(v) for v in res["fb"].values() if v is not None)
        if stored != sum(len(t) for t, _ in tails):
            problems.append(("spec", "fragment blocks hold %d bytes but the distinct (tail end, dont_compress) pairs total %d: equal fragments stored twice or lost" % (
                stored, sum(len(t) for t, _ in tails))))
        stats["bp_max_distinct_tails"] = max(stats["bp_max_distinct_tails"], len(tails))
    # (3) the hypotheses `wf` / `wfS` of the block-writer theorems are facts about the block processor's call stream, and the
    #     conclusions are facts about its output: the Lean predicates evaluated on what the implementation did
    calls = [t for t in res["events"] if t[0] == "W"]
    if "mon" in parts:
        a, n, _ = parts["mon"]
        names = ["wf", "wfS", "readbackOk", "holdsAll", "fragBlocksOk", "shareCompleteOk"]
        vals = model[a + n - 1].split()
        if vals[0] != "mon" or len(vals) != 7:
            raise vlib.CheckFailure("monitor answered '%s'" % model[a + n - 1])
        failed = [nm for nm, v in zip_eq("mon", names, vals[1:]) if v != "1"]
        stats["bp_monitor_evals"] += 1
        if set(failed) & {"wf", "wfS"}:
            problems.append(("corr", "the write_data_block call stream of the block processor violates the protocol assumed by the block-writer "
                                     "theorems (%s): %s" % (", ".join(failed), "LAST without FIRST" if "wf" in failed else
                                                            "a fragment block is written between a FIRST and its LAST")))
        if set(failed) - {"wf", "wfS"}:
            problems.append(("spec", "Lean specification predicate(s) %s fail on the implementation's call stream and output" % failed))
    else:
        problems.append(("spec", "write_data_block failed: %s" % [" ".join(t[4:]) for t in calls if t[4] != "ok"][:2]))
    # (4) block-writer model on the implementation's own call trace
    a, n, _ = parts["bw"]
    mb = model[a:a + n]
    for t, m in zip_eq("bw replay", calls, mb[1:-1]):
        impl = " ".join(t[4:])
        if impl != m:
            problems.append(("corr", "write_data_block(%s %s %s): impl '%s' model '%s'" % (t[1], t[2], t[3][:40], impl, m)))
            break
    if mb[-1] != "file " + tok(res["file"]):
        problems.append(("corr", "final output bytes differ from the block-writer model"))
    # (5) fragment model on the implementation's event order
    nfrag = 0
    if "fd" not in parts:
        problems.append(("corr", "fragment events do not line up with the submitted files: " + str(parts["fd_err"])))
    else:
        a, n, fd = parts["fd"]
        nfrag = sum(1 for m in fd[1] if m[0] == "frag")
        for (l, me, m) in zip_eq("fd replay", fd[0], fd[1], model[a:a + n]):
            if me[0] == "frag":
                ino = res["inodes"][me[1]]
                want = "loc %d %d" % ino["frag"]
                if m != want:
                    problems.append(("corr", "fragment of file %d: impl '%s' model '%s'" % (me[1], want, m)))
                    break
            elif me[0] == "read":
                fb = res["fb"].get(me[1])
                if m != "read " + tok(fb or b""):
                    problems.append(("corr", "fragment block %d: impl %s model %s" % (me[1], tok(fb or b"")[:60], m[:60])))
                    break
            elif m != "ok":
                problems.append(("corr", "model refuses event '%s': %s" % (l, m)))
                break
    # (6) the call-stream model (front end, worker, pool order, I/O sequence numbers, fragment path and block writer wired
    #     together) on the implementation's own schedule
    if "st" not in parts:
        problems.append(("corr", "pool events do not line up: " + str(parts["st_err"])))
    else:
        a, n, stc = parts["st"]
        d = st_compare(sc, res, stc[0], stc[1], model[a:a + n])
        if d is not None:
            problems.append(("corr", "call-stream model: " + d))
        stats["bp_stream_events"] += sum(1 for l in stc[0] if l in ("st-submit", "st-dequeue", "st-complete", "st-finish"))
        stats["bp_stream_scripts"] += 1
        # a fragment block that went to the pool while data blocks submitted *before* it were still waiting there: its
        # I/O sequence number (taken when it was closed) differs from its position in the pool
        ev = [t[0] for t in res["events"] if t[0] in ("S", "SC", "SF", "D")]
        depth = 0
        for x in ev:
            if x == "SC" and depth > 0:
                stats["bp_fragblock_overtakes"] += 1
            depth += -1 if x == "D" else 1
    # statistics
    if any(t[0] == "E" and t[5] == "0" for t in res["events"]):
        stats["bp_collision_scripts"] += 1       # a (size, checksum) match between different contents was resolved by bytes
    for t in res["events"]:
        if t[0] == "E":
            stats["cmp_%s_%s" % (t[4], "equal" if t[5] == "1" else "differ")] += 1
        elif t[0] == "T":
            stats["bp_truncates"] += 1
    stats["bp_scripts"] += 1
    stats["bp_zero_nosparse_tails"] += sum(1 for k in range(len(sc["files"])) if has_fragment(sc, k) and sc["files"][k][1] & F_IGNORE_SPARSE
                                           and not any(sc["files"][k][0][len(sc["files"][k][0]) - len(sc["files"][k][0]) % B:]))
    stats["bp_dont_compress_tails"] += sum(1 for k in range(len(sc["files"])) if has_fragment(sc, k) and sc["files"][k][1] & F_DONT_COMPRESS)
    if stats["bp_scripts"] in (5, 300):
        ctx.c08_samples.append({"kind": "bp", "config": {k: sc[k] for k in ("B", "codec", "workers", "backlog", "hashbits")},
                                "files": len(sc["files"]), "events": [" ".join(t)[:60] for t in res["events"][:10]],
                                "inodes": {k: v for k, v in list(res["inodes"].items())[:4]}})
    stats["bp_files"] += len(sc["files"])
    stats["bp_writes"] += len(calls)
    stats["bp_fragments"] += nfrag
    return problems


def split_outputs(lines):
    """split the harness output of several scripts at the `end` lines"""
    outs, cur = [], []
    for l in lines:
        cur.append(l)
        if l.startswith("end "):
            outs.append(cur)
            cur = []
    return outs, cur


def sc_to_json(sc):
    d = dict(sc)
    d["pre"] = tok(sc["pre"])
    d["files"] = [[tok(a), b, c] for a, b, c in sc["files"]]
    return d


def sc_from_json(d):
    d = dict(d)
    d["pre"] = untok(d["pre"])
    d["files"] = [(untok(a), b, c) for a, b, c in d["files"]]
    return d


def bp_packing_ok(sc, res):
    nops = len(bp_script_lines(sc)) - 1
    if res["end"] != 0 or any(o != "ok" for o in res["ops"]) or len(res["ops"]) != nops:
        return "packing failed: ops=%s end=%s" % ([o for o in res["ops"] if o != "ok"][:3], res["end"])
    if res["rderr"]:
        return "data reader could not be set up: " + res["rderr"]
    if res["file"] is None or sorted(res["inodes"]) != list(range(len(sc["files"]))) or any(v is None for v in res["inodes"].values()):
        return "incomplete dump (file / inodes missing)"
    return None


def bp_eval_batch(ctx, batch, outs, stats):
    """[(script, name, problems)] for the scripts of one harness run; one call of the model driver for all of them"""
    parsed, mlines, mparts = [], [], []
    for (sc, name), out in zip_eq("bp batch", batch, outs):
        res = parse_bp_output(out)
        bad = bp_packing_ok(sc, res)
        parsed.append((res, bad))
        if bad is None:
            ls, parts = bp_model_script(sc, res)
            mparts.append((len(mlines), parts))
            mlines += ls
        else:
            mparts.append(None)
    model = drv(ctx, mlines, "bp batch")
    result = []
    for (sc, name), (res, bad), mp in zip_eq("bp results", batch, parsed, mparts):
        if bad is not None:
            problems = [("spec", bad)]
        else:
            off, parts = mp
            shifted = {k: ((v[0] + off, v[1], v[2]) if isinstance(v, tuple) else v) for k, v in parts.items()}
            problems = check_bp_one(ctx, sc, res, model, shifted, stats, name)
        result.append((sc, name, problems))
    return result


def check_bp(ctx, harness, n_scripts, stats, serial_harness=None):
    scripts = []
    cdir = vlib.CORPUS / "C08"
    for p in sorted(cdir.glob("bp-*.json")):
        scripts.append((sc_from_json(json.loads(p.read_text())), "corpus:" + p.name))
    for i in range(n_scripts):
        scripts.append((gen_bp_script(ctx.rng, big=(i % 25 == 24), many_tails=(i % 80 == 79)), "gen:%d" % i))
    BATCH = 100
    for b0 in range(0, len(scripts), BATCH):
        batch = scripts[b0:b0 + BATCH]
        text = "\n".join(l for sc, _ in batch for l in bp_script_lines(sc)) + "\n"
        use = harness
        if serial_harness is not None and (b0 // BATCH) % 4 == 3:
            use = serial_harness            # same scripts' class on the serial pool (threadpool_serial.c)
            stats["bp_serial_pool_scripts"] += len(batch)
        lines, rc, err = run_harness(ctx, use, text, timeout=900)
        outs, rest = split_outputs(lines or [])
        if rc != 0 or len(outs) != len(batch):
            sc, name = batch[min(len(outs), len(batch) - 1)]
            ctx.violation("bp-crash:" + vlib.sha(json.dumps(bp_script_lines(sc)))[:12],
                          "real block processor aborted (rc=%s) in script %s: %s" % (rc, name, (err or "")[-600:]),
                          {"mode": "bp", "script": sc_to_json(sc), "stderr": err, "partial": rest[-20:]})
            outs = outs[:len(batch)]
            batch = batch[:len(outs)]
        for sc, name, problems in bp_eval_batch(ctx, batch, outs, stats):
            if not problems:
                continue
            spec = [m for k, m in problems if k == "spec"]
            corr = [m for k, m in problems if k == "corr"]
            lines_sc = bp_script_lines(sc)
            key = vlib.sha(json.dumps(lines_sc))[:12]
            if spec:
                ctx.violation("bp-readback:" + key, "block processor (%s): %s" % (name, "; ".join(spec[:3])),
                              {"mode": "bp", "script": sc_to_json(sc), "problems": spec + corr})
            else:
                stats["disagreements"] += 1
                ctx.violation("bp-corr:" + key, "block processor and model disagree (%s) while every file reads back: %s" % (name, "; ".join(corr[:3])),
                              {"mode": "bp", "script": sc_to_json(sc), "problems": corr}, found_input=False)


# ------------------------------------------------------------------------------------------------ 3. tools
def build_weak_tools(ctx, serial=False):
    """gensquashfs / rdsquashfs / tar2sqfs / sqfs2tar from the working tree, linked with harness/weak_xxh.c instead of
    the library's xxh32 (width taken from $VERIF_XXH_BITS at run time)"""
    tag = "c08ser" if serial else "c08lib"
    ctx.build_lib(tag, exclude=("lib/util/src/xxhash.c",), serial_pool=serial)
    obj = ctx.scratch / tag / "weak_xxh.o"
    if not obj.exists():
        cmd = ["gcc", "-O1", "-g", "-w", "-c"] + vlib.SAN + vlib.include_flags() + vlib.BASE_DEFS + [str(vlib.HARNESS / "weak_xxh.c"), "-o", str(obj)]
        r = vlib.sh(cmd)
        if r.returncode != 0:
            raise vlib.CheckFailure("cannot compile weak_xxh.c: " + r.stderr[-2000:])
    return {t: ctx.build_tool(t, tag=tag, serial_pool=serial, extra_objs=[str(obj)]) for t in ("gensquashfs", "rdsquashfs", "tar2sqfs", "sqfs2tar")}


def gen_tree(rng, B):
    """{name: bytes}: few distinct full blocks (compressible two-run blocks of equal compressed size, random blocks, zero
    blocks), few tail sizes with many distinct contents, exact duplicates, prefixes and extensions of other files"""
    blocks = []
    for _ in range(rng.randint(2, 6)):
        r = rng.random()
        if r < 0.4:
            k = rng.randrange(1, B)
            blocks.append(bytes([rng.randrange(256)]) * k + bytes([rng.randrange(256)]) * (B - k))
        elif r < 0.5:
            blocks.append(bytes(B))
        else:
            blocks.append(rng.randbytes(B))
    tsizes = [rng.randrange(1, B) for _ in range(rng.randint(1, 3))]
    tails = []
    for _ in range(rng.randint(2, 12)):
        n = rng.choice(tsizes)
        tails.append(bytes(n) if rng.random() < 0.06 else (rng.randbytes(n) if rng.random() < 0.5 else bytes([rng.randrange(1, 256)]) * (n - 1) + bytes([rng.randrange(256)])))
    files = {}
    n = rng.randint(8, 60)
    for k in range(n):
        if files and rng.random() < 0.3:
            data = rng.choice(list(files.values()))
            r = rng.random()
            if r < 0.2 and len(data) > B:
                data = data[:B * rng.randint(1, len(data) // B)]
            elif r < 0.35:
                data = data + rng.choice(blocks)
        else:
            data = b"".join(rng.choice(blocks) for _ in range(rng.choice([0, 0, 1, 1, 2, 3, 5])))
            if rng.random() < 0.85:
                data += rng.choice(tails)
        files["d%d/f%03d" % (k % 3, k)] = data
    return files


def parse_stat(text):
    out = {}
    for l in text.splitlines():
        if ":" in l:
            a, b = l.split(":", 1)
            out[a.strip()] = b.strip()
    return out


def check_tools(ctx, stats, nruns):
    import tarfile, io, hashlib
    tools = build_weak_tools(ctx)
    serial = build_weak_tools(ctx, serial=True) if not ctx.quick() else None
    base = ctx.scratch / "e2e"
    base.mkdir(exist_ok=True)
    comps = ["gzip", "xz", "lzma", "lz4", "zstd"]
    for run_i in range(nruns):
        rng = ctx.rng
        B = rng.choice([4096, 4096, 8192, 131072]) if not ctx.quick() else rng.choice([4096, 8192])
        files = gen_tree(rng, B)
        tdir = base / ("t%d" % run_i)
        for name, data in files.items():
            (tdir / name).parent.mkdir(parents=True, exist_ok=True)
            (tdir / name).write_bytes(data)
        comp = rng.choice(comps)
        ref_sha = None
        configs = [(32, 1)] + [(rng.choice([0, 1, 2, 4, 8]), rng.choice([1, 2, 4, 8, 16])) for _ in range(2 if ctx.quick() else 4)]
        for ci, (bits, jobs) in enumerate(configs):
            tset = tools
            if serial is not None and ci == len(configs) - 1:
                tset = serial
            img = base / ("i%d_%d.sqfs" % (run_i, ci))
            env = ctx.san_env({"VERIF_XXH_BITS": str(bits)})
            cmd = [str(tset["gensquashfs"]), "-D", str(tdir), "-c", comp, "-b", str(B), "-j", str(jobs), "-q", "-f", str(img)]
            replay = {"mode": "tools", "seed": ctx.seed, "run": run_i, "cmd": cmd[1:], "xxh_bits": bits, "block_size": B,
                      "files": {k: tok(v) for k, v in files.items()} if sum(map(len, files.values())) < 200000 else "see seed"}
            r = vlib.sh(cmd, env=env, timeout=300)
            stats["tool_runs"] += 1
            if r.returncode != 0:
                ctx.violation("tools-pack:%d:%d:%d" % (ctx.seed, run_i, ci), "gensquashfs (xxh %d bits, -j %d, %s) failed with exit %d: %s" % (
                    bits, jobs, comp, r.returncode, r.stderr[-400:]), replay)
                continue
            sha_img = hashlib.sha256(img.read_bytes()).hexdigest()
            if ref_sha is None:
                ref_sha = sha_img
            elif sha_img != ref_sha:
                # by bw_share_sound/complete and frag_sound/share the decisions depend on the bytes only
                ctx.violation("tools-image:%d:%d:%d" % (ctx.seed, run_i, ci), "image built with a %d-bit checksum (-j %d) differs from the one built with the 32-bit checksum" % (bits, jobs), replay)
            out = base / ("o%d_%d" % (run_i, ci))
            r = vlib.sh([str(tset["rdsquashfs"]), "-u", "/", "-p", str(out), "-q", str(img)], env=env, timeout=300)
            stats["tool_runs"] += 1
            bad = []
            if r.returncode != 0:
                bad.append("rdsquashfs -u exit %d: %s" % (r.returncode, r.stderr[-300:]))
            else:
                for name, data in files.items():
                    pth = out / name
                    got = pth.read_bytes() if pth.exists() else None
                    stats["tool_files"] += 1
                    if got != data:
                        bad.append("%s: unpacked %s bytes, differs from the %d-byte input" % (name, "no" if got is None else len(got), len(data)))
            # cat a few through the other read path, and look at the sharing recorded in the inodes
            names = sorted(files)
            for name in rng.sample(names, min(4, len(names))):
                r = vlib.sh([str(tset["rdsquashfs"]), "-c", "/" + name, str(img)], env=env, timeout=120, text=False)
                if r.returncode != 0 or r.stdout != files[name]:
                    bad.append("%s: rdsquashfs -c gives %d bytes (exit %d)" % (name, len(r.stdout), r.returncode))
            if ci == 1:
                seen = {}
                for name in names:
                    data = files[name]
                    if data in seen and len(data) > 0:
                        a = parse_stat(vlib.sh([str(tset["rdsquashfs"]), "-s", "/" + name, str(img)], env=env).stdout)
                        b = parse_stat(vlib.sh([str(tset["rdsquashfs"]), "-s", "/" + seen[data], str(img)], env=env).stdout)
                        keys = ["Fragment index", "Fragment offset", "Blocks start", "Block count"]
                        if [a.get(k) for k in keys] != [b.get(k) for k in keys]:
                            bad.append("%s and %s are identical but do not share storage: %s vs %s" % (name, seen[data], [a.get(k) for k in keys], [b.get(k) for k in keys]))
                        stats["tool_shared_pairs"] += 1
                    seen.setdefault(data, name)
            if bad:
                ctx.violation("tools-readback:%d:%d:%d" % (ctx.seed, run_i, ci), "pack → unpack with a %d-bit checksum (-j %d, %s, -b %d): %s" % (
                    bits, jobs, comp, B, "; ".join(bad[:3])), dict(replay, problems=bad))
            import shutil
            shutil.rmtree(out, ignore_errors=True)
            img.unlink(missing_ok=True)
        # tar2sqfs → sqfs2tar with a weak checksum
        tarp = base / ("t%d.tar" % run_i)
        with tarfile.open(tarp, "w", format=tarfile.GNU_FORMAT) as tf:
            for name in sorted(files):
                ti = tarfile.TarInfo(name); ti.size = len(files[name]); ti.mode = 0o644
                tf.addfile(ti, io.BytesIO(files[name]))
        bits = rng.choice([0, 2, 4])
        env = ctx.san_env({"VERIF_XXH_BITS": str(bits)})
        img = base / ("tar%d.sqfs" % run_i)
        with open(tarp, "rb") as f:
            r = vlib.sh([str(tools["tar2sqfs"]), "-c", comp, "-b", str(B), "-j", str(rng.choice([1, 3, 8])), "-q", "-f", str(img)], stdin=f, env=env, timeout=300)
        stats["tool_runs"] += 1
        bad = []
        if r.returncode != 0:
            bad.append("tar2sqfs exit %d: %s" % (r.returncode, r.stderr[-300:]))
        else:
            r = vlib.sh([str(tools["sqfs2tar"]), str(img)], env=env, timeout=300, text=False)
            stats["tool_runs"] += 1
            if r.returncode != 0:
                bad.append("sqfs2tar exit %d" % r.returncode)
            else:
                got = {}
                with tarfile.open(fileobj=io.BytesIO(r.stdout)) as tf:
                    for m in tf.getmembers():
                        if m.isfile():
                            got[m.name.lstrip("./")] = tf.extractfile(m).read()
                for name, data in files.items():
                    if got.get(name) != data:
                        bad.append("%s differs after tar2sqfs → sqfs2tar" % name)
        if bad:
            ctx.violation("tools-tar:%d:%d" % (ctx.seed, run_i), "tar2sqfs → sqfs2tar with a %d-bit checksum: %s" % (bits, "; ".join(bad[:3])),
                          {"mode": "tools", "seed": ctx.seed, "run": run_i, "xxh_bits": bits, "problems": bad})
        import shutil
        shutil.rmtree(tdir, ignore_errors=True)
        tarp.unlink(missing_ok=True)
        img.unlink(missing_ok=True)


def check_sensitivity(ctx, harness, stats, n=60):
    """How sharp is the instrument?  The same kind of scripts with the byte comparison switched off by *configuration*
    (file/uncmp = NULL: the documented "size and hash alone" mode) must make the read-back oracle fail often under a
    <=2-bit checksum.  Measured on every run and recorded; not a violation (documented opt-out the tools do not use)."""
    scripts = []
    for _ in range(n):
        sc = gen_bp_script(ctx.rng)
        sc["hashbits"] = ctx.rng.choice([0, 1, 2])
        scripts.append(sc)
    text = "\n".join(l for sc in scripts for l in bp_script_lines(sc, nofile=1)) + "\n"
    lines, rc, err = run_harness(ctx, harness, text, timeout=600)
    outs, _ = split_outputs(lines or [])
    if rc != 0 or len(outs) != len(scripts):
        raise vlib.CheckFailure("sensitivity probe: harness exit %s, %d of %d scripts answered: %s" % (rc, len(outs), len(scripts), (err or "")[-300:]))
    wrong = 0
    for sc, out in zip_eq("sensitivity", scripts, outs):
        res = parse_bp_output(out)
        if res["end"] != 0 or res["file"] is None:
            continue
        if any(raw_readback(sc, res, k) != sc["files"][k][0] for k in range(len(sc["files"]))):
            wrong += 1
    stats["sensitivity_scripts"] = len(outs)
    stats["sensitivity_scripts_with_wrong_data_when_hash_only"] = wrong
    if wrong == 0:
        # the instrument is blind: the generated inputs no longer collide (or the probe no longer disables the comparison)
        raise vlib.CheckFailure("sensitivity probe: none of %d scripts reads back wrongly with the byte comparison configured off under a "
                                "<=2-bit checksum — the generated inputs have lost their collisions" % len(scripts))


def n_bw(ctx):
    return 3000 if ctx.quick() else 30000


def n_bp(ctx):
    return 800 if ctx.quick() else 8000


def n_bw_big(ctx):
    return 40 if ctx.quick() else 400


def n_bw_long(ctx):
    return 6 if ctx.quick() else 60


def gen_only(ctx):
    """advance ctx.rng exactly as run() does before the tools phase"""
    for i in range(n_bw(ctx)):
        gen_bw_script(ctx.rng, small=ctx.quick() or i % 4 != 0)
        if i % 10 == 9:
            if ctx.rng.random() < 0.8:
                ctx.rng.choice([0, 1, 3, 7, 20, 60])
            else:
                ctx.rng.choice([1, 2, 5]); ctx.rng.randrange(100)
    for i in range(n_bw_big(ctx)):
        gen_bw_big_script(ctx.rng)
    for i in range(n_bw_long(ctx)):
        gen_bw_long_script(ctx.rng)
    for i in range(n_bp(ctx)):
        gen_bp_script(ctx.rng, big=(i % 25 == 24), many_tails=(i % 80 == 79))
    for _ in range(60):
        gen_bp_script(ctx.rng); ctx.rng.choice([0, 1, 2])


def run(ctx):
    ok, problems = vlib.proof_gate(ctx, MODULE, REQUIRED)
    if not ok:
        ctx.violation("proof:C08", "proof obligations of C08 no longer check: " + " | ".join(problems)[:1500],
                      {"broken": problems, "theorems_file": "lean/Sqfs/Props/C08.lean"}, found_input=False)
    harness = build_harness(ctx)
    from collections import defaultdict
    stats = defaultdict(int)
    ctx.c08_samples = stats_samples = []
    check_bw(ctx, harness, n_bw(ctx), stats)
    check_bp(ctx, harness, n_bp(ctx), stats, serial_harness=None if ctx.quick() else build_harness(ctx, serial=True))
    check_sensitivity(ctx, harness, stats)
    # fingerprint of the generator state before the tools phase: `replay` of a tools violation re-creates it with gen_only()
    stats["rng_before_tools"] = int(vlib.sha(repr(ctx.rng.getstate()))[:8], 16)
    check_tools(ctx, stats, 4 if ctx.quick() else 40)
    # a part of the check that evaluated nothing is a failure of the check, never a pass
    if not ctx.violations:
        for k in ("bw_scripts", "bw_calls", "bw_spec_scripts", "bw_monitor_evals", "bw_truncating_scripts", "bw_multichunk_scripts",
                  "bw_long_history_scripts", "bw_4gib_scripts", "bw_fragment_block_calls", "bp_scripts", "bp_writes", "bp_fragments",
                  "bp_monitor_evals", "bp_stream_scripts", "bp_stream_events", "bp_collision_scripts", "bp_shared_files", "bp_truncates",
                  "bp_fragblock_overtakes", "tool_runs", "tool_files", "sensitivity_scripts"):
            if stats[k] <= 0:
                raise vlib.CheckFailure("part of the check evaluated nothing: %s = %d" % (k, stats[k]))
        for place in ("flight", "open", "cache", "disk"):
            if stats["cmp_%s_equal" % place] + stats["cmp_%s_differ" % place] <= 0:
                raise vlib.CheckFailure("no fragment comparison read its bytes from '%s' in this run" % place)
        if stats["bw_max_history"] <= 128:
            raise vlib.CheckFailure("no block-writer history grew beyond INIT_BLOCK_COUNT (max %d)" % stats["bw_max_history"])
        if stats["bp_max_distinct_tails"] <= 32:
            raise vlib.CheckFailure("no fragment hash table grew beyond 32 entries (max %d distinct tail ends)" % stats["bp_max_distinct_tails"])
    ctx.cov.update({
        "evaluations": stats["bw_calls"] + stats["bp_writes"] + stats["bp_fragments"],
        "distinct_nontrivial": stats["bw_truncating_scripts"] + stats["bp_collision_scripts"],
        "rule": "bw: generated write_data_block sequences against the real block_writer.c (1..14 files of 1..6 blocks, sizes from a "
                "1..3-element set, 1..3-letter alphabet, 0..3-bit checksums honest or arbitrary, 55% repeated blocks, 45% files derived "
                "from an earlier file by prefix/extension/one flipped bit, sparse blocks, sentinels, fragment blocks between files; every "
                "tenth script at file offsets around 4 GiB through the harness' virtual base), plus multi-chunk scripts (1..3 blocks of "
                "4095..9000 bytes, one checksum, differences only behind the first 4096-byte chunk) and long-history scripts (150..400 "
                "stored blocks). bp: files through the real block processor + hash table + thread pool linked with xxh32 truncated to "
                "0..8 bits (block size 8..64 and 4096; toy RLE / gzip / none; 1..4 workers; backlog 3..30; 1..40 files from <=5 distinct "
                "blocks and <=8 tails of <=3 sizes; DONT_FRAGMENT/DONT_DEDUPLICATE/DONT_COMPRESS/DONT_HASH/IGNORE_SPARSE, incl. all-zero "
                "nosparse tails and dont_compress twins of compressible tails; every 80th script 40..300 distinct tails + duplicates), the "
                "whole main-thread event order (pool submit / dequeue / write_data_block) replayed into the composed Lean model. tools: "
                "gensquashfs/rdsquashfs/tar2sqfs/sqfs2tar with 0..8-bit checksum, gzip/xz/lz4/zstd, -b 4096..131072, -j 1..16. "
                "non-trivial = bw script in which a LAST call truncated the output (deduplication hit) + bp script in "
                "which a (size, checksum) match between different contents was decided by the byte comparison",
        "input_distribution": {"fragment_comparisons_by_place_and_answer": {k[4:]: v for k, v in stats.items() if k.startswith("cmp_")}},
        "stats": dict(stats),
        "disagreements_checked": stats["disagreements"],
        "samples": stats_samples,
    })
    return ctx.finish(LEVEL, trusted_extra=[
        "modelled: lib/sqfs/src/block_writer.c, lib/util/src/file_cmp.c, the sqfs_file_t contract of lib/sqfs/src/io/file.c (POSIX branch); "
        "lib/sqfs/src/block_processor/{frontend.c, backend.c, block_processor.c}: front end, process_block, I/O sequence numbers, release "
        "loop, process_completed_block, process_completed_fragment / chunk_info_equals / load_frag_block / fblk_in_flight; "
        "the 64-bit history word as its two 32-bit halves; offsets and sizes as naturals; hash_table.c as a list (order shown immaterial "
        "by frag_lookup_unique); the pool as a FIFO (threadpool.h contract, C09); the schedule of the main thread as an input",
        "harness/weak_xxh.c (the checksum hook the property prescribes), harness/h_c08.c (in-memory sqfs_file_t with a virtual base, "
        "logging wrappers around the real block writer and the real thread pool, link-time --wrap of the two hash-table entry points), "
        "the Python read-back oracle"],
        assumptions=[
            "codec contracts unc(cmp x) = x and |cmp x| <= block size for gzip/xz/lz4/zstd (hypotheses `Codec.RoundTrip` / `Fits`; proved "
            "for the toy codec, exercised for the real ones by the read-back runs)",
            "block-writer theorems assume the protocol `wf` / `wfS` of the call stream and blocks < 2^24 bytes; both are proved of the "
            "composed model's call stream for every schedule (stream_wfS) and evaluated (Lean predicates) on every logged call stream "
            "of the real block processor",
            "the composed model fails only by refusing a schedule (stream_no_error); that the real schedule is an admitted one is "
            "checked on every run (the model accepts the real event order)",
            "fragment theorems assume non-empty fragments (proved of the composed model: the front end only submits tail ends of "
            "size % block_size > 0 bytes)",
            "the 4 GiB-offset scripts compare the real writer (virtual base of zero bytes) with the model run at offset 0, shifted: "
            "justified by bw_translate (translation invariance of the model)"])


def replay(ctx, path):
    from collections import defaultdict
    body = json.loads(open(path).read())
    rp = body.get("replay", {})
    mode = rp.get("mode")
    if mode not in ("bw", "bp", "tools"):
        print("replay file names a broken obligation, no input to replay:", json.dumps(rp)[:500])
        return 1
    ctx.lean_build(["sqfsmodel"])
    if mode == "bw":
        harness = build_harness(ctx)
        text = "\n".join(rp["lines"]) + "\n"
        impl, rc, err = run_harness(ctx, harness, text)
        print("impl :", [l[:200] for l in impl or []], "rc", rc, err[-500:] if err else "")
        init = rp["lines"][0].split()
        base = int(init[3]) if len(init) == 4 else 0
        model = drv(ctx, [" ".join(init[:3])] + rp["lines"][1:], "replay")
        print("model:", [l[:200] for l in model])
        calls = []
        for l in rp["lines"][1:-1]:
            _, c, f, b = l.split()
            calls.append((int(c, 16), int(f, 16), untok(b)))
        if not impl or rc != 0 or len(impl) != len(rp["lines"]):
            print("real block writer crashed or answered short")
            return 1
        impl = shift_base(impl, base)
        final = untok(impl[-1].split()[1]) if impl[-1].startswith("file ") else b""
        bad = bw_oracle(calls, impl[1:-1], final)
        print("read-back problems:", bad)
        return 1 if bad or impl != model else 0
    if mode == "bp":
        harness = build_harness(ctx)
        sc = sc_from_json(rp["script"])
        lines, rc, err = run_harness(ctx, harness, "\n".join(bp_script_lines(sc)) + "\n")
        print("\n".join(lines or []))
        if rc != 0:
            print("harness exit", rc, err[-1500:])
            return 1
        outs, _ = split_outputs(lines or [])
        if len(outs) != 1:
            print("harness did not finish the script")
            return 1
        ctx.c08_samples = []
        (_, _, problems), = bp_eval_batch(ctx, [(sc, "replay")], outs, defaultdict(int))
        for k, m in problems:
            print(k.upper(), m)
        return 1 if problems else 0
    # tools: the run is identified by (seed, tier, run index); re-run that tier's tool runs with the recorded seed
    ctx2 = vlib.Ctx("C08", body.get("tier", "quick"), seed=body.get("seed", 0))
    stats = defaultdict(int)
    # consume the same random numbers as run() did before the tools phase
    gen_only(ctx2)
    check_tools(ctx2, stats, 4 if ctx2.quick() else 40)
    for v in ctx2.violations:
        print(v["what"])
    return 1 if ctx2.violations else 0
