"""
C08 — deduplication never changes data, even when checksums collide.

Proof: lean/Sqfs/Props/C08.lean (block writer: read-back / sharing soundness / sharing completeness for every
sequence of write_data_block calls and every checksum value; fragment side: every (index, offset) handed out
addresses the fragment's bytes, for every checksum function and every codec with unc∘cmp = id).

Tie (this file):
 1. `bw`  — the real block_writer.c + file_cmp.c driven call by call with generated (checksum, flags, data)
            sequences in which checksums and sizes collide by construction; locations, file size, history length
            and the final bytes are diffed with `sqfsmodel c08`; the read-back oracle is evaluated on the
            implementation's own file.
 2. `bp`  — the real block processor (frontend/backend/block_processor/hash_table + thread pool) linked with
            harness/weak_xxh.c (xxh32 truncated to 0..8 bits), toy RLE codec / gzip / none, block sizes 8..64 and
            4096: every write_data_block call it makes is logged and replayed into the block-writer model; the
            fragment decisions are diffed with the fragment model; every file is read back by the real
            sqfs_data_reader_t and, independently, by raw offsets from the inode fields in Python.
 3. tools — gensquashfs / rdsquashfs / tar2sqfs / sqfs2tar built with the weak checksum: pack → cat/unpack →
            byte compare at several -j.
"""
import json, os, subprocess, zlib
import vlib

LEVEL = "proof"
MODULE = "Sqfs.Props.C08"
REQUIRED = ["Sqfs.C08.bw_no_error", "Sqfs.C08.bw_readback", "Sqfs.C08.bw_share_sound", "Sqfs.C08.bw_share_complete",
            "Sqfs.C08.frag_no_error", "Sqfs.C08.frag_sound", "Sqfs.C08.frag_share"]

F_DONT_COMPRESS, F_DONT_HASH, F_DONT_FRAGMENT, F_DONT_DEDUP, F_IGNORE_SPARSE = 1, 2, 4, 8, 0x10
F_SPARSE, F_FIRST, F_LAST, F_IS_FRAGMENT, F_FRAGBLK, F_COMPRESSED = 0x400, 0x800, 0x1000, 0x2000, 0x4000, 0x8000


def tok(b):
    return bytes(b).hex() if b else "-"


def untok(t):
    return b"" if t == "-" else bytes.fromhex(t)


# ------------------------------------------------------------------------------------------------ builds
def build_harness(ctx):
    lib = ctx.build_lib("c08lib", exclude=("lib/util/src/xxhash.c",))
    return ctx.cc("h_c08", ["h_c08.c", "weak_xxh.c", str(lib)],
                  libs=["-Wl,--wrap=hash_table_search_pre_hashed", "-Wl,--wrap=hash_table_insert_pre_hashed"] + vlib.CODEC_LIBS)


def run_harness(ctx, harness, text, timeout=600):
    try:
        r = vlib.sh([str(harness)], input=text, env=ctx.san_env(), timeout=timeout)
    except subprocess.TimeoutExpired:
        return None, "timeout", ""
    return r.stdout.splitlines(), r.returncode, r.stderr[-3000:]


# ------------------------------------------------------------------------------------------------ 1. bw scripts
def gen_bw_script(rng, small=True):
    """a sequence of write_data_block calls: files (FIRST … LAST) interleaved with flag-less blocks
    (= fragment blocks); tiny alphabets for sizes, contents and checksums so that (size, checksum) collisions
    between different contents, equal files, overlapping runs (AAA after A) and partial matches are the norm"""
    nfiles = rng.randint(1, 14)
    sizes = rng.sample([1, 2, 3, 4, 5, 7, 8], rng.randint(1, 3))
    alpha = rng.sample(range(1, 256), rng.randint(1, 3))
    chkbits = rng.choice([0, 0, 1, 1, 2, 3])
    honest = rng.random() < 0.6          # checksum is a function of the data (as in the library) or arbitrary
    pool = []                            # block contents used so far (to repeat)
    big = (not small) and rng.random() < 0.15

    def block():
        if pool and rng.random() < 0.55:
            return rng.choice(pool)
        n = rng.choice(sizes)
        if big and rng.random() < 0.3:
            n = rng.choice([4095, 4096, 4097, 8192, 8193, 9000])
            b = bytes([rng.choice(alpha)]) * (n - 1) + bytes([rng.choice(alpha)])
        else:
            b = bytes(rng.choice(alpha) for _ in range(n))
        pool.append(b)
        return b

    def chk(b):
        if honest:
            return zlib.crc32(b) & ((1 << chkbits) - 1)
        return rng.getrandbits(chkbits) if chkbits else 0

    calls = []
    prev_files = []
    pre = bytes(rng.getrandbits(8) for _ in range(rng.choice([0, 0, 1, 5, 96])))
    for _ in range(nfiles):
        if rng.random() < 0.25:         # a fragment block between files: no FIRST/LAST
            b = block()
            calls.append((chk(b), (F_FRAGBLK | (F_COMPRESSED if rng.random() < 0.3 else 0)), b))
            continue
        if prev_files and rng.random() < 0.45:
            blocks = list(rng.choice(prev_files))
            r = rng.random()
            if r < 0.2 and len(blocks) > 1:
                blocks = blocks[:rng.randint(1, len(blocks) - 1)]
            elif r < 0.4:
                blocks = blocks + [blocks[-1]] * rng.randint(1, 2)
            elif r < 0.5:
                k = rng.randrange(len(blocks))
                b = bytearray(blocks[k][1]); b[rng.randrange(len(b))] ^= 1 << rng.randrange(8)
                blocks[k] = (blocks[k][0], bytes(b), blocks[k][2])       # same checksum, different bytes
        else:
            nb = rng.choice([1, 1, 2, 2, 3, 4, 6])
            blocks = []
            for _ in range(nb):
                b = block()
                blocks.append((chk(b), b, rng.random() < 0.25))           # (chk, data, compressed)
        prev_files.append(blocks)
        fflags = F_DONT_DEDUP if rng.random() < 0.1 else 0
        items = []
        for (c, b, comp) in blocks:
            r = rng.random()
            if r < 0.08:
                items.append((0, F_SPARSE, b))                            # sparse: not stored
            items.append((c, F_COMPRESSED if comp else 0, b))
        if rng.random() < 0.5:
            items.append((0, 0, b""))                                     # sentinel
        for k, (c, fl, b) in enumerate(items):
            fl |= fflags
            if k == 0:
                fl |= F_FIRST
            if k == len(items) - 1:
                fl |= F_LAST
            calls.append((c, fl, b))
    return pre, calls


def bw_script_lines(pre, calls, wrflags=0):
    lines = ["bw-init %s %d" % (tok(pre), wrflags)]
    for (c, fl, b) in calls:
        lines.append("bw-write %08x %x %s" % (c, fl, tok(b)))
    lines.append("bw-file")
    return lines


def bw_payloads(calls):
    """specification side (Sqfs.Spec.BlockWriter.payloads) recomputed independently in Python"""
    acc, out = b"", []
    for (c, fl, b) in calls:
        if fl & F_FIRST:
            acc = b""
        if len(b) and not (fl & F_SPARSE):
            acc += b
        out.append(acc if fl & F_LAST else None)
    return out


def bw_oracle(calls, results, final):
    """read-back oracle on the implementation's answers; returns list of problems"""
    bad = []
    for k, (p, res) in enumerate(zip(bw_payloads(calls), results)):
        if p is None:
            continue
        if not res.startswith("ok "):
            bad.append("call %d: %s" % (k, res))
            continue
        loc = int(res.split()[1])
        if final[loc:loc + len(p)] != p:
            bad.append("file ending at call %d: location %d holds %s, payload %s" % (k, loc, final[loc:loc + len(p)].hex(), p.hex()))
    return bad


def check_bw(ctx, harness, n_scripts, stats):
    scripts = []
    cdir = vlib.CORPUS / "C08"
    if cdir.exists():
        for p in sorted(cdir.glob("bw-*.json")):
            d = json.loads(p.read_text())
            scripts.append((untok(d["pre"]), [(int(c, 16), int(f, 16), untok(b)) for c, f, b in d["calls"]], "corpus:" + p.name))
    for i in range(n_scripts):
        pre, calls = gen_bw_script(ctx.rng, small=ctx.quick() or i % 4 != 0)
        scripts.append((pre, calls, "gen:%d" % i))
    all_lines, spans = [], []
    for pre, calls, name in scripts:
        ls = bw_script_lines(pre, calls)
        spans.append((len(all_lines), len(ls)))
        all_lines += ls
    text = "\n".join(all_lines) + "\n"
    impl, rc, err = run_harness(ctx, harness, text)
    if impl is None or rc != 0 or len(impl) != len(all_lines):
        k = len(impl) if impl is not None else 0
        # find the script that contains line k
        which = next((i for i, (a, n) in enumerate(spans) if a <= k < a + n), len(spans) - 1)
        pre, calls, name = scripts[which]
        ctx.violation("bw-crash:" + vlib.sha(json.dumps(bw_script_lines(pre, calls)))[:12],
                      "real block writer aborted (rc=%s) in script %s: %s" % (rc, name, err[-500:]),
                      {"mode": "bw", "lines": bw_script_lines(pre, calls), "stderr": err})
        return
    model = ctx.driver(["c08"], text)
    for (a, n), (pre, calls, name) in zip(spans, scripts):
        il, ml = impl[a:a + n], model[a:a + n]
        final = untok(il[-1].split()[1]) if il[-1].startswith("file ") else b""
        bad = bw_oracle(calls, il[1:-1], final)
        if final[:len(pre)] != pre:
            bad.append("bytes before the data area changed")
        stats["bw_scripts"] += 1
        stats["bw_calls"] += len(calls)
        shared = 0
        own = None
        for (c, fl, b), res in zip(calls, il[1:-1]):
            if fl & F_FIRST:
                own = None
            if own is None and len(b) and not fl & F_SPARSE and res.startswith("ok "):
                own = int(res.split()[1]) if not fl & F_LAST else None
            if fl & F_LAST and res.startswith("ok "):
                pass
        # sharing statistics from the model side are identical when the streams agree; count truncations
        sizes = [int(r.split()[2]) for r in il[1:-1] if r.startswith("ok ")]
        trunc = sum(1 for x, y in zip(sizes, sizes[1:]) if y < x) + 0
        # a LAST call that stores data and shrinks the file relative to "before + size" also counts
        stats["bw_truncating_scripts"] += 1 if any(
            r.startswith("ok ") and (fl & F_LAST) and int(r.split()[2]) < prev + (len(b) if len(b) and not fl & F_SPARSE else 0)
            for (c, fl, b), r, prev in zip(calls, il[1:-1], [len(pre)] + sizes)) else 0
        if bad:
            ctx.violation("bw-readback:" + vlib.sha(json.dumps(all_lines[a:a + n]))[:12],
                          "block writer hands out a location that does not hold the file's bytes: %s" % "; ".join(bad[:3]),
                          {"mode": "bw", "lines": all_lines[a:a + n], "impl": il, "model": ml, "problems": bad})
        elif il != ml:
            d = vlib.diff_streams(il, ml)[0]
            stats["disagreements"] += 1
            ctx.violation("bw-corr:" + vlib.sha(json.dumps(all_lines[a:a + n]))[:12],
                          "block writer and model disagree at line %d of script %s (impl=%s model=%s); read-back oracle holds" % (
                              d, name, il[d][:80] if d < len(il) else None, ml[d][:80] if d < len(ml) else None),
                          {"mode": "bw", "lines": all_lines[a:a + n], "impl": il, "model": ml}, found_input=False)
    return scripts


# ------------------------------------------------------------------------------------------------ 2. bp scripts
def toy_uncompress(b, limit):
    if len(b) % 2:
        return None
    out = bytearray()
    for k in range(0, len(b), 2):
        n = b[k + 1]
        if n == 0 or n > limit - len(out):
            return None
        out += bytes([b[k]]) * n
    return bytes(out)


def gen_bp_script(rng, big=False):
    """files for the real block processor: few distinct full blocks and few distinct tails of equal sizes, so that
    with a 0..8-bit checksum different contents collide on (size, checksum) all the time"""
    if big:
        B = 4096
        hashbits = rng.choice([0, 1, 2, 4, 8])
    else:
        B = rng.choice([8, 8, 16, 16, 32, 64])
        hashbits = rng.choice([0, 1, 2, 2, 3, 4, 8, 32])
    codec = rng.choice(["toy", "toy", "gzip", "none"])
    workers = rng.choice([1, 1, 2, 3, 4])
    backlog = rng.choice([3, 3, 4, 5, 8, 12, 30])
    pre = bytes(rng.getrandbits(8) for _ in range(rng.choice([0, 1, 96])))
    alpha = rng.sample(range(1, 256), rng.randint(2, 3))
    nblk = rng.randint(1, 5)
    blocks = []
    for _ in range(nblk):
        r = rng.random()
        if r < 0.35:      # two runs: compressible by the toy codec, many contents with the same compressed size
            k = rng.randrange(1, B)
            blocks.append(bytes([rng.choice(alpha)]) * k + bytes([rng.choice(alpha)]) * (B - k))
        elif r < 0.45:
            blocks.append(bytes(B))
        else:
            blocks.append(bytes(rng.choice(alpha) for _ in range(B)))
    tail_sizes = rng.sample(range(1, B), min(B - 1, rng.randint(1, 3)))
    tails = []
    for _ in range(rng.randint(1, 8)):
        n = rng.choice(tail_sizes)
        if rng.random() < 0.08:
            tails.append(bytes(n))
        else:
            tails.append(bytes(rng.choice(alpha) for _ in range(n)))
    files = []
    nfiles = rng.randint(1, 6) if big else rng.randint(1, 40)
    for _ in range(nfiles):
        if files and rng.random() < 0.3:
            data, flags = rng.choice(files)[:2]
            if rng.random() < 0.3:
                flags = 0
        else:
            k = rng.choice([0, 0, 0, 1, 1, 2, 3])
            data = b"".join(rng.choice(blocks) for _ in range(k))
            if rng.random() < 0.85:
                data += rng.choice(tails)
            flags = 0
            r = rng.random()
            if r < 0.08:
                flags |= F_DONT_FRAGMENT
            elif r < 0.16:
                flags |= F_DONT_DEDUP
            elif r < 0.22:
                flags |= F_DONT_COMPRESS
            elif r < 0.26:
                flags |= F_DONT_HASH
            elif r < 0.30:
                flags |= F_IGNORE_SPARSE
        tail = data[len(data) - len(data) % B:]
        if flags & F_IGNORE_SPARSE and tail and not any(tail) and not flags & F_DONT_FRAGMENT:
            flags &= ~F_IGNORE_SPARSE          # an all-zero `nosparse` tail is defect D24 (property C17), kept out of C08's inputs
        chunk = rng.choice([0, 0, 0, 1, 3, B, B + 1])
        files.append((data, flags, chunk))
    return {"B": B, "codec": codec, "workers": workers, "backlog": backlog, "hashbits": hashbits, "pre": pre,
            "files": files, "sync_after": sorted(set(rng.sample(range(nfiles), rng.randint(0, min(3, nfiles)))))}


def bp_script_lines(sc, nofile=0):
    lines = ["bp-init %d %s %d %d %d %s %d" % (sc["B"], sc["codec"], sc["workers"], sc["backlog"], sc["hashbits"], tok(sc["pre"]), nofile)]
    for k, (data, flags, chunk) in enumerate(sc["files"]):
        lines.append("bp-file %x %d %s" % (flags, chunk, tok(data)))
        if k in sc["sync_after"]:
            lines.append("bp-sync")
    lines.append("bp-finish")
    return lines


def parse_bp_output(out):
    """out: lines of one script's output (op answers, then the dump). Returns dict."""
    res = {"ops": [], "events": [], "inodes": {}, "frag": {}, "fb": {}, "file": None, "rd": {}, "end": None, "rderr": None}
    for l in out:
        t = l.split()
        if not t:
            continue
        if t[0] in ("ok", "err", "bad-op"):
            res["ops"].append(l)
        elif t[0] in ("W", "T", "FR", "E"):
            res["events"].append(t)
        elif t[0] == "I":
            if t[2] == "none":
                res["inodes"][int(t[1])] = None
            else:
                kv = dict(x.split("=") for x in t[2:])
                fi, fo = kv["frag"].split(":")
                res["inodes"][int(t[1])] = {"size": int(kv["size"]), "start": int(kv["start"]), "sparse": int(kv["sparse"]),
                                            "frag": (int(fi, 16), int(fo, 16)),
                                            "blocks": [] if kv["blocks"] == "-" else [int(x, 16) for x in kv["blocks"].split(",")]}
        elif t[0] == "F":
            res["frag"][int(t[1])] = (int(t[2]), int(t[3], 16))
        elif t[0] == "FB":
            res["fb"][int(t[1])] = None if t[2] == "err" else untok(t[2])
        elif t[0] == "file":
            res["file"] = untok(t[1])
        elif t[0] == "R":
            res["rd"][int(t[1])] = " ".join(t[2:])
        elif t[0] == "RD":
            res["rderr"] = l
        elif t[0] == "end":
            res["end"] = int(t[1])
    return res


def raw_readback(sc, res, k):
    """independent reader: bytes of file k from the inode fields, the fragment table and the output bytes"""
    ino = res["inodes"].get(k)
    data, flags, _ = sc["files"][k]
    B = sc["B"]
    if ino is None:
        return None
    out = bytearray()
    pos = ino["start"]
    remaining = ino["size"]
    for w in ino["blocks"]:
        want = min(B, remaining)
        if w == 0:
            out += bytes(want)
        else:
            n = w & 0xFFFFFF
            raw = res["file"][pos:pos + n]
            pos += n
            if w & (1 << 24):
                blk = raw
            elif sc["codec"] == "gzip":
                try:
                    blk = zlib.decompress(raw)
                except zlib.error:
                    return b"<zlib error>"
            else:
                blk = toy_uncompress(raw, B)
                if blk is None:
                    return b"<toy error>"
            out += blk
        remaining -= want
        if remaining < 0:
            return b"<too many blocks>"
    if remaining > 0:
        fi, fo = ino["frag"]
        fb = res["fb"].get(fi)
        if fb is None:
            return bytes(out) + b"<no fragment block>"
        out += fb[fo:fo + remaining]
    return bytes(out)


def has_fragment(sc, k):
    """does file k reach process_completed_fragment as a non-sparse fragment?"""
    data, flags, _ = sc["files"][k]
    B = sc["B"]
    r = len(data) % B
    if r == 0 or flags & F_DONT_FRAGMENT:
        return False
    tail = data[len(data) - r:]
    if not any(tail) and not flags & F_IGNORE_SPARSE:
        return False
    return True


def fd_script(sc, res):
    """script for the fragment model from the implementation's event order; returns (lines, meta) where meta[i]
    says what line i is about"""
    B = sc["B"]
    lines = ["fd-init %d %s 1" % (B, "toy" if sc["codec"] == "toy" else "ident")]
    meta = [("init",)]
    fragfiles = [k for k in range(len(sc["files"])) if has_fragment(sc, k)]
    fr = 0
    nfb = sum(1 for t in res["events"] if t[0] == "W" and int(t[2], 16) & F_FRAGBLK)
    wfb = 0
    for t in res["events"]:
        if t[0] == "FR":
            if fr >= len(fragfiles):
                return None, "more fragments processed than submitted"
            k = fragfiles[fr]
            data, flags, _ = sc["files"][k]
            tail = data[len(data) - len(data) % B:]
            if int(t[2]) != len(tail):
                return None, "fragment %d has size %s, expected %d" % (fr, t[2], len(tail))
            lines.append("fd-frag %x %s %s" % (flags, t[1], tok(tail)))
            meta.append(("frag", k))
            fr += 1
        elif t[0] == "W" and int(t[2], 16) & F_FRAGBLK:
            if wfb == nfb - 1:
                lines.append("fd-finish")
                meta.append(("finish",))
            lines.append("fd-written %d" % wfb)
            meta.append(("written", wfb))
            wfb += 1
    if fr != len(fragfiles):
        return None, "%d fragments processed, %d submitted" % (fr, len(fragfiles))
    for i in range(nfb):
        lines.append("fd-read %d" % i)
        meta.append(("read", i))
    return (lines, meta), None


def check_bp_one(ctx, sc, out, stats, name):
    """all oracles for one script; returns list of (kind, message) problems. kind: 'spec' (property violated on the
    implementation) or 'corr' (model and code disagree)"""
    problems = []
    res = parse_bp_output(out)
    nops = len(bp_script_lines(sc)) - 1
    if res["end"] != 0 or any(o != "ok" for o in res["ops"]) or len(res["ops"]) != nops:
        problems.append(("spec", "packing failed: ops=%s end=%s" % ([o for o in res["ops"] if o != "ok"][:3], res["end"])))
        return problems, res
    if res["rderr"]:
        problems.append(("spec", "data reader could not be set up: " + res["rderr"]))
    B = sc["B"]
    # (1) the property's oracle, by the real reader and by raw offsets
    for k, (data, flags, _) in enumerate(sc["files"]):
        if res["rd"].get(k) != "ok":
            problems.append(("spec", "file %d read back through sqfs_data_reader_t: %s (input %s)" % (k, str(res["rd"].get(k))[:80], data.hex()[:80])))
        rb = raw_readback(sc, res, k)
        if rb != data:
            problems.append(("spec", "file %d read back by raw offsets gives %s, input %s" % (k, (rb or b"").hex()[:80], data.hex()[:80])))
    # (2) identical files share (completeness, evaluated on the implementation)
    first = {}
    for k, (data, flags, _) in enumerate(sc["files"]):
        ino = res["inodes"][k]
        stored = any(w != 0 for w in ino["blocks"])
        key = (data, flags)
        if key in first and not flags & F_DONT_DEDUP and stored:
            j = first[key]
            if ino["start"] > res["inodes"][j]["start"] or ino["blocks"] != res["inodes"][j]["blocks"]:
                problems.append(("spec", "file %d is identical to file %d but does not share its blocks (start %d vs %d)" % (
                    k, j, ino["start"], res["inodes"][j]["start"])))
            stats["bp_shared_files"] += 1
        first.setdefault(key, k)
    if not any(fl & (F_DONT_DEDUP | F_DONT_HASH) for _, fl, _ in sc["files"]):
        tails = {sc["files"][k][0][len(sc["files"][k][0]) - len(sc["files"][k][0]) % B:] for k in range(len(sc["files"])) if has_fragment(sc, k)}
        stored = sum(len(v) for v in res["fb"].values() if v is not None)
        if stored != sum(len(t) for t in tails):
            problems.append(("spec", "fragment blocks hold %d bytes but the distinct tail ends total %d: equal fragments stored twice or lost" % (
                stored, sum(len(t) for t in tails))))
    # (3) block-writer model on the implementation's own call trace
    calls = [t for t in res["events"] if t[0] in ("W",)]
    bw_lines = ["bw-init %s 0" % tok(sc["pre"])] + ["bw-write %s %s %s" % (t[1], t[2], t[3]) for t in calls] + ["bw-file"]
    # (4) fragment model on the implementation's event order
    fd, err = fd_script(sc, res)
    if fd is None:
        problems.append(("corr", "fragment events do not line up with the submitted files: " + err))
        fd = ([], [])
    text = "\n".join(bw_lines + fd[0]) + "\n"
    model = ctx.driver(["c08"], text)
    mb, mf = model[:len(bw_lines)], model[len(bw_lines):]
    for t, m in zip(calls, mb[1:-1]):
        impl = " ".join(t[4:])
        if impl != m:
            problems.append(("corr", "write_data_block(%s %s %s): impl '%s' model '%s'" % (t[1], t[2], t[3][:40], impl, m)))
            break
    if mb[-1] != "file " + tok(res["file"]):
        problems.append(("corr", "final output bytes differ from the block-writer model"))
    for (l, me, m) in zip(fd[0], fd[1], mf):
        if me[0] == "frag":
            ino = res["inodes"][me[1]]
            want = "loc %d %d" % ino["frag"]
            if m != want:
                problems.append(("corr", "fragment of file %d: impl '%s' model '%s'" % (me[1], want, m)))
                break
        elif me[0] == "read":
            fb = res["fb"].get(me[1])
            if m != "read " + tok(fb or b""):
                problems.append(("corr", "fragment block %d: impl %s model %s" % (me[1], tok(fb or b"")[:60], m[:60])))
                break
        elif m != "ok":
            problems.append(("corr", "model refuses event '%s': %s" % (l, m)))
            break
    # statistics
    for t in res["events"]:
        if t[0] == "E":
            stats["cmp_%s_%s" % (t[4], "equal" if t[5] == "1" else "differ")] += 1
        elif t[0] == "T":
            stats["bp_truncates"] += 1
    stats["bp_scripts"] += 1
    stats["bp_files"] += len(sc["files"])
    stats["bp_writes"] += len(calls)
    stats["bp_fragments"] += sum(1 for m in fd[1] if m[0] == "frag")
    return problems, res


def split_outputs(lines):
    """split the harness output of several scripts at the `end` lines"""
    outs, cur = [], []
    for l in lines:
        cur.append(l)
        if l.startswith("end "):
            outs.append(cur)
            cur = []
    return outs, cur


def check_bp(ctx, harness, n_scripts, stats):
    from collections import defaultdict
    scripts = []
    cdir = vlib.CORPUS / "C08"
    if cdir.exists():
        for p in sorted(cdir.glob("bp-*.json")):
            d = json.loads(p.read_text())
            d["pre"] = untok(d["pre"])
            d["files"] = [(untok(a), b, c) for a, b, c in d["files"]]
            scripts.append((d, "corpus:" + p.name))
    for i in range(n_scripts):
        scripts.append((gen_bp_script(ctx.rng, big=(i % 25 == 24)), "gen:%d" % i))
    BATCH = 100
    for b0 in range(0, len(scripts), BATCH):
        batch = scripts[b0:b0 + BATCH]
        text = "\n".join(l for sc, _ in batch for l in bp_script_lines(sc)) + "\n"
        lines, rc, err = run_harness(ctx, harness, text, timeout=900)
        outs, rest = split_outputs(lines or [])
        if rc != 0 or len(outs) != len(batch):
            sc, name = batch[min(len(outs), len(batch) - 1)]
            ctx.violation("bp-crash:" + vlib.sha(json.dumps(bp_script_lines(sc)))[:12],
                          "real block processor aborted (rc=%s) in script %s: %s" % (rc, name, (err or "")[-600:]),
                          {"mode": "bp", "lines": bp_script_lines(sc), "stderr": err, "partial": rest[-20:]})
            outs = outs[:len(batch)]
        for (sc, name), out in zip(batch, outs):
            problems, res = check_bp_one(ctx, sc, out, stats, name)
            if not problems:
                continue
            spec = [m for k, m in problems if k == "spec"]
            corr = [m for k, m in problems if k == "corr"]
            lines_sc = bp_script_lines(sc)
            key = vlib.sha(json.dumps(lines_sc))[:12]
            if spec:
                ctx.violation("bp-readback:" + key, "block processor (%s): %s" % (name, "; ".join(spec[:3])),
                              {"mode": "bp", "lines": lines_sc, "problems": spec + corr})
            else:
                stats["disagreements"] += 1
                ctx.violation("bp-corr:" + key, "block processor and model disagree (%s) while every file reads back: %s" % (name, "; ".join(corr[:3])),
                              {"mode": "bp", "lines": lines_sc, "problems": corr}, found_input=False)


def run(ctx):
    ok, problems = vlib.proof_gate(ctx, MODULE, REQUIRED)
    if not ok:
        ctx.violation("proof:C08", "proof obligations of C08 no longer check: " + " | ".join(problems)[:1500],
                      {"broken": problems, "theorems_file": "lean/Sqfs/Props/C08.lean"}, found_input=False)
    harness = build_harness(ctx)
    from collections import defaultdict
    stats = defaultdict(int)
    check_bw(ctx, harness, 1500 if ctx.quick() else 20000, stats)
    check_bp(ctx, harness, 400 if ctx.quick() else 6000, stats)
    ctx.cov.update({
        "evaluations": stats["bw_calls"] + stats["bp_writes"] + stats["bp_fragments"],
        "distinct_nontrivial": stats["bw_truncating_scripts"],
        "rule": "bw: generated write_data_block sequences (1..14 files of 1..6 blocks, sizes from a 1..3-element set, 1..3-letter "
                "alphabet, 0..3-bit checksums, 55% repeated blocks, 45% files derived from an earlier file); non-trivial = script in "
                "which at least one LAST call truncated the output (a deduplication hit)",
        "stats": dict(stats),
        "disagreements_checked": stats["disagreements"],
        "samples": [],
    })
    return ctx.finish(LEVEL, trusted_extra=[
        "modelled: lib/sqfs/src/block_writer.c, lib/util/src/file_cmp.c, the sqfs_file_t contract of lib/sqfs/src/io/file.c (POSIX branch)"])


def replay(ctx, path):
    body = json.loads(open(path).read())
    rp = body.get("replay", {})
    if "lines" not in rp:
        print("replay file names a broken obligation, no input to replay:", json.dumps(rp)[:500])
        return 1
    ctx.lean_build(["sqfsmodel"])
    harness = build_harness(ctx)
    text = "\n".join(rp["lines"]) + "\n"
    impl, rc, err = run_harness(ctx, harness, text)
    print("impl :", impl, "rc", rc, err[-500:] if err else "")
    if rp.get("mode") == "bw":
        model = ctx.driver(["c08"], text)
        print("model:", model)
        calls = []
        for l in rp["lines"][1:-1]:
            _, c, f, b = l.split()
            calls.append((int(c, 16), int(f, 16), untok(b)))
        final = untok(impl[-1].split()[1]) if impl and impl[-1].startswith("file ") else b""
        bad = bw_oracle(calls, impl[1:-1], final) if impl and rc == 0 else ["crash"]
        print("read-back problems:", bad)
        return 1 if bad or impl != model else 0
    return 1
