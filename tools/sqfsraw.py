"""
Raw, libsquashfs-independent reader for the parts of a SquashFS 4.0 image the C17 check looks at:
super block, fragment table, export table, and a sequential walk over the inode table (every inode with its
number, its reference = position in the inode table, and for regular files the layout fields).

Metadata blocks are decompressed with Python's zlib/lzma or, for lz4/zstd, with the system's liblz4/libzstd via
ctypes — never with code from the tree under verification.  Offsets/sizes of the on-disk structures are the
documented format constants (doc/format.adoc); the Lean side gets the same numbers regenerated from the headers.
"""
import ctypes, ctypes.util, lzma, struct, zlib

COMP = {1: "gzip", 2: "lzma", 3: "lzo", 4: "xz", 5: "lz4", 6: "zstd"}
FLAG_COMP_OPTIONS = 0x0400
FLAG_EXPORTABLE = 0x0080
NOFRAG = 0xFFFFFFFF

_lz4 = _zstd = None


def _lib(name):
    p = ctypes.util.find_library(name)
    if not p:
        raise RuntimeError("lib%s not found" % name)
    return ctypes.CDLL(p)


def decompress(comp, data, maxout):
    global _lz4, _zstd
    if comp == "gzip":
        return zlib.decompress(data)
    if comp == "xz":
        return lzma.decompress(data, format=lzma.FORMAT_XZ)
    if comp == "lzma":
        return lzma.decompress(data, format=lzma.FORMAT_ALONE)
    if comp == "lz4":
        if _lz4 is None:
            _lz4 = _lib("lz4")
        out = ctypes.create_string_buffer(maxout)
        n = _lz4.LZ4_decompress_safe(data, out, len(data), maxout)
        if n < 0:
            raise ValueError("lz4 decode error")
        return out.raw[:n]
    if comp == "zstd":
        if _zstd is None:
            _zstd = _lib("zstd")
            _zstd.ZSTD_decompress.restype = ctypes.c_size_t
            _zstd.ZSTD_isError.restype = ctypes.c_uint
        out = ctypes.create_string_buffer(maxout)
        n = _zstd.ZSTD_decompress(out, ctypes.c_size_t(maxout), data, ctypes.c_size_t(len(data)))
        if _zstd.ZSTD_isError(ctypes.c_size_t(n)):
            raise ValueError("zstd decode error")
        return out.raw[:n]
    raise ValueError("unsupported compressor %r" % comp)


class Image:
    def __init__(self, raw):
        self.raw = raw
        (self.magic, self.inode_count, self.mtime, self.block_size, self.frag_count, self.comp_id, self.block_log,
         self.flags, self.id_count, self.vmaj, self.vmin, self.root_ref, self.bytes_used, self.id_table,
         self.xattr_table, self.inode_table, self.dir_table, self.frag_table, self.export_table) = struct.unpack_from(
            "<IIIIIHHHHHHQQQQQQQQ", raw, 0)
        if self.magic != 0x73717368:
            raise ValueError("bad magic")
        self.comp = COMP.get(self.comp_id, "?")
        self.data_base = 96
        if self.flags & FLAG_COMP_OPTIONS:
            hdr = struct.unpack_from("<H", raw, 96)[0]
            self.data_base = 96 + 2 + (hdr & 0x7FFF)

    # -- metadata blocks ------------------------------------------------------------------------------------
    def meta_block(self, off):
        """(uncompressed payload, on-disk length incl. header) of the metadata block at absolute offset off"""
        hdr = struct.unpack_from("<H", self.raw, off)[0]
        n = hdr & 0x7FFF
        body = self.raw[off + 2: off + 2 + n]
        if len(body) != n:
            raise ValueError("metadata block runs past the end of the image")
        if hdr & 0x8000:
            return body, n + 2
        return decompress(self.comp, body, 8192), n + 2

    def table(self, start, nbytes):
        """a table stored as metadata blocks located through a list of u64 block pointers at `start`"""
        nblk = (nbytes + 8191) // 8192
        ptrs = struct.unpack_from("<%dQ" % nblk, self.raw, start) if nblk else ()
        out = b""
        for p in ptrs:
            out += self.meta_block(p)[0]
        return out[:nbytes], ptrs

    def fragments(self):
        data, _ = self.table(self.frag_table, self.frag_count * 16)
        out = []
        for i in range(self.frag_count):
            start, size, _pad = struct.unpack_from("<QII", data, 16 * i)
            out.append({"start": start, "size": size & 0xFFFFFF, "raw": bool(size & (1 << 24)), "word": size})
        return out

    def exports(self):
        if not (self.flags & FLAG_EXPORTABLE) or self.export_table == 0xFFFFFFFFFFFFFFFF:
            return None
        data, _ = self.table(self.export_table, self.inode_count * 8)
        return list(struct.unpack_from("<%dQ" % self.inode_count, data, 0))

    # -- inode table ----------------------------------------------------------------------------------------
    def inodes(self):
        """sequential walk: list of dicts (number, ref, type, and for files the layout fields)"""
        stream = b""
        starts = []                      # (offset in `stream`, on-disk offset relative to inode_table)
        off = self.inode_table
        while off < self.dir_table:
            body, used = self.meta_block(off)
            starts.append((len(stream), off - self.inode_table))
            stream += body
            off += used
        if off != self.dir_table:
            raise ValueError("inode table does not end at the directory table")

        def ref_of(pos):
            for so, do in reversed(starts):
                if pos >= so:
                    return (do << 16) | (pos - so)
            raise ValueError

        out, pos, B = [], 0, self.block_size
        while pos < len(stream):
            typ, mode, uid, gid, mtime, num = struct.unpack_from("<HHHHII", stream, pos)
            ino = {"type": typ, "number": num, "ref": ref_of(pos), "mode": mode}
            p = pos + 16
            if typ == 1:
                p += 16
            elif typ == 8:
                nl, fsz, sblk, parent, icount, boff, xattr = struct.unpack_from("<IIIIHHI", stream, p)
                p += 24
                for _ in range(icount):
                    _i, _s, nsz = struct.unpack_from("<III", stream, p)
                    p += 12 + nsz + 1
            elif typ in (2, 9):
                if typ == 2:
                    start, fidx, foff, size = struct.unpack_from("<IIII", stream, p)
                    sparse, nlink, xattr = 0, 1, NOFRAG
                    p += 16
                else:
                    start, size, sparse, nlink, fidx, foff, xattr = struct.unpack_from("<QQQIIII", stream, p)
                    p += 40
                nblk = size // B + (1 if (fidx == NOFRAG and size % B) else 0)
                words = list(struct.unpack_from("<%dI" % nblk, stream, p)) if nblk else []
                p += 4 * nblk
                ino.update({"size": size, "start": start, "frag": None if fidx == NOFRAG else (fidx, foff),
                            "sparse": sparse, "extended": typ == 9, "words": words, "nlink": nlink, "xattr": xattr})
            elif typ in (3, 10):
                nl, tsz = struct.unpack_from("<II", stream, p)
                p += 8 + tsz + (4 if typ == 10 else 0)
            elif typ in (4, 5):
                p += 8
            elif typ in (11, 12):
                p += 12
            elif typ in (6, 7):
                p += 4
            elif typ in (13, 14):
                p += 8
            else:
                raise ValueError("inode table walk lost sync at stream offset %d (type %d)" % (pos, typ))
            if p > len(stream):
                raise ValueError("inode runs past the inode table")
            out.append(ino)
            pos = p
        return out
