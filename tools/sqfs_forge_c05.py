"""
Independent SquashFS image forge for the C05 check (written from doc/format.adoc, shares no code with libsquashfs).

Builds an image from a low-level description: a list of inode records (any type, any field value) and, for
directories, explicit entry lists that may point at *any* inode (cycles, shared sub-directories, dangling
references).  Metadata blocks are stored uncompressed by default (header bit 0x8000), so every on-disk field has a
fixed byte position in the image; the forge returns those positions (`fields`) so that a mutator can overwrite
one field at a time.  Data blocks / fragment blocks / single metadata blocks can optionally be zlib-compressed.

Layout: super | data area | inode table | directory table | fragment table | export table | id table | xattr table
"""
import lzma, struct, zlib

META = 8192
T_DIR, T_FILE, T_SLINK, T_BDEV, T_CDEV, T_FIFO, T_SOCK = 1, 2, 3, 4, 5, 6, 7
T_XDIR, T_XFILE, T_XSLINK, T_XBDEV, T_XCDEV, T_XFIFO, T_XSOCK = 8, 9, 10, 11, 12, 13, 14
NOFRAG = 0xFFFFFFFF
MODE = {T_DIR: 0o040755, T_FILE: 0o100644, T_SLINK: 0o120777, T_BDEV: 0o060600, T_CDEV: 0o020600, T_FIFO: 0o010644,
        T_SOCK: 0o140644}


class Node:
    """one inode record; `f` holds the on-disk fields of its type (defaults filled in by the forge)"""

    def __init__(self, typ, **f):
        self.typ = typ
        self.f = f
        self.entries = []        # directories: list of (name bytes, target Node or raw (block, offset, inum, type) tuple)
        self.blocks = []         # files: list of size words (data is placed by Forge.add_file_data)
        self.index = []          # ext dir: list of (index, start_block, name bytes [, raw size field])
        self.target = b""        # symlinks
        self.inum = f.pop("inum", None)
        self.pos = None          # byte position in the uncompressed inode stream

    def base_type(self):
        return self.typ if self.typ <= 7 else self.typ - 7


def py_codec(comp_id):
    """block compressors written here (not the code under test): gzip = zlib, xz, lzma (the LZMA-alone container with the
    uncompressed size stored in the header, as squashfs wants it); None for the others (lz4, zstd, lzo: no Python codec;
    the check supplies the real compressor for those)"""
    if comp_id == 1:
        return zlib.compress
    if comp_id == 4:
        return lambda d: lzma.compress(d, format=lzma.FORMAT_XZ, check=lzma.CHECK_CRC32)
    if comp_id == 2:
        def alone(d):
            c = lzma.compress(d, format=lzma.FORMAT_ALONE)
            return c[:5] + struct.pack("<Q", len(d)) + c[13:]
        return alone
    return None


# ---------------------------------------------------------------------- hostile compressed blocks
def _vli(n):
    out = bytearray()
    while n >= 0x80:
        out.append((n & 0x7F) | 0x80)
        n >>= 7
    out.append(n)
    return bytes(out)


def _unvli(b, p):
    n = sh = 0
    while True:
        c = b[p]
        p += 1
        n |= (c & 0x7F) << sh
        sh += 7
        if not c & 0x80:
            return n, p
        if sh > 63:
            raise ValueError("vli")


def _xz_parts(blob):
    """(header size, flags, compressed-size vli or None, filter bytes, index records, index start) of a one-block .xz stream"""
    if blob[:6] != b"\xfd7zXZ\x00" or blob[-2:] != b"YZ":
        raise ValueError("not xz")
    bw = struct.unpack("<I", blob[-8:-4])[0]
    isz = (bw + 1) * 4
    istart = len(blob) - 12 - isz
    if istart < 12 or blob[istart] != 0:
        raise ValueError("index")
    nrec, p = _unvli(blob, istart + 1)
    recs = []
    for _ in range(nrec):
        a, p = _unvli(blob, p)
        u, p = _unvli(blob, p)
        recs.append([a, u])
    hs = (blob[12] + 1) * 4
    flags = blob[13]
    p = 14
    csz = None
    if flags & 0x40:
        csz, p = _unvli(blob, p)
    if flags & 0x80:
        _, p = _unvli(blob, p)
    q = p
    for _ in range((flags & 3) + 1):
        _, q = _unvli(blob, q)
        n, q = _unvli(blob, q)
        q += n
    return hs, flags, csz, bytes(blob[p:q]), recs, istart


def _xz_tail(recs, flags2):
    idx = b"\x00" + _vli(len(recs)) + b"".join(_vli(a) + _vli(u) for a, u in recs)
    idx += bytes((-len(idx)) % 4)
    idx += struct.pack("<I", zlib.crc32(idx))
    foot = struct.pack("<I", len(idx) // 4 - 1) + flags2
    return idx + struct.pack("<I", zlib.crc32(foot)) + foot + b"YZ"


def xz_announce_index(blob, H):
    """the index record of the (first) block promises H unpacked bytes; CRCs and footer made consistent"""
    hs, flags, csz, filt, recs, istart = _xz_parts(blob)
    if not recs:
        raise ValueError("no block")
    recs[0][1] = H
    return bytes(blob[:istart]) + _xz_tail(recs, bytes(blob[-4:-2]))


def xz_announce_block(blob, H):
    """the block header gets (or has replaced) its optional `uncompressed size` field = H; header CRC, index and footer
    made consistent (the unpadded size of the record follows the new header length)"""
    hs, flags, csz, filt, recs, istart = _xz_parts(blob)
    if not recs:
        raise ValueError("no block")
    body = bytes([flags | 0x80]) + (_vli(csz) if csz is not None else b"") + _vli(H) + filt
    total = 1 + len(body) + 4
    total += (-total) % 4
    hdr = bytes([total // 4 - 1]) + body
    hdr += bytes(total - 4 - len(hdr))
    hdr += struct.pack("<I", zlib.crc32(hdr))
    recs[0][0] += total - hs
    return bytes(blob[:12]) + hdr + bytes(blob[12 + hs:istart]) + _xz_tail(recs, bytes(blob[-4:-2]))


def zstd_announce(blob, H):
    """the frame header gets an 8 byte Frame_Content_Size field = H (the other header fields are kept)"""
    if blob[:4] != b"\x28\xb5\x2f\xfd":
        raise ValueError("not zstd")
    fhd = blob[4]
    single = fhd & 0x20
    p = 5
    win = b""
    if not single:
        win = bytes(blob[p:p + 1]); p += 1
    dl = (0, 1, 2, 4)[fhd & 3]
    did = bytes(blob[p:p + dl]); p += dl
    fl = fhd >> 6
    p += (1 if single else 0) if fl == 0 else (2, 4, 8)[fl - 1]
    return bytes(blob[:4]) + bytes([(fhd & 0x3F) | 0xC0]) + win + did + struct.pack("<Q", H & (2 ** 64 - 1)) + bytes(blob[p:])


def lzma_announce(blob, H):
    if len(blob) < 13:
        raise ValueError("short")
    return bytes(blob[:5]) + struct.pack("<Q", H & (2 ** 64 - 1)) + bytes(blob[13:])


ANNOUNCERS = {2: [("lzma.size", lzma_announce), ("lzma.size+2^32", lambda b, H: lzma_announce(b, H + 2 ** 32))],
              4: [("xz.index", xz_announce_index), ("xz.blockhdr", xz_announce_block)],
              6: [("zstd.fcs", zstd_announce)]}


def announce_variants(comp_id, blob, H):
    """every way this writer knows to make a compressed block of format `comp_id` *announce* H unpacked bytes while its
    payload stays what it was: list of (label, bytes).  gzip (zlib container) and lz4 (raw block) carry no announcement."""
    out = []
    for label, fn in ANNOUNCERS.get(comp_id, []):
        try:
            out.append((label, fn(bytes(blob), H)))
        except (ValueError, IndexError, struct.error):
            pass
    return out


class TamperCodec:
    """wraps a block compressor; records every call (index, unpacked length) and makes call number `nth` hostile:
    kind 'announce': the block announces `H` bytes (announce_variants()[variant]); kind 'bomb': the block is an honest
    stream of its payload followed by zero bytes up to `H` bytes (it really unpacks to more than the reader's buffer)"""

    def __init__(self, codec, comp_id, nth=None, kind=None, H=0, variant=0):
        self.codec, self.comp_id, self.nth, self.kind, self.H, self.variant = codec, comp_id, nth, kind, H, variant
        self.calls = []          # (unpacked length, compressed length or None)
        self.done = None         # description of what was changed

    def __call__(self, d):
        i = len(self.calls)
        c = self.codec(d)
        if c is not None and i == self.nth:
            if self.kind == "bomb" and self.H > len(d):
                c2 = self.codec(bytes(d) + bytes(self.H - len(d)))
                if c2 is not None and len(c2) < len(d):
                    c, self.done = c2, "bomb:%d->%d" % (len(d), self.H)
            elif self.kind == "announce":
                v = announce_variants(self.comp_id, c, self.H)
                if v and len(v[self.variant % len(v)][1]) < len(d):
                    lab, c = v[self.variant % len(v)]
                    self.done = "%s:%d->%d" % (lab, len(d), self.H)
        self.calls.append((len(d), len(c) if c is not None and len(c) < len(d) else None))
        return c



class Forge:
    def __init__(self, block_size=4096, compress_meta=False, comp_id=1, codec=None):
        self.bs = block_size
        self.compress_meta = compress_meta
        self.comp_id = comp_id                      # super.compression_id
        self.codec = codec or py_codec(comp_id) or (lambda d: None)      # bytes -> compressed bytes | None
        self.nodes = []
        self.data = bytearray()           # data area (starts at offset 96)
        self.frags = []                   # (start, size word)
        self.ids = [0, 1000]
        self.xattrs = []                  # list of list of (prefix id, key bytes, value bytes)
        self.super_over = {}
        self.fields = []                  # (abs offset, width, label) after build()
        self.root = None

    # ------------------------------------------------------------------ content
    def add(self, node):
        if node.inum is None:
            node.inum = len(self.nodes) + 1
        self.nodes.append(node)
        return node

    def put_data(self, payload, compress=False):
        """append a block to the data area; returns (absolute offset, size word)"""
        off = 96 + len(self.data)
        if compress:
            c = self.codec(bytes(payload))
            if c is not None and len(c) < len(payload):
                self.data += c
                return off, len(c)
        self.data += payload
        return off, len(payload) | (1 << 24)

    def add_fragment_block(self, payload, compress=False):
        off, w = self.put_data(payload, compress)
        self.frags.append((off, w))
        return len(self.frags) - 1

    def make_file(self, content, frag=None, ext=False, compress=False, **f):
        """regular file whose full blocks go to the data area and whose tail goes to `frag` = (index, offset)"""
        n = Node(T_XFILE if ext else T_FILE, **f)
        start = 96 + len(self.data)
        full = len(content) // self.bs
        for i in range(full):
            blk = content[i * self.bs:(i + 1) * self.bs]
            if blk == bytes(self.bs):
                n.blocks.append(0)
            else:
                n.blocks.append(self.put_data(blk, compress)[1])
        tail = content[full * self.bs:]
        if tail and frag is None:
            n.blocks.append(self.put_data(tail, compress)[1])
        n.f.setdefault("blocks_start", start)
        n.f.setdefault("file_size", len(content))
        n.f.setdefault("fragment_index", frag[0] if (frag and tail) else NOFRAG)
        n.f.setdefault("fragment_offset", frag[1] if (frag and tail) else 0)
        return self.add(n)

    # ------------------------------------------------------------------ serialisation
    def _inode_len(self, n):
        t = n.typ
        if t == T_DIR: return 32
        if t == T_XDIR: return 16 + 24 + sum(12 + len(e[2]) for e in n.index)
        if t == T_FILE: return 32 + 4 * len(n.blocks)
        if t == T_XFILE: return 16 + 40 + 4 * len(n.blocks)
        if t == T_SLINK: return 24 + len(n.target)
        if t == T_XSLINK: return 24 + len(n.target) + 4
        if t in (T_BDEV, T_CDEV): return 24
        if t in (T_FIFO, T_SOCK): return 20
        if t in (T_XBDEV, T_XCDEV): return 28
        if t in (T_XFIFO, T_XSOCK): return 24
        return 16 + len(n.f.get("raw", b""))

    @staticmethod
    def ref_of(pos):
        """inode reference of a byte position in an uncompressed-metadata stream"""
        return ((pos // META) * (META + 2)) << 16 | (pos % META)

    def _meta_blocks(self, stream, base, label, field_src):
        """chunk `stream` into metadata blocks at absolute offset `base`; record field positions"""
        out = bytearray()
        for k in range(0, max(len(stream), 1), META):
            chunk = bytes(stream[k:k + META])
            if self.compress_meta:
                c = self.codec(chunk)
                if c is not None and len(c) < len(chunk):
                    out += struct.pack("<H", len(c)) + c
                    continue
            self.fields.append((base + len(out), 2, "%s.hdr%d" % (label, k // META)))
            blk_abs = base + len(out) + 2
            for (pos, width, name) in field_src:
                if k <= pos < k + META and pos + width <= k + META:
                    self.fields.append((blk_abs + pos - k, width, name))
            out += struct.pack("<H", 0x8000 | len(chunk)) + chunk
        return bytes(out)

    def build(self):
        self.fields = []
        nodes = self.nodes
        root = self.root or nodes[0]
        # pass 1: inode positions
        pos = 0
        for n in nodes:
            n.pos = pos
            pos += self._inode_len(n)
        # pass 2: directory listings
        dstream = bytearray()
        dfields = []
        for n in nodes:
            if n.base_type() != T_DIR:
                continue
            start = len(dstream)
            ents = n.entries
            i = 0
            while i < len(ents):
                # one header per run of entries whose inodes share a metadata block (max 256)
                def loc(e):
                    tgt = e[1]
                    if isinstance(tgt, Node):
                        return (tgt.pos // META) * (META + 2), tgt.pos % META, tgt.inum, tgt.base_type()
                    return tgt
                blk0, _, inum0, _ = loc(ents[i])
                run = [ents[i]]
                j = i + 1
                while j < len(ents) and len(run) < 256:
                    b, _, inum, _ = loc(ents[j])
                    if b != blk0 or not (-32768 <= inum - inum0 <= 32767):
                        break
                    run.append(ents[j]); j += 1
                hp = len(dstream)
                dstream += struct.pack("<III", len(run) - 1, blk0 & 0xFFFFFFFF, inum0 & 0xFFFFFFFF)
                dfields += [(hp, 4, "dir%d.hdr.count" % n.inum), (hp + 4, 4, "dir%d.hdr.start" % n.inum), (hp + 8, 4, "dir%d.hdr.inum" % n.inum)]
                for e in run:
                    _, off, inum, typ = loc(e)
                    over = e[2] if len(e) > 2 else {}
                    name = e[0]
                    ep = len(dstream)
                    dstream += struct.pack("<HhHH", over.get("offset", off) & 0xFFFF, max(-32768, min(32767, inum - inum0)),
                                           over.get("type", typ) & 0xFFFF, over.get("size", len(name) - 1) & 0xFFFF) + name
                    dfields += [(ep, 2, "dent.offset"), (ep + 2, 2, "dent.inode_diff"), (ep + 4, 2, "dent.type"), (ep + 6, 2, "dent.size")]
                i = j
            size = len(dstream) - start
            n.f.setdefault("dir_start_block", (start // META) * (META + 2))
            n.f.setdefault("dir_offset", start % META)
            n.f.setdefault("dir_size", size + 3)
        # pass 3: inode stream
        istream = bytearray()
        ifields = []

        def put(fmt, names, *vals):
            p = len(istream)
            for ch, nm in zip(fmt, names):
                w = {"H": 2, "I": 4, "Q": 8}[ch]
                ifields.append((p, w, nm))
                p += w
            mask = {"H": 0xFFFF, "I": 0xFFFFFFFF, "Q": 0xFFFFFFFFFFFFFFFF}
            istream.extend(struct.pack("<" + fmt, *[v & mask[c] for v, c in zip(vals, fmt)]))

        for n in nodes:
            f = n.f
            assert len(istream) == n.pos
            tag = "ino%d" % n.inum
            put("HHHHII", [tag + "." + x for x in ("type", "mode", "uid", "gid", "mtime", "inum")], f.get("type", n.typ),
                f.get("mode", MODE[n.base_type()] & 0xFFFF), f.get("uid_idx", 0), f.get("gid_idx", 1 if len(self.ids) > 1 else 0),
                f.get("mtime", 1700000000), n.inum)
            t = n.typ
            parent = f.get("parent_inode", 0)
            if t == T_DIR:
                put("IIHHI", [tag + "." + x for x in ("start_block", "nlink", "size", "offset", "parent")],
                    f["dir_start_block"], f.get("nlink", 2), f["dir_size"], f["dir_offset"], parent)
            elif t == T_XDIR:
                put("IIIIHHI", [tag + "." + x for x in ("nlink", "size", "start_block", "parent", "inodex_count", "offset", "xattr")],
                    f.get("nlink", 2), f["dir_size"], f["dir_start_block"], parent, f.get("inodex_count", len(n.index)),
                    f["dir_offset"], f.get("xattr_idx", 0xFFFFFFFF))
                for e in n.index:
                    put("III", [tag + ".idx." + x for x in ("index", "start", "size")], e[0], e[1], e[3] if len(e) > 3 else len(e[2]) - 1)
                    istream.extend(e[2])
            elif t == T_FILE:
                put("IIII", [tag + "." + x for x in ("blocks_start", "frag_index", "frag_offset", "file_size")],
                    f["blocks_start"], f["fragment_index"], f["fragment_offset"], f["file_size"])
                for w in n.blocks:
                    put("I", [tag + ".blk"], w)
            elif t == T_XFILE:
                put("QQQIIII", [tag + "." + x for x in ("blocks_start", "file_size", "sparse", "nlink", "frag_index", "frag_offset", "xattr")],
                    f["blocks_start"], f["file_size"], f.get("sparse", 0), f.get("nlink", 1), f["fragment_index"],
                    f["fragment_offset"], f.get("xattr_idx", 0xFFFFFFFF))
                for w in n.blocks:
                    put("I", [tag + ".blk"], w)
            elif t in (T_SLINK, T_XSLINK):
                put("II", [tag + ".nlink", tag + ".target_size"], f.get("nlink", 1), f.get("target_size", len(n.target)))
                istream.extend(n.target)
                if t == T_XSLINK:
                    put("I", [tag + ".xattr"], f.get("xattr_idx", 0xFFFFFFFF))
            elif t in (T_BDEV, T_CDEV):
                put("II", [tag + ".nlink", tag + ".devno"], f.get("nlink", 1), f.get("devno", 0x0801))
            elif t in (T_FIFO, T_SOCK):
                put("I", [tag + ".nlink"], f.get("nlink", 1))
            elif t in (T_XBDEV, T_XCDEV):
                put("III", [tag + ".nlink", tag + ".devno", tag + ".xattr"], f.get("nlink", 1), f.get("devno", 0x0801), f.get("xattr_idx", 0xFFFFFFFF))
            elif t in (T_XFIFO, T_XSOCK):
                put("II", [tag + ".nlink", tag + ".xattr"], f.get("nlink", 1), f.get("xattr_idx", 0xFFFFFFFF))
            else:
                istream.extend(f.get("raw", b""))
        # assemble
        img = bytearray(96) + self.data
        inode_table_start = len(img)
        img += self._meta_blocks(istream, inode_table_start, "itab", ifields)
        dir_table_start = len(img)
        img += self._meta_blocks(dstream, dir_table_start, "dtab", dfields)

        def table(entries_bytes, label, per, names):
            """metadata blocks + u64 location list; returns start of the location list"""
            nonlocal img
            locs = []
            flds = []
            for k in range(0, len(entries_bytes), per):
                for (o, w, nm) in names:
                    flds.append((k + o, w, "%s%d.%s" % (label, k // per, nm)))
            for k in range(0, max(len(entries_bytes), 1), META):
                locs.append(len(img))
                chunk = entries_bytes[k:k + META]
                sub = [(p - k, w, nm) for (p, w, nm) in flds if k <= p < k + META]
                img += self._meta_blocks(chunk, len(img), label, sub)
            start = len(img)
            for i, l in enumerate(locs):
                self.fields.append((len(img), 8, "%s.loc%d" % (label, i)))
                img += struct.pack("<Q", l)
            return start

        frag_table_start = 0xFFFFFFFFFFFFFFFF
        if self.frags:
            fb = b"".join(struct.pack("<QII", s, w, 0) for s, w in self.frags)
            frag_table_start = table(fb, "frag", 16, [(0, 8, "start"), (8, 4, "size")])
        export_table_start = 0xFFFFFFFFFFFFFFFF
        id_table_start = table(b"".join(struct.pack("<I", i) for i in self.ids), "id", 4, [(0, 4, "id")])
        xattr_table_start = 0xFFFFFFFFFFFFFFFF
        if self.xattrs:
            kv = bytearray()
            descs = []
            kvf = []
            for s in self.xattrs:
                first = len(kv)
                for (pfx, key, val) in s:
                    kvf += [(len(kv), 2, "xattr.key.type"), (len(kv) + 2, 2, "xattr.key.size")]
                    kv += struct.pack("<HH", pfx, len(key)) + key
                    kvf += [(len(kv), 4, "xattr.val.size")]
                    kv += struct.pack("<I", len(val)) + val
                descs.append(((first // META) * (META + 2) << 16 | first % META, len(s), len(kv) - first))
            kv_start = len(img)
            img += self._meta_blocks(kv, kv_start, "xkv", kvf)
            idb = b"".join(struct.pack("<QII", r, c, sz) for r, c, sz in descs)
            id_locs = []
            for k in range(0, len(idb), META):
                id_locs.append(len(img))
                sub = []
                for j in range(k, min(k + META, len(idb)), 16):
                    sub += [(j - k, 8, "xattr.id.ref"), (j - k + 8, 4, "xattr.id.count"), (j - k + 12, 4, "xattr.id.size")]
                img += self._meta_blocks(idb[k:k + META], len(img), "xid", sub)
            xattr_table_start = len(img)
            self.fields += [(len(img), 8, "xattr.tbl.start"), (len(img) + 8, 4, "xattr.tbl.ids")]
            img += struct.pack("<QII", kv_start, len(descs), 0)
            for i, l in enumerate(id_locs):
                self.fields.append((len(img), 8, "xattr.loc%d" % i))
                img += struct.pack("<Q", l)
        bytes_used = len(img)
        sup = dict(magic=0x73717368, inode_count=len(nodes), mtime=1700000000, block_size=self.bs, frag_count=len(self.frags),
                   comp=self.comp_id, block_log=self.bs.bit_length() - 1, flags=(0 if self.compress_meta else 0x0001 | 0x0002 | 0x0008 | 0x0800) |
                   (0 if self.xattrs else 0x0200) | (0 if self.frags else 0x0010), id_count=len(self.ids), vmaj=4, vmin=0,
                   root=self.ref_of(root.pos), bytes_used=bytes_used, id_table=id_table_start, xattr_table=xattr_table_start,
                   inode_table=inode_table_start, dir_table=dir_table_start, frag_table=frag_table_start, export_table=export_table_start)
        sup.update(self.super_over)
        names = ["magic", "inode_count", "mtime", "block_size", "frag_count", "comp", "block_log", "flags", "id_count", "vmaj", "vmin",
                 "root", "bytes_used", "id_table", "xattr_table", "inode_table", "dir_table", "frag_table", "export_table"]
        fmt = "IIIIIHHHHHHQQQQQQQQ"
        mask = {"H": 0xFFFF, "I": 0xFFFFFFFF, "Q": 0xFFFFFFFFFFFFFFFF}
        img[0:96] = struct.pack("<" + fmt, *[sup[k] & mask[c] for k, c in zip(names, fmt)])
        p = 0
        for k, c in zip(names, fmt):
            w = {"H": 2, "I": 4, "Q": 8}[c]
            self.fields.append((p, w, "super." + k))
            p += w
        pad = (-len(img)) % 4096
        return bytes(img) + bytes(pad)


# ---------------------------------------------------------------------- ready-made images
def sample_tree(rng, block_size=4096, compress_meta=False, compress_data=False, big=False, comp_id=1, codec=None, tailfile=False):
    """a valid image that uses every inode type, fragments, sparse blocks, xattrs and a directory index"""
    fg = Forge(block_size, compress_meta, comp_id, codec)
    bs = block_size
    fragdata = bytes(rng.randrange(256) for _ in range(600)) + b"tail-of-file-two" * 20
    fidx = fg.add_fragment_block(fragdata + bytes(bs - len(fragdata)) if rng.random() < 0.5 else fragdata, compress_data)
    root = fg.add(Node(T_XDIR if rng.random() < 0.5 else T_DIR))
    fg.root = root
    sub = fg.add(Node(T_DIR, parent_inode=root.inum))
    sub2 = fg.add(Node(T_XDIR, parent_inode=sub.inum, xattr_idx=0))
    f1 = fg.make_file(bytes(rng.randrange(256) for _ in range(bs + 100)), frag=(fidx, 0), compress=compress_data)
    f2 = fg.make_file(bytes(bs) + b"x" * bs + b"y" * 320, frag=(fidx, 600), ext=True, compress=compress_data, xattr_idx=1)
    f3 = fg.make_file(b"hello world\n", frag=None)
    f4 = fg.make_file(b"", frag=None)
    sl = fg.add(Node(T_SLINK)); sl.target = b"../f1"
    xsl = fg.add(Node(T_XSLINK)); xsl.target = b"/etc/passwd"
    devs = [fg.add(Node(t)) for t in (T_BDEV, T_CDEV, T_FIFO, T_SOCK, T_XBDEV, T_XCDEV, T_XFIFO, T_XSOCK)]
    root.entries = [(b"bdev", devs[0]), (b"cdev", devs[1]), (b"empty", f4), (b"f1", f1), (b"f2", f2), (b"fifo", devs[2]),
                    (b"hello", f3), (b"link", sl), (b"sock", devs[3]), (b"sub", sub), (b"xlink", xsl)]
    sub.entries = [(b"deep", sub2), (b"xb", devs[4]), (b"xc", devs[5]), (b"xf", devs[6]), (b"xs", devs[7])]
    names = [b"n%03d" % i for i in range(40 if not big else 700)]
    sub2.entries = [(nm, f3) for nm in names]
    sub2.index = [(0, 0, b"n000")]
    if root.typ == T_XDIR:
        root.index = [(0, 0, b"bdev")]
    if tailfile:
        # a file whose last block is short, compressible and not in a fragment: the reader unpacks it into a buffer of
        # `file_size % block_size` bytes (outsize < block_size); added last so that the other inode numbers stay
        f5 = fg.make_file(bytes(range(64)) * (bs // 64) + b"tail block " * (bs // 44), frag=None, compress=compress_data)
        root.entries.insert(5, (b"f5", f5))
    fg.xattrs = [[(0, b"mime", b"text/plain"), (1, b"selinux", b"system_u:object_r:etc_t:s0")], [(0, b"k", b"v" * 300)]]
    return fg


def graph_image(edges, inums, n_files=0, ext=None, file_inums=None, file_ext=None):
    """directory graph image: node i is a directory with entries to `edges[i]` (any node, cycles allowed; a negative
    number -k-1 refers to file k).  `ext[i]`: store directory i as an extended directory inode (type 8) instead of a
    basic one (type 1); `file_ext[k]` likewise for files; `file_inums[k]`: inode number stored in file k (may collide
    with a directory's)."""
    fg = Forge(4096)
    ext = ext or [False] * len(edges)
    ds = [fg.add(Node(T_XDIR if ext[i] else T_DIR, inum=inums[i])) for i in range(len(edges))]
    fs = []
    for i in range(n_files):
        kw = {"inum": file_inums[i]} if file_inums else {}
        fs.append(fg.make_file(b"f%d" % i, ext=bool(file_ext and file_ext[i]), **kw))
    for i, kids in enumerate(edges):
        ds[i].entries = [(b"d%d_%d" % (k, j), ds[k]) if k >= 0 else (b"f%d_%d" % (-k - 1, j), fs[-k - 1]) for j, k in enumerate(kids)]
    fg.root = ds[0]
    return fg


# ---------------------------------------------------------------------- independent reader (classification only)
def parse_dirs(img, limit=200000):
    """Walk the directory graph of an image with *uncompressed or zlib* metadata, by inode reference, without
    following a reference twice.  Returns dict ref -> list of child dir refs, or None if unreadable."""
    try:
        (magic, _, _, bs, _, comp, _, _, _, _, _, root, used, idt, _, itab, dtab, ftab, etab) = struct.unpack("<IIIIIHHHHHHQQQQQQQQ", img[:96])
    except struct.error:
        return None
    if magic != 0x73717368:
        return None

    def block(at):
        if at + 2 > len(img):
            raise ValueError
        h = struct.unpack("<H", img[at:at + 2])[0]
        n = h & 0x7FFF
        raw = img[at + 2:at + 2 + n]
        if len(raw) != n:
            raise ValueError
        if h & 0x8000:
            return raw, at + 2 + n
        try:
            return zlib.decompress(raw), at + 2 + n
        except zlib.error:
            try:
                return lzma.decompress(raw), at + 2 + n          # xz container / LZMA-alone
            except lzma.LZMAError:
                raise ValueError

    def read(at, off, n):
        out = b""
        while n:
            d, nxt = block(at)
            if off >= len(d):
                raise ValueError
            part = d[off:off + n]
            out += part
            n -= len(part)
            at, off = nxt, 0
        return out

    def read_upto(at, off, n):
        """like read(), but returns what could be read before the first error (the readers list entries one by one)"""
        out = b""
        try:
            while n:
                d, nxt = block(at)
                if off >= len(d):
                    break
                part = d[off:off + n]
                out += part
                n -= len(part)
                at, off = nxt, 0
        except (ValueError, zlib.error, struct.error):
            pass
        return out

    graph, todo, steps = {}, [root], 0
    while todo:
        r = todo.pop()
        if r in graph:
            continue
        steps += 1
        if steps > limit:
            return None
        try:
            base = read_upto(itab + (r >> 16), r & 0xFFFF, 16 + 24)
            typ = struct.unpack("<H", base[:2])[0]
            if typ == T_DIR:
                start, _, size, off, _ = struct.unpack("<IIHHI", base[16:32])
            elif typ == T_XDIR:
                _, size, start, _, _, off, _ = struct.unpack("<IIIIHHI", base[16:40])
            else:
                continue
        except (ValueError, zlib.error, struct.error):
            continue
        graph[r] = []
        if size < 4:
            continue
        data = read_upto(dtab + start, off, min(size - 3, 1 << 22))
        p = 0
        while p + 12 <= len(data):
            cnt, sb, _ = struct.unpack("<III", data[p:p + 12]); p += 12
            if cnt > 255:
                break
            for _ in range(cnt + 1):
                if p + 8 > len(data):
                    break
                eo, _, et, es = struct.unpack("<HhHH", data[p:p + 8]); p += 8 + es + 1
                c = (sb << 16) | eo          # the readers go by the inode's type, not the entry's
                graph[r].append(c)
                todo.append(c)
    return graph


def has_cycle(graph, root):
    WHITE, GREY, BLACK = 0, 1, 2
    col = {}
    stack = [(root, iter(graph.get(root, [])))]
    col[root] = GREY
    while stack:
        n, it = stack[-1]
        for c in it:
            if col.get(c, WHITE) == GREY:
                return True
            if col.get(c, WHITE) == WHITE and c in graph:
                col[c] = GREY
                stack.append((c, iter(graph[c])))
                break
        else:
            col[n] = BLACK
            stack.pop()
    return False


def tree_size(graph, root, cap=10 ** 7):
    """number of directory nodes the tree expansion of the DAG has (capped); None if cyclic"""
    if has_cycle(graph, root):
        return None
    memo = {}
    order = []
    seen = set()
    st = [root]
    while st:
        n = st.pop()
        if n in seen:
            continue
        seen.add(n); order.append(n)
        st.extend(graph.get(n, []))
    # children before parents: process by repeated passes (graph is acyclic)
    def size(n):
        if n in memo:
            return memo[n]
        stack = [(n, 0)]
        while stack:
            m, i = stack.pop()
            kids = graph.get(m, [])
            if i < len(kids):
                stack.append((m, i + 1))
                if kids[i] not in memo:
                    stack.append((kids[i], 0))
            else:
                memo[m] = min(cap, 1 + sum(memo.get(k, 1) for k in kids))
        return memo[n]
    return size(root)


def max_depth(graph, root, cap=10 ** 6):
    """longest directory chain below root (None if cyclic)"""
    if has_cycle(graph, root):
        return None
    memo = {}
    stack = [(root, 0)]
    while stack:
        m, i = stack.pop()
        kids = [k for k in graph.get(m, []) if k in graph]
        if i < len(kids):
            stack.append((m, i + 1))
            if kids[i] not in memo:
                stack.append((kids[i], 0))
        else:
            memo[m] = min(cap, 1 + max([memo.get(k, 0) for k in kids] or [0]))
    return memo.get(root, 0)
