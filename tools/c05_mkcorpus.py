#!/usr/bin/env python3
"""Regenerates corpus/C05/* (the replay inputs of the C05 findings; deterministic)."""
import random, struct, sys
from pathlib import Path
sys.path.insert(0, str(Path(__file__).resolve().parent))
import sqfs_forge_c05 as F
OUT = Path(__file__).resolve().parent.parent / "corpus" / "C05"
OUT.mkdir(parents=True, exist_ok=True)

# D3: a full block, then a block announcing 0 bytes; seek, drain, provoke the failing implicit seek, read on
img = bytes(96) + bytes([0x00, 0xA0]) + bytes(range(256)) * 32 + bytes([0x00, 0x80]) + bytes(64)
(OUT / "d3_meta_read_after_failed_seek.script").write_text("\n".join([
    "# Witness.d3Cfg / d3Ops on the real meta reader", "img " + img.hex(), "mr 96 %d" % len(img), "seek 96 0", "read 8192", "read 1",
    "read 100", "read 16384"]) + "\n")
# D4: block_size 4096, one uncompressed block word announcing 8192 bytes; then a 'compressed' one of 8192 bytes
img = bytearray(bytes(range(251)) * 70)
img[0:2] = struct.pack("<H", 100)
(OUT / "d4_stream_disksz.script").write_text("\n".join([
    "# Witness.d4_stream_uncompressed_unsafe / d4_stream_compressed_unsafe", "img " + bytes(img).hex(),
    "stream 4096 10000 0 0 0 0 0 %d" % ((1 << 24) | 8192), "stream 4096 10000 0 0 0 0 0 8192"]) + "\n")
# D5: frag_off + frag_sz wraps in 32 bits
(OUT / "d5_get_fragment_wrap.script").write_text("\n".join([
    "# Witness.d5_get_fragment_current_unsafe", "img " + bytes(8192).hex(), "getfrag 4096 100 0 0 4294967280 0 %d" % ((1 << 24) | 4096)]) + "\n")
# D19: entry name a\\0b, path a
(OUT / "d19_resolve_path_nul.script").write_text("# Witness.d19_resolve_current_unsafe\nresolve 610062 61\nresolve 61006263 61\n")
# D25: record that does not fit the payload; header that does not fit; size 0xFFFFFFFE
rec = struct.pack("<III", 7, 9, 3) + b"abcd" + struct.pack("<III", 7, 9, 3) + b"ab"
(OUT / "d25_unpack_dir_index.script").write_text("\n".join([
    "# Witness.d25_*", "unpack %d 1 %s" % (len(rec), rec.hex()), "unpack 5 0 " + rec[:5].hex(),
    "unpack 16 0 " + (struct.pack("<III", 7, 9, 0xFFFFFFFE) + b"abcd").hex()]) + "\n")
# D17 / own-parent test: the smallest directory cycles, through basic (b) and extended (e) directory inodes.
# "t4_" = run through every recursive tool mode (rdsquashfs -d / -u, sqfsdiff, sqfs2tar).
for tag, ext in (("b", [False]), ("e", [True])):
    (OUT / ("t4_cycle_self_%s.sqfs" % tag)).write_bytes(F.graph_image([[0]], [1], ext=ext).build())
for a in (False, True):
    for b in (False, True):
        (OUT / ("t4_cycle_2_%s%s.sqfs" % ("be"[a], "be"[b]))).write_bytes(F.graph_image([[1], [0]], [1, 2], ext=[a, b]).build())
# chain / -> d1 -> d2 -> d3 whose last directory lists the (extended) directory at depth k again, k = 1..3
for k in (1, 2, 3):
    ext = [False] * 4
    ext[k] = True
    (OUT / ("t4_cycle_reenter_ext_depth%d.sqfs" % k)).write_bytes(F.graph_image([[1], [2], [3], [k]], [1, 2, 3, 4], ext=ext).build())
# the seeded shape: basic root -> extended "a" that lists itself; and a file whose inode number equals an ancestor's
(OUT / "t4_cycle_ext_child_self.sqfs").write_bytes(F.graph_image([[1], [1]], [1, 2], ext=[False, True]).build())
(OUT / "t4_file_inum_of_ancestor.sqfs").write_bytes(F.graph_image([[1], [-1]], [1, 2], 1, [False, True], [1], [True]).build())
# D4 through the tools: valid image whose /f2 has a block word announcing 2 * block_size uncompressed bytes
fg = F.sample_tree(random.Random(5), 4096)
img = bytearray(fg.build())
off = [o for (o, w, n) in fg.fields if n == "ino5.blk"][1]
img[off:off + 4] = struct.pack("<I", (1 << 24) | 8192)
(OUT / "d4_tool_block_word.sqfs").write_bytes(bytes(img))
# D27: no xattr table in the superblock, /sub/deep has xattr index 0
fg = F.sample_tree(random.Random(5), 4096)
fg.super_over = {"xattr_table": 0xFFFFFFFFFFFFFFFF}
(OUT / "d27_xattr_no_table.sqfs").write_bytes(fg.build())
# D28: extended symlink as the last inode, its trailing xattr index cut off (inode table block shortened by 4 bytes)
fg = F.Forge(4096)
root = fg.add(F.Node(F.T_DIR)); fg.root = root
f = fg.make_file(b"x")
xl = fg.add(F.Node(F.T_XSLINK)); xl.target = b"target"
root.entries = [(b"f", f), (b"xlink", xl)]
img = bytearray(fg.build())
off = [o for (o, w, n) in fg.fields if n == "itab.hdr0"][0]
hdr = struct.unpack("<H", img[off:off + 2])[0]
img[off:off + 2] = struct.pack("<H", 0x8000 | ((hdr & 0x7FFF) - 4))
(OUT / "d28_slink_ext_truncated.sqfs").write_bytes(bytes(img))
ino = struct.pack("<HHHHII", 10, 0o777, 0, 0, 5, 3) + struct.pack("<II", 1, 6) + b"target"        # no xattr field
(OUT / "d28_inode_slink_ext.script").write_text("# extended symlink inode without its xattr index\ninode 4096 " + ino.hex() + "\n")
# seeded C05-a1: extended directory inode whose (single) index entry needs exactly one byte more than the index buffer holds
def dir_ext(sizes):
    b = struct.pack("<HHHHII", 8, 0o755, 0, 0, 5, 1) + struct.pack("<IIIIHHI", 2, 3, 0, 0, len(sizes), 0, 0xFFFFFFFF)
    for sz in sizes:
        b += struct.pack("<III", 0, 0, sz) + bytes(0x41 + i % 26 for i in range(sz + 1))
    return b
(OUT / "a1_dir_ext_exact_fit.script").write_text("\n".join([
    "# seeded C05-a1: read_inode_dir_ext, an index entry that needs exactly one byte more than the index buffer has left",
    "# (name lengths 117, 245, 501: 12 + size + 1 = 128 / 256 / 512 + 1); the tree must answer ok, no sanitizer report"] +
    ["inode 4096 " + dir_ext([n - 1]).hex() for n in (117, 245, 501, 116, 118)]) + "\n")
print("corpus written:", sorted(p.name for p in OUT.iterdir()))
