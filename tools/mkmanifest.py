#!/usr/bin/env python3
"""Regenerates MANIFEST.json from tools/manifest_global.json + tools/manifest.d/Cxx.json (one file per claimed property) and validates it."""
import json, sys, subprocess
from pathlib import Path
VERIF = Path(__file__).resolve().parent.parent
ent = json.loads((VERIF / "tools" / "manifest_global.json").read_text())
ent["checks"] = {p.stem: json.loads(p.read_text()) for p in sorted((VERIF / "tools" / "manifest.d").glob("C*.json"))}
ent.setdefault("not_applicable", {})
# tools/manifest_hold.txt: "Cxx reason" lines — checks temporarily withdrawn (e.g. while a model is updated to follow a fix commit)
hold = {}
hp = VERIF / "tools" / "manifest_hold.txt"
if hp.exists():
    for l in hp.read_text().splitlines():
        if l.strip() and not l.startswith("#"):
            k, _, r = l.strip().partition(" ")
            hold[k] = r or "temporarily withdrawn"
for k, r in hold.items():
    if k in ent["checks"]:
        del ent["checks"][k]
        ent["not_applicable"][k] = "temporarily not claimed: " + r
props = [json.loads(l)["id"] for l in (VERIF / "properties.jsonl").read_text().splitlines() if l.strip()]
checks = []
for pid in props:
    e = ent["checks"].get(pid)
    if not e:
        continue
    checks.append({
        "property_id": pid,
        "quick_cmd": "tools/check %s --tier quick" % pid,
        "thorough_cmd": "tools/check %s --tier thorough" % pid,
        "evidence_file": "/verif/evidence/%s.json" % pid,
        "replay_cmd_template": "tools/check %s --replay {path}" % pid,
        "engine": "lean4-proof+correspondence",
        "level_claimed": {"category": e.get("category", "proof"), "text": e["text"], "design_ref": e.get("design_ref", "DESIGN.md §4 " + pid)},
        "level_note": e["note"],
        "technique": e["technique"],
    })
na = [{"property_id": pid, "reason": ent["not_applicable"].get(pid, "no check registered in this commit yet: model, theorems and correspondence harness for it are still to be built (DESIGN.md §8 build order); nothing is claimed")}
      for pid in props if pid not in ent["checks"]]
m = {
    "version": 1,
    "setup_cmd": "cd /verif/lean && lake build",
    "hooks": {"guard": "AGENTD_SQUASHFS_TOOLS_NG_VERIF",
              "enable": "tools/vlib.py passes -DAGENTD_SQUASHFS_TOOLS_NG_VERIF to every compile of /repo sources; " + ent.get("hooks_note", "no hook inside /repo is needed so far (instrumentation is done with -include/-D shims, link-time wrappers and LD_PRELOAD)"),
              "baseline_off_cmd": "make -C /repo -j8 check",
              "source_commits": ent.get("hook_commits", []),
              "add_only": True},
    "engines": [{"name": "lean4-proof+correspondence", "path": "/verif/lean, /verif/tools, /verif/harness",
                 "serves_properties": [c["property_id"] for c in checks],
                 "kind_free_text": "Lean 4 theorems about hand-written executable models (kernel-checked, axiom-audited on every run) + correspondence check: the real C code from /repo's working tree (ASan+UBSan) and the native model driver run on the same generated inputs/histories/schedules and are diffed; constants regenerated from the headers on every run"}],
    "checks": checks,
    "not_applicable": na,
    "notes": ent.get("notes", ""),
}
(VERIF / "MANIFEST.json").write_text(json.dumps(m, indent=1) + "\n")
try:
    import jsonschema
    jsonschema.validate(m, json.loads(Path("/root/.vp/MANIFEST.schema.json").read_text()))
    print("MANIFEST.json valid: %d checks, %d not_applicable" % (len(checks), len(na)))
except ImportError:
    r = subprocess.run(["python3-vt", "-c", "import json,jsonschema;jsonschema.validate(json.load(open('%s')),json.load(open('/root/.vp/MANIFEST.schema.json')));print('valid')" % (VERIF / "MANIFEST.json")])
    sys.exit(r.returncode)
