"""
Image forge for hostile directory tables (C06, reusable by other checks).

Writes a SquashFS 4.0 image with *uncompressed* metadata and data (metadata block headers carry the 0x8000
bit, data block size words carry bit 24; compressor id gzip) from a tree whose entry names, symlink targets,
order and repetition are arbitrary byte strings.  Nothing here goes through libsquashfs, so names like ".",
"..", "a/b", "\\0x", duplicates etc. reach the reader exactly as given.

    img = forge(Node(b"", "d", children=[Node(b"..", "f", payload=b"data"), ...]))

Node kinds: d dir, f regular file, l symlink, b/c block/char device, p fifo, s socket.
`xattrs`: list of (key-with-prefix bytes, value bytes); prefixes user./trusted./security. only.
`entry_type` overrides the type stored in the *directory entry* (default: the inode's basic type).

Deliberate damage (all optional, default none — the image is consistent):
`copy_fail = i`   (regular file) block `i`'s size word claims more bytes than a block holds: the data reader fails there
                   with SQFS_ERROR_OVERFLOW after blocks 0..i-1 have been delivered;
`xattr_fail`      `("index",)`: the inode's xattr index lies beyond the id table; `("key", k)`: the `k`-th key of the
                   inode's xattr set carries an unknown prefix id — the reader delivers `k` pairs, then fails;
`link_of = node`  the directory entry refers to the inode already written for `node` (a hard link).
"""
import struct

META = 8192
BASIC = {"d": 1, "f": 2, "l": 3, "b": 4, "c": 5, "p": 6, "s": 7}
PREFIXES = [b"user.", b"trusted.", b"security."]
NOFRAG = 0xFFFFFFFF


class Node:
    def __init__(self, name, kind, payload=b"", perm=None, uid=0, gid=0, mtime=0, devno=0, xattrs=(), children=(),
                 entry_type=None, copy_fail=None, xattr_fail=None, link_of=None):
        self.name = bytes(name)
        self.kind = kind
        self.payload = bytes(payload)
        self.perm = perm if perm is not None else (0o755 if kind == "d" else 0o777 if kind == "l" else 0o644)
        self.uid, self.gid, self.mtime, self.devno = uid, gid, mtime, devno
        self.xattrs = [(bytes(k), bytes(v)) for k, v in xattrs]
        self.children = list(children) if kind == "d" else []
        self.entry_type = entry_type
        self.copy_fail = copy_fail if kind == "f" else None
        self.xattr_fail = xattr_fail
        self.link_of = link_of

    def copy_fail_bytes(self, block_size=4096):
        """bytes of the content delivered before the damaged block (`Attr.copyFail` of the model)"""
        return None if self.copy_fail is None else min(self.copy_fail * block_size, len(self.payload))

    def xattr_fail_count(self):
        """pairs delivered before the xattr reader fails (`Attr.xattrFail` of the model)"""
        if self.xattr_fail is None:
            return None
        return 0 if self.xattr_fail[0] == "index" else min(self.xattr_fail[1], len(self.xattrs))

    # ---- the token format of `sqfsmodel c06` (preorder)
    def tokens(self):
        def h(b):
            return b.hex() if b else "-"
        xa = ",".join("%s=%s" % (h(k), h(v)) for k, v in self.xattrs) or "-"
        out = ["%s:%s:%s:%d:%d:%d:%d:%d:%s:%d" % (self.kind, h(self.name), h(self.payload), self.perm, self.uid, self.gid,
                                                  self.mtime, self.devno, xa, len(self.children))]
        cf, xf = self.copy_fail_bytes(), self.xattr_fail_count()
        st = getattr(self, "_start", None) if self.kind == "f" else None
        if cf is not None or xf is not None or st is not None:
            out[0] += ":%s:%s" % ("-" if cf is None else cf, "-" if xf is None else xf)
        if st is not None:
            out[0] += ":%d" % st                   # where forge() put the data: the key of rdsquashfs' qsort(compare_files)
        for c in self.children:
            out += c.tokens()
        return out

    def count(self):
        return 1 + sum(c.count() for c in self.children)


class _Meta:
    """a logical metadata stream stored as uncompressed 8 KiB blocks"""

    def __init__(self):
        self.buf = bytearray()

    def pos(self):
        """(on-disk offset of the current block relative to the table start, offset inside the block)"""
        return (len(self.buf) // META) * (META + 2), len(self.buf) % META

    def add(self, b):
        self.buf += b

    def disk(self):
        out = bytearray()
        for i in range(0, len(self.buf), META):
            blk = self.buf[i:i + META]
            out += struct.pack("<H", 0x8000 | len(blk)) + blk
        return bytes(out)


def forge(root, block_size=4096, mtime=0, no_xattr_table=False):
    data = bytearray()                      # data area, starts at byte 96
    inodes, dirs = _Meta(), _Meta()
    ids = []
    xattr_sets = []                         # list of tuple(sorted kv) -> index
    counter = [0]
    last_start = [0]

    def idx_of(v):
        v &= 0xFFFFFFFF
        if v not in ids:
            ids.append(v)
        return ids.index(v)

    def xattr_idx(n):
        if n.xattr_fail is not None and n.xattr_fail[0] == "index":
            return 0x00FFFFF0                   # far beyond any id table this forge writes
        if not n.xattrs:
            return NOFRAG
        bad = n.xattr_fail[1] if n.xattr_fail is not None and n.xattr_fail[0] == "key" else None
        key = (tuple(n.xattrs), bad)
        if key not in xattr_sets:
            xattr_sets.append(key)
        return xattr_sets.index(key)

    def write_inode(n, parent_inum):
        """writes n's subtree (children first), returns (inode ref, inode number, basic type)"""
        if n.link_of is not None and getattr(n.link_of, "_ref", None) is not None and n.kind != "d":
            n._start = getattr(n.link_of, "_start", None)
            return n.link_of._ref                      # hard link: same inode
        counter[0] += 1
        inum = counter[0]
        xi = xattr_idx(n)
        ext = xi != NOFRAG
        listing = None
        if n.kind == "d":
            ents = []
            for c in n.children:
                ref, cin, ctype = write_inode(c, inum)
                ents.append((c.name, ref, cin, c.entry_type if c.entry_type is not None else ctype))
            # one header per entry: any name order, any inode location
            lst = bytearray()
            for name, ref, cin, ctype in ents:
                if not 1 <= len(name) <= 65536:
                    raise ValueError("directory entry names are 1..65536 bytes on disk")
                lst += struct.pack("<III", 0, ref >> 16, cin)
                lst += struct.pack("<HhHH", ref & 0xFFFF, 0, ctype, len(name) - 1) + name
            blk, off = dirs.pos()
            dirs.add(lst)
            listing = (blk, off, len(lst) + 3)
            if listing[2] > 0xFFFF:
                ext = True
        blk, off = inodes.pos()
        ref = (blk << 16) | off
        t = BASIC[n.kind] + (7 if ext else 0)
        hdr = struct.pack("<HHHHII", t, n.perm & 0o7777, idx_of(n.uid), idx_of(n.gid), n.mtime & 0xFFFFFFFF, inum)
        if n.kind == "d":
            dblk, doff, dsz = listing
            if ext:
                body = struct.pack("<IIIIHHI", 2, dsz, dblk, parent_inum, 0, doff, xi)
            else:
                body = struct.pack("<IIHHI", dblk, 2, dsz, doff, parent_inum)
        elif n.kind == "f":
            # strictly increasing from file to file (a pad byte behind a file without stored data): rdsquashfs unpacks in
            # this order, without ties
            while 96 + len(data) <= last_start[0]:
                data.append(0)
            start = 96 + len(data)
            last_start[0] = start
            n._start = start
            sizes = []
            for i in range(0, len(n.payload), block_size):
                chunk = n.payload[i:i + block_size]
                if n.copy_fail is not None and i // block_size == n.copy_fail:
                    data.extend(chunk)
                    sizes.append((block_size + 1) | (1 << 24))     # more than a block can hold
                elif chunk.count(0) == len(chunk) and len(chunk) == block_size:
                    sizes.append(0)                      # sparse block
                else:
                    data.extend(chunk)
                    sizes.append(len(chunk) | (1 << 24))
            if ext:
                body = struct.pack("<QQQIIII", start, len(n.payload), 0, 1, NOFRAG, 0, xi)
            else:
                body = struct.pack("<IIII", start, NOFRAG, 0, len(n.payload))
            body += b"".join(struct.pack("<I", s) for s in sizes)
        elif n.kind == "l":
            body = struct.pack("<II", 1, len(n.payload)) + n.payload
            if ext:
                body += struct.pack("<I", xi)
        elif n.kind in "bc":
            body = struct.pack("<II", 1, n.devno & 0xFFFFFFFF) + (struct.pack("<I", xi) if ext else b"")
        else:
            body = struct.pack("<I", 1) + (struct.pack("<I", xi) if ext else b"")
        inodes.add(hdr + body)
        n._ref = (ref, inum, BASIC[n.kind])
        return n._ref

    def clear(n):
        n._ref = None
        n._start = None
        for c in n.children:
            clear(c)
    clear(root)
    root_ref, _, _ = write_inode(root, 0)
    root_inum = counter[0]
    # root's parent_inode field is inode_count + 1 by convention; irrelevant for the reader
    img = bytearray(96)
    img += data
    inode_start = len(img)
    img += inodes.disk()
    dir_start = len(img)
    dd = dirs.disk()
    if not dd:
        dd = struct.pack("<H", 0x8000 | 1) + b"\0"   # keep the table non-empty
    img += dd
    # id table
    if not ids:
        ids.append(0)
    idblk_pos = len(img)
    raw = b"".join(struct.pack("<I", i) for i in ids)
    img += struct.pack("<H", 0x8000 | len(raw)) + raw
    id_start = len(img)
    img += struct.pack("<Q", idblk_pos)
    flags = 0x0001 | 0x0002 | 0x0008 | 0x0010 | 0x0800     # uncompressed inodes/data/frags/ids, no fragments
    xattr_start = 0xFFFFFFFFFFFFFFFF
    if xattr_sets and not no_xattr_table:
        kv = _Meta()
        descs = []
        kv_start = len(img)
        for s, bad in xattr_sets:
            blk, off = kv.pos()
            size = 0
            for j, (k, v) in enumerate(s):
                for pi, p in enumerate(PREFIXES):
                    if k.startswith(p):
                        break
                else:
                    raise ValueError("unsupported xattr prefix: %r" % k)
                rest = k[len(p):]
                if bad is not None and j == bad:
                    pi = 0x0055                                    # no such prefix id
                e = struct.pack("<HH", pi, len(rest)) + rest + struct.pack("<I", len(v)) + v
                kv.add(e)
                size += len(e)
            descs.append(struct.pack("<QII", (blk << 16) | off, len(s), size))
        img += kv.disk()
        dm = _Meta()
        for d in descs:
            dm.add(d)
        desc_pos = len(img)
        ddisk = dm.disk()
        img += ddisk
        locs = []
        p = desc_pos
        for i in range(0, len(dm.buf), META):
            locs.append(p)
            p += 2 + min(META, len(dm.buf) - i)
        xattr_start = len(img)
        img += struct.pack("<QII", kv_start, len(xattr_sets), 0) + b"".join(struct.pack("<Q", l) for l in locs)
    else:
        flags |= 0x0200                                     # NO_XATTRS
    bytes_used = len(img)
    block_log = block_size.bit_length() - 1
    sb = struct.pack("<IIIIIHHHHHHQQQQQQQQ", 0x73717368, root_inum, mtime, block_size, 0, 1, block_log, flags, len(ids),
                     4, 0, root_ref, bytes_used, id_start, xattr_start, inode_start, dir_start,
                     0xFFFFFFFFFFFFFFFF, 0xFFFFFFFFFFFFFFFF)
    assert len(sb) == 96
    img[0:96] = sb
    if len(img) % 4096:
        img += b"\0" * (4096 - len(img) % 4096)
    return bytes(img)


def has_xattr_table(root, no_xattr_table=False):
    """does `forge(root)` write an xattr table (else the super block says SQFS_FLAG_NO_XATTRS)?"""
    def any_x(n):
        return (bool(n.xattrs) and not (n.xattr_fail is not None and n.xattr_fail[0] == "index")) or any(any_x(c) for c in n.children)
    return any_x(root) and not no_xattr_table


if __name__ == "__main__":
    import sys
    t = Node(b"", "d", children=[
        Node(b"hello", "f", payload=b"hello world\n", uid=1000, gid=100, mtime=1234567),
        Node(b"sub", "d", children=[Node(b"link", "l", payload=b"../hello"), Node(b"fifo", "p"), Node(b"null", "c", devno=0x103)]),
        Node(b"big", "f", payload=bytes(range(256)) * 40 + b"\0" * 4096 + b"tail"),
        Node(b"x", "f", payload=b"x", xattrs=[(b"user.foo", b"bar"), (b"trusted.t", b"\0\1")]),
    ])
    open(sys.argv[1], "wb").write(forge(t))
