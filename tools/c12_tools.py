"""
C12 tool level: the CLI tools (un-sanitized builds of the working tree) under harness/shim_io.c (LD_PRELOAD: seeded
short counts / EINTR / byte-at-a-time on read, write, pread, pwrite) and a pipe feeder / slow drain; the sha256 of
the image / archive / unpacked tree / stdout and the exit status must equal the unperturbed run's.
"""
import fcntl, gzip, hashlib, io, os, random, shutil, stat, subprocess, tarfile, threading, time
import vlib

TOOLS = ["gensquashfs", "tar2sqfs", "sqfs2tar", "rdsquashfs"]
F_SETPIPE_SZ = 1031


def build(ctx):
    bins = {t: ctx.build_tool(t, sanitize=False, tag="plain") for t in TOOLS}
    so = ctx.scratch / "shim_io.so"
    r = vlib.sh(["gcc", "-shared", "-fPIC", "-O1", "-w", str(vlib.HARNESS / "shim_io.c"), "-o", str(so), "-ldl"])
    if r.returncode != 0:
        raise vlib.CheckFailure("cannot build shim_io.so: " + r.stderr[-2000:])
    return bins, so


def sha_file(p):
    h = hashlib.sha256()
    with open(p, "rb") as f:
        for b in iter(lambda: f.read(1 << 20), b""):
            h.update(b)
    return h.hexdigest()


def tree_hash(root):
    h = hashlib.sha256()
    for dp, dn, fn in os.walk(root):
        dn.sort()
        for n in sorted(dn + fn):
            p = os.path.join(dp, n)
            st = os.lstat(p)
            rel = os.path.relpath(p, root)
            if stat.S_ISLNK(st.st_mode):
                h.update(("L %s -> %s\n" % (rel, os.readlink(p))).encode())
            elif stat.S_ISDIR(st.st_mode):
                h.update(("D %s %o\n" % (rel, st.st_mode & 0o7777)).encode())
            elif stat.S_ISREG(st.st_mode):
                h.update(("F %s %o %d %s\n" % (rel, st.st_mode & 0o7777, st.st_size, sha_file(p))).encode())
            else:
                h.update(("O %s %o\n" % (rel, st.st_mode)).encode())
    return h.hexdigest()


def make_inputs(work, rng):
    """seeded input tree, pack file, tar archives"""
    src = work / "src"
    (src / "d1" / "deep dir").mkdir(parents=True)
    (src / "empty").mkdir()
    sizes = [0, 1, 100, 4095, 4096, 131071, 131072, 131073, 262144, rng.randint(1, 400000), rng.randint(1, 5000)]
    names = []
    for i, sz in enumerate(sizes):
        kind = rng.random()
        if kind < 0.3:
            body = bytes(rng.getrandbits(8) for _ in range(min(sz, 997))) * (sz // 997 + 1)
        elif kind < 0.6:
            body = rng.randbytes(sz)
        else:   # holes: zero runs around block boundaries
            body = bytearray(rng.randbytes(sz))
            if sz > 10:
                a = rng.randint(0, sz - 1); b = rng.randint(a, sz)
                body[a:b] = b"\0" * (b - a)
            body = bytes(body)
        body = body[:sz]
        d = rng.choice(["", "d1", "d1/deep dir"])
        n = os.path.join(d, "f%02d %s.bin" % (i, "x" * rng.choice([1, 3, 120])))
        (src / n).write_bytes(body)
        os.chmod(src / n, rng.choice([0o644, 0o600, 0o755]))
        names.append(n)
    os.symlink("d1/deep dir", src / "link1")
    os.symlink("/" + "t" * 200, src / "d1" / "longlink")
    for dp, dn, fn in os.walk(src):
        for n in dn + fn:
            os.utime(os.path.join(dp, n), (1000000000, 1000000000), follow_symlinks=False)
    os.utime(src, (1000000000, 1000000000))
    # pack file: many lines (crosses the istream buffer), CRLF and blank lines, leading/trailing blanks
    lines = ["# generated", "", "dir /gen 0755 0 0", "   dir /gen/pad 0750 1 2   \r"]
    for i in range(rng.choice([200, 6000])):
        lines.append("dir /gen/pad/%05d 0755 %d %d%s" % (i, i % 7, i % 5, rng.choice(["", " ", "\r", "\t \r"])))
        if rng.random() < 0.05:
            lines.append(rng.choice(["", "  ", "# comment " + "c" * rng.randint(0, 300)]))
    for i, n in enumerate(names):
        lines.append('file "/gen/f%d" 0644 3 4 %s' % (i, '"' + n + '"'))
    lines.append("slink /gen/sl 0777 0 0 /gen/pad/00000")
    lines.append("nod /gen/null 0666 0 0 c 1 3")
    end = rng.choice(["\n", ""])                     # with / without final newline
    (work / "list.txt").write_bytes(("\n".join(lines) + end).encode())
    # tar archives
    for fmt, name in ((tarfile.PAX_FORMAT, "in_pax.tar"), (tarfile.GNU_FORMAT, "in_gnu.tar")):
        with tarfile.open(work / name, "w", format=fmt) as tf:
            def flt(ti):
                ti.uid = ti.gid = 0; ti.uname = ti.gname = ""; ti.mtime = 1000000000
                return ti
            tf.add(src, arcname=".", filter=flt)
    raw = (work / "in_pax.tar").read_bytes()
    with open(work / "in_pax.tar.gz", "wb") as f:
        with gzip.GzipFile(fileobj=f, mode="wb", mtime=0) as g:
            g.write(raw)
    return src, names


def run_tool(argv, env, stdin_path=None, feed_chunk=0, stdout_path=None, drain_chunk=0, timeout=300, rng=None):
    """run one tool; stdin from a pipe fed in `feed_chunk`-byte pieces (0: plain file redirect); stdout drained from a small
    pipe in `drain_chunk`-byte pieces with pauses (0: straight into the file). Returns exit status (or 'timeout')."""
    fin = fout = None
    kw = {}
    if stdin_path is not None:
        if feed_chunk:
            kw["stdin"] = subprocess.PIPE
        else:
            fin = open(stdin_path, "rb"); kw["stdin"] = fin
    else:
        kw["stdin"] = subprocess.DEVNULL
    if stdout_path is not None:
        if drain_chunk:
            kw["stdout"] = subprocess.PIPE
        else:
            fout = open(stdout_path, "wb"); kw["stdout"] = fout
    else:
        kw["stdout"] = subprocess.DEVNULL
    p = subprocess.Popen(argv, env=env, stderr=subprocess.PIPE, **kw)
    ths = []
    if stdin_path is not None and feed_chunk:
        data = open(stdin_path, "rb").read()

        def feed():
            fd = p.stdin.fileno()
            try:
                fcntl.fcntl(fd, F_SETPIPE_SZ, 4096)
            except OSError:
                pass
            i, n = 0, 0
            try:
                while i < len(data):
                    c = feed_chunk if feed_chunk > 0 else rng.randint(1, 9000)
                    os.write(fd, data[i:i + c]); i += c; n += 1
                    if n % 4096 == 0:
                        time.sleep(0)
            except (BrokenPipeError, OSError):
                pass
            try:
                p.stdin.close()
            except OSError:
                pass
        ths.append(threading.Thread(target=feed))
    if stdout_path is not None and drain_chunk:
        def drain():
            fd = p.stdout.fileno()
            try:
                fcntl.fcntl(fd, F_SETPIPE_SZ, 4096)
            except OSError:
                pass
            n = 0
            with open(stdout_path, "wb") as f:
                while True:
                    # small pieces with pauses for the first 30000 reads, then page-sized (keeps the run short)
                    b = os.read(fd, drain_chunk if n < 30000 else 4096)
                    if not b:
                        break
                    f.write(b); n += 1
                    if n % 256 == 0 and n < 30000:
                        time.sleep(0.0005)
        ths.append(threading.Thread(target=drain))
    errbuf = []
    ths.append(threading.Thread(target=lambda: errbuf.append(p.stderr.read())))
    [t.start() for t in ths]
    try:
        rc = p.wait(timeout=timeout)
    except subprocess.TimeoutExpired:
        p.kill(); rc = "timeout"
    [t.join(10) for t in ths]
    for f in (fin, fout):
        if f:
            f.close()
    return rc, (errbuf[0][-600:].decode("utf8", "replace") if errbuf else "")


def scenarios(work, bins, names):
    """name → (argv builder, stdin file, captures stdout?, output kind). `out` is a fresh path per run."""
    img = str(work / "base.sqfs")
    S = {}
    S["gensquashfs-dir"] = dict(argv=lambda out: [str(bins["gensquashfs"]), "--pack-dir", str(work / "src"), "--all-root", "-d", "mtime=0", "-q", "-f", out], kind="file")
    S["gensquashfs-packfile"] = dict(argv=lambda out: [str(bins["gensquashfs"]), "--pack-file", str(work / "list.txt"), "--pack-dir", str(work / "src"), "-q", "-f", out], kind="file")
    S["tar2sqfs-pax"] = dict(argv=lambda out: [str(bins["tar2sqfs"]), "-q", "-f", out], stdin=str(work / "in_pax.tar"), kind="file")
    S["tar2sqfs-gnu"] = dict(argv=lambda out: [str(bins["tar2sqfs"]), "-q", "-f", out], stdin=str(work / "in_gnu.tar"), kind="file")
    S["tar2sqfs-gz"] = dict(argv=lambda out: [str(bins["tar2sqfs"]), "-q", "-f", out], stdin=str(work / "in_pax.tar.gz"), kind="file")
    S["sqfs2tar"] = dict(argv=lambda out: [str(bins["sqfs2tar"]), img], kind="stdout")
    S["sqfs2tar-gzip"] = dict(argv=lambda out: [str(bins["sqfs2tar"]), "-c", "gzip", img], kind="stdout")
    S["rdsquashfs-unpack"] = dict(argv=lambda out: [str(bins["rdsquashfs"]), "-q", "-u", "/", "-p", out, img], kind="tree")
    S["rdsquashfs-unpack-nosparse"] = dict(argv=lambda out: [str(bins["rdsquashfs"]), "-q", "-Z", "-u", "/", "-p", out, img], kind="tree")
    big = max(names, key=lambda n: os.path.getsize(work / "src" / n))
    S["rdsquashfs-cat"] = dict(argv=lambda out: [str(bins["rdsquashfs"]), "-c", "/" + big, img], kind="stdout")
    S["rdsquashfs-describe"] = dict(argv=lambda out: [str(bins["rdsquashfs"]), "-d", img], kind="stdout")
    return S


def run_scenario(work, sc, env, tag, feed_chunk=0, drain_chunk=0, rng=None):
    out = str(work / ("out_" + tag))
    if os.path.isdir(out):
        shutil.rmtree(out)
    elif os.path.exists(out):
        os.unlink(out)
    if sc["kind"] == "tree":
        os.mkdir(out)
    argv = sc["argv"](out)
    rc, err = run_tool(argv, env, stdin_path=sc.get("stdin"), feed_chunk=feed_chunk if sc.get("stdin") else 0,
                       stdout_path=out if sc["kind"] == "stdout" else None,
                       drain_chunk=drain_chunk if sc["kind"] == "stdout" else 0, rng=rng)
    if sc["kind"] == "tree":
        digest = tree_hash(out)
        shutil.rmtree(out, ignore_errors=True)
    else:
        digest = sha_file(out) if os.path.exists(out) else "absent"
        if os.path.exists(out) and tag != "keep":
            os.unlink(out)
    return rc, digest, err


CONFIGS = [
    {"VERIF_IO_SHORT": "300", "VERIF_IO_EINTR": "100"},
    {"VERIF_IO_MAXCHUNK": "1"},
    {"VERIF_IO_SHORT": "900", "VERIF_IO_EINTR": "500", "VERIF_IO_MAXCHUNK": "7"},
    {"VERIF_IO_EINTR": "900"},
    {"VERIF_IO_SHORT": "1000"},
    {"VERIF_IO_MAXCHUNK": "511", "VERIF_IO_EINTR": "30"},
    {"VERIF_IO_MAXCHUNK": "131071"},
    {"VERIF_IO_SHORT": "50", "VERIF_IO_EINTR": "5"},
]
FEEDS = [1, 7, 511, 512, 4096, -1]       # -1: random sizes


def parse_report(path, agg):
    if not os.path.exists(path):
        return
    for l in open(path).read().splitlines():
        for part in l.split(" ")[1:]:
            op, kv = part.split(":")
            for item in kv.split(","):
                k, v = item.split("=")
                agg.setdefault(op, {}).setdefault(k, 0)
                agg[op][k] += int(v)
    os.unlink(path)


def run(ctx, seed=None, only=None, nper=None):
    """returns (results:list of dict, agg:shim counters, skipped:list).  Violations are reported by the caller."""
    seed = ctx.seed if seed is None else seed
    rng = random.Random("C12-tools/%d" % seed)
    bins, so = build(ctx)
    work = ctx.scratch / "tl"
    if work.exists():
        shutil.rmtree(work)
    work.mkdir()
    src, names = make_inputs(work, rng)
    base_env = dict(os.environ)
    base_env.pop("LD_PRELOAD", None)
    S = scenarios(work, bins, names)
    # the image the readers work on (made by the unperturbed packer)
    rc, err = run_tool([str(bins["gensquashfs"]), "--pack-dir", str(src), "--all-root", "-d", "mtime=0", "-q", "-f", str(work / "base.sqfs")], base_env)
    if rc != 0:
        raise vlib.CheckFailure("cannot build the base image: rc=%s %s" % (rc, err))
    if nper is None:
        nper = 2 if ctx.quick() else 12
    results, skipped, agg = [], [], {}
    for name, sc in S.items():
        if only and name != only["scenario"]:
            continue
        b1 = run_scenario(work, sc, base_env, "base")
        b2 = run_scenario(work, sc, base_env, "base")
        if b1[:2] != b2[:2]:
            skipped.append({"scenario": name, "why": "two unperturbed runs differ (not a C12 matter)", "runs": [b1[:2], b2[:2]]})
            continue
        runs = []
        if only:
            runs = [(only["config"], only["feed"], only["drain"], only["shim_seed"])]
        else:
            for i in range(nper):
                cfg = CONFIGS[(rng.randrange(len(CONFIGS)) if i >= 2 else (i + list(S).index(name)) % 2)]
                # every scenario sees the mixed config and byte-at-a-time in the quick tier; more in thorough
                runs.append((cfg, rng.choice(FEEDS), rng.choice([1, 13, 4096]), rng.randrange(1 << 30)))
        for cfg, feed, drain, sseed in runs:
            env = dict(base_env)
            env.update(cfg)
            rep = str(work / "shim_report.txt")
            env.update({"LD_PRELOAD": str(so), "VERIF_IO_SEED": str(sseed), "VERIF_IO_REPORT": rep})
            t0 = time.time()
            r = run_scenario(work, sc, env, "pert", feed_chunk=feed, drain_chunk=drain, rng=random.Random(sseed))
            before = {k: dict(v) for k, v in agg.items()}
            parse_report(rep, agg)
            fired = sum(agg.get(op, {}).get(k, 0) - before.get(op, {}).get(k, 0) for op in agg for k in ("short", "eintr"))
            results.append({"scenario": name, "config": cfg, "feed": feed, "drain": drain, "shim_seed": sseed, "seed": seed,
                            "base": b1[:2], "pert": r[:2], "stderr": r[2], "fired": fired, "wall": round(time.time() - t0, 2),
                            "ok": r[:2] == b1[:2]})
    shutil.rmtree(work, ignore_errors=True)
    return results, agg, skipped
