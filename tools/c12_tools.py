"""
C12 tool level: the CLI tools (un-sanitized builds of the working tree) under harness/shim_io.c (LD_PRELOAD: seeded
short counts / EINTR / byte-at-a-time on read, write, pread, pwrite) and a pipe feeder / slow drain; the sha256 of
the image / archive / unpacked tree / stdout and the exit status must equal the unperturbed run's.
"""
import fcntl, gzip, hashlib, io, os, random, re, shutil, socket, stat, subprocess, tarfile, threading, time
import vlib

TOOLS = ["gensquashfs", "tar2sqfs", "sqfs2tar", "rdsquashfs"]
F_SETPIPE_SZ = 1031


def build(ctx):
    bins = {t: ctx.build_tool(t, sanitize=False, tag="plain") for t in TOOLS}
    so = ctx.scratch / "shim_io.so"
    r = vlib.sh(["gcc", "-shared", "-fPIC", "-O1", "-w", str(vlib.HARNESS / "shim_io.c"), "-o", str(so), "-ldl"])
    if r.returncode != 0:
        raise vlib.CheckFailure("cannot build shim_io.so: " + r.stderr[-2000:])
    return bins, so


def sha_file(p):
    h = hashlib.sha256()
    with open(p, "rb") as f:
        for b in iter(lambda: f.read(1 << 20), b""):
            h.update(b)
    return h.hexdigest()


def tree_hash(root):
    h = hashlib.sha256()
    for dp, dn, fn in os.walk(root):
        dn.sort()
        for n in sorted(dn + fn):
            p = os.path.join(dp, n)
            st = os.lstat(p)
            rel = os.path.relpath(p, root)
            if stat.S_ISLNK(st.st_mode):
                h.update(("L %s -> %s\n" % (rel, os.readlink(p))).encode())
            elif stat.S_ISDIR(st.st_mode):
                h.update(("D %s %o\n" % (rel, st.st_mode & 0o7777)).encode())
            elif stat.S_ISREG(st.st_mode):
                h.update(("F %s %o %d %s\n" % (rel, st.st_mode & 0o7777, st.st_size, sha_file(p))).encode())
            else:
                h.update(("O %s %o\n" % (rel, st.st_mode)).encode())
    return h.hexdigest()


def tar_header(name, size, sparse=(), realsize=None, mode=0o644, typeflag=None):
    """one 512-byte tar header block: a plain ustar regular file, or (with `sparse` = [(offset, count), ...], at most 4
    entries) an old-GNU sparse member (type 'S', magic "ustar  ", the map and the real size in the header)"""
    h = bytearray(512)

    def put(off, b):
        h[off:off + len(b)] = b
    put(0, name)
    put(100, b"%07o\0" % mode)
    put(108, b"0000000\0")
    put(116, b"0000000\0")
    put(124, b"%011o\0" % size)
    put(136, b"%011o\0" % 1000000000)
    put(329, b"0000000\0")
    put(337, b"0000000\0")
    if sparse:
        assert len(sparse) <= 4
        put(156, typeflag or b"S")
        put(257, b"ustar  \0")
        for i, (o, c) in enumerate(sparse):
            put(386 + 24 * i, b"%011o\0" % o)
            put(386 + 24 * i + 12, b"%011o\0" % c)
        put(483, b"%011o\0" % (size if realsize is None else realsize))
    else:
        put(156, typeflag or b"0")
        put(257, b"ustar\0" + b"00")
    put(148, b" " * 8)
    put(148, b"%06o\0 " % sum(h))
    return bytes(h)


def sparse_archive(rng):
    """a tar archive (hand-made: Python's tarfile cannot write sparse members) with old-GNU sparse members whose holes are
    shorter and longer than the 4096-byte zero window of the tar member stream, a plain member between them, end blocks"""
    out = bytearray()

    def member(name, record, sparse=(), realsize=None):
        out.extend(tar_header(name, len(record), sparse, realsize))
        out.extend(record)
        out.extend(b"\0" * ((512 - len(record) % 512) % 512))
    d1, d2, d3 = rng.randbytes(700), rng.randbytes(5000), rng.randbytes(1)
    member(b"sparse_a.bin", d1 + d2 + d3, [(3, 700), (10000, 5000), (150000, 1)], 150001 + rng.choice([0, 1, 9000]))
    member(b"plain_b.bin", rng.randbytes(rng.choice([0, 511, 513, 140000])))
    d4 = rng.randbytes(4096)
    member(b"sparse_c.bin", d4, [(0, 4096), (8192, 0)], 8192)            # ends in a hole of exactly 4096
    member(b"sparse_d.bin", b"", [(300000, 0)], 300000)                   # nothing but a hole
    out.extend(b"\0" * 1024)
    return bytes(out)


def make_inputs(work, rng):
    """seeded input tree, pack file, tar archives"""
    src = work / "src"
    (src / "d1" / "deep dir").mkdir(parents=True)
    (src / "empty").mkdir()
    sizes = [0, 1, 100, 4095, 4096, 131071, 131072, 131073, 262144, rng.randint(1, 400000), rng.randint(1, 5000)]
    names = []
    for i, sz in enumerate(sizes):
        kind = rng.random()
        if kind < 0.3:
            body = bytes(rng.getrandbits(8) for _ in range(min(sz, 997))) * (sz // 997 + 1)
        elif kind < 0.6:
            body = rng.randbytes(sz)
        else:   # holes: zero runs around block boundaries
            body = bytearray(rng.randbytes(sz))
            if sz > 10:
                a = rng.randint(0, sz - 1); b = rng.randint(a, sz)
                body[a:b] = b"\0" * (b - a)
            body = bytes(body)
        body = body[:sz]
        d = rng.choice(["", "d1", "d1/deep dir"])
        n = os.path.join(d, "f%02d %s.bin" % (i, "x" * rng.choice([1, 3, 120])))
        (src / n).write_bytes(body)
        os.chmod(src / n, rng.choice([0o644, 0o600, 0o755]))
        names.append(n)
    # one file that certainly compresses (several blocks and a tail end): its blocks carry a check sum, which the
    # damaged-image scenarios rely on (blocks stored uncompressed have none)
    n = os.path.join("d1", "zz compressible.bin")
    (src / n).write_bytes(b"".join(b"line %07d of a file that compresses well\n" % i for i in range(7000)))
    names.append(n)
    os.symlink("d1/deep dir", src / "link1")
    os.symlink("/" + "t" * 200, src / "d1" / "longlink")
    for dp, dn, fn in os.walk(src):
        for n in dn + fn:
            os.utime(os.path.join(dp, n), (1000000000, 1000000000), follow_symlinks=False)
    os.utime(src, (1000000000, 1000000000))
    # pack file: many lines (crosses the istream buffer), CRLF and blank lines, leading/trailing blanks
    lines = ["# generated", "", "dir /gen 0755 0 0", "   dir /gen/pad 0750 1 2   \r"]
    for i in range(rng.choice([200, 6000])):
        lines.append("dir /gen/pad/%05d 0755 %d %d%s" % (i, i % 7, i % 5, rng.choice(["", " ", "\r", "\t \r"])))
        if rng.random() < 0.05:
            lines.append(rng.choice(["", "  ", "# comment " + "c" * rng.randint(0, 300)]))
    for i, n in enumerate(names):
        lines.append('file "/gen/f%d" 0644 3 4 %s' % (i, '"' + n + '"'))
    lines.append("slink /gen/sl 0777 0 0 /gen/pad/00000")
    lines.append("nod /gen/null 0666 0 0 c 1 3")
    end = rng.choice(["\n", ""])                     # with / without final newline
    (work / "list.txt").write_bytes(("\n".join(lines) + end).encode())
    # tar archives
    for fmt, name in ((tarfile.PAX_FORMAT, "in_pax.tar"), (tarfile.GNU_FORMAT, "in_gnu.tar")):
        with tarfile.open(work / name, "w", format=fmt) as tf:
            def flt(ti):
                ti.uid = ti.gid = 0; ti.uname = ti.gname = ""; ti.mtime = 1000000000
                return ti
            tf.add(src, arcname=".", filter=flt)
    raw = (work / "in_pax.tar").read_bytes()
    with open(work / "in_pax.tar.gz", "wb") as f:
        with gzip.GzipFile(fileobj=f, mode="wb", mtime=0) as g:
            g.write(raw)
    raw = sparse_archive(rng)
    (work / "in_sparse.tar").write_bytes(raw)
    with open(work / "in_sparse.tar.gz", "wb") as f:
        with gzip.GzipFile(fileobj=f, mode="wb", mtime=0) as g:
            g.write(raw)
    return src, names


def run_tool(argv, env, stdin_path=None, feed_chunk=0, stdout_path=None, drain_chunk=0, timeout=900, rng=None, sock=False):
    """run one tool; stdin from a pipe (or, with `sock`, a UNIX stream socket) fed in `feed_chunk`-byte pieces (0: plain
    file redirect); stdout drained from a small pipe (or socket) in `drain_chunk`-byte pieces with pauses (0: straight into
    the file). Returns exit status (or 'timeout')."""
    fin = fout = None
    kw = {}
    sin = sout = None            # our ends of the socket pairs
    close_after = []
    if stdin_path is not None:
        if feed_chunk and sock:
            sin, theirs = socket.socketpair()
            kw["stdin"] = theirs; close_after.append(theirs)
        elif feed_chunk:
            kw["stdin"] = subprocess.PIPE
        else:
            fin = open(stdin_path, "rb"); kw["stdin"] = fin
    else:
        kw["stdin"] = subprocess.DEVNULL
    if stdout_path is not None:
        if drain_chunk and sock:
            sout, theirs = socket.socketpair()
            kw["stdout"] = theirs; close_after.append(theirs)
        elif drain_chunk:
            kw["stdout"] = subprocess.PIPE
        else:
            fout = open(stdout_path, "wb"); kw["stdout"] = fout
    else:
        kw["stdout"] = subprocess.DEVNULL
    p = subprocess.Popen(argv, env=env, stderr=subprocess.PIPE, **kw)
    for x in close_after:
        x.close()
    ths = []
    if stdin_path is not None and feed_chunk:
        data = open(stdin_path, "rb").read()

        def feed():
            fd = sin.fileno() if sin is not None else p.stdin.fileno()
            try:
                if sin is None:
                    fcntl.fcntl(fd, F_SETPIPE_SZ, 4096)
                else:
                    sin.setsockopt(socket.SOL_SOCKET, socket.SO_SNDBUF, 4096)
            except OSError:
                pass
            i, n = 0, 0
            try:
                while i < len(data):
                    c = feed_chunk if feed_chunk > 0 else rng.randint(1, 9000)
                    os.write(fd, data[i:i + c]); i += c; n += 1
                    if n % 4096 == 0:
                        time.sleep(0)
            except (BrokenPipeError, OSError):
                pass
            try:
                if sin is not None:
                    sin.close()
                else:
                    p.stdin.close()
            except OSError:
                pass
        ths.append(threading.Thread(target=feed))
    if stdout_path is not None and drain_chunk:
        def drain():
            fd = sout.fileno() if sout is not None else p.stdout.fileno()
            try:
                if sout is None:
                    fcntl.fcntl(fd, F_SETPIPE_SZ, 4096)
            except OSError:
                pass
            n = 0
            with open(stdout_path, "wb") as f:
                while True:
                    # small pieces with pauses for the first 30000 reads, then page-sized (keeps the run short)
                    b = os.read(fd, drain_chunk if n < 30000 else 4096)
                    if not b:
                        break
                    f.write(b); n += 1
                    if n % 256 == 0 and n < 30000:
                        time.sleep(0.0005)
        ths.append(threading.Thread(target=drain))
    errbuf = []
    ths.append(threading.Thread(target=lambda: errbuf.append(p.stderr.read())))
    [t.start() for t in ths]
    try:
        rc = p.wait(timeout=timeout)
    except subprocess.TimeoutExpired:
        p.kill(); rc = "timeout"
    [t.join(10) for t in ths]
    for f in (fin, fout, sout):
        if f:
            f.close()
    LAST_STDERR[0] = errbuf[0].decode("utf8", "replace") if errbuf else ""
    return rc, (errbuf[0][-600:].decode("utf8", "replace") if errbuf else "")


LAST_STDERR = [""]        # complete stderr of the last run_tool call (tool runs are sequential)


def diag_class(text, work):
    """the diagnostics of a run as a caller sees them: the set of stderr lines, with the scratch directory and the name of
    the output of this run replaced (line numbers, member names, error texts stay)"""
    t = text.replace(str(work), "$W")
    t = re.sub(r"out_(base|pert|keep)", "out", t)
    return sorted(set(l.rstrip() for l in t.splitlines() if l.strip()))


def make_bad_inputs(work, rng):
    """inputs on which the tools must fail: truncated / damaged archives, a pack file with an error on a late line, an image
    with a damaged data block.  What a run leaves behind in its output is not compared for these (a partial image or tree),
    the exit status and the diagnostics are."""
    pax = (work / "in_pax.tar").read_bytes()
    gz = (work / "in_pax.tar.gz").read_bytes()
    (work / "bad_trunc.tar").write_bytes(pax[:len(pax) * 2 // 3 + rng.randint(0, 300)])          # ends inside a member
    (work / "bad_trunc.tar.gz").write_bytes(gz[:len(gz) - rng.choice([1, 4, 8, 9, 1000])])        # compressed stream cut short
    b = bytearray(gz)
    pos = len(b) - rng.choice([3, 6, 7])                                                           # CRC32 / ISIZE trailer: only the drain sees it
    b[pos] ^= 0x55
    (work / "bad_crc.tar.gz").write_bytes(bytes(b))
    b = bytearray(gz)
    pos = len(b) // 2 + rng.randint(0, 2000)
    b[pos] ^= 0xFF                                                                                 # damage inside the deflate data
    (work / "bad_data.tar.gz").write_bytes(bytes(b))
    gnu = bytearray((work / "in_gnu.tar").read_bytes())
    # second header block of the archive that starts a member: break its checksum
    offs, pos = [], 0
    while pos + 512 <= len(gnu) and any(gnu[pos:pos + 512]):
        offs.append(pos)
        size = int(bytes(gnu[pos + 124:pos + 135]).strip(b"\0 ") or b"0", 8)
        pos += 512 + (size + 511) // 512 * 512
    k = offs[min(len(offs) - 1, max(1, len(offs) * 2 // 3))]
    gnu[k + 150] = (gnu[k + 150] ^ 1) if gnu[k + 150] not in (0, 32) else ord("7")
    (work / "bad_header.tar").write_bytes(bytes(gnu))
    lines = (work / "list.txt").read_bytes().split(b"\n")
    at = len(lines) * 3 // 4
    lines.insert(at, b"   frobnicate /gen/what 0644 0 0  \r")
    (work / "bad_list.txt").write_bytes(b"\n".join(lines))
    img = bytearray((work / "base.sqfs").read_bytes())
    # somewhere in the data area (behind the super block, well in front of the tables at the end): a damaged block
    # (data and fragment blocks lie between the super block and the inode table, whose start is at offset 64 of the super
    # block; stored-uncompressed blocks have no check sum, so the whole area is damaged: files of random bytes still
    # unpack, the first compressed block fails)
    itab = int.from_bytes(img[64:72], "little")
    if not 200 < itab <= len(img):
        raise vlib.CheckFailure("base image: implausible inode table start %d" % itab)
    for i in range(104, itab):
        img[i] ^= 0xA5
    (work / "bad_block.sqfs").write_bytes(bytes(img))
    orig = (work / "base.sqfs").read_bytes()
    used = int.from_bytes(orig[40:48], "little")                                                  # bytes_used of the super block
    if not 200 < used <= len(orig):
        raise vlib.CheckFailure("base image: implausible bytes_used %d" % used)
    (work / "bad_trunc.sqfs").write_bytes(orig[:used - 3])                                        # the last table is cut


def scenarios(work, bins, names):
    """name → (argv builder, stdin file, captures stdout?, output kind). `out` is a fresh path per run."""
    img = str(work / "base.sqfs")
    S = {}
    S["gensquashfs-dir"] = dict(argv=lambda out: [str(bins["gensquashfs"]), "--pack-dir", str(work / "src"), "--all-root", "-d", "mtime=0", "-q", "-f", out], kind="file")
    S["gensquashfs-packfile"] = dict(argv=lambda out: [str(bins["gensquashfs"]), "--pack-file", str(work / "list.txt"), "--pack-dir", str(work / "src"), "-q", "-f", out], kind="file")
    S["tar2sqfs-pax"] = dict(argv=lambda out: [str(bins["tar2sqfs"]), "-q", "-f", out], stdin=str(work / "in_pax.tar"), kind="file")
    S["tar2sqfs-gnu"] = dict(argv=lambda out: [str(bins["tar2sqfs"]), "-q", "-f", out], stdin=str(work / "in_gnu.tar"), kind="file")
    S["tar2sqfs-gz"] = dict(argv=lambda out: [str(bins["tar2sqfs"]), "-q", "-f", out], stdin=str(work / "in_pax.tar.gz"), kind="file")
    S["tar2sqfs-sparse"] = dict(argv=lambda out: [str(bins["tar2sqfs"]), "-q", "-f", out], stdin=str(work / "in_sparse.tar"), kind="file")
    S["tar2sqfs-sparse-gz"] = dict(argv=lambda out: [str(bins["tar2sqfs"]), "-q", "-f", out], stdin=str(work / "in_sparse.tar.gz"), kind="file")
    S["sqfs2tar"] = dict(argv=lambda out: [str(bins["sqfs2tar"]), img], kind="stdout")
    S["sqfs2tar-gzip"] = dict(argv=lambda out: [str(bins["sqfs2tar"]), "-c", "gzip", img], kind="stdout")
    S["rdsquashfs-unpack"] = dict(argv=lambda out: [str(bins["rdsquashfs"]), "-q", "-u", "/", "-p", out, img], kind="tree")
    S["rdsquashfs-unpack-nosparse"] = dict(argv=lambda out: [str(bins["rdsquashfs"]), "-q", "-Z", "-u", "/", "-p", out, img], kind="tree")
    big = max(names, key=lambda n: os.path.getsize(work / "src" / n))
    S["rdsquashfs-cat"] = dict(argv=lambda out: [str(bins["rdsquashfs"]), "-c", "/" + big, img], kind="stdout")
    S["rdsquashfs-describe"] = dict(argv=lambda out: [str(bins["rdsquashfs"]), "-d", img], kind="stdout")
    # ---- inputs on which the tool must fail: exit status and diagnostics must not depend on the chunking
    t2s = lambda out: [str(bins["tar2sqfs"]), "-q", "-f", out]
    for nm, f in (("tar2sqfs-bad-truncated", "bad_trunc.tar"), ("tar2sqfs-bad-gz-truncated", "bad_trunc.tar.gz"),
                  ("tar2sqfs-bad-gz-crc", "bad_crc.tar.gz"), ("tar2sqfs-bad-gz-data", "bad_data.tar.gz"),
                  ("tar2sqfs-bad-header", "bad_header.tar")):
        S[nm] = dict(argv=t2s, stdin=str(work / f), kind="file", fails=True)
    S["gensquashfs-bad-packfile"] = dict(argv=lambda out: [str(bins["gensquashfs"]), "--pack-file", str(work / "bad_list.txt"), "--pack-dir", str(work / "src"), "-q", "-f", out], kind="file", fails=True)
    S["sqfs2tar-bad-block"] = dict(argv=lambda out: [str(bins["sqfs2tar"]), str(work / "bad_block.sqfs")], kind="stdout", fails=True)
    S["rdsquashfs-bad-block"] = dict(argv=lambda out: [str(bins["rdsquashfs"]), "-q", "-u", "/", "-p", out, str(work / "bad_block.sqfs")], kind="tree", fails=True)
    S["rdsquashfs-bad-truncated"] = dict(argv=lambda out: [str(bins["rdsquashfs"]), "-q", "-u", "/", "-p", out, str(work / "bad_trunc.sqfs")], kind="tree", fails=True)
    return S


def run_scenario(work, sc, env, tag, feed_chunk=0, drain_chunk=0, rng=None, sock=False):
    out = str(work / ("out_" + tag))
    if os.path.isdir(out):
        shutil.rmtree(out)
    elif os.path.exists(out):
        os.unlink(out)
    if sc["kind"] == "tree":
        os.mkdir(out)
    argv = sc["argv"](out)
    rc, err = run_tool(argv, env, stdin_path=sc.get("stdin"), feed_chunk=feed_chunk if sc.get("stdin") else 0,
                       stdout_path=out if sc["kind"] == "stdout" else None,
                       drain_chunk=drain_chunk if sc["kind"] == "stdout" else 0, rng=rng, sock=sock)
    if sc.get("fails"):
        # a failing run: what it leaves behind (partial image / archive / tree) is not part of the comparison; the exit
        # status and the diagnostics are
        digest = "diag:" + vlib.sha("\n".join(diag_class(LAST_STDERR[0], work)))[:16]
        if sc["kind"] == "tree":
            shutil.rmtree(out, ignore_errors=True)
        elif os.path.exists(out):
            os.unlink(out)
    elif sc["kind"] == "tree":
        digest = tree_hash(out)
        shutil.rmtree(out, ignore_errors=True)
    else:
        digest = sha_file(out) if os.path.exists(out) else "absent"
        if os.path.exists(out) and tag != "keep":
            os.unlink(out)
    return rc, digest, err


CONFIGS = [
    {"VERIF_IO_SHORT": "300", "VERIF_IO_EINTR": "100"},
    {"VERIF_IO_MAXCHUNK": "1"},
    # EINTR runs far beyond any plausible retry cap: 99.7 % of the calls are interrupted, up to 1500 times in a row (a run is
    # longer than 400 with probability 0.997^400 = 30 %, reaches 1500 with 1 %)
    {"VERIF_IO_EINTR": "997", "VERIF_IO_EINTR_BURST": "1500", "VERIF_IO_SHORT": "200"},
    {"VERIF_IO_SHORT": "900", "VERIF_IO_EINTR": "500", "VERIF_IO_MAXCHUNK": "7"},
    {"VERIF_IO_EINTR": "900"},
    {"VERIF_IO_SHORT": "1000"},
    {"VERIF_IO_MAXCHUNK": "511", "VERIF_IO_EINTR": "30"},
    {"VERIF_IO_MAXCHUNK": "131071"},
    {"VERIF_IO_SHORT": "50", "VERIF_IO_EINTR": "5"},
]
FEEDS = [1, 7, 511, 512, 4096, -1]       # -1: random sizes


def parse_report(path, agg):
    if not os.path.exists(path):
        return
    for l in open(path).read().splitlines():
        for part in l.split(" ")[1:]:
            op, kv = part.split(":")
            for item in kv.split(","):
                k, v = item.split("=")
                agg.setdefault(op, {}).setdefault(k, 0)
                agg[op][k] += int(v)
    os.unlink(path)


def run(ctx, seed=None, only=None, nper=None):
    """returns (results:list of dict, agg:shim counters, skipped:list).  Violations are reported by the caller."""
    seed = ctx.seed if seed is None else seed
    rng = random.Random("C12-tools/%d" % seed)
    bins, so = build(ctx)
    work = ctx.scratch / "tl"
    if work.exists():
        shutil.rmtree(work)
    work.mkdir()
    src, names = make_inputs(work, rng)
    base_env = dict(os.environ)
    base_env.pop("LD_PRELOAD", None)
    S = scenarios(work, bins, names)
    # the image the readers work on (made by the unperturbed packer)
    rc, err = run_tool([str(bins["gensquashfs"]), "--pack-dir", str(src), "--all-root", "-d", "mtime=0", "-q", "-f", str(work / "base.sqfs")], base_env)
    if rc != 0:
        raise vlib.CheckFailure("cannot build the base image: rc=%s %s" % (rc, err))
    make_bad_inputs(work, rng)
    if nper is None:
        nper = 3 if ctx.quick() else 12
    results, skipped, agg = [], [], {}
    for name, sc in S.items():
        if only and name != only["scenario"]:
            continue
        b1 = run_scenario(work, sc, base_env, "base")
        b2 = run_scenario(work, sc, base_env, "base")
        if sc.get("fails"):
            ctx.log("tool level, damaged input %s: unperturbed exit %s, diagnostics %s" % (name, b1[0], diag_class(LAST_STDERR[0], work)[-3:]))
            if b1[0] in (0, "timeout") or (isinstance(b1[0], int) and b1[0] < 0) or not LAST_STDERR[0].strip():
                # the input is meant to be refused with a diagnostic: anything else compares nothing
                raise vlib.CheckFailure("tool scenario %s: the unperturbed run on a damaged input did not fail with a diagnostic (exit %s): %s" % (
                    name, b1[0], b1[2][-400:]))
        elif b1[0] != 0 or b1[1] == "absent":
            # a scenario whose unperturbed run fails compares nothing: failure of the check, not a pass
            raise vlib.CheckFailure("tool scenario %s: the unperturbed run failed (exit %s, output %s): %s" % (name, b1[0], b1[1], b1[2][-400:]))
        if b1[:2] != b2[:2]:
            raise vlib.CheckFailure("tool scenario %s: two unperturbed runs differ (%s vs %s), nothing to compare a perturbed run with" % (
                name, b1[:2], b2[:2]))
        runs = []
        if only:
            runs = [(only["config"], only["feed"], only["drain"], only["shim_seed"], only.get("sock", False))]
        else:
            for i in range(nper):
                # every scenario sees the mixed config, byte-at-a-time and the long EINTR runs in the quick tier; more in thorough
                cfg = CONFIGS[(rng.randrange(len(CONFIGS)) if i >= 3 else (i + list(S).index(name)) % 3)]
                feed, drain = rng.choice(FEEDS), rng.choice([1, 13, 4096])
                if (i + list(S).index(name)) % 3 == 1 or (i >= 3 and rng.random() < 0.25):
                    # stdin redirected from / stdout redirected into a *regular file* (what the tools mostly run with), only
                    # the shim perturbs: shortcuts that depend on the descriptor type are met under perturbation too
                    feed = drain = 0
                runs.append((cfg, feed, drain, rng.randrange(1 << 30), rng.random() < 0.35))
        for cfg, feed, drain, sseed, sock in runs:
            env = dict(base_env)
            env.update(cfg)
            rep = str(work / "shim_report.txt")
            env.update({"LD_PRELOAD": str(so), "VERIF_IO_SEED": str(sseed), "VERIF_IO_REPORT": rep})
            t0 = time.time()
            r = run_scenario(work, sc, env, "pert", feed_chunk=feed, drain_chunk=drain, rng=random.Random(sseed), sock=sock)
            before = {k: dict(v) for k, v in agg.items()}
            parse_report(rep, agg)
            fired = sum(agg.get(op, {}).get(k, 0) - before.get(op, {}).get(k, 0) for op in agg for k in ("short", "eintr"))
            results.append({"scenario": name, "config": cfg, "feed": feed, "drain": drain, "shim_seed": sseed, "seed": seed, "sock": sock,
                            "base": b1[:2], "pert": r[:2], "stderr": r[2], "fired": fired, "wall": round(time.time() - t0, 2),
                            "fails": bool(sc.get("fails")), "stdio": sc["kind"] == "stdout" or bool(sc.get("stdin")),
                            "ok": r[:2] == b1[:2]})
    shutil.rmtree(work, ignore_errors=True)
    if not only:
        # floors: every scenario ran and was really perturbed; every interposed function saw short counts and EINTRs
        quiet = [n for n in S if not any(r["scenario"] == n and r["fired"] > 0 for r in results)]
        dead = [(op, k) for op in ("read", "write", "pread", "pwrite") for k in ("short", "eintr") if agg.get(op, {}).get(k, 0) == 0]
        regfile = [r for r in results if r["stdio"] and r["feed"] == 0 and r["drain"] == 0 and r["fired"] > 0]
        piped = [r for r in results if r["stdio"] and (r["feed"] != 0 or r["drain"] != 0) and r["fired"] > 0]
        nfail = [r for r in results if r["fails"] and r["fired"] > 0]
        if len(results) != len(S) * nper or quiet or dead or len(regfile) < 5 or len(piped) < 10 or len(nfail) < 9:
            raise vlib.CheckFailure("tool level evaluated too little: %d of %d runs, scenarios never perturbed %s, counters at zero %s, "
                                    "%d perturbed runs with regular-file stdin/stdout, %d with pipe/socket, %d on damaged inputs" % (
                                        len(results), len(S) * nper, quiet, dead, len(regfile), len(piped), len(nfail)))
    return results, agg, skipped
