#!/bin/sh
# Run AgentD/squashfs-tools-ng's own 89-test suite in a scratch git worktree/checkout DIR of /repo
# (the autotools products are untracked in /repo, so they are copied over first). Prints the summary lines.
# usage: tools/repo_tests.sh DIR
set -e
DIR="$1"; [ -d "$DIR" ] || { echo "usage: $0 DIR" >&2; exit 2; }
cd "$DIR"
for f in configure Makefile.in aclocal.m4 config.h.in compile depcomp install-sh missing ltmain.sh config.guess config.sub test-driver; do
  [ -e "$f" ] || cp -a /repo/$f .
done
cp -an /repo/m4/* m4/ 2>/dev/null || true
./configure -q >/dev/null 2>&1
make -j16 >/dev/null 2>&1 || { echo "BUILD FAILED"; make 2>&1 | tail -30; exit 1; }
make -j16 check 2>&1 | grep -E "^(# (TOTAL|PASS|FAIL|ERROR|XFAIL|SKIP)|FAIL:|ERROR:)" || true
grep -q "^# FAIL:  0" test-suite.log && grep -q "^# ERROR: 0" test-suite.log
