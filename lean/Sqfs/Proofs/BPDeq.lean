/-
C02 helper lemmas, part 8: what `dequeue_block` does with an item the pool hands back.
-/
import Sqfs.Proofs.BPStep
namespace Sqfs.BlockProc
open Sqfs.Consts
open Sqfs.BlockWriter (hasFlag)

theorem stream_map_seq {P : Params} {n : Nat} {done : List Blk} {F : FSt} (h : FInv P n done F) :
    F.stream.map (·.seq) = List.range F.stream.length := by
  apply List.ext_getElem
  · simp
  · intro i h1 h2
    simp only [List.getElem_map, List.getElem_range]
    exact h.seqs i (by simpa using h1)

theorem nodup_of_map {α β : Type} (f : α → β) : ∀ (l : List α), (l.map f).Nodup → l.Nodup
  | [], _ => List.nodup_nil
  | a :: t, h => by
    rw [List.map_cons, List.nodup_cons] at h
    rw [List.nodup_cons]
    exact ⟨fun hm => h.1 (List.mem_map_of_mem hm), nodup_of_map f t h.2⟩

theorem stream_nodup {P : Params} {n : Nat} {done : List Blk} {F : FSt} (h : FInv P n done F) : F.stream.Nodup := by
  have : (F.stream.map (·.seq)).Nodup := by rw [stream_map_seq h]; exact List.nodup_range
  exact nodup_of_map _ _ this

theorem Back.queue_nodup {P : Params} {s : Proc} {g : Ghost} {F : FSt} {W : WSt} (h : Back P s g F W) :
    (s.ioQueue ++ g.items.filter isFB).Nodup :=
  h.queue.symm.nodup ((List.drop_sublist _ _).nodup (stream_nodup h.finv))

theorem Back.backlogIrrel {P : Params} {s : Proc} {g : Ghost} {F : FSt} {W : WSt} (h : Back P s g F W) (k : Nat) :
    Back P { s with backlog := k } g F W := { h with }

theorem fStep_data (P : Params) (F : FSt) (x : Blk) (h : isFrag x = false) :
    fStep P F x = { F with stream := F.stream ++ [x.withSeq F.stream.length] } := by
  have h' : hasFlag x.flags blkIsFragment = false := h
  unfold fStep; simp [h']

/-! ### a fragment block comes back: it waits in `io_queue` for its turn -/

theorem Back.deqFB {P : Params} (hP : P.ans = serialAns) {s : Proc} {g : Ghost} {F : FSt} {W : WSt}
    (h : Back P s g F W) (x : Blk) (rest : List Blk) (hi : g.items = x :: rest) (hfb : isFB x = true) :
    (poolDequeue P s.pool).2 = some x ∧
    handleDequeued P { s with pool := (poolDequeue P s.pool).1 } x =
      .ok { s with pool := (poolDequeue P s.pool).1, ioQueue := storeIo x s.ioQueue } ∧
    Back P { s with pool := (poolDequeue P s.pool).1, ioQueue := storeIo x s.ioQueue } { g with items := rest } F W := by
  obtain ⟨hdq, hpool⟩ := poolDequeue_cons P hP s.pool x rest (hi ▸ h.pool)
  have hxq : x ∈ s.ioQueue ++ g.items.filter isFB := by
    rw [hi]; simp [hfb]
  have hxd := h.queue.subset hxq
  obtain ⟨hfacts, _, _⟩ := h.fb_facts (List.mem_of_mem_drop hxd) hfb
  have hnum : numberedAtDequeue x = false := by
    simp [numberedAtDequeue, hfacts.fb, hfacts.notManual]
  refine ⟨hdq, ?_, ?_⟩
  · unfold handleDequeued
    simp only [hfacts.notFrag, Bool.false_eq_true, if_false, hnum]
  · have hnd := h.queue_nodup
    rw [hi] at hnd
    simp only [List.filter_cons, hfb, if_true] at hnd
    refine { h with pool := hpool, pend := ?_, queue := ?_, sorted := ?_ }
    · rw [← h.pend, hi]; simp [hfb]
    · have := h.queue
      rw [hi] at this
      simp only [List.filter_cons, hfb, if_true] at this
      refine List.Perm.trans ?_ this
      exact ((storeIo_perm x s.ioQueue).append_right _).trans (List.perm_middle.symm)
    · refine storeIo_sorted x s.ioQueue h.sorted ?_
      intro y hy hs
      have hyd : y ∈ F.stream.drop s.ioDeqSeqNum := h.queue.subset (List.mem_append_left _ hy)
      have : y = x := stream_eq_of_seq h.finv hyd hxd hs
      subst this
      rw [List.nodup_append] at hnd
      exact hnd.2.2 y hy y List.mem_cons_self rfl

theorem Acct.deqStore {s : Proc} {g : Ghost} {k : Nat} (h : Acct s g k) (x : Blk) (rest : List Blk) (hi : g.items = x :: rest)
    (p' : PoolSt) (y : Blk) (g' : Ghost) (hg' : g'.items = rest) (seq : Nat) :
    Acct { s with pool := p', ioSeqNum := seq, ioQueue := storeIo y s.ioQueue } g' k := by
  unfold Acct at *
  simp only [storeIo_length, hg']
  rw [hi] at h
  simp only [List.length_cons] at h
  omega

/-! ### a data block comes back: it gets the next I/O sequence number -/

theorem Back.deqData {P : Params} (hP : P.ans = serialAns) (hc : CodecOk P.codec) {s : Proc} {g : Ghost} {F : FSt} {W : WSt}
    (h : Back P s g F W) (x : Blk) (rest : List Blk) (hi : g.items = x :: rest) (hfb : isFB x = false) (hfr : isFrag x = false) :
    (poolDequeue P s.pool).2 = some x ∧
    handleDequeued P { s with pool := (poolDequeue P s.pool).1 } x =
      .ok { s with pool := (poolDequeue P s.pool).1, ioSeqNum := s.ioSeqNum + 1,
                   ioQueue := storeIo { x with seq := s.ioSeqNum } s.ioQueue } ∧
    Back P { s with pool := (poolDequeue P s.pool).1, ioSeqNum := s.ioSeqNum + 1,
                    ioQueue := storeIo { x with seq := s.ioSeqNum } s.ioQueue }
      { g with items := rest, pend := g.pend.tail, done := g.done ++ [x] } (fStep P F x) W := by
  obtain ⟨hdq, hpool⟩ := poolDequeue_cons P hP s.pool x rest (hi ▸ h.pool)
  have hpend : g.pend = x :: rest.filter (fun b => !isFB b) := by
    rw [← h.pend, hi]; simp [hfb]
  have hxm : x ∈ g.done ++ g.pend := by rw [hpend]; simp
  have hxok := h.itemOK_of_mem hc hxm
  have hnum : numberedAtDequeue x = true := by
    have : hasFlag x.flags blkFragmentBlock = false := hfb
    simp [numberedAtDequeue, this]
  have hfr' : hasFlag x.flags blkIsFragment = false := hfr
  have hproto := h.fproto_next x _ hpend
  simp only [hfr, Bool.false_eq_true, if_false] at hproto
  have hseqeq : ({ x with seq := s.ioSeqNum } : Blk) = x.withSeq F.stream.length := by rw [h.ioSeq]; rfl
  refine ⟨hdq, ?_, ?_⟩
  · unfold handleDequeued
    simp only [hfr', Bool.false_eq_true, if_false, hnum, if_true]
  · rw [fStep_data P F x hfr, hseqeq]
    have hdeq := h.deqLe
    have hyfb : isFB (x.withSeq F.stream.length) = false := hfb
    have hfd := h.finv.data x hxok hfr hproto
    rw [fStep_data P F x hfr] at hfd
    refine { h with pool := hpool, pend := ?_, worked := ?_, deqLe := ?_, queue := ?_, sorted := ?_, finv := hfd, ioSeq := ?_,
                    wrun := ?_, winv := ?_, inFlAll := ?_ }
    · rw [hpend]; rfl
    · rw [← h.worked, hpend]; simp
    · simp only [List.length_append, List.length_singleton]; omega
    · simp only
      rw [List.drop_append_of_le_length hdeq]
      have := h.queue
      rw [hi] at this
      simp only [List.filter_cons, hfb, Bool.false_eq_true, if_false] at this
      refine List.Perm.trans ((storeIo_perm _ s.ioQueue).append_right _) ?_
      refine List.Perm.trans ?_ (this.append_right [x.withSeq F.stream.length])
      rw [List.cons_append]
      exact (List.perm_append_singleton _ _).symm
    · refine storeIo_sorted _ s.ioQueue h.sorted ?_
      intro y hy hs
      have hyd : y ∈ F.stream.drop s.ioDeqSeqNum := h.queue.subset (List.mem_append_left _ hy)
      have := (mem_drop_seq h.finv hyd).2.1
      simp only [Blk.withSeq_seq] at hs
      omega
    · simp only [List.length_append, List.length_singleton]; rw [h.ioSeq]
    · simp only; rw [List.take_append_of_le_length hdeq]; exact h.wrun
    · simp only; rw [List.take_append_of_le_length hdeq]; exact h.winv
    · intro hbc b hb hbfb
      simp only at hb
      rw [List.drop_append_of_le_length hdeq] at hb
      rcases List.mem_append.mp hb with hb | hb
      · exact h.inFlAll hbc b hb hbfb
      · rw [List.mem_singleton] at hb
        subst hb; rw [hyfb] at hbfb; cases hbfb

/-! ### a fragment comes back -/

/-- the fragment is out of the pool: it now belongs to the history the fragment pass has seen -/
theorem Back.takeFrag {P : Params} (hP : P.ans = serialAns) {s : Proc} {g : Ghost} {F : FSt} {W : WSt}
    (h : Back P s g F W) (x : Blk) (rest : List Blk) (hi : g.items = x :: rest) (hfb : isFB x = false) (hfr : isFrag x = true) :
    (poolDequeue P s.pool).2 = some x ∧
    Back P { s with pool := (poolDequeue P s.pool).1 } { g with items := rest, pend := g.pend.tail, done := g.done ++ [x] } F W := by
  obtain ⟨hdq, hpool⟩ := poolDequeue_cons P hP s.pool x rest (hi ▸ h.pool)
  have hpend : g.pend = x :: rest.filter (fun b => !isFB b) := by
    rw [← h.pend, hi]; simp [hfb]
  refine ⟨hdq, { h with pool := hpool, pend := ?_, worked := ?_, queue := ?_, finv := h.finv.moreDone x hfr }⟩
  · rw [hpend]; rfl
  · rw [← h.worked, hpend]; simp
  · have := h.queue
    rw [hi] at this
    simpa [hfb] using this

/-- an inode update by `process_completed_fragment` -/
theorem Back.addEffs {P : Params} {s : Proc} {g : Ghost} {F : FSt} {W : WSt} (h : Back P s g F W) (i : Option Nat) (e : InoEff)
    (hid : ∀ id, i = some id → id < s.w.inodes.length)
    (hprov : ∀ x ∈ mkEff i e, (∃ a o, x.e = .fragLoc a o) ∨
              (∃ k m y, x.e = .sparse k m ∧ y ∈ g.done ∧ isFrag y = true ∧ y.inode = some x.id ∧ y.index = k)) :
    Back P { s with w := modInode s.w i e.app } { g with h := g.h ++ mkEff i e, m := g.m ++ mkEff i e }
      { F with effs := F.effs ++ mkEff i e } W := by
  have hlen : (modInode s.w i e.app).inodes.length = s.w.inodes.length := modInode_length _ _ _
  have hfi := h.finv.addEffs (mkEff i e) (fun x hx => hid x.id (mem_mkEff hx).1) hprov
  have e1 : (modInode s.w i e.app).wr = s.w.wr := by cases i <;> rfl
  have e2 : (modInode s.w i e.app).calls = s.w.calls := by cases i <;> rfl
  have e3 : (modInode s.w i e.app).fragTbl = s.w.fragTbl := by cases i <;> rfl
  have e4 : (modInode s.w i e.app).inodes = applyEffs s.w.inodes (mkEff i e) := by rw [modInode_eff]
  constructor
  · exact h.maxBacklog
  · exact h.pool
  · exact h.pend
  · exact h.worked
  · exact h.deqLe
  · exact h.queue
  · exact h.sorted
  · simp only [hlen]; exact h.itemsOK
  · exact h.fprotoOK
  · simp only [hlen]; exact hfi
  · exact h.fragBlock
  · exact h.fragHt
  · exact h.ioSeq
  · exact h.wrun
  · exact h.winv
  · simp only [e1]; exact h.wr
  · simp only [e2]; exact h.calls
  · simp only [e3]; exact h.fragTbl
  · show (modInode s.w i e.app).inodes = applyEffs (List.replicate (modInode s.w i e.app).inodes.length {}) (g.h ++ mkEff i e)
    rw [hlen, e4, applyEffs_append, ← h.inodes]
  · exact h.mergeH.append_right _
  · exact h.mergeM.append_left _
  · simp only [hlen]; exact h.feIds
  · exact h.inFlSub
  · exact h.inFlNodup
  · exact h.inFlAll
  · exact h.inFlNone
  · exact h.cache

/-- the fragment table is searched: the answer is the reference's, whatever the cache held -/
theorem Back.lookup {P : Params} (hc : CodecOk P.codec) (hB : P.B < 2 ^ 24) {s : Proc} {g : Ghost} {F : FSt} {W : WSt}
    (h : Back P s g F W) (x : Blk) :
    ∃ c', lookupFrag P s x = .ok (F.lookup P x, { s with cachedFragBlk := c' }) ∧ Back P { s with cachedFragBlk := c' } g F W := by
  unfold lookupFrag FSt.lookup
  split
  · obtain ⟨c', hs, hco⟩ := search_eq hc hB x.data x.chk (x.flags &&& blkDontCompress) s.fragHt
      (fun c hcm => h.finv.chunks c (h.fragHt ▸ hcm)) h.look
    rw [show F.ht = s.fragHt from h.fragHt.symm]
    exact ⟨c', hs, h.setCache c' hco⟩
  · exact ⟨s.cachedFragBlk, rfl, h⟩

/-- every recorded `sqfs_frag_table_set` addresses an existing table entry -/
theorem Back.sets_lt {P : Params} {s : Proc} {g : Ghost} {F : FSt} {W : WSt} (h : Back P s g F W) :
    ∀ e ∈ W.sets, e.1 < F.ntbl := by
  intro e he
  have : e.1 ∈ W.sets.map (·.1) := List.mem_map_of_mem he
  rw [h.winv.setsIdx] at this
  obtain ⟨b, hb, hbi⟩ := List.mem_map.mp this
  obtain ⟨hbt, hbfb⟩ := List.mem_filter.mp hb
  rw [← hbi]
  exact (h.fb_facts (List.mem_of_mem_take hbt) hbfb).2.2

/-- the fragment does not fit: the open block is closed first -/
theorem Back.makeRoom {P : Params} (hP : P.ans = serialAns) {s : Proc} {g : Ghost} {F : FSt} {W : WSt}
    (h : Back P s g F W) (ho : g.done.foldl fOpen false = false) (len : Nat) :
    ∃ s' extra, makeRoom P s len = .ok s' ∧ Back P s' { g with items := g.items ++ extra } (F.makeRoom P len) W ∧
      s'.fe = s.fe ∧ s'.backlog = s.backlog ∧ s'.ioQueue = s.ioQueue ∧ s'.maxBacklog = s.maxBacklog ∧
      extra.length + boolNat s'.fragBlock.isSome = boolNat s.fragBlock.isSome := by
  unfold BlockProc.makeRoom FSt.makeRoom
  rw [h.fragBlock]
  cases hop : F.opn with
  | none =>
    refine ⟨s, [], rfl, by simpa using h, rfl, rfl, rfl, rfl, ?_⟩
    simp [h.fragBlock, hop]
  | some fb =>
    simp only
    split
    · obtain ⟨s', he, h1, h2, h3, h4, h5, hb⟩ := h.closeFrag hP fb hop ho
      refine ⟨s', _, he, hb, h1, h2, h3, h5, ?_⟩
      simp [h4, h.fragBlock, hop, boolNat]
    · refine ⟨s, [], rfl, by simpa using h, rfl, rfl, rfl, rfl, ?_⟩
      simp [h.fragBlock, hop]

theorem replicate_succ_snoc {α : Type} (n : Nat) (a : α) : List.replicate (n + 1) a = List.replicate n a ++ [a] :=
  List.replicate_succ'

/-- the fragment becomes the open block, or is appended to it -/
theorem Back.place {P : Params} {s : Proc} {g : Ghost} {F : FSt} {W : WSt} (h : Back P s g F W) (x : Blk)
    (hne : x.data ≠ []) (hle : x.data.length ≤ P.B) (hfit : ∀ fb, F.opn = some fb → fb.data.length + x.data.length ≤ P.B) :
    Back P (placeFrag s x).1 g (F.place x).1 W ∧ (placeFrag s x).2 = (F.place x).2 ∧
      (placeFrag s x).1.fe = s.fe ∧ (placeFrag s x).1.backlog = s.backlog ∧ (placeFrag s x).1.ioQueue = s.ioQueue ∧
      (placeFrag s x).1.maxBacklog = s.maxBacklog ∧ (placeFrag s x).1.fragBlock.isSome = true := by
  unfold placeFrag FSt.place
  rw [h.fragBlock]
  cases hop : F.opn with
  | none =>
    simp only [h.tblLen]
    refine ⟨?_, by simp [Proc.fe]⟩
    refine { h with itemsOK := h.itemsOK, finv := h.finv.placeNew hop x hne hle, fragBlock := rfl, fragTbl := ?_,
                    inodes := h.inodes, feIds := h.feIds }
    simp only
    rw [replicate_succ_snoc, applySets_snoc _ _ _ (by simpa using h.sets_lt), ← h.fragTbl]
  | some fb =>
    simp only
    refine ⟨?_, by simp [Proc.fe]⟩
    exact { h with finv := h.finv.placeAppend fb hop x (hfit fb hop), fragBlock := rfl }

/-- the new table entry is inserted -/
theorem Back.insert {P : Params} (hc : CodecOk P.codec) (hB : P.B < 2 ^ 24) {s : Proc} {g : Ghost} {F : FSt} {W : WSt}
    (h : Back P s g F W) (d : Bytes) (new : Chunk) (hnew : ChunkOK F new) :
    ∃ c', insert P s d new [] s.fragHt =
        .ok { s with fragHt := insertRef (chunkEqRef P.byteCompare F d new.hash new.flags) new F.ht, cachedFragBlk := c' } ∧
      Back P { s with fragHt := insertRef (chunkEqRef P.byteCompare F d new.hash new.flags) new F.ht, cachedFragBlk := c' } g
        { F with ht := insertRef (chunkEqRef P.byteCompare F d new.hash new.flags) new F.ht } W := by
  obtain ⟨c', hi, hco⟩ := insert_eq hc hB d new s.fragHt (fun c hcm => h.finv.chunks c (h.fragHt ▸ hcm)) [] h.look
  refine ⟨c', ?_, ?_⟩
  · rw [hi, h.fragHt]; rfl
  · exact { h with finv := h.finv.insertChunk _ new hnew, fragHt := rfl, cache := hco }

theorem place_chunkOK (F : FSt) (x : Blk) (hne : x.data ≠ []) (c : UInt32) (k : Nat) :
    ChunkOK (F.place x).1 ⟨(F.place x).2.1, (F.place x).2.2, x.data.length, c, k⟩ := by
  unfold FSt.place
  cases hop : F.opn with
  | none => exact ⟨x.data, by simp [FSt.fragData, openBytes], by simp, length_pos_of_ne_nil hne⟩
  | some fb => exact ⟨fb.data ++ x.data, by simp [FSt.fragData, openBytes], by simp, length_pos_of_ne_nil hne⟩

theorem Acct.releaseOld {s : Proc} {g : Ghost} {k : Nat} (h : Acct s g (k + 1)) : Acct (releaseOldBlock s) g k := by
  unfold Acct releaseOldBlock at *
  simp only
  omega

theorem enqueueBlock_w {P : Params} {s s' : Proc} {b : Blk} (h : enqueueBlock P s b = .ok s') : s'.w = s.w := by
  unfold enqueueBlock at h
  split at h
  · cases h
  · simp only [Except.ok.injEq] at h; rw [← h]

theorem makeRoom_w {P : Params} {s s' : Proc} {len : Nat} (h : BlockProc.makeRoom P s len = .ok s') : s'.w = s.w := by
  unfold BlockProc.makeRoom at h
  split at h
  · split at h
    · have := enqueueBlock_w h; exact this
    · simp only [Except.ok.injEq] at h; rw [← h]
  · simp only [Except.ok.injEq] at h; rw [← h]

theorem insert_w {P : Params} {d : Bytes} {new : Chunk} : ∀ (l pre : List Chunk) {s s' : Proc},
    BlockProc.insert P s d new pre l = .ok s' → s'.w = s.w := by
  intro l
  induction l with
  | nil => intro pre s s' h; simp only [BlockProc.insert, Except.ok.injEq] at h; rw [← h]
  | cons c rest ih =>
    intro pre s s' h
    unfold BlockProc.insert at h
    split at h
    · cases h
    · simp only [Except.ok.injEq] at h; rw [← h]
    · have := ih _ h; exact this

theorem inodes_length_storeFrag {P : Params} {s s' : Proc} {x : Blk} (h : BlockProc.storeFrag P s x = .ok s') :
    s'.w.inodes.length = s.w.inodes.length := by
  unfold BlockProc.storeFrag at h
  split at h
  · cases h
  · rename_i s2 hmr
    have h2 := makeRoom_w hmr
    simp only at h
    split at h
    · cases h
    · rename_i s4 hins
      have h4 := insert_w _ _ hins
      have hp : (placeFrag s2 x).1.w.inodes = s2.w.inodes := by unfold placeFrag; split <;> rfl
      simp only [Except.ok.injEq] at h
      rw [← h]
      split
      · simp only [modInode_length, h4, hp, h2]
      · simp only [releaseOldBlock, modInode_length, h4, hp, h2]

/-- a fragment that was not found in the table is stored -/
theorem Back.storeFrag {P : Params} (hP : P.ans = serialAns) (hc : CodecOk P.codec) (hB : P.B < 2 ^ 24)
    {s : Proc} {g : Ghost} {F : FSt} {W : WSt} (h : Back P s g F W) (x : Blk) (hx : ItemOK P.B s.w.inodes.length x)
    (hne : x.data ≠ []) (ho : g.done.foldl fOpen false = false) (k : Nat) (hacct : Acct s g (k + 1)) :
    ∃ s' extra effs, BlockProc.storeFrag P s x = .ok s' ∧
      Back P s' { g with items := g.items ++ extra, h := g.h ++ effs, m := g.m ++ effs } (F.store P x) W ∧
      Acct s' { g with items := g.items ++ extra, h := g.h ++ effs, m := g.m ++ effs } k ∧
      s'.fe = s.fe ∧ s'.maxBacklog = s.maxBacklog ∧ extra.length ≤ 1 := by
  obtain ⟨id, hid, hidn⟩ := hx.ino
  obtain ⟨s2, extra, hmr, hb2, f1, f2, f3, f4, f5⟩ := h.makeRoom hP ho x.data.length
  have hex : extra.length ≤ 1 := by
    have : boolNat s.fragBlock.isSome ≤ 1 := by unfold boolNat; split <;> omega
    omega
  obtain ⟨hfi2, hfit⟩ := h.finv.makeRoom ho x.data.length
  have hw2 : s2.w.inodes.length = s.w.inodes.length := by rw [makeRoom_w hmr]
  obtain ⟨hb3, hidx, p1, p2, p3, p4, p5⟩ := hb2.place x hne hx.size hfit
  have hck := place_chunkOK (F.makeRoom P x.data.length) x hne x.chk (x.flags &&& blkDontCompress)
  obtain ⟨c', hins, hb4⟩ := hb3.insert hc hB x.data
    ⟨((F.makeRoom P x.data.length).place x).2.1, ((F.makeRoom P x.data.length).place x).2.2, x.data.length, x.chk,
      x.flags &&& blkDontCompress⟩ hck
  have hb5 := hb4.addEffs x.inode (.fragLoc ((F.makeRoom P x.data.length).place x).2.1 ((F.makeRoom P x.data.length).place x).2.2)
    (fun id' hid' => by
      rw [hid] at hid'; cases hid'
      show id < (placeFrag s2 x).1.w.inodes.length
      have : (placeFrag s2 x).1.w.inodes.length = s2.w.inodes.length := by
        unfold placeFrag; split <;> rfl
      rw [this, hw2]; exact hidn)
    (fun e he => Or.inl ⟨_, _, (mem_mkEff he).2⟩)
  have hacct2 : Acct s2 { g with items := g.items ++ extra } (k + 1) := by
    unfold Acct at *
    simp only [List.length_append, f2, f3]
    omega
  refine ⟨?s', extra, mkEff x.inode (.fragLoc ((F.makeRoom P x.data.length).place x).2.1 ((F.makeRoom P x.data.length).place x).2.2), ?eq, ?rest⟩
  case eq =>
    unfold BlockProc.storeFrag
    rw [hmr]
    simp only
    rw [hidx, hins]
  case rest =>
    simp only
    cases hfb2 : s2.fragBlock with
    | none =>
      simp only
      refine ⟨?_, ?_, ?_, ?_, hex⟩
      · exact hb5
      · unfold Acct at *
        simp only [p2, p3, p5, boolNat, if_true] at *
        simp only [hfb2, Option.isSome_none, Bool.false_eq_true, if_false] at hacct2
        simp only [List.length_append] at *
        omega
      · simp only [Proc.fe] at p1 f1 ⊢; rw [← f1, ← p1]
      · rw [← f4, ← p4]
    | some fb0 =>
      simp only
      refine ⟨?_, ?_, ?_, ?_, hex⟩
      · exact hb5.backlogIrrel _
      · apply Acct.releaseOld
        unfold Acct at *
        simp only [p2, p3, p5, boolNat, if_true] at *
        simp only [hfb2, Option.isSome_some, if_true] at hacct2
        simp only [List.length_append] at *
        omega
      · simp only [releaseOldBlock, Proc.fe] at p1 f1 ⊢; rw [← f1, ← p1]
      · simp only [releaseOldBlock]; rw [← f4, ← p4]

theorem sparseTail_eq (idx n : Nat) :
    (fun (i : Inode) =>
      let i1 := ({ i with extended := true } : Inode).setBlockSize idx 0
      ({ i1 with sparse := i1.sparse + n } : Inode)) = (InoEff.sparse idx n).app := by
  funext i
  apply inode_ext <;> simp [InoEff.app, Inode.setBlockSize]

theorem fStep_frag (P : Params) (F : FSt) (x : Blk) (h : isFrag x = true) :
    fStep P F x =
      (if hasFlag x.flags blkIsSparse then { F with effs := F.effs ++ mkEff x.inode (.sparse x.index x.data.length) }
       else match F.lookup P x with
         | some c => { F with effs := F.effs ++ mkEff x.inode (.fragLoc c.index c.offset) }
         | none => F.store P x) := by
  have h' : hasFlag x.flags blkIsFragment = true := h
  unfold fStep; rw [if_pos h']
  split
  · rfl
  · cases F.lookup P x <;> rfl

/-- a fragment comes back from the pool: `process_completed_fragment` -/
theorem Back.deqFrag {P : Params} (hP : P.ans = serialAns) (hc : CodecOk P.codec) (hB : P.B < 2 ^ 24)
    {s : Proc} {g : Ghost} {F : FSt} {W : WSt} (h : Back P s g F W) (x : Blk) (rest : List Blk) (hi : g.items = x :: rest)
    (hfb : isFB x = false) (hfr : isFrag x = true) (k : Nat) (hacct : Acct s g k) :
    ∃ s' extra effs, (poolDequeue P s.pool).2 = some x ∧
      handleDequeued P { s with pool := (poolDequeue P s.pool).1 } x = .ok s' ∧
      Back P s' { g with items := rest ++ extra, pend := g.pend.tail, done := g.done ++ [x], h := g.h ++ effs, m := g.m ++ effs }
        (fStep P F x) W ∧
      Acct s' { g with items := rest ++ extra, pend := g.pend.tail, done := g.done ++ [x], h := g.h ++ effs, m := g.m ++ effs } k ∧
      s'.fe = s.fe ∧ s'.maxBacklog = s.maxBacklog ∧ extra.length ≤ 1 ∧ s'.w.inodes.length = s.w.inodes.length := by
  obtain ⟨hdq, hb0⟩ := h.takeFrag hP x rest hi hfb hfr
  have hpend : g.pend = x :: rest.filter (fun b => !isFB b) := by
    rw [← h.pend, hi]; simp [hfb]
  have hxok : ItemOK P.B s.w.inodes.length x := h.itemOK_of_mem hc (by rw [hpend]; simp)
  have hne : x.data ≠ [] := hxok.frag hfr
  obtain ⟨id, hid, hidn⟩ := hxok.ino
  have ho : g.done.foldl fOpen false = false := by
    have := h.fproto_next x _ hpend
    simpa [hfr] using this
  have ho' : (g.done ++ [x]).foldl fOpen false = false := by rw [foldl_fOpen_snoc, ho]; simp [fOpen, hfr]
  have hacct0 : Acct { s with pool := (poolDequeue P s.pool).1 } { g with items := rest, pend := g.pend.tail, done := g.done ++ [x] } (k + 1) := by
    unfold Acct at *
    rw [hi] at hacct
    simp only [List.length_cons] at hacct ⊢
    omega
  have hfr' : hasFlag x.flags blkIsFragment = true := hfr
  have hhd : handleDequeued P { s with pool := (poolDequeue P s.pool).1 } x =
      processCompletedFragment P { s with pool := (poolDequeue P s.pool).1 } x := by
    unfold handleDequeued; simp [hfr']
  rw [hhd, fStep_frag P F x hfr]
  unfold processCompletedFragment
  by_cases hsp : hasFlag x.flags blkIsSparse = true
  · simp only [hsp, if_true]
    rw [sparseTail_eq]
    have hb1 := hb0.addEffs x.inode (.sparse x.index x.data.length)
      (fun id' hid' => by rw [hid] at hid'; cases hid'; exact hidn)
      (fun e he => by
        obtain ⟨h1, h2⟩ := mem_mkEff he
        exact Or.inr ⟨_, _, x, h2, List.mem_append_right _ List.mem_cons_self, hfr, h1, rfl⟩)
    refine ⟨_, [], mkEff x.inode (.sparse x.index x.data.length), hdq, rfl, ?_, ?_, rfl, rfl, by simp, modInode_length _ _ _⟩
    · simp only [List.append_nil]; exact hb1.backlogIrrel _
    · have := Acct.releaseOld (s := { s with pool := (poolDequeue P s.pool).1, w := modInode s.w x.inode (InoEff.sparse x.index x.data.length).app })
        (g := { g with items := rest, pend := g.pend.tail, done := g.done ++ [x] }) (k := k) hacct0
      simpa [Acct] using this
  · simp only [hsp, Bool.false_eq_true, if_false]
    obtain ⟨c', hlk, hb1⟩ := hb0.lookup hc hB x
    rw [hlk]
    cases hres : F.lookup P x with
    | some c =>
      simp only
      have e1 : (fun (i : Inode) => ({ i with fragIdx := c.index, fragOff := c.offset } : Inode)) = (InoEff.fragLoc c.index c.offset).app := rfl
      rw [e1]
      have hb2 := hb1.addEffs x.inode (.fragLoc c.index c.offset)
        (fun id' hid' => by rw [hid] at hid'; cases hid'; exact hidn)
        (fun e he => Or.inl ⟨_, _, (mem_mkEff he).2⟩)
      refine ⟨_, [], mkEff x.inode (.fragLoc c.index c.offset), hdq, rfl, ?_, ?_, rfl, rfl, by simp, modInode_length _ _ _⟩
      · simp only [List.append_nil]; exact hb2.backlogIrrel _
      · have := Acct.releaseOld (s := { s with pool := (poolDequeue P s.pool).1, cachedFragBlk := c', w := modInode s.w x.inode (InoEff.fragLoc c.index c.offset).app })
          (g := { g with items := rest, pend := g.pend.tail, done := g.done ++ [x] }) (k := k) hacct0
        simpa [Acct] using this
    | none =>
      simp only
      obtain ⟨s', extra, effs, hst, hb2, hac2, hfe, hmb, hex⟩ := hb1.storeFrag hP hc hB x hxok hne ho' k hacct0
      refine ⟨s', extra, effs, hdq, hst, hb2, hac2, hfe, hmb, hex, ?_⟩
      have := inodes_length_storeFrag hst
      exact this

end Sqfs.BlockProc
