/-
C02, `packRef = specPack`, part 6: a fragment that was not found is placed (new open block / appended) and recorded in the
table — `FSt.place` + `insertRef` against the second half of `Pack.addFragment`.
-/
import Sqfs.Proofs.BPSPFrag
namespace Sqfs.BlockProc
open Sqfs.Consts
open Sqfs.BlockWriter (hasFlag)

/-- `FSt.store` after `makeRoom` -/
def storeAt (P : Params) (F1 : FSt) (x : Blk) : FSt :=
  let r := F1.place x
  let kf := x.flags &&& blkDontCompress
  { r.1 with ht := insertRef (chunkEqRef P.byteCompare r.1 x.data x.chk kf) ⟨r.2.1, r.2.2, x.data.length, x.chk, kf⟩ r.1.ht,
             effs := r.1.effs ++ mkEff x.inode (.fragLoc r.2.1 r.2.2) }

theorem store_eq (P : Params) (F : FSt) (x : Blk) : F.store P x = storeAt P (F.makeRoom P x.data.length) x := rfl

theorem flag_new_dc (x : Nat) : hasFlag ((x &&& blkDontCompress) ||| blkFragmentBlock) blkDontCompress = hasFlag x blkDontCompress := by
  flag_simp

theorem flag_add_dc (f x : Nat) :
    hasFlag (f ||| (x &&& blkDontCompress)) blkDontCompress = (hasFlag f blkDontCompress || hasFlag x blkDontCompress) := by
  flag_simp

theorem fragData_closed_lt {F : FSt} {i : Nat} {blk : Bytes} (hopn : F.opn = none) (h : F.fragData i = some blk) :
    ∃ e ∈ F.closed, e.1 = i := by
  unfold FSt.fragData at h
  rw [hopn] at h
  simp only [openBytes] at h
  cases hf : F.closed.find? (fun e => e.1 == i) with
  | none => rw [hf] at h; cases h
  | some e => exact ⟨e, (mem_of_find?_fst hf).1, (mem_of_find?_fst hf).2⟩

/-- the general step: the table after `insertRef` against the new chunk in front -/
theorem look_insert {F2 : FSt} {l : List Chunk} (hg : ∀ c ∈ l, ChunkGood F2 c) (new : Chunk)
    (dc0 : Bool) (hfl : new.flags = if dc0 then blkDontCompress else 0) (t : Bytes) (ht : chunkData F2 new = t)
    (chunks : List Sqfs.Pack.Chunk)
    (hlook : ∀ dc ck d, Sqfs.Pack.lookupChunk (l.map (absChunk F2)) dc ck d = Sqfs.Pack.lookupChunk chunks dc ck d) :
    ∀ dc ck d, Sqfs.Pack.lookupChunk ((insertRef (chunkEqRef true F2 t new.hash new.flags) new l).map (absChunk F2)) dc ck d =
      Sqfs.Pack.lookupChunk (⟨new.index, new.offset, dc0, new.hash, t⟩ :: chunks) dc ck d := by
  intro dc ck d
  have habs : absChunk F2 new = ⟨new.index, new.offset, dc0, new.hash, t⟩ := by
    unfold absChunk
    rw [ht, hfl]
    cases dc0 <;> rfl
  have hm : cmatch dc0 new.hash t (absChunk F2 new) = true := by
    rw [habs]; simp [cmatch]
  rw [lookupChunk_eq, lookupChunk_eq, hfl,
    lookup_insertRef (absChunk F2) _ new dc0 new.hash t hm l (fun c hc => chunkEq_abs F2 c (hg c hc) t new.hash dc0) dc ck d,
    habs, List.find?_cons, List.find?_cons]
  have := hlook dc ck d
  rw [lookupChunk_eq, lookupChunk_eq] at this
  rw [this]

theorem slice_all (t : Bytes) : BlockWriter.slice t 0 t.length = t := by
  unfold BlockWriter.slice; simp

theorem slice_right (a t : Bytes) : BlockWriter.slice (a ++ t) a.length t.length = t := by
  unfold BlockWriter.slice; simp

/-- the tail opens a new fragment block -/
theorem place_new {P : Params} (hbc : P.byteCompare = true) {F : FSt} {W : WSt} {σ : Sqfs.Pack.State} (h : Sim P F W σ)
    (h1 : F.opn = none) (h2 : σ.openFrag = none) (x : Blk) (Fl : Sqfs.Pack.Flags)
    (hdc : Fl.dontCompress = hasFlag x.flags blkDontCompress) (hne : x.data ≠ []) (hsz : x.data.length ≤ P.B) :
    Sim P (storeAt P F x) W (specPlace σ Fl x.chk x.data).1 ∧
    (storeAt P F x).effs = F.effs ++ mkEff x.inode (.fragLoc (specPlace σ Fl x.chk x.data).2.1 (specPlace σ Fl x.chk x.data).2.2) := by
  have hnt : F.ntbl = σ.frags.length := by rw [h.f.ntbl, h1]; rfl
  let nb : Blk := { x with index := F.ntbl, flags := (x.flags &&& blkDontCompress) ||| blkFragmentBlock }
  let F2 : FSt := { F with ntbl := F.ntbl + 1, opn := some nb }
  let new : Chunk := ⟨F.ntbl, 0, x.data.length, x.chk, x.flags &&& blkDontCompress⟩
  have e1 : storeAt P F x = { F2 with ht := insertRef (chunkEqRef true F2 x.data x.chk (x.flags &&& blkDontCompress)) new F.ht,
                                      effs := F.effs ++ mkEff x.inode (.fragLoc F.ntbl 0) } := by
    unfold storeAt FSt.place
    rw [h1, hbc]
  have e2 : specPlace σ Fl x.chk x.data =
      ({ σ with openFrag := some ⟨x.data, Fl.dontCompress⟩, chunks := ⟨σ.frags.length, 0, Fl.dontCompress, x.chk, x.data⟩ :: σ.chunks },
       (σ.frags.length, 0)) := by
    unfold specPlace; rw [h2]
  rw [e1, e2]
  have hfd2 : ∀ i, F2.fragData i = if F.ntbl = i then some x.data else F.fragData i := by
    intro i
    show (match openBytes (some nb) i with | some d => some d | none => _) = _
    unfold openBytes
    show (match (if F.ntbl = i then some x.data else none) with | some d => some d | none => _) = _
    by_cases hi : F.ntbl = i
    · simp only [hi, if_true]
    · simp only [hi, if_false]
      unfold FSt.fragData; rw [h1]; rfl
  have hext : FExt F F2 := by
    intro i blk hb
    obtain ⟨e, he, hei⟩ := fragData_closed_lt h1 hb
    have := h.f.closedIdx e he
    refine ⟨blk, ?_, List.prefix_refl _⟩
    rw [hfd2 i, if_neg (by omega), hb]
  have hgnew : ChunkGood F2 new :=
    ⟨⟨x.data, by rw [hfd2]; simp [new], by simp [new]⟩, by
      rcases and_dontCompress x.flags with hh | hh
      · exact Or.inl hh
      · exact Or.inr hh⟩
  have hdata : chunkData F2 new = x.data := by
    unfold chunkData
    rw [hfd2]
    simp only [new, if_true, slice_all]
  have hg2 : ∀ c ∈ insertRef (chunkEqRef true F2 x.data x.chk (x.flags &&& blkDontCompress)) new F.ht, ChunkGood F2 c := by
    intro c hc
    rcases mem_insertRef hc with hc | hc
    · rw [hc]; exact hgnew
    · exact ((h.f.good c hc).ext hext).1
  have he3 : FExt F2 { F2 with ht := insertRef (chunkEqRef true F2 x.data x.chk (x.flags &&& blkDontCompress)) new F.ht,
                               effs := F.effs ++ mkEff x.inode (.fragLoc F.ntbl 0) } := FExt.of_eq (fun _ => rfl)
  refine ⟨⟨h.run, h.w, ?_⟩, by rw [hnt]⟩
  refine ⟨?_, ?_, ?_, h.f.closedIdx, ?_, ?_⟩
  · show openView (some nb) = openViewS (some ⟨x.data, Fl.dontCompress⟩)
    simp only [openView, openViewS, Option.map_some, nb, flag_new_dc, hdc]
  · intro fb hfb
    have : nb = fb := Option.some.inj hfb
    subst this
    exact ⟨hnt, fbRaw_new x.flags, hne, hsz⟩
  · show F.ntbl + 1 = σ.frags.length + 1
    rw [hnt]
  · intro c hc
    exact ((hg2 c hc).ext he3).1
  · show ∀ dc ck d, Sqfs.Pack.lookupChunk (List.map (absChunk _) (insertRef _ new F.ht)) dc ck d = _
    rw [map_abs_ext he3 hg2]
    have hl := look_insert (F2 := F2) (l := F.ht) (fun c hc => ((h.f.good c hc).ext hext).1) new Fl.dontCompress
      (by show x.flags &&& blkDontCompress = _; rw [keyFlags_eq, hdc]) x.data hdata σ.chunks
      (by rw [map_abs_ext hext h.f.good]; exact h.f.look)
    rw [← hnt]
    exact hl

/-- the tail is appended to the open fragment block -/
theorem place_app {P : Params} (hbc : P.byteCompare = true) {F : FSt} {W : WSt} {σ : Sqfs.Pack.State} (h : Sim P F W σ)
    (fb : Blk) (h1 : F.opn = some fb) (h2 : σ.openFrag = some ⟨fb.data, hasFlag fb.flags blkDontCompress⟩) (x : Blk)
    (Fl : Sqfs.Pack.Flags) (hdc : Fl.dontCompress = hasFlag x.flags blkDontCompress)
    (hfit : fb.data.length + x.data.length ≤ P.B) :
    Sim P (storeAt P F x) W (specPlace σ Fl x.chk x.data).1 ∧
    (storeAt P F x).effs = F.effs ++ mkEff x.inode (.fragLoc (specPlace σ Fl x.chk x.data).2.1 (specPlace σ Fl x.chk x.data).2.2) := by
  obtain ⟨hidx, hraw, hfne, _⟩ := h.f.opnOK fb h1
  let nb : Blk := { fb with data := fb.data ++ x.data, flags := fb.flags ||| (x.flags &&& blkDontCompress) }
  let F2 : FSt := { F with opn := some nb }
  let new : Chunk := ⟨fb.index, fb.data.length, x.data.length, x.chk, x.flags &&& blkDontCompress⟩
  have e1 : storeAt P F x = { F2 with ht := insertRef (chunkEqRef true F2 x.data x.chk (x.flags &&& blkDontCompress)) new F.ht,
                                      effs := F.effs ++ mkEff x.inode (.fragLoc fb.index fb.data.length) } := by
    unfold storeAt FSt.place
    rw [h1, hbc]
  have e2 : specPlace σ Fl x.chk x.data =
      ({ σ with openFrag := some ⟨fb.data ++ x.data, hasFlag fb.flags blkDontCompress || Fl.dontCompress⟩
                chunks := ⟨σ.frags.length, fb.data.length, Fl.dontCompress, x.chk, x.data⟩ :: σ.chunks },
       (σ.frags.length, fb.data.length)) := by
    unfold specPlace; rw [h2]
  rw [e1, e2]
  have hfd : ∀ i, F.fragData i = if fb.index = i then some fb.data else (F.closed.find? (fun e => e.1 == i)).map (·.2) := by
    intro i
    unfold FSt.fragData; rw [h1]; unfold openBytes
    by_cases hi : fb.index = i
    · simp only [hi, if_true]
    · simp only [hi, if_false]
  have hfd2 : ∀ i, F2.fragData i = if fb.index = i then some (fb.data ++ x.data) else (F.closed.find? (fun e => e.1 == i)).map (·.2) := by
    intro i
    show (match openBytes (some nb) i with | some d => some d | none => _) = _
    unfold openBytes
    show (match (if fb.index = i then some (fb.data ++ x.data) else none) with | some d => some d | none => _) = _
    by_cases hi : fb.index = i
    · simp only [hi, if_true]
    · simp only [hi, if_false]
      rfl
  have hext : FExt F F2 := by
    intro i blk hb
    rw [hfd] at hb
    rw [hfd2]
    by_cases hi : fb.index = i
    · rw [if_pos hi] at hb ⊢
      cases hb
      exact ⟨_, rfl, List.prefix_append _ _⟩
    · rw [if_neg hi] at hb ⊢
      exact ⟨blk, hb, List.prefix_refl _⟩
  have hgnew : ChunkGood F2 new :=
    ⟨⟨fb.data ++ x.data, by rw [hfd2]; simp [new], by simp [new]⟩, by
      rcases and_dontCompress x.flags with hh | hh
      · exact Or.inl hh
      · exact Or.inr hh⟩
  have hdata : chunkData F2 new = x.data := by
    unfold chunkData
    rw [hfd2]
    simp only [new, if_true, slice_right]
  have hg2 : ∀ c ∈ insertRef (chunkEqRef true F2 x.data x.chk (x.flags &&& blkDontCompress)) new F.ht, ChunkGood F2 c := by
    intro c hc
    rcases mem_insertRef hc with hc | hc
    · rw [hc]; exact hgnew
    · exact ((h.f.good c hc).ext hext).1
  have he3 : FExt F2 { F2 with ht := insertRef (chunkEqRef true F2 x.data x.chk (x.flags &&& blkDontCompress)) new F.ht,
                               effs := F.effs ++ mkEff x.inode (.fragLoc fb.index fb.data.length) } := FExt.of_eq (fun _ => rfl)
  refine ⟨⟨h.run, h.w, ?_⟩, by rw [hidx]⟩
  refine ⟨?_, ?_, ?_, h.f.closedIdx, ?_, ?_⟩
  · show openView (some nb) = openViewS (some ⟨fb.data ++ x.data, hasFlag fb.flags blkDontCompress || Fl.dontCompress⟩)
    simp only [openView, openViewS, Option.map_some, nb, flag_add_dc, hdc]
  · intro fb' hfb'
    have : nb = fb' := Option.some.inj hfb'
    subst this
    refine ⟨hidx, fbRaw_add hraw x.flags, ?_, ?_⟩
    · show fb.data ++ x.data ≠ []
      intro hh; exact hfne (List.append_eq_nil_iff.mp hh).1
    · show (fb.data ++ x.data).length ≤ P.B
      rw [List.length_append]; exact hfit
  · show F.ntbl = σ.frags.length + 1
    rw [h.f.ntbl, h1]; rfl
  · intro c hc
    exact ((hg2 c hc).ext he3).1
  · show ∀ dc ck d, Sqfs.Pack.lookupChunk (List.map (absChunk _) (insertRef _ new F.ht)) dc ck d = _
    rw [map_abs_ext he3 hg2]
    have hl := look_insert (F2 := F2) (l := F.ht) (fun c hc => ((h.f.good c hc).ext hext).1) new Fl.dontCompress
      (by show x.flags &&& blkDontCompress = _; rw [keyFlags_eq, hdc]) x.data hdata σ.chunks
      (by rw [map_abs_ext hext h.f.good]; exact h.f.look)
    rw [← hidx]
    exact hl

/-! ### one fragment -/

theorem store_sim {P : Params} (hc : CodecOk P.codec) (hpos : ∀ x z, P.codec.cmp x = some z → 0 < z.length) (hB : P.B < 2 ^ 24)
    (hbc : P.byteCompare = true) {F : FSt} {W : WSt} {σ : Sqfs.Pack.State} (h : Sim P F W σ) (x : Blk) (Fl : Sqfs.Pack.Flags)
    (hdc : Fl.dontCompress = hasFlag x.flags blkDontCompress) (hne : x.data ≠ []) (hsz : x.data.length ≤ P.B) :
    ∃ W', Sim P (F.store P x) W' (Sqfs.Pack.addFragment (toPackParams P) σ Fl x.chk x.data).1 ∧ W'.effs = W.effs ∧
      (F.store P x).effs = F.effs ++ mkEff x.inode (.fragLoc (Sqfs.Pack.addFragment (toPackParams P) σ Fl x.chk x.data).2.1
        (Sqfs.Pack.addFragment (toPackParams P) σ Fl x.chk x.data).2.2) := by
  obtain ⟨W', hs, he1, he2, hfit⟩ := makeRoom_sim hc hpos hB h x.data.length
  rw [store_eq, addFragment_eq]
  rcases open_cases hs.f.opn with ⟨h1, h2⟩ | ⟨fb, h1, h2⟩
  · obtain ⟨a, b⟩ := place_new hbc hs h1 h2 x Fl hdc hne hsz
    exact ⟨W', a, he1, by rw [b, he2]⟩
  · obtain ⟨a, b⟩ := place_app hbc hs fb h1 h2 x Fl hdc (hfit fb h1)
    exact ⟨W', a, he1, by rw [b, he2]⟩

/-- `placeTail` without the sparse test: look the tail up, else add it -/
def specFrag (P' : Sqfs.Pack.Params) (σ : Sqfs.Pack.State) (Fl : Sqfs.Pack.Flags) (ck : UInt32) (t : Bytes) :
    Sqfs.Pack.State × (Nat × Nat) :=
  match (if Fl.dontDedup then none else Sqfs.Pack.lookupChunk σ.chunks Fl.dontCompress ck t) with
  | some c => (σ, (c.index, c.offset))
  | none => Sqfs.Pack.addFragment P' σ Fl ck t

theorem frag_sim {P : Params} (hc : CodecOk P.codec) (hpos : ∀ x z, P.codec.cmp x = some z → 0 < z.length) (hB : P.B < 2 ^ 24)
    (hbc : P.byteCompare = true) {F : FSt} {W : WSt} {σ : Sqfs.Pack.State} (h : Sim P F W σ) (x : Blk) (Fl : Sqfs.Pack.Flags)
    (hfrag : hasFlag x.flags blkIsFragment = true) (hnsp : hasFlag x.flags blkIsSparse = false)
    (hdc : Fl.dontCompress = hasFlag x.flags blkDontCompress) (hdd : Fl.dontDedup = hasFlag x.flags blkDontDeduplicate)
    (hne : x.data ≠ []) (hsz : x.data.length ≤ P.B) :
    ∃ W', Sim P (fStep P F x) W' (specFrag (toPackParams P) σ Fl x.chk x.data).1 ∧ W'.effs = W.effs ∧
      (fStep P F x).effs = F.effs ++ mkEff x.inode (.fragLoc (specFrag (toPackParams P) σ Fl x.chk x.data).2.1
        (specFrag (toPackParams P) σ Fl x.chk x.data).2.2) := by
  unfold fStep
  rw [if_pos hfrag, hnsp]
  simp only [Bool.false_eq_true, if_false]
  have hstore := store_sim hc hpos hB hbc h x Fl hdc hne hsz
  unfold FSt.lookup specFrag
  rw [hdd]
  by_cases hddc : hasFlag x.flags blkDontDeduplicate = true
  · simp only [hddc, Bool.not_true, Bool.false_eq_true, if_false, if_true]
    exact hstore
  · have hddc' : hasFlag x.flags blkDontDeduplicate = false := by simpa using hddc
    simp only [hddc', Bool.not_false, if_true, Bool.false_eq_true, if_false]
    have hfind := find_abs F F.ht h.f.good x.data x.chk (hasFlag x.flags blkDontCompress)
    rw [← keyFlags_eq, h.f.look] at hfind
    rw [hbc, hdc, ← hfind]
    cases hf : F.ht.find? (chunkEqRef true F x.data x.chk (x.flags &&& blkDontCompress)) with
    | none =>
      rw [hf] at hfind
      simp only [Option.map_none]
      exact hstore
    | some c =>
      simp only [Option.map_some]
      refine ⟨W, ⟨h.run, h.w, h.f.congr rfl rfl rfl rfl⟩, rfl, rfl⟩

end Sqfs.BlockProc
