/-
C02, `packRef = specPack`, part 9: the inode of one file from its updates — `size`, then the fragment pass's update (fragment
location or sparse tail), then the writer pass's (`dataEffs`, `start`) — is the `FileResult` of `Pack.packFile`.
-/
import Sqfs.Proofs.BPSPEff
namespace Sqfs.BlockProc
open Sqfs.Consts
open Sqfs.BlockWriter (hasFlag)

def sparseSum (ws : List Sqfs.Pack.Worked) : Nat := (ws.map Sqfs.Pack.Worked.sparseBytes).sum

/-- the writer pass's updates of one file applied to `a` (the inode after `size` and the fragment pass's update) -/
theorem res_general (id : Nat) (ws : List Sqfs.Pack.Worked) (hpos : ∀ n, Sqfs.Pack.Worked.sparse n ∈ ws → 0 < n) (a : Inode)
    (hext : a.extended = decide (a.sparse > 0)) (se : List Eff) (st : Nat)
    (hse : (se = [] ∧ st = a.start) ∨ se = [⟨id, .start st⟩]) :
    (appAll (dataEffs id 0 ws ++ se) a).res =
      ⟨a.size, (List.range (max a.used ws.length)).map (fun k => if k < ws.length then (ws[k]?.map wordNat).getD 0 else a.extra k),
       st, a.fragIdx, a.fragOff, a.sparse + sparseSum ws, decide (a.sparse + sparseSum ws > 0)⟩ := by
  rw [appAll_append]
  have hr := words_fold id ws 0 a hpos
  generalize appAll (dataEffs id 0 ws) a = r at hr
  obtain ⟨h1, h2, h3, h4, h5, h6, h7, h8⟩ := hr
  have hused : r.used = max a.used ws.length := by
    rw [h6]; by_cases hw : ws = []
    · subst hw; simp
    · rw [if_neg hw, Nat.zero_add]
  have hextra : ∀ k, r.extra k = if k < ws.length then (ws[k]?.map wordNat).getD 0 else a.extra k := by
    intro k; rw [h7 k]; simp only [Nat.zero_le, true_and, Nat.zero_add, Nat.sub_zero]
  have hmap : (List.range r.used).map r.extra =
      (List.range (max a.used ws.length)).map (fun k => if k < ws.length then (ws[k]?.map wordNat).getD 0 else a.extra k) := by
    rw [hused]; exact List.map_congr_left (fun k _ => hextra k)
  have hx := h8 hext
  rcases hse with ⟨hse, hst⟩ | hse
  · subst hse
    simp only [appAll, List.foldl_nil, Inode.res, h1, h2, h3, h4, h5, hmap, hx, hst, sparseSum]
    rfl
  · subst hse
    simp only [appAll, List.foldl_cons, List.foldl_nil, InoEff.app, Inode.res, h1, h3, h4, h5, hmap, hx, sparseSum]
    rfl

theorem range_words (ws : List Sqfs.Pack.Worked) (g : Nat → Nat) :
    (List.range ws.length).map (fun k => if k < ws.length then (ws[k]?.map wordNat).getD 0 else g k) = ws.map wordNat := by
  apply range_map_getD
  intro k hk
  rw [if_pos hk]

theorem range_words_succ (ws : List Sqfs.Pack.Worked) (g : Nat → Nat) :
    (List.range (ws.length + 1)).map (fun k => if k < ws.length then (ws[k]?.map wordNat).getD 0 else g k) =
      ws.map wordNat ++ [g ws.length] := by
  rw [List.range_succ, List.map_append, range_words]
  simp

/-- no tail-end update (the file has no fragment) -/
theorem res_plain (id sz : Nat) (ws : List Sqfs.Pack.Worked) (hpos : ∀ n, Sqfs.Pack.Worked.sparse n ∈ ws → 0 < n) (se : List Eff)
    (st : Nat) (hse : (se = [] ∧ st = 0) ∨ se = [⟨id, .start st⟩]) :
    (appAll ([⟨id, .size sz⟩] ++ [] ++ (dataEffs id 0 ws ++ se)) {}).res =
      ⟨sz, ws.map wordNat, st, 0xFFFFFFFF, 0xFFFFFFFF, sparseSum ws, decide (sparseSum ws > 0)⟩ := by
  rw [List.append_nil, appAll_append]
  have := res_general id ws hpos (appAll [⟨id, .size sz⟩] {}) rfl se st (hse.imp (fun h => ⟨h.1, h.2.trans rfl⟩) (fun h => h))
  rw [this]
  simp only [appAll, List.foldl_cons, List.foldl_nil, InoEff.app, Nat.zero_add, Nat.zero_max, range_words]

/-- the tail end is a fragment at `(i, o)` -/
theorem res_frag (id sz : Nat) (ws : List Sqfs.Pack.Worked) (hpos : ∀ n, Sqfs.Pack.Worked.sparse n ∈ ws → 0 < n) (se : List Eff)
    (st : Nat) (hse : (se = [] ∧ st = 0) ∨ se = [⟨id, .start st⟩]) (i o : Nat) :
    (appAll ([⟨id, .size sz⟩] ++ [⟨id, .fragLoc i o⟩] ++ (dataEffs id 0 ws ++ se)) {}).res =
      ⟨sz, ws.map wordNat, st, i, o, sparseSum ws, decide (sparseSum ws > 0)⟩ := by
  rw [appAll_append]
  have := res_general id ws hpos (appAll ([⟨id, .size sz⟩] ++ [⟨id, .fragLoc i o⟩]) {}) rfl se st
    (hse.imp (fun h => ⟨h.1, h.2.trans rfl⟩) (fun h => h))
  rw [this]
  simp only [appAll, List.cons_append, List.nil_append, List.foldl_cons, List.foldl_nil, InoEff.app, Nat.zero_add, Nat.zero_max,
    range_words]

/-- the tail end is a hole of `n` bytes: word 0 at index `|ws|` -/
theorem res_sparse (id sz : Nat) (ws : List Sqfs.Pack.Worked) (hpos : ∀ n, Sqfs.Pack.Worked.sparse n ∈ ws → 0 < n) (se : List Eff)
    (st : Nat) (hse : (se = [] ∧ st = 0) ∨ se = [⟨id, .start st⟩]) (n : Nat) (hn : 0 < n) :
    (appAll ([⟨id, .size sz⟩] ++ [⟨id, .sparse ws.length n⟩] ++ (dataEffs id 0 ws ++ se)) {}).res =
      ⟨sz, ws.map wordNat ++ [0], st, 0xFFFFFFFF, 0xFFFFFFFF, sparseSum ws + n, decide (sparseSum ws + n > 0)⟩ := by
  rw [appAll_append]
  have := res_general id ws hpos (appAll ([⟨id, .size sz⟩] ++ [⟨id, .sparse ws.length n⟩]) {})
    (by simp [appAll, InoEff.app, Inode.setBlockSize]; omega) se st (hse.imp (fun h => ⟨h.1, h.2.trans rfl⟩) (fun h => h))
  rw [this]
  simp only [appAll, List.cons_append, List.nil_append, List.foldl_cons, List.foldl_nil, InoEff.app, Inode.setBlockSize, Nat.zero_add,
    Nat.zero_max]
  have hm : max (ws.length + 1) ws.length = ws.length + 1 := by omega
  rw [hm, range_words_succ]
  simp only [if_true, Nat.add_comm n]

end Sqfs.BlockProc
