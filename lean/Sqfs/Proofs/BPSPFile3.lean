/-
C02, `packRef = specPack`, part 12: one file whose tail end is submitted as a fragment; all cases together (`file_step`).
-/
import Sqfs.Proofs.BPSPFile2
namespace Sqfs.BlockProc
open Sqfs.Consts
open Sqfs.BlockWriter (hasFlag)

/-- the full blocks and — when there is one — the sentinel: the writer pass places the file's blocks -/
theorem frag_stage1 {P : Params} (hc : CodecOk P.codec) (hpos : ∀ x z, P.codec.cmp x = some z → 0 < z.length) (hB0 : 0 < P.B)
    (hB : P.B < 2 ^ 24) (id : Nat) (f : InFile) (hfl : f.flags < 32) {F : FSt} {W : WSt} {σ : Sqfs.Pack.State} (h : Sim P F W σ) :
    ∃ W2 se, Sim P (fRun P F ((dataItems f.flags id 0 (Sqfs.Pack.fullBlocks P.B f.data) ++
          (if f.data.length / P.B = 0 then [] else [sentinel f.flags id])).map (processBlock P))) W2
        { σ with hist := (Sqfs.Pack.placeBlocks P.pre.length (hasFlag f.flags blkDontDeduplicate) σ.hist
            (((Sqfs.Pack.fullBlocks P.B f.data).map (Sqfs.Pack.workData (toPackParams P) (Sqfs.Pack.Flags.ofNat f.flags))).filterMap
              Sqfs.Pack.Worked.stored?)).1 } ∧
      (fRun P F ((dataItems f.flags id 0 (Sqfs.Pack.fullBlocks P.B f.data) ++
          (if f.data.length / P.B = 0 then [] else [sentinel f.flags id])).map (processBlock P))).effs = F.effs ∧
      W2.effs = W.effs ++ (dataEffs id 0 ((Sqfs.Pack.fullBlocks P.B f.data).map
          (Sqfs.Pack.workData (toPackParams P) (Sqfs.Pack.Flags.ofNat f.flags))) ++ se) ∧
      ((se = [] ∧ (Sqfs.Pack.placeBlocks P.pre.length (hasFlag f.flags blkDontDeduplicate) σ.hist
            (((Sqfs.Pack.fullBlocks P.B f.data).map (Sqfs.Pack.workData (toPackParams P) (Sqfs.Pack.Flags.ofNat f.flags))).filterMap
              Sqfs.Pack.Worked.stored?)).2.1 = 0) ∨
       se = [⟨id, .start (Sqfs.Pack.placeBlocks P.pre.length (hasFlag f.flags blkDontDeduplicate) σ.hist
            (((Sqfs.Pack.fullBlocks P.B f.data).map (Sqfs.Pack.workData (toPackParams P) (Sqfs.Pack.Flags.ofNat f.flags))).filterMap
              Sqfs.Pack.Worked.stored?)).2.1⟩]) := by
  have hkl : (Sqfs.Pack.fullBlocks P.B f.data).length = f.data.length / P.B := Sqfs.Pack.fullBlocks_length _ _
  by_cases hk : f.data.length / P.B = 0
  · have hnil : Sqfs.Pack.fullBlocks P.B f.data = [] := List.eq_nil_of_length_eq_zero (by omega)
    rw [hnil]
    simp only [hk, if_true, dataItems, List.append_nil, List.map_nil, fRun_nil, List.filterMap_nil, Sqfs.Pack.placeBlocks_nil, dataEffs,
      List.nil_append]
    refine ⟨W, [], ?_, by trivial, by simp, by simp⟩
    rw [state_hist_self σ _ rfl]; exact h
  · simp only [hk, if_false]
    rw [List.map_append, fRun_append]
    obtain ⟨W1, hs1, hfs1, hw1, hf1⟩ := datas_sim hc hpos hB f.flags id hfl (Sqfs.Pack.fullBlocks P.B f.data) 0 F W σ σ.hist [] h
      (by simp) (fulls_ok P.B hB0 f.data) (fun _ => rfl) (fun h => absurd rfl h)
    obtain ⟨s1, s2, s3, s4, s5, s6⟩ := sentinel_facts f.flags id hfl
    have hsb := processBlock_sentinel P f.flags id
    simp only [List.map_cons, List.map_nil, fRun_cons, fRun_nil, hsb]
    obtain ⟨heff, W2, _, h2⟩ := data_sim hs1 rfl (sentinel f.flags id) none s1 s2 s3 id 0 rfl rfl
      (fun _ => hfs1 (by rw [hkl]; omega)) (fun hh => by rw [s4] at hh; cases hh)
    obtain ⟨hs2, hw2⟩ := h2 s5
    simp only [List.nil_append, List.append_nil, storedOf, effOf, s6] at hs2 hw2
    exact ⟨W2, _, hs2, by rw [heff, hf1], by rw [hw2, hw1, List.append_assoc], Or.inr rfl⟩

/-- a tail end remains and is submitted as a fragment -/
theorem file_frag {P : Params} (hc : CodecOk P.codec) (hpos : ∀ x z, P.codec.cmp x = some z → 0 < z.length) (hB0 : 0 < P.B)
    (hB : P.B < 2 ^ 24) (hbc : P.byteCompare = true) (id : Nat) (f : InFile) (hfl : f.flags < 32) {F : FSt} {W : WSt}
    {σ : Sqfs.Pack.State} (h : Sim P F W σ) (hr : f.data.length % P.B ≠ 0) (hdf : hasFlag f.flags blkDontFragment = false) :
    FileStep P id f F W σ := by
  have hlen : f.data.length ≠ 0 := fun h0 => hr (by rw [h0]; simp)
  have hne : f.data ≠ [] := fun h0 => hlen (by rw [h0]; rfl)
  have hitems : fileItems P.B id f = (dataItems f.flags id 0 (Sqfs.Pack.fullBlocks P.B f.data) ++
      (if f.data.length / P.B = 0 then [] else [sentinel f.flags id])) ++
      [fragItem f.flags id (f.data.length / P.B) (Sqfs.Pack.tailOf P.B f.data)] := by
    unfold fileItems; rw [if_neg hlen]; simp only [hr, if_false, hdf, Bool.false_eq_true, List.append_assoc]; rfl
  have hdfs : (Sqfs.Pack.Flags.ofNat f.flags).dontFragment = false := hdf
  have hdb : Sqfs.Pack.dataBlocksOf P.B (toPackFile f) = Sqfs.Pack.fullBlocks P.B f.data := by
    unfold Sqfs.Pack.dataBlocksOf
    simp [toPackFile, hdfs]
  have htf : Sqfs.Pack.hasTailFrag (toPackParams P).B (toPackFile f) = true := by
    show Sqfs.Pack.hasTailFrag P.B (toPackFile f) = true
    have : f.data.length % P.B > 0 := by omega
    simp [Sqfs.Pack.hasTailFrag, toPackFile, hdfs, this]
  have hwk : workedOf (toPackParams P) (toPackFile f) =
      (Sqfs.Pack.fullBlocks P.B f.data).map (Sqfs.Pack.workData (toPackParams P) (Sqfs.Pack.Flags.ofNat f.flags)) := by
    unfold workedOf; show List.map _ (Sqfs.Pack.dataBlocksOf P.B (toPackFile f)) = _; rw [hdb]; rfl
  have hwpos := worked_pos P hB0 f
  have hkl : (Sqfs.Pack.fullBlocks P.B f.data).length = f.data.length / P.B := Sqfs.Pack.fullBlocks_length _ _
  obtain ⟨htne, htsz⟩ := tail_ok P.B hB0 f.data hr
  obtain ⟨W2, se, hs2, hf2, hw2, hse⟩ := frag_stage1 hc hpos hB0 hB id f hfl h
  obtain ⟨item, hitem⟩ : ∃ item, item = fragItem f.flags id (f.data.length / P.B) (Sqfs.Pack.tailOf P.B f.data) := ⟨_, rfl⟩
  have hitd : item.data = Sqfs.Pack.tailOf P.B f.data := by rw [hitem]; rfl
  have hiti : item.inode = some id := by rw [hitem]; rfl
  have hitx : item.index = f.data.length / P.B := by rw [hitem]; rfl
  obtain ⟨g1, g2⟩ : ItemFlags item.flags f.flags ∧ hasFlag item.flags blkIsFragment = true := by
    rw [hitem]; exact fragItem_facts f.flags id (f.data.length / P.B) (Sqfs.Pack.tailOf P.B f.data) hfl
  have hx := frag_item P f.flags item g1 g2 (by rw [hitd]; exact htne)
  have hsz : sizeEff id f = [⟨id, .size f.data.length⟩] := by unfold sizeEff; rw [if_neg hlen]
  have hbase : (toPackParams P).base = P.pre.length := rfl
  have hddf : (toPackFile f).flags.dontDedup = hasFlag f.flags blkDontDeduplicate := rfl
  unfold FileStep
  rw [hitems, List.map_append, fRun_append, ← hitem]
  simp only [List.map_cons, List.map_nil, fRun_cons, fRun_nil]
  rw [hwk] at hwpos
  generalize hwsdef : List.map (Sqfs.Pack.workData (toPackParams P) (Sqfs.Pack.Flags.ofNat f.flags)) (Sqfs.Pack.fullBlocks P.B f.data) = ws
    at hwpos hs2 hw2 hse hwk
  have hwl : ws.length = f.data.length / P.B := by rw [← hwsdef, List.length_map, hkl]
  generalize hpl : Sqfs.Pack.placeBlocks P.pre.length (hasFlag f.flags blkDontDeduplicate) σ.hist
    (ws.filterMap Sqfs.Pack.Worked.stored?) = pl at hs2 hse
  generalize fRun P F (List.map (processBlock P) (dataItems f.flags id 0 (Sqfs.Pack.fullBlocks P.B f.data) ++
      (if f.data.length / P.B = 0 then [] else [sentinel f.flags id]))) = F2 at hs2 hf2 ⊢
  by_cases hsp : (!(Sqfs.Pack.Flags.ofNat f.flags).ignoreSparse && Sqfs.Pack.allZero (Sqfs.Pack.tailOf P.B f.data)) = true
  · -- the tail end is a hole
    have hx' : processBlock P item = { item with flags := item.flags ||| blkIsSparse } := by
      rw [hx]; exact if_pos (by rw [hitd]; exact hsp)
    rw [packFile_sparseTail (toPackParams P) σ (toPackFile f) hne htf hsp, hwk, hbase, hddf, hpl, hx']
    have hfs : fStep P F2 { item with flags := item.flags ||| blkIsSparse } =
        { F2 with effs := F2.effs ++ [⟨id, .sparse (f.data.length / P.B) (Sqfs.Pack.tailOf P.B f.data).length⟩] } := by
      unfold fStep
      have e1 : hasFlag (item.flags ||| blkIsSparse) blkIsFragment = true := by rw [hasFlag_or, g2]; rfl
      have e2 : hasFlag (item.flags ||| blkIsSparse) blkIsSparse = true := by rw [hasFlag_or]; simp; right; decide
      simp only [e1, e2, if_true, hiti, hitx, hitd, mkEff]
    rw [hfs]
    refine ⟨W2, [⟨id, .sparse (f.data.length / P.B) (Sqfs.Pack.tailOf P.B f.data).length⟩], dataEffs id 0 ws ++ se,
      ⟨hs2.run, hs2.w, hs2.f.congr rfl rfl rfl rfl⟩, by rw [hf2], hw2, by simp, ?_, ?_⟩
    · intro e he
      rcases List.mem_append.mp he with he | he
      · exact dataEffs_id id _ 0 e he
      · rcases hse with ⟨hse, _⟩ | hse
        · rw [hse] at he; cases he
        · rw [hse] at he; simp only [List.mem_singleton] at he; rw [he]
    · have htpos : 0 < (Sqfs.Pack.tailOf P.B f.data).length := List.length_pos_iff.mpr htne
      rw [hsz, ← hwl, res_sparse id f.data.length ws hwpos se pl.2.1 hse _ htpos]
      simp only [resView, List.map_append, words_map, Sqfs.Pack.FileResult.extended, Option.map_none, Option.getD_none]
      rfl
  · -- the tail end goes to a fragment block
    have hsp' : (!(Sqfs.Pack.Flags.ofNat f.flags).ignoreSparse && Sqfs.Pack.allZero (Sqfs.Pack.tailOf P.B f.data)) = false := by
      simpa using hsp
    have hx' : processBlock P item =
        { item with chk := Sqfs.Pack.cksumOf (toPackParams P) (Sqfs.Pack.Flags.ofNat f.flags) item.data } := by
      rw [hx]; exact if_neg (by rw [hitd, hsp']; simp)
    rw [packFile_fragTail (toPackParams P) σ (toPackFile f) hne htf hsp', hwk, hbase, hddf, hpl, hx']
    obtain ⟨W3, hs3, hw3, hf3⟩ := frag_sim hc hpos hB hbc hs2
      { item with chk := Sqfs.Pack.cksumOf (toPackParams P) (Sqfs.Pack.Flags.ofNat f.flags) item.data }
      (Sqfs.Pack.Flags.ofNat f.flags) g2 g1.nsp g1.dc.symm g1.dd.symm (by rw [hitd]; exact htne) (by rw [hitd]; exact htsz)
    simp only [hitd, hiti, mkEff] at hs3 hf3 ⊢
    refine ⟨W3, _, dataEffs id 0 ws ++ se, hs3, by rw [hf3, hf2], by rw [hw3, hw2], ?_, ?_, ?_⟩
    · intro e he
      simp only [List.mem_singleton] at he
      rw [he]
    · intro e he
      rcases List.mem_append.mp he with he | he
      · exact dataEffs_id id _ 0 e he
      · rcases hse with ⟨hse, _⟩ | hse
        · rw [hse] at he; cases he
        · rw [hse] at he; simp only [List.mem_singleton] at he; rw [he]
    · rw [hsz, res_frag id f.data.length ws hwpos se pl.2.1 hse]
      simp only [resView, words_map, Sqfs.Pack.FileResult.extended, Option.map_some, Option.getD_some]
      rfl

/-- **one file**: the three passes on the blocks of file `id` against `Pack.packFile` -/
theorem file_step {P : Params} (hc : CodecOk P.codec) (hpos : ∀ x z, P.codec.cmp x = some z → 0 < z.length) (hB0 : 0 < P.B)
    (hB : P.B < 2 ^ 24) (hbc : P.byteCompare = true) (id : Nat) (f : InFile) (hfl : f.flags &&& blkUserSettable = f.flags)
    {F : FSt} {W : WSt} {σ : Sqfs.Pack.State} (h : Sim P F W σ) : FileStep P id f F W σ := by
  have hlt := userFlags_lt hfl
  by_cases he : f.data = []
  · exact file_empty P id f F W σ h he
  · by_cases hr : f.data.length % P.B = 0
    · exact file_exact hc hpos hB0 hB id f hlt h he hr
    · cases hdf : hasFlag f.flags blkDontFragment with
      | true => exact file_nofrag hc hpos hB0 hB id f hlt h hr hdf
      | false => exact file_frag hc hpos hB0 hB hbc id f hlt h hr hdf

end Sqfs.BlockProc
