/-
C02, `packRef = specPack`, part 10: one file.  `Pack.packFile` in explicit form per case, and the three kinds of blocks a
file submits besides its full blocks: the sentinel, the tail end as a data block with `LAST`, the tail end as a fragment.
-/
import Sqfs.Proofs.BPSPItem
import Sqfs.Proofs.BPSPRes
import Sqfs.Proofs.PackPos
namespace Sqfs.BlockProc
open Sqfs.Consts
open Sqfs.BlockWriter (hasFlag)

def toPackFile (f : InFile) : Sqfs.Pack.InFile := ⟨Sqfs.Pack.Flags.ofNat f.flags, f.data⟩

theorem toPackFiles_eq (files : List InFile) : toPackFiles files = files.map toPackFile := rfl

/-! ### `packFile`, explicitly -/

theorem placeTail_eq (P' : Sqfs.Pack.Params) (σ : Sqfs.Pack.State) (Fl : Sqfs.Pack.Flags) (t : Bytes) :
    Sqfs.Pack.placeTail P' σ Fl t =
      if !Fl.ignoreSparse && Sqfs.Pack.allZero t then (σ, .sparse)
      else ((specFrag P' σ Fl (Sqfs.Pack.cksumOf P' Fl t) t).1,
            .frag (specFrag P' σ Fl (Sqfs.Pack.cksumOf P' Fl t) t).2.1 (specFrag P' σ Fl (Sqfs.Pack.cksumOf P' Fl t) t).2.2) := by
  unfold Sqfs.Pack.placeTail specFrag
  split
  · rfl
  · simp only
    generalize (if Fl.dontDedup = true then none else Sqfs.Pack.lookupChunk σ.chunks Fl.dontCompress (Sqfs.Pack.cksumOf P' Fl t) t) = o
    cases o <;> rfl

/-- the worked data blocks of a file -/
def workedOf (P' : Sqfs.Pack.Params) (pf : Sqfs.Pack.InFile) : List Sqfs.Pack.Worked :=
  (Sqfs.Pack.dataBlocksOf P'.B pf).map (Sqfs.Pack.workData P' pf.flags)

theorem packFile_notail (P' : Sqfs.Pack.Params) (σ : Sqfs.Pack.State) (pf : Sqfs.Pack.InFile) (hne : pf.data ≠ [])
    (h : Sqfs.Pack.hasTailFrag P'.B pf = false) :
    Sqfs.Pack.packFile P' σ pf =
      ({ σ with hist := (Sqfs.Pack.placeBlocks P'.base pf.flags.dontDedup σ.hist
                          ((workedOf P' pf).filterMap Sqfs.Pack.Worked.stored?)).1 },
       ⟨pf.data.length, (workedOf P' pf).map Sqfs.Pack.Worked.word,
        (Sqfs.Pack.placeBlocks P'.base pf.flags.dontDedup σ.hist ((workedOf P' pf).filterMap Sqfs.Pack.Worked.stored?)).2.1,
        none, sparseSum (workedOf P' pf),
        (Sqfs.Pack.placeBlocks P'.base pf.flags.dontDedup σ.hist ((workedOf P' pf).filterMap Sqfs.Pack.Worked.stored?)).2.2⟩) := by
  unfold Sqfs.Pack.packFile
  rw [if_neg hne]
  simp only [h, Bool.false_eq_true, if_false]
  rfl

theorem packFile_sparseTail (P' : Sqfs.Pack.Params) (σ : Sqfs.Pack.State) (pf : Sqfs.Pack.InFile) (hne : pf.data ≠ [])
    (h : Sqfs.Pack.hasTailFrag P'.B pf = true)
    (hsp : (!pf.flags.ignoreSparse && Sqfs.Pack.allZero (Sqfs.Pack.tailOf P'.B pf.data)) = true) :
    Sqfs.Pack.packFile P' σ pf =
      ({ σ with hist := (Sqfs.Pack.placeBlocks P'.base pf.flags.dontDedup σ.hist
                          ((workedOf P' pf).filterMap Sqfs.Pack.Worked.stored?)).1 },
       ⟨pf.data.length, (workedOf P' pf).map Sqfs.Pack.Worked.word ++ [.sparse],
        (Sqfs.Pack.placeBlocks P'.base pf.flags.dontDedup σ.hist ((workedOf P' pf).filterMap Sqfs.Pack.Worked.stored?)).2.1,
        none, sparseSum (workedOf P' pf) + (Sqfs.Pack.tailOf P'.B pf.data).length,
        (Sqfs.Pack.placeBlocks P'.base pf.flags.dontDedup σ.hist ((workedOf P' pf).filterMap Sqfs.Pack.Worked.stored?)).2.2⟩) := by
  unfold Sqfs.Pack.packFile
  rw [if_neg hne]
  simp only [h, if_true, placeTail_eq, hsp]
  rfl

theorem packFile_fragTail (P' : Sqfs.Pack.Params) (σ : Sqfs.Pack.State) (pf : Sqfs.Pack.InFile) (hne : pf.data ≠ [])
    (h : Sqfs.Pack.hasTailFrag P'.B pf = true)
    (hsp : (!pf.flags.ignoreSparse && Sqfs.Pack.allZero (Sqfs.Pack.tailOf P'.B pf.data)) = false) :
    Sqfs.Pack.packFile P' σ pf =
      ((specFrag P' { σ with hist := (Sqfs.Pack.placeBlocks P'.base pf.flags.dontDedup σ.hist
                          ((workedOf P' pf).filterMap Sqfs.Pack.Worked.stored?)).1 } pf.flags
          (Sqfs.Pack.cksumOf P' pf.flags (Sqfs.Pack.tailOf P'.B pf.data)) (Sqfs.Pack.tailOf P'.B pf.data)).1,
       ⟨pf.data.length, (workedOf P' pf).map Sqfs.Pack.Worked.word,
        (Sqfs.Pack.placeBlocks P'.base pf.flags.dontDedup σ.hist ((workedOf P' pf).filterMap Sqfs.Pack.Worked.stored?)).2.1,
        some (specFrag P' { σ with hist := (Sqfs.Pack.placeBlocks P'.base pf.flags.dontDedup σ.hist
                          ((workedOf P' pf).filterMap Sqfs.Pack.Worked.stored?)).1 } pf.flags
          (Sqfs.Pack.cksumOf P' pf.flags (Sqfs.Pack.tailOf P'.B pf.data)) (Sqfs.Pack.tailOf P'.B pf.data)).2,
        sparseSum (workedOf P' pf),
        (Sqfs.Pack.placeBlocks P'.base pf.flags.dontDedup σ.hist ((workedOf P' pf).filterMap Sqfs.Pack.Worked.stored?)).2.2⟩) := by
  unfold Sqfs.Pack.packFile
  rw [if_neg hne]
  simp only [h, if_true, placeTail_eq, hsp, Bool.false_eq_true, if_false]
  rfl

/-! ### the blocks of a file -/

theorem fulls_ok (B : Nat) (hB : 0 < B) (d : Bytes) : ∀ x ∈ Sqfs.Pack.fullBlocks B d, x ≠ [] ∧ x.length ≤ B := by
  intro x hx
  unfold Sqfs.Pack.fullBlocks at hx
  obtain ⟨i, hi, rfl⟩ := List.mem_map.1 hx
  have hi' : i < d.length / B := by simpa using hi
  have : (i + 1) * B ≤ d.length := Nat.le_trans (Nat.mul_le_mul_right B hi') (Nat.div_mul_le_self _ _)
  have hl := Sqfs.Pack.blockAt_length B d i this
  exact ⟨fun h => by rw [h] at hl; simp at hl; omega, by omega⟩

theorem tail_ok (B : Nat) (hB : 0 < B) (d : Bytes) (hr : d.length % B ≠ 0) :
    Sqfs.Pack.tailOf B d ≠ [] ∧ (Sqfs.Pack.tailOf B d).length ≤ B := by
  have hl := Sqfs.Pack.tailOf_length B d
  have := Nat.mod_lt d.length hB
  exact ⟨fun h => by rw [h] at hl; simp at hl; omega, by omega⟩

theorem sentinel_flag_facts : ∀ fl, fl < 32 →
    hasFlag (fl ||| blkLastBlock) blkIsSparse = false ∧ hasFlag (fl ||| blkLastBlock) blkFragmentBlock = false ∧
    hasFlag (fl ||| blkLastBlock) blkIsFragment = false ∧ hasFlag (fl ||| blkLastBlock) blkFirstBlock = false ∧
    hasFlag (fl ||| blkLastBlock) blkLastBlock = true ∧
    hasFlag (fl ||| blkLastBlock) blkDontDeduplicate = hasFlag fl blkDontDeduplicate := by decide

theorem sentinel_facts (fl id : Nat) (hfl : fl < 32) :
    BlkRel (sentinel fl id) none ∧ hasFlag (sentinel fl id).flags blkFragmentBlock = false ∧
    hasFlag (sentinel fl id).flags blkIsFragment = false ∧ isFirst (sentinel fl id) = false ∧ isLast (sentinel fl id) = true ∧
    hasFlag (sentinel fl id).flags blkDontDeduplicate = hasFlag fl blkDontDeduplicate := by
  obtain ⟨s1, s2, s3, s4, s5, s6⟩ := sentinel_flag_facts fl hfl
  exact ⟨⟨rfl, s1⟩, s2, s3, s4, s5, s6⟩

theorem processBlock_sentinel (P : Params) (fl id : Nat) : processBlock P (sentinel fl id) = sentinel fl id := by
  unfold processBlock sentinel; simp

theorem last_flag_facts : ∀ fl, fl < 32 →
    hasFlag (fl ||| blkLastBlock) blkLastBlock = true ∧ hasFlag (fl ||| blkFirstBlock ||| blkLastBlock) blkLastBlock = true ∧
    hasFlag (fl ||| blkLastBlock) blkFirstBlock = false ∧ hasFlag (fl ||| blkFirstBlock ||| blkLastBlock) blkFirstBlock = true ∧
    hasFlag (fl ||| blkLastBlock) blkIsFragment = false ∧ hasFlag (fl ||| blkFirstBlock ||| blkLastBlock) blkIsFragment = false := by
  decide

theorem frag_flag_facts : ∀ fl, fl < 32 →
    hasFlag (fl ||| blkIsFragment) blkIsFragment = true ∧ hasFlag (fl ||| blkFirstBlock ||| blkIsFragment) blkIsFragment = true := by
  decide

/-- the tail end as a data block with `LAST` (`DONT_FRAGMENT`) -/
def lastItem (fl id k : Nat) (t : Bytes) : Blk :=
  { dataItem fl id k t with flags := (dataItem fl id k t).flags ||| blkLastBlock }

/-- the tail end as a fragment -/
def fragItem (fl id k : Nat) (t : Bytes) : Blk :=
  { dataItem fl id k t with flags := (dataItem fl id k t).flags ||| blkIsFragment }

theorem lastItem_facts (fl id k : Nat) (t : Bytes) (hfl : fl < 32) :
    ItemFlags (lastItem fl id k t).flags fl ∧ hasFlag (lastItem fl id k t).flags blkIsFragment = false ∧
    hasFlag (lastItem fl id k t).flags blkLastBlock = true ∧ hasFlag (lastItem fl id k t).flags blkFirstBlock = decide (k = 0) := by
  obtain ⟨a1, a2, a3, a4, a5, a6⟩ := last_flag_facts fl hfl
  unfold lastItem dataItem
  by_cases hk : k = 0
  · simp only [hk, if_true]
    exact ⟨itemFlags_first_last fl hfl, a6, a2, by simp [a4]⟩
  · simp only [hk, if_false]
    exact ⟨itemFlags_last fl hfl, a5, a1, by simp [a3]⟩

theorem fragItem_facts (fl id k : Nat) (t : Bytes) (hfl : fl < 32) :
    ItemFlags (fragItem fl id k t).flags fl ∧ hasFlag (fragItem fl id k t).flags blkIsFragment = true := by
  obtain ⟨a1, a2⟩ := frag_flag_facts fl hfl
  unfold fragItem dataItem
  by_cases hk : k = 0
  · simp only [hk, if_true]
    exact ⟨itemFlags_first_frag fl hfl, a2⟩
  · simp only [hk, if_false]
    exact ⟨itemFlags_frag fl hfl, a1⟩

/-- the `size` update of `append` -/
def sizeEff (id : Nat) (f : InFile) : List Eff := if f.data.length = 0 then [] else [⟨id, .size f.data.length⟩]

/-- what file `id` adds to the three passes, against `Pack.packFile` -/
def FileStep (P : Params) (id : Nat) (f : InFile) (F : FSt) (W : WSt) (σ : Sqfs.Pack.State) : Prop :=
  ∃ W' fe we, Sim P (fRun P F ((fileItems P.B id f).map (processBlock P))) W' (Sqfs.Pack.packFile (toPackParams P) σ (toPackFile f)).1 ∧
    (fRun P F ((fileItems P.B id f).map (processBlock P))).effs = F.effs ++ fe ∧ W'.effs = W.effs ++ we ∧
    (∀ e ∈ fe, e.id = id) ∧ (∀ e ∈ we, e.id = id) ∧
    (appAll (sizeEff id f ++ fe ++ we) {}).res = resView (Sqfs.Pack.packFile (toPackParams P) σ (toPackFile f)).2

theorem file_empty (P : Params) (id : Nat) (f : InFile) (F : FSt) (W : WSt) (σ : Sqfs.Pack.State) (h : Sim P F W σ)
    (he : f.data = []) : FileStep P id f F W σ := by
  have e1 : fileItems P.B id f = [] := by unfold fileItems; rw [if_pos (by simp [he])]
  have e2 : Sqfs.Pack.packFile (toPackParams P) σ (toPackFile f) = (σ, ⟨0, [], 0, none, 0, false⟩) :=
    Sqfs.Pack.packFile_empty _ _ _ he
  unfold FileStep
  rw [e1, e2]
  refine ⟨W, [], [], h, by simp [fRun], by simp, by simp, by simp, ?_⟩
  simp [sizeEff, he, appAll, Inode.res, resView, Sqfs.Pack.FileResult.extended]

end Sqfs.BlockProc
