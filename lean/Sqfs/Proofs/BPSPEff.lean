/-
C02, `packRef = specPack`, part 7: inode updates.  `inoFold i es a`: the updates of `es` that belong to inode `i`, applied
to `a` in order — this is what `applyEffs` does to entry `i`.  The updates the writer pass makes for the data blocks of one
file (`dataEffs`) write the block words `0, 1, …` in order.
-/
import Sqfs.Proofs.BPSPWriter
namespace Sqfs.BlockProc
open Sqfs.Consts
open Sqfs.BlockWriter (hasFlag)

def inoFold (i : Nat) (es : List Eff) (a : Inode) : Inode := es.foldl (fun a e => if e.id = i then e.e.app a else a) a

theorem inoFold_append (i : Nat) (a b : List Eff) (x : Inode) : inoFold i (a ++ b) x = inoFold i b (inoFold i a x) := by
  simp [inoFold, List.foldl_append]

theorem inoFold_skip (i : Nat) (es : List Eff) (h : ∀ e ∈ es, e.id ≠ i) (x : Inode) : inoFold i es x = x := by
  induction es generalizing x with
  | nil => rfl
  | cons e es ih =>
    simp only [inoFold, List.foldl_cons, if_neg (h e List.mem_cons_self)]
    exact ih (fun e' he' => h e' (List.mem_cons_of_mem _ he')) x

/-- all updates of one inode, applied in order -/
def appAll (es : List Eff) (a : Inode) : Inode := es.foldl (fun a e => e.e.app a) a

theorem inoFold_all (i : Nat) (es : List Eff) (h : ∀ e ∈ es, e.id = i) (x : Inode) : inoFold i es x = appAll es x := by
  induction es generalizing x with
  | nil => rfl
  | cons e es ih =>
    simp only [inoFold, appAll, List.foldl_cons, if_pos (h e List.mem_cons_self)]
    exact ih (fun e' he' => h e' (List.mem_cons_of_mem _ he')) _

theorem appAll_append (a b : List Eff) (x : Inode) : appAll (a ++ b) x = appAll b (appAll a x) := by
  simp [appAll, List.foldl_append]

theorem applyEffs_getElem? (l : List Inode) (xs : List Eff) (i : Nat) :
    (applyEffs l xs)[i]? = l[i]?.map (inoFold i xs) := by
  induction xs generalizing l with
  | nil => cases h : l[i]? <;> simp [applyEffs, inoFold, h]
  | cons x xs ih =>
    simp only [applyEffs, List.foldl_cons] at ih ⊢
    rw [ih, applyEff, List.getElem?_modify]
    cases l[i]? with
    | none => rfl
    | some a => rfl

/-! ### the words of one file -/

/-- the writer pass's updates for the worked data blocks `j, j+1, …` of file `id` -/
def dataEffs (id : Nat) : Nat → List Sqfs.Pack.Worked → List Eff
  | _, [] => []
  | j, w :: ws => effOf id j (some w) ++ dataEffs id (j + 1) ws

theorem dataEffs_id (id : Nat) : ∀ (ws : List Sqfs.Pack.Worked) (j : Nat), ∀ e ∈ dataEffs id j ws, e.id = id := by
  intro ws
  induction ws with
  | nil => intro j e he; cases he
  | cons w ws ih =>
    intro j e he
    simp only [dataEffs, List.mem_append] at he
    rcases he with he | he
    · cases w <;> simp only [effOf, List.mem_singleton] at he <;> rw [he]
    · exact ih (j + 1) e he

def wordNat (w : Sqfs.Pack.Worked) : Nat := w.word.toNat

theorem wordNat_sparse (n : Nat) : wordNat (.sparse n) = 0 := rfl
theorem wordNat_stored (st : Sqfs.Pack.Stored) : wordNat (.stored st) = wordOf st := wordOf_toNat st

structure WordsRes (ws : List Sqfs.Pack.Worked) (j0 : Nat) (a r : Inode) : Prop where
  size : r.size = a.size
  start : r.start = a.start
  fragIdx : r.fragIdx = a.fragIdx
  fragOff : r.fragOff = a.fragOff
  sparse : r.sparse = a.sparse + (ws.map Sqfs.Pack.Worked.sparseBytes).sum
  used : r.used = max a.used (if ws = [] then 0 else j0 + ws.length)
  extra : ∀ k, r.extra k = if j0 ≤ k ∧ k < j0 + ws.length then (ws[k - j0]?.map wordNat).getD 0 else a.extra k
  ext : a.extended = decide (a.sparse > 0) → r.extended = decide (r.sparse > 0)

theorem words_fold (id : Nat) : ∀ (ws : List Sqfs.Pack.Worked) (j0 : Nat) (a : Inode),
    (∀ n, Sqfs.Pack.Worked.sparse n ∈ ws → 0 < n) → WordsRes ws j0 a (appAll (dataEffs id j0 ws) a) := by
  intro ws
  induction ws with
  | nil =>
    intro j0 a _
    exact ⟨rfl, rfl, rfl, rfl, by simp [appAll, dataEffs], by simp [appAll, dataEffs],
      fun k => by rw [if_neg (by simp only [List.length_nil]; omega)]; rfl, fun h => h⟩
  | cons w ws ih =>
    intro j0 a hpos
    rw [dataEffs, appAll_append]
    have hr := ih (j0 + 1) (appAll (effOf id j0 (some w)) a) (fun n hn => hpos n (List.mem_cons_of_mem _ hn))
    generalize appAll (dataEffs id (j0 + 1) ws) (appAll (effOf id j0 (some w)) a) = r at hr
    obtain ⟨h1, h2, h3, h4, h5, h6, h7, h8⟩ := hr
    have hlen : (w :: ws).length = ws.length + 1 := rfl
    have hne : (w :: ws) ≠ [] := List.cons_ne_nil _ _
    cases w with
    | sparse n =>
      have hn : 0 < n := hpos n List.mem_cons_self
      simp only [effOf, appAll, List.foldl_cons, List.foldl_nil, InoEff.app, Inode.setBlockSize] at h1 h2 h3 h4 h5 h6 h7 h8
      refine ⟨h1, h2, h3, h4, ?_, ?_, ?_, ?_⟩
      · rw [h5]; simp [Sqfs.Pack.Worked.sparseBytes]; omega
      · rw [h6, if_neg hne, hlen]
        by_cases hw : ws = []
        · subst hw; simp only [if_true, List.length_nil]; omega
        · rw [if_neg hw]; omega
      · intro k
        rw [h7 k, hlen]
        by_cases hk : k = j0
        · rw [if_neg (by omega), if_pos hk, if_pos (by omega)]
          subst hk; simp [wordNat_sparse]
        · by_cases hk2 : j0 + 1 ≤ k ∧ k < j0 + 1 + ws.length
          · have : j0 ≤ k ∧ k < j0 + (ws.length + 1) := by omega
            rw [if_pos hk2, if_pos this]
            have : k - j0 = (k - (j0 + 1)) + 1 := by omega
            rw [this, List.getElem?_cons_succ]
          · have : ¬ (j0 ≤ k ∧ k < j0 + (ws.length + 1)) := by omega
            rw [if_neg hk2, if_neg this, if_neg hk]
      · intro _
        apply h8
        have : a.sparse + n > 0 := by omega
        simp [this]
    | stored st =>
      simp only [effOf, appAll, List.foldl_cons, List.foldl_nil, InoEff.app, Inode.setBlockSize] at h1 h2 h3 h4 h5 h6 h7 h8
      refine ⟨h1, h2, h3, h4, ?_, ?_, ?_, ?_⟩
      · rw [h5]; simp [Sqfs.Pack.Worked.sparseBytes]
      · rw [h6, if_neg hne, hlen]
        by_cases hw : ws = []
        · subst hw; simp only [if_true, List.length_nil]; omega
        · rw [if_neg hw]; omega
      · intro k
        rw [h7 k, hlen]
        by_cases hk : k = j0
        · rw [if_neg (by omega), if_pos hk, if_pos (by omega)]
          subst hk; simp [wordNat_stored]
        · by_cases hk2 : j0 + 1 ≤ k ∧ k < j0 + 1 + ws.length
          · have : j0 ≤ k ∧ k < j0 + (ws.length + 1) := by omega
            rw [if_pos hk2, if_pos this]
            have : k - j0 = (k - (j0 + 1)) + 1 := by omega
            rw [this, List.getElem?_cons_succ]
          · have : ¬ (j0 ≤ k ∧ k < j0 + (ws.length + 1)) := by omega
            rw [if_neg hk2, if_neg this, if_neg hk]
      · exact h8

theorem range_map_getD {α : Type} (l : List α) (f : α → Nat) (g : Nat → Nat)
    (h : ∀ k, k < l.length → g k = (l[k]?.map f).getD 0) : (List.range l.length).map g = l.map f := by
  apply List.ext_getElem
  · simp
  · intro k h1 h2
    simp only [List.getElem_map, List.getElem_range]
    rw [h k (by simpa using h2)]
    simp at h2
    simp [h2]

end Sqfs.BlockProc
