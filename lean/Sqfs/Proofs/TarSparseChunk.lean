/-
The request-granular sparse walk (`expandLoopC`: what the C stream does for a caller that reads in calls of
`want` bytes) computes the same specification as the region walk, for every well-formed map and every `want ≥ 1`.
-/
import Sqfs.Proofs.TarSparse
namespace Sqfs.Tar

/-- well-formedness seen from a position that may lie inside the first entry -/
def WFi (pos : Nat) : List (Nat × Nat) → Nat → Prop
  | [], F => pos ≤ F
  | (o, c) :: t, F => pos ≤ o + c ∧ WellFormedMap (o + c) t F

/-- data bytes still to come -/
def dataRem (pos : Nat) : List (Nat × Nat) → Nat
  | [] => 0
  | (o, c) :: t => (o + c - max pos o) + dataBytes t

/-- the rest of the specified expansion from `pos` -/
def specFromI (pos : Nat) : List (Nat × Nat) → Nat → Bytes → Bytes
  | [], F, _ => zeros (F - pos)
  | (o, c) :: t, F, data =>
    zeros (o - pos) ++ data.take (o + c - max pos o) ++ specExpand (o + c) t F (data.drop (o + c - max pos o))

theorem wf_to_wfi (p : Nat) (t : List (Nat × Nat)) (F : Nat) (h : WellFormedMap p t F) : WFi p t F := by
  cases t with
  | nil => exact h
  | cons e t => obtain ⟨o, c⟩ := e; exact ⟨by have := h.1; omega, h.2⟩

theorem specFromI_wf (p : Nat) (t : List (Nat × Nat)) (F : Nat) (d : Bytes) (h : WellFormedMap p t F) :
    specFromI p t F d = specExpand p t F d ∧ dataRem p t = dataBytes t := by
  cases t with
  | nil => exact ⟨rfl, rfl⟩
  | cons e t =>
    obtain ⟨o, c⟩ := e
    have h1 : p ≤ o := h.1
    have : max p o = o := by omega
    simp only [specFromI, specExpand, dataRem, dataBytes, this, Nat.add_sub_cancel_left]
    exact ⟨trivial, trivial⟩

theorem expandLoopC_step (map : List (Nat × Nat)) (F want f offset rsz : Nat) (s acc : Bytes) :
    expandLoopC map F want (f + 1) offset rsz s acc =
      if offset ≥ F then ⟨acc, s, rsz, .eof⟩
      else
        if (isSparseRegion map F offset).2 = 0 then ⟨acc, s, rsz, .eof⟩
        else
          let n := if (isSparseRegion map F offset).2 > want - offset % want then want - offset % want
                   else (isSparseRegion map F offset).2
          if (isSparseRegion map F offset).1 then
            expandLoopC map F want f (offset + n) rsz s (acc ++ zeros n)
          else
            if s.isEmpty then ⟨acc, s, rsz, .corrupted⟩
            else
              expandLoopC map F want f (offset + (s.take n).length)
                ((rsz + U64 - (s.take n).length % U64) % U64) (s.drop (s.take n).length) (acc ++ s.take n) := by
  rfl

theorem region_data_inside (done : List (Nat × Nat)) (o c : Nat) (t : List (Nat × Nat)) (F pos : Nat)
    (hb : AllBehind done pos) (h1 : o ≤ pos) (h2 : pos < o + c) :
    isSparseRegion (done ++ (o, c) :: t) F pos = (false, o + c - pos) := by
  unfold isSparseRegion
  have hne : (done ++ (o, c) :: t).isEmpty = false := by cases done <;> rfl
  rw [hne]
  simp only [Bool.false_eq_true, if_false]
  rw [dataRegion_behind _ _ _ hb]
  have : (pos ≥ o ∧ pos - o < c) := by omega
  simp only [dataRegion, this, and_self, if_true]
  congr 1
  omega

theorem room_pos (want offset : Nat) (hw : 1 ≤ want) : 1 ≤ want - offset % want := by
  have := Nat.mod_lt offset (by omega : want > 0)
  omega

theorem take_take_drop (l : Bytes) (a b : Nat) : l.take (a + b) = l.take a ++ (l.drop a).take b := by
  rw [List.take_add]

theorem expandLoopC_wf (want : Nat) (hw : 1 ≤ want) (todo : List (Nat × Nat)) :
    ∀ (done : List (Nat × Nat)) (pos F fuel rsz : Nat) (s acc : Bytes),
      done ++ todo ≠ [] → AllBehind done pos → WFi pos todo F →
      dataRem pos todo ≤ s.length → dataRem pos todo ≤ rsz → rsz < U64 → F - pos + 2 ≤ fuel →
      expandLoopC (done ++ todo) F want fuel pos rsz s acc =
        ⟨acc ++ specFromI pos todo F s, s.drop (dataRem pos todo), rsz - dataRem pos todo, .eof⟩ := by
  induction todo with
  | nil =>
    intro done pos F fuel rsz s acc hne hb hwf _ _ _ hfuel
    simp only [List.append_nil] at hne ⊢
    have hwf' : pos ≤ F := hwf
    simp only [specFromI, dataRem, List.drop_zero, Nat.sub_zero]
    -- strong induction on the length of the trailing hole
    have key : ∀ (m pos fuel : Nat) (acc : Bytes), F - pos = m → pos ≤ F → AllBehind done pos → F - pos + 2 ≤ fuel →
        expandLoopC done F want fuel pos rsz s acc = ⟨acc ++ zeros (F - pos), s, rsz, .eof⟩ := by
      intro m
      induction m using Nat.strong_induction_on with
      | _ m ih =>
        intro pos fuel acc hm hle hb hfuel
        obtain ⟨f, rfl⟩ : ∃ f, fuel = f + 1 := ⟨fuel - 1, by omega⟩
        rw [expandLoopC_step]
        by_cases hge : pos ≥ F
        · rw [if_pos hge]
          have : F - pos = 0 := by omega
          simp [this, zeros]
        · rw [if_neg hge, region_tail done pos F hne hb]
          simp only
          have hn : ¬ (F - pos = 0) := by omega
          rw [if_neg hn]
          simp only [if_true]
          have hr := room_pos want pos hw
          generalize hroom : want - pos % want = room at hr ⊢
          by_cases hgt : F - pos > room
          · rw [if_pos hgt]
            rw [ih (F - (pos + room)) (by omega) (pos + room) f _ rfl (by omega) (allBehind_mono _ _ _ hb (by omega)) (by omega)]
            have : F - pos = room + (F - (pos + room)) := by omega
            rw [this, zeros_add, List.append_assoc]
          · rw [if_neg hgt]
            rw [ih (F - (pos + (F - pos))) (by omega) (pos + (F - pos)) f _ rfl (by omega) (allBehind_mono _ _ _ hb (by omega)) (by omega)]
            have : F - (pos + (F - pos)) = 0 := by omega
            simp [this, zeros]
    exact key (F - pos) pos fuel acc rfl hwf' hb hfuel
  | cons e t ih =>
    obtain ⟨o, c⟩ := e
    intro done pos F fuel rsz s acc _ hb hwf hs hr hr64 hfuel
    obtain ⟨hpoc, hwft⟩ := hwf
    obtain ⟨hocF, htb⟩ := wf_bounds (o + c) t F hwft
    have hassoc : done ++ (o, c) :: t = (done ++ [(o, c)]) ++ t := by simp
    have key : ∀ (m pos fuel rsz : Nat) (s acc : Bytes), o + c - pos = m → pos ≤ o + c → AllBehind done pos →
        dataRem pos ((o, c) :: t) ≤ s.length → dataRem pos ((o, c) :: t) ≤ rsz → rsz < U64 → F - pos + 2 ≤ fuel →
        expandLoopC (done ++ (o, c) :: t) F want fuel pos rsz s acc =
          ⟨acc ++ specFromI pos ((o, c) :: t) F s, s.drop (dataRem pos ((o, c) :: t)), rsz - dataRem pos ((o, c) :: t), .eof⟩ := by
      intro m
      induction m using Nat.strong_induction_on with
      | _ m ihm =>
        intro pos fuel rsz s acc hm hle hb hs hr hr64 hfuel
        by_cases hdone : pos = o + c
        · -- the entry is finished: it moves behind the position
          subst hdone
          have hmax : max (o + c) o = o + c := by omega
          have hw' := specFromI_wf (o + c) t F s hwft
          have := ih (done ++ [(o, c)]) (o + c) F fuel rsz s acc (by simp)
            (allBehind_snoc _ _ _ _ hb (Nat.le_refl _)) (wf_to_wfi _ _ _ hwft)
            (by simp only [dataRem, hmax] at hs; rw [hw'.2]; omega)
            (by simp only [dataRem, hmax] at hr; rw [hw'.2]; omega) hr64 hfuel
          rw [hw'.1, hw'.2] at this
          rw [hassoc, this, specFromI, dataRem, hmax]
          have hz : o - (o + c) = 0 := by omega
          simp only [hz, Nat.sub_self, List.take_zero, List.drop_zero, List.append_nil, Nat.zero_add, zeros,
            List.replicate_zero, List.nil_append]
        · have hlt : pos < o + c := by omega
          obtain ⟨f, rfl⟩ : ∃ f, fuel = f + 1 := ⟨fuel - 1, by omega⟩
          rw [expandLoopC_step]
          have hnF : ¬ pos ≥ F := by omega
          rw [if_neg hnF]
          have hroom := room_pos want pos hw
          generalize hrm : want - pos % want = room at hroom ⊢
          by_cases hhole : pos < o
          · -- inside the hole in front of the entry
            rw [region_hole done o c t pos F hb hhole (by omega) (fun e he => (htb e he).1)]
            simp only
            have hn0 : ¬ (o - pos = 0) := by omega
            rw [if_neg hn0]
            simp only [if_true]
            have hmaxo : max pos o = o := by omega
            by_cases hgt : o - pos > room
            · rw [if_pos hgt]
              have hmax' : max (pos + room) o = o := by omega
              rw [ihm (o + c - (pos + room)) (by omega) (pos + room) f rsz s _ rfl (by omega)
                (allBehind_mono _ _ _ hb (by omega))
                (by simp only [dataRem, hmax', hmaxo] at hs ⊢; exact hs)
                (by simp only [dataRem, hmax', hmaxo] at hr ⊢; exact hr) hr64 (by omega)]
              simp only [specFromI, dataRem, hmax', hmaxo]
              have : o - pos = room + (o - (pos + room)) := by omega
              rw [this, zeros_add]
              simp only [List.append_assoc]
            · rw [if_neg hgt]
              have hpo : pos + (o - pos) = o := by omega
              rw [hpo]
              have hmax' : max o o = o := by omega
              rw [ihm (o + c - o) (by omega) o f rsz s _ rfl (by omega)
                (allBehind_mono _ _ _ hb (by omega))
                (by simp only [dataRem, hmax', hmaxo] at hs ⊢; exact hs)
                (by simp only [dataRem, hmax', hmaxo] at hr ⊢; exact hr) hr64 (by omega)]
              simp only [specFromI, dataRem, hmax', hmaxo, Nat.sub_self, zeros, List.replicate_zero, List.nil_append,
                List.append_assoc]
          · -- inside the data region
            have hin : o ≤ pos := by omega
            rw [region_data_inside done o c t F pos hb hin hlt]
            simp only
            have hn0 : ¬ (o + c - pos = 0) := by omega
            rw [if_neg hn0]
            simp only [Bool.false_eq_true, if_false]
            have hmaxp : max pos o = pos := by omega
            simp only [dataRem, hmaxp] at hs hr
            have hsne : s.isEmpty = false := by
              cases s with
              | nil => simp at hs; omega
              | cons _ _ => rfl
            rw [hsne]
            simp only [Bool.false_eq_true, if_false]
            -- `n` = what this request hands out
            have hstep : ∀ n, 1 ≤ n → n ≤ o + c - pos →
                expandLoopC (done ++ (o, c) :: t) F want f (pos + (s.take n).length)
                  ((rsz + U64 - (s.take n).length % U64) % U64) (s.drop (s.take n).length) (acc ++ s.take n) =
                ⟨acc ++ specFromI pos ((o, c) :: t) F s, s.drop (dataRem pos ((o, c) :: t)),
                  rsz - dataRem pos ((o, c) :: t), .eof⟩ := by
              intro n hn1 hn2
              have hlen : (s.take n).length = n := by simp; omega
              rw [hlen]
              have hrsz : (rsz + U64 - n % U64) % U64 = rsz - n := by
                simp only [U64] at hr64 ⊢; omega
              rw [hrsz]
              have hmax' : max (pos + n) o = pos + n := by omega
              rw [ihm (o + c - (pos + n)) (by omega) (pos + n) f (rsz - n) (s.drop n) _ rfl (by omega)
                (allBehind_mono _ _ _ hb (by omega))
                (by simp only [dataRem, hmax', List.length_drop]; omega)
                (by simp only [dataRem, hmax']; omega) (by omega) (by omega)]
              have hz1 : o - (pos + n) = 0 := by omega
              have hz2 : o - pos = 0 := by omega
              have hsplit : o + c - pos = n + (o + c - (pos + n)) := by omega
              simp only [specFromI, dataRem, hmax', hmaxp, ExpandResult.mk.injEq, and_true]
              refine ⟨?_, ?_, ?_⟩
              · rw [hz1, hz2, hsplit, take_take_drop, List.drop_drop]
                simp only [zeros, List.replicate_zero, List.nil_append, List.append_assoc]
              · rw [List.drop_drop]
                congr 1
                omega
              · omega
            by_cases hgt : o + c - pos > room
            · rw [if_pos hgt]; exact hstep room hroom (by omega)
            · rw [if_neg hgt]; exact hstep (o + c - pos) (by omega) (Nat.le_refl _)
    exact key (o + c - pos) pos fuel rsz s acc rfl hpoc hb hs hr hr64 hfuel

end Sqfs.Tar
