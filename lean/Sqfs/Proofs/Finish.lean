import Sqfs.Model.Finish
namespace Sqfs.Finish

theorem padSize_spec (size bs : Nat) (h : 0 < bs) :
    (size + padSize size bs) % bs = 0 ∧ padSize size bs < bs := by
  unfold padSize
  by_cases h0 : size % bs = 0
  · simp [h0, h]
  · rw [if_neg h0]
    have hlt : size % bs < bs := Nat.mod_lt _ h
    refine ⟨?_, by omega⟩
    have h1 : size + (bs - size % bs) = size / bs * bs + bs := by
      have := Nat.div_add_mod size bs
      have hm : bs * (size / bs) = size / bs * bs := Nat.mul_comm _ _
      omega
    rw [h1]
    simp

def tblBytes : Option Tbl → Nat
  | none => 0
  | some t => t.blockBytes + 8 * t.blocks

def xBytes : Option XTbl → Nat
  | none => 0
  | some x => x.kvBytes + x.idBytes + 16 + 8 * x.idBlocks

end Sqfs.Finish
