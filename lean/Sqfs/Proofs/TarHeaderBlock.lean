/-
C04 — what the reader sees in a header block produced by the writer: `hdrBlock` = `update_checksum` of the
field-wise concatenation.  Every field `read_header`/`decode_header` slices out is the field the writer put there.
-/
import Sqfs.Proofs.TarSlice
namespace Sqfs.Tar
open Sqfs.Consts

/-- the 512 bytes `write_header` / `write_hard_link` append: all fields, then `update_checksum` -/
def hdrBlock (name : Bytes) (mode uid gid size : Nat) (mtime : Int) (tf : UInt8) (linkname : Bytes) (maj min : Nat) : Bytes :=
  updateChecksum (rawHeader name mode uid gid size mtime tf linkname maj min)

section block
set_option linter.unusedSectionVars false
variable (name : Bytes) (mode uid gid size : Nat) (mtime : Int) (tf : UInt8) (linkname : Bytes) (maj min : Nat)
  (hn : name.length = 100) (hl : linkname.length = 100)
include hn hl

theorem hdrBlock_length : (hdrBlock name mode uid gid size mtime tf linkname maj min).length = 512 := by
  unfold hdrBlock updateChecksum
  have := rawHeader_length name mode uid gid size mtime tf linkname maj min hn hl
  simp [chksumField, octDigits_length, this]

theorem hdrBlock_checksum : isChecksumValid (hdrBlock name mode uid gid size mtime tf linkname maj min) = true := by
  unfold hdrBlock
  have hlen := rawHeader_length name mode uid gid size mtime tf linkname maj min hn hl
  generalize rawHeader name mode uid gid size mtime tf linkname maj min = h at hlen
  -- (same argument as `Sqfs.C04.checksum_roundtrip`, kept here so that the proofs do not depend on the property file)
  have hA : (h.take 148).length = 148 := by simp [hlen]
  have hF : ∀ c, (chksumField c).length = 8 := by intro c; simp [chksumField, octDigits_length]
  have hAF : ∀ c, (h.take 148 ++ chksumField c).length = 156 := by intro c; simp [hA, hF]
  have e1 : (updateChecksum h).take 148 = h.take 148 := by
    unfold updateChecksum
    rw [List.append_assoc]; exact List.take_left' hA
  have e2 : (updateChecksum h).drop 156 = h.drop 156 := by
    unfold updateChecksum
    exact List.drop_left' (hAF _)
  have e3 : ((updateChecksum h).drop 148).take 8 = chksumField (computeChecksum h) := by
    unfold updateChecksum
    rw [List.append_assoc, List.drop_left' hA]; exact List.take_left' (hF _)
  have e4 : computeChecksum (updateChecksum h) = computeChecksum h := by
    unfold computeChecksum; rw [e1, e2]
  have hc := computeChecksum_lt h hlen
  have e5 : readNumber (chksumField (computeChecksum h)) = some (computeChecksum h) := by
    unfold chksumField
    exact readNumber_octDigits 5 _ [0, 32] (Or.inr ⟨0, [32], rfl, by decide⟩) hc
      (by simp only [U64]; norm_num at hc; omega)
  unfold isChecksumValid
  rw [e3, e5, e4]; simp

local macro "blk_lo" t:term : tactic =>
  `(tactic| (
    unfold hdrBlock
    rw [slice_updateChecksum_lo _ _ _ (rawHeader_length name mode uid gid size mtime tf linkname maj min hn hl) (by decide)]
    exact $t))
local macro "blk_hi" t:term : tactic =>
  `(tactic| (
    unfold hdrBlock
    rw [slice_updateChecksum_hi _ _ _ (rawHeader_length name mode uid gid size mtime tf linkname maj min hn hl) (by decide)]
    exact $t))

theorem blk_name : slice (hdrBlock name mode uid gid size mtime tf linkname maj min) 0 100 = name := by
  blk_lo (raw_name name mode uid gid size mtime tf linkname maj min hn hl)
theorem blk_mode : slice (hdrBlock name mode uid gid size mtime tf linkname maj min) 100 8 = writeNumber mode 8 := by
  blk_lo (raw_mode name mode uid gid size mtime tf linkname maj min hn hl)
theorem blk_uid : slice (hdrBlock name mode uid gid size mtime tf linkname maj min) 108 8 = writeNumber uid 8 := by
  blk_lo (raw_uid name mode uid gid size mtime tf linkname maj min hn hl)
theorem blk_gid : slice (hdrBlock name mode uid gid size mtime tf linkname maj min) 116 8 = writeNumber gid 8 := by
  blk_lo (raw_gid name mode uid gid size mtime tf linkname maj min hn hl)
theorem blk_size : slice (hdrBlock name mode uid gid size mtime tf linkname maj min) 124 12 = writeNumber size 12 := by
  blk_lo (raw_size name mode uid gid size mtime tf linkname maj min hn hl)
theorem blk_mtime : slice (hdrBlock name mode uid gid size mtime tf linkname maj min) 136 12 = writeNumberSigned mtime 12 := by
  blk_lo (raw_mtime name mode uid gid size mtime tf linkname maj min hn hl)
theorem blk_typeflag : slice (hdrBlock name mode uid gid size mtime tf linkname maj min) 156 1 = [tf] := by
  blk_hi (raw_typeflag name mode uid gid size mtime tf linkname maj min hn hl)
theorem blk_linkname : slice (hdrBlock name mode uid gid size mtime tf linkname maj min) 157 100 = linkname := by
  blk_hi (raw_linkname name mode uid gid size mtime tf linkname maj min hn hl)
theorem blk_magic : slice (hdrBlock name mode uid gid size mtime tf linkname maj min) 257 6 = magicOld := by
  blk_hi (raw_magic name mode uid gid size mtime tf linkname maj min hn hl)
theorem blk_version : slice (hdrBlock name mode uid gid size mtime tf linkname maj min) 263 2 = versionOld := by
  blk_hi (raw_version name mode uid gid size mtime tf linkname maj min hn hl)
theorem blk_devmajor : slice (hdrBlock name mode uid gid size mtime tf linkname maj min) 329 8 = writeNumber maj 8 := by
  blk_hi (raw_devmajor name mode uid gid size mtime tf linkname maj min hn hl)
theorem blk_devminor : slice (hdrBlock name mode uid gid size mtime tf linkname maj min) 337 8 = writeNumber min 8 := by
  blk_hi (raw_devminor name mode uid gid size mtime tf linkname maj min hn hl)

/-- the writer's dialect: "ustar " + " \0" (pre-POSIX / GNU), so `decode_header` never joins the ustar `prefix` field -/
theorem hdrBlock_version : checkVersion (hdrBlock name mode uid gid size mtime tf linkname maj min) = some .prePosix := by
  unfold checkVersion
  rw [blk_magic name mode uid gid size mtime tf linkname maj min hn hl,
      blk_version name mode uid gid size mtime tf linkname maj min hn hl]
  decide

theorem hdrBlock_nonzero : isZeroBlock (hdrBlock name mode uid gid size mtime tf linkname maj min) = false := by
  have h := blk_magic name mode uid gid size mtime tf linkname maj min hn hl
  have hm : (117 : UInt8) ∈ hdrBlock name mode uid gid size mtime tf linkname maj min := by
    have : (117 : UInt8) ∈ slice (hdrBlock name mode uid gid size mtime tf linkname maj min) 257 6 := by rw [h]; decide
    exact List.mem_of_mem_drop (List.mem_of_mem_take this)
  unfold isZeroBlock
  rw [Bool.eq_false_iff]
  intro hall
  have := List.all_eq_true.1 hall 117 hm
  revert this; decide

end block

end Sqfs.Tar
