/-
Helper lemmas for C07: `split_line` keeps its write cursor behind its read cursor, never leaves the
`len + 1` byte object and always stops.
-/
import Sqfs.Proofs.ParseTotalPax
namespace Sqfs.ParseTotal

/-- cursor invariant of `split_line` on an object of `L` bytes with `len0 < L` -/
structure SLInv (L len0 : Nat) (s : SL) : Prop where
  pos : s.src + s.len = len0
  dle : s.dst ≤ s.src
  blen : s.buf.length = L

theorem slSkip_spec (sep : Bytes) (L len0 : Nat) (hL : len0 < L) : ∀ fuel (s : SL), SLInv L len0 s → s.len + 1 ≤ fuel →
    ∃ s', slSkip sep fuel s = .ok s' ∧ SLInv L len0 s' ∧ s'.dst = s.dst ∧ s'.args = s.args ∧ s.src ≤ s'.src ∧ s'.buf = s.buf ∧
      (s'.len = 0 ∨ ∃ c, s'.buf[s'.src]? = some c ∧ isSep sep c = false) ∧
      (∀ c, s.len ≠ 0 → s.buf[s.src]? = some c → isSep sep c = true → s.src < s'.src) := by
  intro fuel
  induction fuel with
  | zero => intro s _ h; omega
  | succ f ih =>
    intro s hi hf
    simp only [slSkip]
    by_cases h0 : s.len = 0
    · simp only [h0, if_true]
      exact ⟨s, rfl, hi, rfl, rfl, Nat.le_refl _, rfl, Or.inl h0, fun c h => absurd rfl h⟩
    · simp only [h0, if_false]
      obtain ⟨c, hc⟩ := get_some (buf := s.buf) (i := s.src) (by have := hi.pos; have := hi.blen; omega)
      simp only [hc]
      by_cases hs : isSep sep c = true
      · simp only [hs, if_true]
        have hi' : SLInv L len0 { s with src := s.src + 1, len := s.len - 1 } :=
          ⟨by have := hi.pos; simp; omega, by have := hi.dle; simp; omega, hi.blen⟩
        obtain ⟨s', h1, h2, h3, h4, h5, h6, h7, _⟩ := ih _ hi' (by simp; omega)
        exact ⟨s', h1, h2, h3, h4, by simp at h5; omega, h6, h7, fun _ _ _ _ => by simp at h5; omega⟩
      · simp only [hs, if_false]
        refine ⟨s, rfl, hi, rfl, rfl, Nat.le_refl _, rfl, Or.inr ⟨c, hc, by simpa using hs⟩, fun c' _ hc' hs' => ?_⟩
        have e : c = c' := Option.some.inj hc'
        subst e; exact absurd hs' hs

/-- result of a token loop: safe; on success the invariant holds again and as many bytes were written as read
(`adv`), minus `extra` bytes of quoting that were only read -/
theorem slBare_spec (sep : Bytes) (L len0 : Nat) (hL : len0 < L) : ∀ fuel (s : SL), SLInv L len0 s → s.len + 1 ≤ fuel →
    (slBare sep fuel s).safe ∧ ∀ s', slBare sep fuel s = .ok s' →
      SLInv L len0 s' ∧ s'.args = s.args ∧ s'.dst - s.dst = s'.src - s.src ∧ s.src ≤ s'.src ∧ s.dst ≤ s'.dst := by
  intro fuel
  induction fuel with
  | zero => intro s _ h; omega
  | succ f ih =>
    intro s hi hf
    simp only [slBare]
    by_cases h0 : s.len = 0
    · simp only [h0, if_true]
      exact ⟨trivial, fun s' h => by cases h; exact ⟨hi, rfl, by omega, Nat.le_refl _, Nat.le_refl _⟩⟩
    · simp only [h0, if_false]
      have hsrc : s.src < L := by have := hi.pos; omega
      obtain ⟨c, hc⟩ := get_some (buf := s.buf) (i := s.src) (by rw [hi.blen]; exact hsrc)
      simp only [hc]
      by_cases hs : isSep sep c = true ∨ c.toNat = 0
      · simp only [hs, if_true]
        exact ⟨trivial, fun s' h => by cases h; exact ⟨hi, rfl, by omega, Nat.le_refl _, Nat.le_refl _⟩⟩
      · simp only [hs, if_false]
        obtain ⟨b, hb⟩ := wr_some (buf := s.buf) (i := s.dst) c (by rw [hi.blen]; have := hi.dle; omega)
        simp only [hb]
        have hbl := (wr_spec hb).1
        have hi' : SLInv L len0 { s with buf := b, src := s.src + 1, dst := s.dst + 1, len := s.len - 1 } :=
          ⟨by have := hi.pos; simp; omega, by have := hi.dle; simp; omega, by simp; rw [hbl]; exact hi.blen⟩
        obtain ⟨g1, g2⟩ := ih _ hi' (by simp; omega)
        refine ⟨g1, fun s' h => ?_⟩
        obtain ⟨a1, a2, a3, a4, a5⟩ := g2 s' h
        simp at a2 a3 a4 a5
        exact ⟨a1, a2, by omega, by omega, by omega⟩

theorem slQuoted_spec (L len0 : Nat) (hL : len0 < L) : ∀ fuel (s : SL), SLInv L len0 s → s.len + 1 ≤ fuel →
    (slQuoted fuel s).safe ∧ ∀ s', slQuoted fuel s = .ok s' →
      SLInv L len0 s' ∧ s'.args = s.args ∧ s'.dst - s.dst ≤ s'.src - s.src ∧ s.src ≤ s'.src ∧ s.dst ≤ s'.dst := by
  intro fuel
  induction fuel with
  | zero => intro s _ h; omega
  | succ f ih =>
    intro s hi hf
    simp only [slQuoted]
    by_cases h0 : s.len = 0
    · simp only [h0, if_true]
      exact ⟨trivial, fun s' h => by cases h; exact ⟨hi, rfl, by omega, Nat.le_refl _, Nat.le_refl _⟩⟩
    · simp only [h0, if_false]
      have hsrc : s.src < L := by have := hi.pos; omega
      obtain ⟨c, hc⟩ := get_some (buf := s.buf) (i := s.src) (by rw [hi.blen]; exact hsrc)
      simp only [hc]
      by_cases hq : c.toNat = 0 ∨ c.toNat = 34
      · simp only [hq, if_true]
        exact ⟨trivial, fun s' h => by cases h; exact ⟨hi, rfl, by omega, Nat.le_refl _, Nat.le_refl _⟩⟩
      · simp only [hq, if_false]
        by_cases hesc : c.toNat = 92
        · simp only [hesc, if_true]
          by_cases h2 : s.len < 2
          · simp only [h2, if_true]; exact ⟨trivial, fun s' h => by cases h⟩
          · simp only [h2, if_false]
            obtain ⟨e, he⟩ := get_some (buf := s.buf) (i := s.src + 1) (by rw [hi.blen]; have := hi.pos; omega)
            simp only [he]
            by_cases hbad : e.toNat ≠ 34 ∧ e.toNat ≠ 92
            · rw [if_pos hbad]; exact ⟨trivial, fun s' h => by cases h⟩
            · rw [if_neg hbad]
              obtain ⟨b, hb⟩ := wr_some (buf := s.buf) (i := s.dst) e (by rw [hi.blen]; have := hi.dle; omega)
              simp only [hb]
              have hbl := (wr_spec hb).1
              have hi' : SLInv L len0 { s with buf := b, src := s.src + 2, dst := s.dst + 1, len := s.len - 2 } :=
                ⟨by have := hi.pos; simp; omega, by have := hi.dle; simp; omega, by simp; rw [hbl]; exact hi.blen⟩
              obtain ⟨g1, g2⟩ := ih _ hi' (by simp; omega)
              refine ⟨g1, fun s' h => ?_⟩
              obtain ⟨a1, a2, a3, a4, a5⟩ := g2 s' h
              simp at a2 a3 a4 a5
              exact ⟨a1, a2, by omega, by omega, by omega⟩
        · simp only [hesc, if_false]
          obtain ⟨b, hb⟩ := wr_some (buf := s.buf) (i := s.dst) c (by rw [hi.blen]; have := hi.dle; omega)
          simp only [hb]
          have hbl := (wr_spec hb).1
          have hi' : SLInv L len0 { s with buf := b, src := s.src + 1, dst := s.dst + 1, len := s.len - 1 } :=
            ⟨by have := hi.pos; simp; omega, by have := hi.dle; simp; omega, by simp; rw [hbl]; exact hi.blen⟩
          obtain ⟨g1, g2⟩ := ih _ hi' (by simp; omega)
          refine ⟨g1, fun s' h => ?_⟩
          obtain ⟨a1, a2, a3, a4, a5⟩ := g2 s' h
          simp at a2 a3 a4 a5
          exact ⟨a1, a2, by omega, by omega, by omega⟩

theorem isSep_zero (sep : Bytes) : isSep sep 0 = false := by simp [isSep]

/-- a bare token that starts on an ordinary byte consumes it -/
theorem slBare_progress (sep : Bytes) (L len0 : Nat) (hL : len0 < L) (fuel : Nat) (s : SL) (hi : SLInv L len0 s)
    (hf : s.len + 1 ≤ fuel) (h0 : s.len ≠ 0) (c : UInt8) (hc : s.buf[s.src]? = some c) (hns : isSep sep c = false)
    (hnz : c.toNat ≠ 0) : ∀ s', slBare sep fuel s = .ok s' → s.src + 1 ≤ s'.src := by
  obtain ⟨f, rfl⟩ : ∃ f, fuel = f + 1 := ⟨fuel - 1, by omega⟩
  intro s' h
  simp only [slBare, h0, if_false, hc, hns, hnz, Bool.false_eq_true, or_self] at h
  cases hb : wr s.buf s.dst c with
  | none => rw [hb] at h; cases h
  | some b =>
    rw [hb] at h
    simp only [] at h
    have hbl := (wr_spec hb).1
    have hi' : SLInv L len0 { s with buf := b, src := s.src + 1, dst := s.dst + 1, len := s.len - 1 } :=
      ⟨by have := hi.pos; simp; omega, by have := hi.dle; simp; omega, by simp; rw [hbl]; exact hi.blen⟩
    have := ((slBare_spec sep L len0 hL f _ hi' (by simp; omega)).2 s' h).2.2.2.1
    simpa using this

/-- invariant at the top of the outer loop of `split_line` -/
structure OInv (sep : Bytes) (L len0 : Nat) (s : SL) : Prop where
  pos : s.src + s.len = len0
  blen : s.buf.length = L
  cnt : s.args.length + s.len ≤ len0
  dle : s.dst ≤ s.src ∨ s.len = 0 ∨ s.buf[s.src]? = some 0
  nonsep : s.len = 0 ∨ ∃ c, s.buf[s.src]? = some c ∧ isSep sep c = false

/-- what the outer loop promises about a successful result -/
def OuterOK (L len0 : Nat) (r : R SL) : Prop := r.safe ∧ ∀ s', r = .ok s' → s'.args.length ≤ len0 ∧ s'.buf.length = L

theorem outerOK_fail (L len0 c : Nat) : OuterOK L len0 (.fail c) := ⟨trivial, fun s' h => by cases h⟩

/-- the part of an outer iteration after the token: skip separators, terminate the token, go round -/
theorem slTail_spec (sep : Bytes) (L len0 : Nat) (hL : len0 < L) (k : SL → R SL) (bound : Nat)
    (hk : ∀ s : SL, OInv sep L len0 s → s.len ≤ bound → OuterOK L len0 (k s))
    (t : SL) (ht : SLInv L len0 t) (hcnt : t.args.length + t.len ≤ len0) (hfl : t.len ≤ bound) :
    OuterOK L len0 (slTail sep k t) := by
  unfold slTail
  obtain ⟨u, h1, hu, hd, ha, hs, hb, hn, _⟩ := slSkip_spec sep L len0 hL (t.len + 1) t ht (Nat.le_refl _)
  simp only [h1]
  obtain ⟨b, hw⟩ := wr_some (buf := u.buf) (i := u.dst) 0 (by rw [hu.blen]; have := hu.dle; have := hu.pos; omega)
  simp only [hw]
  obtain ⟨wl, wa, wo⟩ := wr_spec hw
  have hulen : u.len ≤ t.len := by have := hu.pos; have := ht.pos; omega
  apply hk
  · refine ⟨hu.pos, by simp; rw [wl]; exact hu.blen, by simp; rw [ha]; omega, ?_, ?_⟩
    · by_cases hlt : u.dst < u.src
      · left; simp; omega
      · right; right
        have : u.dst = u.src := by have := hu.dle; omega
        simp; rw [← this]; exact wa
    · rcases hn with h | ⟨c, hc, hcs⟩
      · left; exact h
      · right
        by_cases he : u.src = u.dst
        · refine ⟨0, ?_, isSep_zero sep⟩
          simp; rw [he]; exact wa
        · exact ⟨c, by simp; rw [wo _ he]; exact hc, hcs⟩
  · simp; omega

/-- a token: safe; on success the cursor invariant holds, the argument list is unchanged and at least one byte was read -/
theorem slToken_spec (sep : Bytes) (L len0 : Nat) (hL : len0 < L) (s : SL) (hi : SLInv L len0 s) (h0 : s.len ≠ 0)
    (c : UInt8) (hc : s.buf[s.src]? = some c) (hns : isSep sep c = false) (hz : c.toNat ≠ 0) :
    (slToken sep s c).safe ∧ ∀ t, slToken sep s c = .ok t → SLInv L len0 t ∧ t.args = s.args ∧ s.src + 1 ≤ t.src := by
  unfold slToken
  by_cases hq : c.toNat = 34
  · simp only [hq, if_true]
    have hi2 : SLInv L len0 { s with src := s.src + 1, len := s.len - 1 } :=
      ⟨by have := hi.pos; simp; omega, by have := hi.dle; simp; omega, hi.blen⟩
    obtain ⟨q1, q2⟩ := slQuoted_spec L len0 hL (s.len + 1) _ hi2 (by simp)
    cases hqr : slQuoted (s.len + 1) { s with src := s.src + 1, len := s.len - 1 } with
    | oob => rw [hqr] at q1; exact (q1 : False).elim
    | spin => rw [hqr] at q1; exact (q1 : False).elim
    | fail cq => exact ⟨trivial, fun t h => by cases h⟩
    | ok q =>
      obtain ⟨b1, b2, b3, b4, b5⟩ := q2 q hqr
      simp at b2 b3 b4 b5
      simp only [slCloseQuote]
      by_cases hq0 : q.len = 0
      · simp only [hq0, if_true]; exact ⟨trivial, fun t h => by cases h⟩
      · simp only [hq0, if_false]
        obtain ⟨e, he⟩ := get_some (buf := q.buf) (i := q.src) (by rw [b1.blen]; have := b1.pos; omega)
        simp only [he]
        by_cases hcl : e.toNat ≠ 34
        · rw [if_pos hcl]; exact ⟨trivial, fun t h => by cases h⟩
        · rw [if_neg hcl]
          refine ⟨trivial, fun t h => ?_⟩
          cases h
          exact ⟨⟨by have := b1.pos; simp; omega, by have := b1.dle; simp; omega, b1.blen⟩, b2, by simp; omega⟩
  · simp only [hq, if_false]
    obtain ⟨g1, g2⟩ := slBare_spec sep L len0 hL (s.len + 1) s hi (Nat.le_refl _)
    refine ⟨g1, fun t h => ?_⟩
    obtain ⟨b1, b2, _, _, _⟩ := g2 t h
    exact ⟨b1, b2, slBare_progress sep L len0 hL (s.len + 1) s hi (Nat.le_refl _) h0 c hc hns hz t h⟩

theorem slOuter_spec (sep : Bytes) (L len0 : Nat) (hL : len0 < L) : ∀ fuel (s : SL), OInv sep L len0 s → s.len + 1 ≤ fuel →
    OuterOK L len0 (slOuter sep fuel s) := by
  intro fuel
  induction fuel with
  | zero => intro s _ h; omega
  | succ f ih =>
    intro s hi hf
    simp only [slOuter]
    by_cases h0 : s.len = 0
    · simp only [h0, if_true]
      exact ⟨trivial, fun s' h => by cases h; exact ⟨by have := hi.cnt; omega, hi.blen⟩⟩
    · simp only [h0, if_false]
      have hsrc : s.src < L := by have := hi.pos; omega
      obtain ⟨c, hc⟩ := get_some (buf := s.buf) (i := s.src) (by rw [hi.blen]; exact hsrc)
      simp only [hc]
      by_cases hz : c.toNat = 0
      · simp only [hz, if_true]
        exact ⟨trivial, fun s' h => by cases h; exact ⟨by have := hi.cnt; omega, hi.blen⟩⟩
      · simp only [hz, if_false]
        have hdle : s.dst ≤ s.src := by
          rcases hi.dle with h | h | h
          · exact h
          · exact absurd h h0
          · rw [hc] at h; cases h; simp at hz
        have hns : isSep sep c = false := by
          rcases hi.nonsep with h | ⟨c', hc', h⟩
          · exact absurd h h0
          · rw [hc] at hc'; cases hc'; exact h
        have hi1 : SLInv L len0 { s with args := s.dst :: s.args } := ⟨hi.pos, hdle, hi.blen⟩
        obtain ⟨t1, t2⟩ := slToken_spec sep L len0 hL _ hi1 h0 c hc hns hz
        cases htk : slToken sep { s with args := s.dst :: s.args } c with
        | oob => rw [htk] at t1; exact (t1 : False).elim
        | spin => rw [htk] at t1; exact (t1 : False).elim
        | fail cq => exact outerOK_fail L len0 cq
        | ok t =>
          obtain ⟨b1, b2, b3⟩ := t2 t htk
          simp at b2 b3
          simp only []
          refine slTail_spec sep L len0 hL (slOuter sep f) (s.len - 1) (fun s2 hs2 hl2 => ih s2 hs2 (by omega)) t b1 ?_ ?_
          · rw [b2]; simp; have := hi.cnt; have := b1.pos; have := hi.pos; omega
          · have := b1.pos; have := hi.pos; omega

/-- `split_line` on any object of at least `len + 1` bytes, any separator set -/
theorem splitLine_spec (buf : Bytes) (len : Nat) (sep : Bytes) (h : len + 1 ≤ buf.length) :
    (splitLine buf len sep).safe ∧ ∀ s, splitLine buf len sep = .ok s → s.args.length ≤ len ∧ s.buf.length = buf.length := by
  unfold splitLine
  have hi0 : SLInv buf.length len { buf := buf, src := 0, dst := 0, len := len, args := [] } := ⟨by simp, by simp, rfl⟩
  obtain ⟨s1, h1, hs, hd, ha, _, hb, hn, _⟩ := slSkip_spec sep buf.length len (by omega) (len + 1) _ hi0 (Nat.le_refl _)
  simp only [h1]
  apply slOuter_spec sep buf.length len (by omega) (len + 1) s1
  · exact ⟨hs.pos, hs.blen, by rw [ha]; have := hs.pos; simp; omega, Or.inl hs.dle, hn⟩
  · have := hs.pos; omega



/-! ### `decode_filename` (sort file) and `decode` (xattr map file) -/

theorem dfLoop_safe (k : Nat) : ∀ fuel (buf : Bytes) src dst, buf[k]? = some 0 → dst < src → src ≤ k → k - src + 1 ≤ fuel →
    (dfLoop fuel buf src dst).safe := by
  intro fuel
  induction fuel with
  | zero => intro buf src dst _ _ _ h; omega
  | succ f ih =>
    intro buf src dst hk hd hs hf
    have hklt := getElem?_lt hk
    obtain ⟨c, hc⟩ := get_some (buf := buf) (i := src) (by omega)
    simp only [dfLoop, hc]
    refine safe_ite (fun _ => by trivial) (fun hz => ?_)
    have hne : src ≠ k := by intro e; subst e; rw [hk] at hc; cases hc; simp at hz
    obtain ⟨e, he⟩ := get_some (buf := buf) (i := src + 1) (by omega)
    refine safe_ite (fun _ => ?_) (fun _ => ?_)
    · simp only [he]
      refine safe_ite (fun _ => by trivial) (fun _ => ?_)
      obtain ⟨b, hb⟩ := wr_some (buf := buf) (i := dst) 0 (by omega)
      simp only [hb]; trivial
    · refine safe_ite (fun _ => ?_) (fun _ => ?_)
      · simp only [he]
        refine safe_ite (fun hesc => ?_) (fun _ => by trivial)
        obtain ⟨b, hb⟩ := wr_some (buf := buf) (i := dst) e (by omega)
        simp only [hb]
        obtain ⟨_, _, wo⟩ := wr_spec hb
        have hne2 : src + 1 ≠ k := by
          intro e'; rw [e', hk] at he; cases he
          rcases hesc with h | h <;> simp at h
        exact ih b (src + 2) (dst + 1) (by rw [wo k (by omega)]; exact hk) (by omega) (by omega) (by omega)
      · obtain ⟨b, hb⟩ := wr_some (buf := buf) (i := dst) c (by omega)
        simp only [hb]
        obtain ⟨_, _, wo⟩ := wr_spec hb
        exact ih b (src + 1) (dst + 1) (by rw [wo k (by omega)]; exact hk) (by omega) (by omega) (by omega)

/-- `decode_filename` on any NUL-terminated line: reads stop at the terminator, stores stay behind the read cursor -/
theorem decodeFilename_safe (buf : Bytes) (k : Nat) (hk : buf[k]? = some 0) : (decodeFilename buf).safe := by
  have hklt := getElem?_lt hk
  unfold decodeFilename
  obtain ⟨c, hc⟩ := get_some (buf := buf) (i := 0) (by omega)
  simp only [hc]
  refine safe_ite (fun hq => ?_) (fun _ => by trivial)
  have : 0 ≠ k := by intro e; subst e; rw [hk] at hc; cases hc; simp at hq
  exact dfLoop_safe k (buf.length + 1) buf 1 0 hk (by omega) (by omega) (by omega)

theorem xdLoop_spec (buf : Bytes) (endIdx n : Nat) (hn : buf[n]? = some 0) (hen : endIdx ≤ n) : ∀ fuel v acc, endIdx - v + 1 ≤ fuel →
    (xdLoop buf endIdx fuel v acc).safe ∧ ∀ out, xdLoop buf endIdx fuel v acc = .ok out → out.length ≤ acc.length + (endIdx - v) := by
  have hnlt := getElem?_lt hn
  have oct_ne : ∀ {i : Nat} {c : UInt8}, buf[i]? = some c → isOct c = true → i ≠ n := by
    intro i c hc ho e; subst e; rw [hn] at hc; cases hc; simp [isOct] at ho
  intro fuel
  induction fuel with
  | zero => intro v acc h; omega
  | succ f ih =>
    intro v acc hf
    simp only [xdLoop]
    by_cases hge : v ≥ endIdx
    · simp only [hge, if_true]; exact ⟨trivial, fun out h => by cases h; simp⟩
    · simp only [hge, if_false]
      obtain ⟨c, hc⟩ := get_some (buf := buf) (i := v) (by omega)
      simp only [hc]
      have step : ∀ (v' : Nat) (x : UInt8), v + 1 ≤ v' →
          (xdLoop buf endIdx f v' (x :: acc)).safe ∧ ∀ out, xdLoop buf endIdx f v' (x :: acc) = .ok out →
            out.length ≤ acc.length + (endIdx - v) := by
        intro v' x hv
        obtain ⟨s1, s2⟩ := ih v' (x :: acc) (by omega)
        exact ⟨s1, fun out h => by have := s2 out h; simp at this; omega⟩
      by_cases hb : c.toNat = 92
      · simp only [hb, if_true]
        obtain ⟨e, he⟩ := get_some (buf := buf) (i := v + 1) (by omega)
        simp only [he]
        by_cases h1 : e.toNat = 92 ∨ e.toNat = 34
        · simp only [h1, if_true]; exact step (v + 2) e (by omega)
        · simp only [h1, if_false]
          by_cases ho : isOct e = true
          · simp only [ho, if_true]
            have := oct_ne he ho
            obtain ⟨e2, he2⟩ := get_some (buf := buf) (i := v + 2) (by omega)
            simp only [he2]
            by_cases ho2 : isOct e2 = true
            · simp only [ho2, if_true]
              have := oct_ne he2 ho2
              obtain ⟨e3, he3⟩ := get_some (buf := buf) (i := v + 3) (by omega)
              simp only [he3]
              by_cases ho3 : isOct e3 = true
              · simp only [ho3, if_true]; exact step (v + 4) _ (by omega)
              · simp only [ho3, if_false]; exact step (v + 3) _ (by omega)
            · simp only [ho2, if_false]; exact step (v + 2) _ (by omega)
          · simp only [ho, if_false]; exact step (v + 1) c (by omega)
      · simp only [hb, if_false]; exact step (v + 1) c (by omega)

/-- `decode` of the xattr map reader on any NUL-terminated value: inside `value[0 .. strlen]`, output within `size + 1` -/
theorem xattrDecode_safe (buf : Bytes) (hne : buf ≠ []) (hlast : buf[buf.length - 1]? = some 0) : (xattrDecode buf).safe := by
  have hlen : 0 < buf.length := by cases buf with | nil => exact absurd rfl hne | cons _ _ => simp
  unfold xattrDecode
  simp only []
  refine safe_ite (fun _ => by trivial) (fun hs0 => ?_)
  obtain ⟨c0, hc0⟩ := get_some (buf := buf) (i := 0) (by omega)
  obtain ⟨c1, hc1⟩ := get_some (buf := buf) (i := 1) (by omega)
  simp only [hc0, hc1]
  refine safe_ite (fun _ => ?_) (fun _ => ?_)
  · exact hexDecode_safe buf _ 2 _ [] (by omega)
  · refine safe_ite (fun _ => ?_) (fun _ => ?_)
    · exact base64Decode_safe buf 2 _ _ (by omega)
    · obtain ⟨l, hl⟩ := get_some (buf := buf) (i := buf.length - 1 - 1) (by omega)
      simp only [hl]
      obtain ⟨x1, x2⟩ := xdLoop_spec buf
        (if buf.length - 1 > 1 ∧ c0.toNat = 34 ∧ l.toNat = 34 then buf.length - 1 - 1 else buf.length - 1) (buf.length - 1) hlast
        (by split <;> omega) (buf.length - 1 + 2)
        (if buf.length - 1 > 1 ∧ c0.toNat = 34 ∧ l.toNat = 34 then 1 else 0) [] (by split <;> omega)
      cases hx : xdLoop buf (if buf.length - 1 > 1 ∧ c0.toNat = 34 ∧ l.toNat = 34 then buf.length - 1 - 1 else buf.length - 1)
          (buf.length - 1 + 2) (if buf.length - 1 > 1 ∧ c0.toNat = 34 ∧ l.toNat = 34 then 1 else 0) [] with
      | oob => rw [hx] at x1; exact (x1 : False).elim
      | spin => rw [hx] at x1; exact (x1 : False).elim
      | fail c => trivial
      | ok out =>
        have hb := x2 out hx
        simp only []
        refine safe_ite (fun hgt => ?_) (fun _ => by trivial)
        simp at hb
        split at hb <;> omega

end Sqfs.ParseTotal
