/-
C02 helper lemmas, part 6: `chunk_info_equals` answers the same wherever the bytes of a fragment block currently
live — in-flight copy, open block, or the output file (re-read, uncompressed, through the one-entry cache).  This is
where the codec's round-trip contract and the block writer's read-back invariant are used.
-/
import Sqfs.Proofs.BPWriter
namespace Sqfs.BlockWriter

theorem HoldsIn_bound {m pre s ps loc K P} (ha : Abs pre s ps) (h : HoldsIn m pre ps loc K P) :
    loc + P.length ≤ s.file.length := by
  obtain ⟨a, b, c, h1, h2, _, h4⟩ := h
  have e : ps = a ++ b ++ c ++ ps.drop m := by rw [← h1, List.take_append_drop]
  rw [ha.file, e, h2, ← h4]
  simp only [bytesOf_append, List.length_append]
  omega

end Sqfs.BlockWriter

namespace Sqfs.BlockProc
open Sqfs.Consts
open Sqfs.BlockWriter (hasFlag)

/-! ### size words -/

theorem and_bit24_of_lt (n : Nat) (h : n < 2 ^ 24) : n &&& (1 <<< 24) = 0 := by
  apply Nat.eq_of_testBit_eq
  intro i
  rw [Nat.testBit_and, Nat.one_shiftLeft, Nat.testBit_two_pow, Nat.zero_testBit]
  by_cases hi : 24 = i
  · subst hi; rw [Nat.testBit_lt_two_pow h]; rfl
  · simp [hi]

theorem or_bit24_and (n : Nat) : (n ||| (1 <<< 24)) &&& (1 <<< 24) ≠ 0 := by
  intro h
  have : ((n ||| (1 <<< 24)) &&& (1 <<< 24)).testBit 24 = true := by
    rw [Nat.testBit_and, Nat.testBit_or, Nat.one_shiftLeft, Nat.testBit_two_pow_self]; simp
  rw [h] at this; simp at this

theorem sizeWord_size (b : Blk) (h : b.data.length < 2 ^ 24) : sizeWord b % 2 ^ 24 = b.data.length := by
  rw [← callOf_word]; exact BlockWriter.mkWord_size _ _ h

theorem sizeWord_compressed (b : Blk) (h : b.data.length < 2 ^ 24) :
    (sizeWord b &&& (1 <<< 24) = 0) ↔ hasFlag b.flags blkIsCompressed = true := by
  unfold sizeWord
  split
  · rename_i hc; simp only [hc, iff_true]; exact and_bit24_of_lt _ h
  · rename_i hc
    have hc' : hasFlag b.flags blkIsCompressed = false := by simpa using hc
    rw [hc']
    exact ⟨fun h0 => absurd h0 (or_bit24_and _), fun h0 => by cases h0⟩

/-! ### the fragment table -/

theorem applySets_length (tbl : List (Nat × Nat)) (sets : List (Nat × Nat × Nat)) : (applySets tbl sets).length = tbl.length := by
  induction sets generalizing tbl with
  | nil => rfl
  | cons s r ih => simp only [applySets, List.foldl_cons] at ih ⊢; rw [ih]; simp

theorem applySets_append (tbl : List (Nat × Nat)) (a b : List (Nat × Nat × Nat)) :
    applySets tbl (a ++ b) = applySets (applySets tbl a) b := by
  simp [applySets, List.foldl_append]

theorem applySets_get_of_not_mem (tbl : List (Nat × Nat)) (sets : List (Nat × Nat × Nat)) (i : Nat)
    (h : i ∉ sets.map (·.1)) : (applySets tbl sets)[i]? = tbl[i]? := by
  induction sets generalizing tbl with
  | nil => rfl
  | cons s r ih =>
    simp only [List.map_cons, List.mem_cons, not_or] at h
    simp only [applySets, List.foldl_cons] at ih ⊢
    rw [ih _ h.2, List.getElem?_set_ne (Ne.symm h.1)]

theorem applySets_get (tbl : List (Nat × Nat)) (sets : List (Nat × Nat × Nat)) (hn : (sets.map (·.1)).Nodup)
    (i loc w : Nat) (hm : (i, loc, w) ∈ sets) (hi : i < tbl.length) : (applySets tbl sets)[i]? = some (loc, w) := by
  induction sets generalizing tbl with
  | nil => cases hm
  | cons s r ih =>
    rw [List.map_cons, List.nodup_cons] at hn
    simp only [applySets, List.foldl_cons] at ih ⊢
    rcases List.mem_cons.mp hm with hm | hm
    · subst hm
      have := applySets_get_of_not_mem (tbl.set i (loc, w)) r i hn.1
      simp only [applySets] at this
      rw [this, List.getElem?_set_self (by simpa using hi)]
    · exact ih _ hn.2 hm (by simpa using hi)

/-- appending a fresh table entry commutes with the sets of existing ones -/
theorem applySets_snoc (tbl : List (Nat × Nat)) (sets : List (Nat × Nat × Nat)) (z : Nat × Nat)
    (h : ∀ s ∈ sets, s.1 < tbl.length) : applySets (tbl ++ [z]) sets = applySets tbl sets ++ [z] := by
  induction sets generalizing tbl with
  | nil => rfl
  | cons s r ih =>
    simp only [applySets, List.foldl_cons] at ih ⊢
    have hs := h s List.mem_cons_self
    rw [List.set_append_left _ _ hs]
    apply ih
    intro s' hs'
    simpa using h s' (List.mem_cons_of_mem _ hs')

/-! ### reading a written fragment block back -/

/-- the facts about a state that the lookups of `process_completed_fragment` depend on -/
structure LookOK (P : Params) (n : Nat) (done : List Blk) (F : FSt) (deq : Nat) (W : WSt) (s : Proc) : Prop where
  finv : FInv P n done F
  fragBlock : s.fragBlock = F.opn
  winv : WInv P (F.stream.take deq) W
  wr : s.w.wr = W.wr
  fragTbl : s.w.fragTbl = applySets (List.replicate F.ntbl (0, 0)) W.sets
  inFlSub : ∀ e ∈ s.fblkInFlight, e ∈ F.closed
  inFlAll : P.byteCompare = true → ∀ b ∈ F.stream.drop deq, isFB b = true → b.index ∈ s.fblkInFlight.map (·.1)
  cache : ∀ ci cd, s.cachedFragBlk = some (ci, cd) → (ci, cd) ∈ F.closed

theorem LookOK.setCache {P : Params} {n : Nat} {done : List Blk} {F : FSt} {deq : Nat} {W : WSt} {s : Proc}
    (h : LookOK P n done F deq W s) (c : Option (Nat × Bytes)) (hc : ∀ ci cd, c = some (ci, cd) → (ci, cd) ∈ F.closed) :
    LookOK P n done F deq W { s with cachedFragBlk := c } :=
  ⟨h.finv, h.fragBlock, h.winv, h.wr, h.fragTbl, h.inFlSub, h.inFlAll, hc⟩

theorem closed_unique {P : Params} {n : Nat} {done : List Blk} {F : FSt} (h : FInv P n done F) {i : Nat} {d d' : Bytes}
    (h1 : (i, d) ∈ F.closed) (h2 : (i, d') ∈ F.closed) : d = d' := by
  have a := find?_fst_of_mem h.closedNodup h1
  have b := find?_fst_of_mem h.closedNodup h2
  simp only at a b
  rw [a] at b
  simpa using b

theorem stream_fb_indices_nodup {P : Params} {n : Nat} {done : List Blk} {F : FSt} (h : FInv P n done F) :
    ((F.stream.filter isFB).map (·.index)).Nodup := by
  rw [h.fbIdx]; exact (List.reverse_perm _).symm.nodup h.closedNodup

/-- `load_frag_block` (cache miss) on a fragment block that has been written: the table entry leads to its bytes -/
theorem read_written {P : Params} (hc : CodecOk P.codec) (hB : P.B < 2 ^ 24) {n : Nat} {done : List Blk} {F : FSt} {deq : Nat} {W : WSt}
    {s : Proc} (h : LookOK P n done F deq W s) (b : Blk) (hb : b ∈ F.stream.take deq) (hfb : isFB b = true) (d : Bytes)
    (hd : (b.index, d) ∈ F.closed) :
    ∃ start word raw, s.w.fragTbl[b.index]? = some (start, word) ∧ word % 2 ^ 24 ≤ P.B ∧
      BlockWriter.readAt s.w.wr.file start (word % 2 ^ 24) = some raw ∧
      (if word &&& (1 <<< 24) = 0 then P.codec.unc raw = some d ∧ d.isEmpty = false else raw = d) := by
  have hbs : b ∈ F.stream := List.mem_of_mem_take hb
  obtain ⟨d', hd', hw⟩ := h.finv.fbs b hbs hfb
  have hdd : d' = d := closed_unique h.finv hd' hd
  subst hdd
  obtain ⟨hidx, hpos, hle⟩ := h.finv.closedOK _ hd
  have hne : d' ≠ [] := fun he => by simp [he] at hpos
  obtain ⟨⟨ps, acc, recs, _loose, hinv, hrecs⟩, hsets, _, _⟩ := h.winv
  obtain ⟨loc, hset, hrec⟩ := hrecs b hb hfb
  have hhold := hinv.recs _ hrec
  have hslice := BlockWriter.HoldsIn_slice hinv.abs hhold
  have hbound := BlockWriter.HoldsIn_bound hinv.abs hhold
  simp only [BlockWriter.blkBytes, List.append_nil] at hslice hbound
  have hlen : b.data.length ≤ P.B := by
    rcases hw.payload hc hne with ⟨_, h2⟩ | ⟨_, _, h3, _⟩
    · rw [h2]; exact hle
    · exact Nat.le_trans (Nat.le_of_lt h3) hle
  have hlt : b.data.length < 2 ^ 24 := by omega
  have hnodup : (W.sets.map (·.1)).Nodup := by
    rw [hsets]
    have := stream_fb_indices_nodup h.finv
    have hsub : ((F.stream.take deq).filter isFB).Sublist (F.stream.filter isFB) :=
      List.Sublist.filter _ (List.take_sublist _ _)
    exact (hsub.map _).nodup this
  refine ⟨loc, sizeWord b, b.data, ?_, ?_, ?_, ?_⟩
  · rw [h.fragTbl]
    exact applySets_get _ _ hnodup _ _ _ hset (by simpa using hidx)
  · rw [sizeWord_size b hlt]; exact hlen
  · rw [sizeWord_size b hlt, h.wr]
    unfold BlockWriter.readAt
    by_cases h0 : b.data.length = 0
    · simp [h0, List.eq_nil_of_length_eq_zero h0]
    · rw [if_neg h0, if_pos hbound, hslice]
  · rcases hw.payload hc hne with ⟨h1, h2⟩ | ⟨h1, h2, _, _⟩
    · have : ¬ (sizeWord b &&& (1 <<< 24) = 0) := by
        rw [sizeWord_compressed b hlt, h1]; simp
      rw [if_neg this]; exact h2
    · have : sizeWord b &&& (1 <<< 24) = 0 := (sizeWord_compressed b hlt).mpr h1
      rw [if_pos this]
      exact ⟨h2, by cases d' with
        | nil => exact absurd rfl hne
        | cons a t => rfl⟩

/-! ### `chunk_info_equals`, search, insert -/

def CacheOK (F : FSt) (c : Option (Nat × Bytes)) : Prop := ∀ ci cd, c = some (ci, cd) → (ci, cd) ∈ F.closed

/-- the bytes `chunk_info_equals` compares against are the content of the fragment block, wherever they are taken from -/
theorem fragBytes_eq {P : Params} (hc : CodecOk P.codec) (hB : P.B < 2 ^ 24) {n : Nat} {done : List Blk} {F : FSt} {deq : Nat} {W : WSt}
    {s : Proc} (h : LookOK P n done F deq W s) (hbc : P.byteCompare = true) (idx : Nat) (blk : Bytes)
    (hfd : F.fragData idx = some blk) :
    ∃ cache', fragBytes P s idx = .ok (blk, cache') ∧ CacheOK F cache' := by
  unfold fragBytes
  unfold FSt.fragData at hfd
  cases hfl : s.fblkInFlight.find? (fun e => e.1 == idx) with
  | some e =>
    have hem : e ∈ s.fblkInFlight := List.mem_of_find?_eq_some hfl
    have hek : e.1 = idx := by simpa using List.find?_some hfl
    have hec := h.inFlSub e hem
    refine ⟨s.cachedFragBlk, ?_, h.cache⟩
    simp only
    congr 2
    have hob : openBytes F.opn idx = none := by
      unfold openBytes
      cases hop : F.opn with
      | none => rfl
      | some fb =>
        have hne : fb.index ≠ idx := by
          intro heq
          exact (h.finv.opn fb hop).2.2.2.2 e hec (by rw [hek, heq])
        simp [hne]
    rw [hob] at hfd
    simp only at hfd
    have := find?_fst_of_mem h.finv.closedNodup hec
    rw [hek] at this
    rw [this] at hfd
    simpa using hfd
  | none =>
    simp only
    rw [h.fragBlock]
    cases hmo : openBytes F.opn idx with
    | some d0 =>
      rw [hmo] at hfd
      simp only [Option.some.injEq] at hfd
      subst hfd
      exact ⟨s.cachedFragBlk, rfl, h.cache⟩
    | none =>
      rw [hmo] at hfd
      simp only at hfd
      cases hfe : F.closed.find? (fun e => e.1 == idx) with
      | none => rw [hfe] at hfd; cases hfd
      | some e =>
        rw [hfe] at hfd
        simp only [Option.map_some, Option.some.injEq] at hfd
        obtain ⟨hec, hek⟩ := mem_of_find?_fst hfe
        unfold loadFragBlock
        cases hca : cacheHit s.cachedFragBlk idx with
        | some cd =>
          simp only
          refine ⟨s.cachedFragBlk, ?_, h.cache⟩
          unfold cacheHit at hca
          cases hcc : s.cachedFragBlk with
          | none => rw [hcc] at hca; cases hca
          | some p =>
            obtain ⟨ci, cd'⟩ := p
            rw [hcc] at hca
            simp only at hca
            by_cases hci : ci = idx
            · rw [if_pos hci] at hca
              simp only [Option.some.injEq] at hca
              subst hca
              have hm := h.cache ci cd' hcc
              rw [hci, ← hek] at hm
              have : cd' = e.2 := closed_unique h.finv hm hec
              rw [this, hfd]
            · rw [if_neg hci] at hca; cases hca
        | none =>
          simp only
          -- the block is not in flight, not open, not cached: it has been written
          have hidx : idx ∈ (F.stream.filter isFB).map (·.index) := by
            rw [h.finv.fbIdx, List.mem_reverse]
            exact hek ▸ List.mem_map_of_mem hec
          obtain ⟨b, hbm, hbi⟩ := List.mem_map.mp hidx
          obtain ⟨hbs, hbfb⟩ := List.mem_filter.mp hbm
          have hsplit : b ∈ F.stream.take deq ∨ b ∈ F.stream.drop deq := by
            rw [← List.mem_append, List.take_append_drop]; exact hbs
          rcases hsplit with hbt | hbd
          · have hbe : (b.index, e.2) ∈ F.closed := by
              rw [hbi, ← hek]; exact hec
            obtain ⟨start, word, raw, h1, h2, h3, h4⟩ := read_written hc hB h b hbt hbfb e.2 hbe
            rw [hbi] at h1
            rw [h1]
            simp only
            rw [if_neg (by omega), h3]
            simp only
            by_cases hcm : word &&& (1 <<< 24) = 0
            · rw [if_pos hcm] at h4 ⊢
              rw [h4.1]
              simp only [h4.2, Bool.false_eq_true, if_false]
              refine ⟨some (idx, e.2), by rw [hfd], ?_⟩
              intro ci cd hcc
              simp only [Option.some.injEq, Prod.mk.injEq] at hcc
              rw [← hcc.1, ← hcc.2, ← hek]; exact hec
            · rw [if_neg hcm] at h4 ⊢
              refine ⟨some (idx, raw), by rw [h4, hfd], ?_⟩
              intro ci cd hcc
              simp only [Option.some.injEq, Prod.mk.injEq] at hcc
              rw [← hcc.1, ← hcc.2, h4, ← hek]; exact hec
          · exfalso
            have := h.inFlAll hbc b hbd hbfb
            obtain ⟨e', he', hek'⟩ := List.mem_map.mp this
            rw [List.find?_eq_none] at hfl
            exact hfl e' he' (by simp [hek', hbi])

/-- a table entry that lies inside its block -/
def ChunkOK (F : FSt) (c : Chunk) : Prop := ∃ blk, F.fragData c.index = some blk ∧ c.offset + c.size ≤ blk.length ∧ 0 < c.size

theorem chunkEquals_eq {P : Params} (hc : CodecOk P.codec) (hB : P.B < 2 ^ 24) {n : Nat} {done : List Blk} {F : FSt} {deq : Nat} {W : WSt}
    {s : Proc} (h : LookOK P n done F deq W s) (d : Bytes) (hd : UInt32) (kf : Nat) (c : Chunk) (hck : ChunkOK F c) :
    ∃ cache', chunkEquals P s d hd kf c = .ok (chunkEqRef P.byteCompare F d hd kf c, cache') ∧ CacheOK F cache' := by
  unfold chunkEquals chunkEqRef
  split
  · exact ⟨s.cachedFragBlk, rfl, h.cache⟩
  · split
    · exact ⟨s.cachedFragBlk, rfl, h.cache⟩
    · rename_i hbc
      have hbc' : P.byteCompare = true := by simpa using hbc
      obtain ⟨blk, h1, h2, h3⟩ := hck
      obtain ⟨cache', hf, hco⟩ := fragBytes_eq hc hB h hbc' c.index blk h1
      rw [hf, h1]
      simp only
      have : ¬ (c.offset ≥ blk.length || blk.length - c.offset < c.size) = true := by
        simp only [ge_iff_le, Bool.or_eq_true, decide_eq_true_eq, not_or, Nat.not_le, Nat.not_lt]
        omega
      rw [if_neg this]
      exact ⟨cache', rfl, hco⟩

theorem search_eq {P : Params} (hc : CodecOk P.codec) (hB : P.B < 2 ^ 24) {n : Nat} {done : List Blk} {F : FSt} {deq : Nat} {W : WSt}
    (d : Bytes) (hd : UInt32) (kf : Nat) (l : List Chunk) (hl : ∀ c ∈ l, ChunkOK F c) :
    ∀ {s : Proc}, LookOK P n done F deq W s →
      ∃ cache', search P s d hd kf l = .ok (l.find? (chunkEqRef P.byteCompare F d hd kf), { s with cachedFragBlk := cache' }) ∧
        CacheOK F cache' := by
  induction l with
  | nil => intro s h; exact ⟨s.cachedFragBlk, rfl, h.cache⟩
  | cons c rest ih =>
    intro s h
    obtain ⟨cache', he, hco⟩ := chunkEquals_eq hc hB h d hd kf c (hl c List.mem_cons_self)
    unfold search
    rw [he, List.find?_cons]
    cases hv : chunkEqRef P.byteCompare F d hd kf c with
    | true => exact ⟨cache', rfl, hco⟩
    | false =>
      simp only
      obtain ⟨cache'', hs, hco'⟩ := ih (fun c' hc' => hl c' (List.mem_cons_of_mem _ hc')) (h.setCache cache' hco)
      exact ⟨cache'', hs, hco'⟩

theorem insert_eq {P : Params} (hc : CodecOk P.codec) (hB : P.B < 2 ^ 24) {n : Nat} {done : List Blk} {F : FSt} {deq : Nat} {W : WSt}
    (d : Bytes) (new : Chunk) (l : List Chunk) (hl : ∀ c ∈ l, ChunkOK F c) :
    ∀ (pre : List Chunk) {s : Proc}, LookOK P n done F deq W s →
      ∃ cache', insert P s d new pre l =
          .ok { s with fragHt := pre ++ insertRef (chunkEqRef P.byteCompare F d new.hash new.flags) new l, cachedFragBlk := cache' } ∧
        CacheOK F cache' := by
  induction l with
  | nil => intro pre s h; exact ⟨s.cachedFragBlk, rfl, h.cache⟩
  | cons c rest ih =>
    intro pre s h
    obtain ⟨cache', he, hco⟩ := chunkEquals_eq hc hB h d new.hash new.flags c (hl c List.mem_cons_self)
    unfold insert insertRef
    rw [he]
    cases hv : chunkEqRef P.byteCompare F d new.hash new.flags c with
    | true => exact ⟨cache', rfl, hco⟩
    | false =>
      simp only [Bool.false_eq_true, if_false]
      obtain ⟨cache'', hs, hco'⟩ := ih (fun c' hc' => hl c' (List.mem_cons_of_mem _ hc')) (pre ++ [c]) (h.setCache cache' hco)
      refine ⟨cache'', ?_, hco'⟩
      rw [hs]
      simp [List.append_assoc]

end Sqfs.BlockProc
