/-
C01 — the whole tree, part 3: the loop invariant and its induction over `fs->inodes`.
-/
import Sqfs.Proofs.EncTreeAll2
namespace Sqfs.Enc
open Sqfs.Consts
open Sqfs.FsTree (TNode Path lookup Result indexOf isType)
open Sqfs.DirWriter (DEnt)

/-- what is known about the node at `p` once it has been written (all of it stable while the loop goes on) -/
def StoredAt (bs : Nat) (root : TNode) (inodes : List Path) (x : TreeExtra) (st : TreeSt) (refs : List (Path × Nat))
    (p : Path) : Prop :=
  ∃ n i pos tail a, lookup root p = some n ∧ lookupRef refs p = rawRef pos ∧ pos < st.inodes.length
    ∧ WfInode bs i ∧ st.inodes.drop pos = encInode i ++ tail
    ∧ expectAttr (nodeIn root inodes x [] p n) = some a ∧ (∀ e, i.resolve (st.ids ++ e) = a)
    ∧ (i.view.typeBits = sIFDIR ↔ n.isDir = true)
    ∧ (n.isDir = true → ∃ dpos des dtail, dirPos i = some dpos
        ∧ st.dirs.drop dpos = encListing rawCost (dpos / metaBlockSize * rawCost) (dpos % metaBlockSize) des ++ dtail
        ∧ dpos ≤ st.dirs.length
        ∧ (∀ e ∈ des, WfDEnt e)
        ∧ (∀ stream, openDir i stream
            = some ⟨stream, listingSize rawCost (dpos / metaBlockSize * rawCost) (dpos % metaBlockSize) des + 3, 0, 0, 0⟩)
        ∧ des.map (fun e => (e.name, e.inodeRef)) = n.children.map (fun c => (c.name, lookupRef refs (entryTarget p c)))
        ∧ ∀ c ∈ n.children, entryTarget p c ∈ refs.map (·.1))

/-- stability: the streams and the id table grow at the end, one fresh reference is added -/
theorem StoredAt.mono {bs : Nat} {root : TNode} {inodes : List Path} {x : TreeExtra} {st st' : TreeSt}
    {refs : List (Path × Nat)} {p : Path} (h : StoredAt bs root inodes x st refs p) (q : Path) (r : Nat)
    (hp : p ∈ refs.map (·.1)) (hq : q ∉ refs.map (·.1))
    (hi : ∃ a, st'.inodes = st.inodes ++ a) (hd : ∃ b, st'.dirs = st.dirs ++ b) (hids : ∃ e, st'.ids = st.ids ++ e) :
    StoredAt bs root inodes x st' ((q, r) :: refs) p := by
  obtain ⟨n, i, pos, tail, a, h1, h2, h3, h4, h5, h6, h7, h8, h9⟩ := h
  obtain ⟨ia, hia⟩ := hi
  obtain ⟨db, hdb⟩ := hd
  obtain ⟨e0, he0⟩ := hids
  have hne : q ≠ p := fun hqp => hq (hqp ▸ hp)
  refine ⟨n, i, pos, tail ++ ia, a, h1, ?_, ?_, h4, ?_, h6, ?_, h8, ?_⟩
  · rw [lookupRef_cons_ne _ _ _ _ hne]; exact h2
  · rw [hia, List.length_append]; omega
  · rw [hia, List.drop_append_of_le_length (by omega), h5, List.append_assoc]
  · intro e; rw [he0, List.append_assoc]; exact h7 _
  · intro hdir
    obtain ⟨dpos, des, dtail, d1, d2, d3, d4, d5, d6, d7⟩ := h9 hdir
    refine ⟨dpos, des, dtail ++ db, d1, ?_, ?_, d4, d5, ?_, ?_⟩
    · rw [hdb, List.drop_append_of_le_length d3, d2, List.append_assoc]
    · rw [hdb, List.length_append]; omega
    · rw [d6]
      apply List.map_congr_left
      intro c hc
      have hne2 : q ≠ entryTarget p c := fun hqc => hq (hqc ▸ d7 c hc)
      rw [lookupRef_cons_ne _ _ _ _ hne2]
    · intro c hc
      simp only [List.map_cons, List.mem_cons]
      exact Or.inr (d7 c hc)

/-- the node just written -/
theorem storedAt_new (bs : Nat) (root : TNode) (inodes : List Path) (x : TreeExtra) (st st' : TreeSt)
    (refs : List (Path × Nat)) (p : Path) (n : TNode) (hl : lookup root p = some n)
    (hok : NodeInOk bs st (nodeIn root inodes x refs p n)) (hlc : 1 ≤ n.attr.linkCount)
    (hs : serializeNode st (nodeIn root inodes x refs p n) = .ok st')
    (hp : p ∉ refs.map (·.1))
    (hch : n.isDir = true → ∀ c ∈ n.children, entryTarget p c ∈ refs.map (·.1))
    (hD : st.dirs.length / metaBlockSize * rawCost < 2 ^ 32) :
    StoredAt bs root inodes x st' ((p, rawRef st.inodes.length) :: refs) p := by
  obtain ⟨i, i0, ui, gi, f1, f2, f3, f4, f5, f6, f7, f8, f9, f10, f11⟩ :=
    serializeNode_full bs st st' _ [] hok hlc hs
  have hisd := nodeIn_isDir root inodes x refs p n
  have hui : ∀ e, (st'.ids ++ e)[ui]? = some n.attr.uid := by
    intro e
    have hlt : ui < st'.ids.length := by
      apply Decidable.byContradiction; intro hge
      rw [List.getElem?_eq_none (by omega)] at f8; cases f8
    rw [List.getElem?_append_left hlt]; exact f8
  have hgi : ∀ e, (st'.ids ++ e)[gi]? = some n.attr.gid := by
    intro e
    have hlt : gi < st'.ids.length := by
      apply Decidable.byContradiction; intro hge
      rw [List.getElem?_eq_none (by omega)] at f9; cases f9
    rw [List.getElem?_append_left hlt]; exact f9
  have hnd : (nodeIn root inodes x refs p n).kind.isDir = false → i0.view.typeBits ≠ sIFDIR := fun h => (f11 h).2
  have hres : ∀ e, expectAttr (nodeIn root inodes x refs p n) = some (i.resolve (st'.ids ++ e)) :=
    fun e => resolve_written st _ i i0 ui gi _ f1 f5 (hui e) (hgi e) hnd
  have htb : i.view.typeBits = i0.view.typeBits := by rw [f5]; rfl
  refine ⟨n, i, st.inodes.length, [], i.resolve (st'.ids ++ []), hl, lookupRef_cons_self _ _ _, ?_, f2, ?_, ?_, ?_, ?_, ?_⟩
  · rw [f3, List.length_append]; have := encInode_pos i; omega
  · rw [f3, List.drop_left, List.append_nil]
  · rw [← expectAttr_refs root inodes x refs p n]; exact hres []
  · intro e
    have := (hres e).symm.trans (hres [])
    exact Option.some.inj this
  · rw [htb]
    by_cases hdir : n.isDir = true
    · simp only [hdir, iff_true]
      rw [hdir] at hisd
      cases hk : (nodeIn root inodes x refs p n).kind with
      | dir ents =>
        obtain ⟨des, _, _, _, g4, _⟩ := f10 ents hk
        rw [g4]; exact (dirInodeOf_view _ _ _).1
      | reg inode => rw [hk] at hisd; cases hisd
      | other d t => rw [hk] at hisd; cases hisd
    · have hdir' : n.isDir = false := by simpa using hdir
      rw [hdir'] at hisd
      simp only [hdir', Bool.false_eq_true, iff_false]
      exact (f11 hisd).2
  · intro hdir
    have hk : (nodeIn root inodes x refs p n).kind = .dir (n.children.map (fun c =>
        (c.name, indexOf (entryTarget p c) inodes + 1, lookupRef refs (entryTarget p c),
          match lookup root (entryTarget p c) with | some t => t.attr.mode | none => 0))) := by
      simp only [nodeIn, hdir, if_true]
      rfl
    obtain ⟨des, g1, g2, g3, g4, g5⟩ := f10 _ hk
    obtain ⟨v1, _, v3, v4, _, _⟩ := dirInodeOf_view st.dirs.length (nodeIn root inodes x refs p n) des
    have hv : i.view.nums = i0.view.nums := by rw [f5]; rfl
    refine ⟨st.dirs.length, des, [], ?_, ?_, ?_, g3, g5, ?_, ?_⟩
    · rw [dirPos_view i (by rw [htb, g4]; exact v1), hv, g4, v3, v4, rawRef_split _ hD]
      exact rawPos_rawRef _
    · rw [g2, List.drop_left, List.append_nil]
    · rw [g2, List.length_append]; omega
    · rw [addAllEntries_map _ _ g1, List.map_map]
      apply List.map_congr_left
      intro c hc
      have hne : p ≠ entryTarget p c := fun hpc => hp (hpc ▸ hch hdir c hc)
      simp only [Function.comp]
      rw [lookupRef_cons_ne _ _ _ _ hne]
    · intro c hc
      simp only [List.map_cons, List.mem_cons]
      exact Or.inr (hch hdir c hc)

/-- the loop invariant: `done` = the nodes written so far, in order -/
structure GInv (bs : Nat) (root : TNode) (inodes : List Path) (x : TreeExtra) (st : TreeSt) (refs : List (Path × Nat))
    (done : List Path) : Prop where
  keys : refs.map (·.1) = done.reverse
  ids : IdsOk st.ids
  lt : ∀ e ∈ refs, e.2 < 2 ^ 48
  stored : ∀ p ∈ done, StoredAt bs root inodes x st refs p

theorem ginv_empty (bs : Nat) (root : TNode) (inodes : List Path) (x : TreeExtra) : GInv bs root inodes x {} [] [] :=
  ⟨rfl, ⟨by simp [Sqfs.IdTable.limit], by simp⟩, by simp, by simp⟩

/-- **induction over `fs->inodes`** -/
theorem serializeGo_inv (bs : Nat) (root : TNode) (inodes : List Path) (x : TreeExtra)
    (hattr : ∀ p ∈ inodes, ∀ n, lookup root p = some n → AttrOk bs x p n)
    (hlen : inodes.length + 1 < 2 ^ 32) (hnd : inodes.Nodup)
    (hord : ∀ d p t, inodes = d ++ p :: t → ∀ n, lookup root p = some n → n.isDir = true →
      ∀ c ∈ n.children, entryTarget p c ∈ d)
    (stF : TreeSt) (refsF : List (Path × Nat))
    (hI : stF.inodes.length / metaBlockSize * rawCost < 2 ^ 32)
    (hD1 : stF.dirs.length / metaBlockSize * rawCost < 2 ^ 32) (hD2 : stF.dirs.length + 3 < 2 ^ 32) :
    ∀ (todo done : List Path) (st : TreeSt) (refs : List (Path × Nat)), inodes = done ++ todo →
      GInv bs root inodes x st refs done → serializeGo root inodes x todo st refs = .ok (stF, refsF) →
      GInv bs root inodes x stF refsF inodes := by
  intro todo
  induction todo with
  | nil =>
    intro done st refs hsplit hinv h
    simp only [serializeGo, Except.ok.injEq, Prod.mk.injEq] at h
    obtain ⟨rfl, rfl⟩ := h
    have hd : done = inodes := by rw [hsplit, List.append_nil]
    rw [hd] at hinv; exact hinv
  | cons p rest ih =>
    intro done st refs hsplit hinv h
    simp only [serializeGo] at h
    cases hl : lookup root p with
    | none => rw [hl] at h; cases h
    | some n =>
      rw [hl] at h
      simp only at h
      cases hs : serializeNode st (nodeIn root inodes x refs p n) with
      | error e => rw [hs] at h; cases h
      | ok st' =>
        rw [hs] at h
        simp only at h
        have hpin : p ∈ inodes := by rw [hsplit]; simp
        have ha := hattr p hpin n hl
        obtain ⟨g1, g2⟩ := serializeGo_grows _ _ _ _ _ _ _ _ h
        obtain ⟨⟨ia, hia⟩, ⟨db, hdb⟩, _⟩ := serializeNode_grows _ _ _ hs
        have hst_i : st.inodes.length ≤ stF.inodes.length := by rw [hia, List.length_append] at g1; omega
        have hst_d : st.dirs.length ≤ stF.dirs.length := by rw [hdb, List.length_append] at g2; omega
        have hok : NodeInOk bs st (nodeIn root inodes x refs p n) :=
          nodeInOk_of bs root inodes x refs p n st st' ha hlen hinv.ids hinv.lt hs (by omega)
        have hpnot : p ∉ done := by
          rw [hsplit] at hnd
          have := (List.nodup_append.mp hnd).2.2
          intro hpd
          exact this p hpd p (List.mem_cons_self ..) rfl
        have hpk : p ∉ refs.map (·.1) := by rw [hinv.keys]; simpa using hpnot
        have hch : n.isDir = true → ∀ c ∈ n.children, entryTarget p c ∈ refs.map (·.1) := by
          intro hdir c hc
          rw [hinv.keys]
          simpa using hord done p rest hsplit n hl hdir c hc
        have hDst : st.dirs.length / metaBlockSize * rawCost < 2 ^ 32 :=
          Nat.lt_of_le_of_lt (blk_mono _ _ hst_d) hD1
        have hnew := storedAt_new bs root inodes x st st' refs p n hl hok ha.lc1 hs hpk hch hDst
        obtain ⟨_, _, _, _, _, _, _, _, _, f6, f7, _⟩ := serializeNode_full bs st st' _ [] hok ha.lc1 hs
        have hinv' : GInv bs root inodes x st' ((p, rawRef st.inodes.length) :: refs) (done ++ [p]) := by
          refine ⟨by simp [hinv.keys], f6, ?_, ?_⟩
          · intro e he
            rcases List.mem_cons.mp he with rfl | he
            · exact rawRef_lt _ (Nat.lt_of_le_of_lt (blk_mono _ _ hst_i) hI)
            · exact hinv.lt e he
          · intro q hq
            rcases List.mem_append.mp hq with hq | hq
            · exact (hinv.stored q hq).mono p _ (by rw [hinv.keys]; simpa using hq) hpk ⟨ia, hia⟩ ⟨db, hdb⟩ f7
            · simp only [List.mem_singleton] at hq; subst hq; exact hnew
        exact ih (done ++ [p]) st' _ (by rw [hsplit]; simp) hinv' h

end Sqfs.Enc
