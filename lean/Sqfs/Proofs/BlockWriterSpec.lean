/-
C08, block writer: refinement to the checksum-free specification `specWrite` / `specRun`
(`Sqfs/Spec/BlockWriter.lean`, the data-block clause of `specPack`).  For every checksum *function* `h` — the
checksum of a stored block is `h` of its bytes, which is how `process_block` computes it — one
`write_data_block` call is exactly one `specWrite` step (`write_refines`): same location, same file, same
history up to the checksum field.  The specification never mentions a checksum, so neither the locations nor a
single byte of the output depend on `h`.
-/
import Sqfs.Proofs.BlockWriter
namespace Sqfs.BlockWriter
open Sqfs.Consts

/-- byte offset of history entry `i` -/
def off (pre : Bytes) (ps : List PE) (i : Nat) : Nat := pre.length + (bytesOf (ps.take i)).length

/-- the exact outcome of `deduplicate_blocks` in terms of the abstract view -/
def DedupOut (pre : Bytes) (s : State) (ps : List PE) (flags : Nat) (ps' : List PE) (loc : Nat) : Prop :=
  (ps.length - s.fileStart = 0 ∧ ps' = ps ∧ loc = 0) ∨
  (0 < ps.length - s.fileStart ∧ hasFlag flags blkDontDeduplicate = true ∧ ps' = ps ∧ loc = off pre ps s.fileStart) ∨
  (0 < ps.length - s.fileStart ∧ hasFlag flags blkDontDeduplicate = false ∧
    ∃ r, r ≤ s.fileStart ∧ (r < s.fileStart → MatchAt ps s.fileStart (ps.length - s.fileStart) r) ∧
      (∀ k, k < r → ¬ MatchAt ps s.fileStart (ps.length - s.fileStart) k) ∧ loc = off pre ps r ∧
      ps' = if r < s.fileStart then ps.take (max (r + (ps.length - s.fileStart)) s.fileStart) else ps)

theorem dedup_explicit (pre : Bytes) (s : State) (ps : List PE) (h : Abs pre s ps) (flags : Nat) :
    ∃ s' loc ps', deduplicateBlocks s flags = .ok (s', loc) ∧ Abs pre s' ps' ∧ s'.fileStart = s.fileStart ∧
      DedupOut pre s ps flags ps' loc := by
  have hfs := h.fs
  have hlen := h.len
  unfold deduplicateBlocks
  rw [if_neg (by omega)]
  simp only []
  by_cases hc0 : s.blocks.length - s.fileStart = 0
  · rw [if_pos hc0]
    exact ⟨s, 0, ps, rfl, h, rfl, Or.inl ⟨by omega, rfl, rfl⟩⟩
  · rw [if_neg hc0]
    have hcpos : 0 < ps.length - s.fileStart := by omega
    have hfs' : s.fileStart < ps.length := by omega
    have hb0 : s.blocks[s.fileStart]? = some (ps[s.fileStart]).1 := by
      rw [h.blocks, List.getElem?_map, List.getElem?_eq_getElem hfs']; rfl
    rw [hb0]
    simp only []
    have hoff0 := (Offs_getElem _ ps h.offs s.fileStart hfs').1
    by_cases hdd : hasFlag flags blkDontDeduplicate = true
    · rw [if_pos hdd]
      exact ⟨s, _, ps, rfl, h, rfl, Or.inr (Or.inl ⟨hcpos, hdd, rfl, hoff0⟩)⟩
    · rw [if_neg hdd]
      have hddf : hasFlag flags blkDontDeduplicate = false := by simpa using hdd
      have hsz : ((s.blocks.drop s.fileStart).map Entry.size).sum = (bytesOf (ps.drop s.fileStart)).length := by
        rw [h.blocks, ← List.map_drop]
        exact Offs_sizes _ _ (Offs_drop _ ps s.fileStart h.offs)
      obtain ⟨r, hfind, _, hrle, hmatch, hmin⟩ :=
        findMatch_spec pre s ps h (s.blocks.length - s.fileStart) (by omega) (ps[s.fileStart]).1.offset
          (((s.blocks.drop s.fileStart).map Entry.size).sum) hoff0 hsz s.fileStart 0 (by omega)
      rw [hfind]
      simp only []
      have hr' : r < ps.length := by omega
      have hbr : s.blocks[r]? = some (ps[r]).1 := by
        rw [h.blocks, List.getElem?_map, List.getElem?_eq_getElem hr']; rfl
      rw [hbr]
      simp only []
      have hoffr := (Offs_getElem _ ps h.offs r hr').1
      rw [hlen] at hmatch hmin
      by_cases hge : r ≥ s.fileStart
      · rw [if_pos hge]
        refine ⟨s, _, ps, rfl, h, rfl, Or.inr (Or.inr ⟨hcpos, hddf, r, hrle, hmatch,
          fun k hk => hmin k (Nat.zero_le _) hk, hoffr, ?_⟩)⟩
        rw [if_neg (by omega)]
      · rw [if_neg hge]
        have hlt : r < s.fileStart := by omega
        generalize hcount : s.blocks.length - s.fileStart = count at *
        have hcount' : ps.length - s.fileStart = count := by omega
        rw [hcount'] at hmatch hmin
        generalize hused : (if count ≥ s.fileStart - r then r + count else s.fileStart) = used
        have hmax : used = max (r + count) s.fileStart := by subst hused; split <;> omega
        have hu1 : s.fileStart ≤ used := by omega
        have hu2 : used ≤ ps.length := by omega
        obtain ⟨u, rfl⟩ : ∃ u, used = u + 1 := ⟨used - 1, by omega⟩
        simp only [Nat.add_sub_cancel]
        have hu0 : u < ps.length := by omega
        have hbl : s.blocks[u]? = some (ps[u]).1 := by
          rw [h.blocks, List.getElem?_map, List.getElem?_eq_getElem hu0]; rfl
        rw [hbl]
        simp only []
        have hoffl := Offs_getElem _ ps h.offs u hu0
        have hend : (ps[u]).1.offset + (ps[u]).1.size = pre.length + (bytesOf (ps.take (u + 1))).length := by
          rw [hoffl.1, hoffl.2, List.take_succ_eq_append_getElem hu0, bytesOf_append]
          simp; omega
        refine ⟨_, _, ps.take (u + 1), rfl, ?_, rfl, Or.inr (Or.inr ⟨by omega, hddf, r, hrle, ?_, ?_, hoffr, ?_⟩)⟩
        · refine ⟨?_, ?_, Offs_take _ _ _ h.offs, ?_, h.ho⟩
          · show s.blocks.take (u + 1) = (ps.take (u + 1)).map (·.1)
            rw [h.blocks, List.map_take]
          · show truncate s.file _ = pre ++ bytesOf (ps.take (u + 1))
            rw [hend, h.file]
            have e : pre ++ bytesOf ps = (pre ++ bytesOf (ps.take (u + 1))) ++ bytesOf (ps.drop (u + 1)) := by
              rw [List.append_assoc, ← bytesOf_append, List.take_append_drop]
            rw [e]
            exact truncate_prefix _ _ _ (by simp)
          · show s.fileStart ≤ (ps.take (u + 1)).length
            simp; omega
        · rw [hcount']; exact hmatch
        · rw [hcount']; exact fun k hk => hmin k (Nat.zero_le _) hk
        · rw [if_pos hlt, hcount', hmax]


/-! ### refinement to the checksum-free specification -/

def strip (p : PE) : SBlk := ⟨p.1.word, p.2⟩

theorem sBytes_strip (ps : List PE) : sBytes (ps.map strip) = bytesOf ps := by
  induction ps with
  | nil => rfl
  | cons p r ih => simp [sBytes, strip, ih]

/-- equal block lengths and equal concatenation: equal blocks -/
theorem payloads_eq : ∀ (xs ys : List PE), xs.map (·.2.length) = ys.map (·.2.length) → bytesOf xs = bytesOf ys →
    xs.map (·.2) = ys.map (·.2) := by
  intro xs
  induction xs with
  | nil => intro ys hl _; cases ys with
    | nil => rfl
    | cons _ _ => simp at hl
  | cons x xs ih =>
    intro ys hl hb
    cases ys with
    | nil => simp at hl
    | cons y ys =>
      simp only [List.map_cons, List.cons.injEq] at hl ⊢
      simp only [bytesOf_cons] at hb
      obtain ⟨h1, h2⟩ := List.append_inj hb hl.1
      exact ⟨h1, ih ys hl.2 h2⟩

theorem pkey_eq_of (h : Bytes → UInt32) : ∀ (xs ys : List PE), xs.map (·.1.word) = ys.map (·.1.word) →
    xs.map (·.2) = ys.map (·.2) → (∀ p ∈ xs, p.1.chk = h p.2) → (∀ p ∈ ys, p.1.chk = h p.2) →
    xs.map pkey = ys.map pkey := by
  intro xs
  induction xs with
  | nil => intro ys hw _ _ _; cases ys with
    | nil => rfl
    | cons _ _ => simp at hw
  | cons x xs ih =>
    intro ys hw hp hx hy
    cases ys with
    | nil => simp at hw
    | cons y ys =>
      simp only [List.map_cons, List.cons.injEq] at hw hp ⊢
      refine ⟨?_, ih ys hw.2 hp.2 (fun p hp' => hx p (List.mem_cons_of_mem _ hp'))
        (fun p hp' => hy p (List.mem_cons_of_mem _ hp'))⟩
      simp only [pkey, Prod.mk.injEq]
      refine ⟨hw.1, ?_⟩
      rw [hx x (List.mem_cons_self ..), hy y (List.mem_cons_self ..), hp.1]

/-- With an honest checksum (a function of the stored bytes) the writer's match test is the checksum-free one. -/
theorem MatchAt_iff_sMatchAt (h : Bytes → UInt32) (b : Nat) (ps : List PE) (hoffs : Offs b ps)
    (hh : ∀ p ∈ ps, p.1.chk = h p.2) (fs r : Nat) :
    MatchAt ps fs (ps.length - fs) r ↔ sMatchAt (ps.map strip) fs r = true := by
  have key : sMatchAt (ps.map strip) fs r = true ↔
      (((ps.drop r).take (ps.length - fs)).map (·.1.word) = (ps.drop fs).map (·.1.word) ∧
       bytesOf ((ps.drop r).take (ps.length - fs)) = bytesOf (ps.drop fs)) := by
    unfold sMatchAt
    simp only [← List.map_drop, ← List.map_take, List.length_map, List.length_drop, sBytes_strip, List.map_map,
      Bool.and_eq_true, beq_iff_eq]
    exact Iff.rfl
  rw [key]
  constructor
  · rintro ⟨hk, hb⟩
    refine ⟨?_, hb⟩
    have := congrArg (List.map Prod.fst) hk
    simpa [List.map_map, pkey, Function.comp_def] using this
  · rintro ⟨hw, hb⟩
    refine ⟨?_, hb⟩
    have hlen := Offs_words_lengths _ _ _ _ (Offs_take _ _ (ps.length - fs) (Offs_drop b ps r hoffs))
      (Offs_drop b ps fs hoffs) hw
    have hpl := payloads_eq _ _ hlen hb
    exact pkey_eq_of h _ _ hw hpl
      (fun p hp => hh p (List.mem_of_mem_drop (List.mem_of_mem_take hp)))
      (fun p hp => hh p (List.mem_of_mem_drop hp))

theorem find?_range_spec (p : Nat → Bool) : ∀ (n : Nat),
    (∀ r, (List.range n).find? p = some r → r < n ∧ p r = true ∧ ∀ k, k < r → p k = false) ∧
    ((List.range n).find? p = none → ∀ k, k < n → p k = false) := by
  intro n
  induction n with
  | zero => simp
  | succ n ih =>
    rw [List.range_succ, List.find?_append]
    cases hf : (List.range n).find? p with
    | some r0 =>
      simp only [Option.some_or]
      refine ⟨?_, fun h => by cases h⟩
      intro r hr
      cases hr
      obtain ⟨a1, a2, a3⟩ := ih.1 r0 hf
      exact ⟨by omega, a2, a3⟩
    | none =>
      simp only [Option.none_or]
      have hnone := ih.2 hf
      by_cases hp : p n = true
      · simp only [List.find?_cons, hp]
        refine ⟨?_, fun h => by cases h⟩
        intro r hr; cases hr
        exact ⟨by omega, hp, hnone⟩
      · have hpf : p n = false := by simpa using hp
        simp only [List.find?_cons, hpf, List.find?_nil]
        refine ⟨fun r hr => (by cases hr), ?_⟩
        intro _ k hk
        by_cases hkn : k = n
        · subst hkn; exact hpf
        · exact hnone k (by omega)

/-- the least-match index found by the writer's loop is the specification's `sFind` -/
theorem sFind_eq (p : Nat → Bool) (P : Nat → Prop) (fs r : Nat) (hiff : ∀ k, k < fs → (P k ↔ p k = true))
    (hr : r ≤ fs) (hm : r < fs → P r) (hmin : ∀ k, k < r → ¬ P k) :
    ((List.range fs).find? p).getD fs = r := by
  obtain ⟨h1, h2⟩ := find?_range_spec p fs
  cases hf : (List.range fs).find? p with
  | some r' =>
    simp only [Option.getD_some]
    obtain ⟨a1, a2, a3⟩ := h1 r' hf
    have hPr' : P r' := (hiff r' a1).2 a2
    have h_le : r ≤ r' := by
      by_cases hlt : r' < r
      · exact absurd hPr' (hmin r' hlt)
      · omega
    by_cases hlt : r < r'
    · have := (hiff r (by omega)).1 (hm (by omega))
      rw [a3 r hlt] at this; cases this
    · omega
  | none =>
    simp only [Option.getD_none]
    by_cases hlt : r < fs
    · have := (hiff r hlt).1 (hm hlt)
      rw [h2 hf r hlt] at this; cases this
    · omega


/-- the writer state `s` (abstract view `ps`) implements the specification state `ss`; `h` is the checksum function -/
structure Ref (h : Bytes → UInt32) (s : State) (ss : SState) (ps : List PE) : Prop where
  abs    : Abs ss.pre s ps
  hist   : ps.map strip = ss.hist
  fs     : s.fileStart = ss.fileStart
  honest : ∀ p ∈ ps, p.1.chk = h p.2

theorem Ref.file {h s ss ps} (r : Ref h s ss ps) : s.file = ss.file := by
  rw [r.abs.file, SState.file, ← r.hist, sBytes_strip]

theorem Ref.len {h s ss ps} (r : Ref h s ss ps) : ss.hist.length = ps.length := by
  rw [← r.hist, List.length_map]

theorem Ref.offset {h s ss ps} (r : Ref h s ss ps) (i : Nat) : sOffset ss i = off ss.pre ps i := by
  unfold sOffset off
  rw [← r.hist, ← List.map_take, sBytes_strip]

theorem Ref_init (h : Bytes → UInt32) (pre : Bytes) : Ref h (init pre) ⟨pre, [], 0⟩ [] :=
  ⟨Abs_init pre, rfl, rfl, fun p hp => by cases hp⟩

/-- **One call of the block writer, for any checksum function, is one step of the checksum-free specification.** -/
theorem write_refines (h : Bytes → UInt32) (s : State) (ss : SState) (ps : List PE) (href : Ref h s ss ps)
    (flags : Nat) (data : Bytes) (hsz : data.length < 2 ^ 24) :
    ∃ s' ps', writeDataBlock s (h data) flags data = .ok (s', (specWrite ss flags data).2) ∧
      Ref h s' (specWrite ss flags data).1 ps' := by
  -- FIRST
  let s1 : State := if hasFlag flags blkFirstBlock then { s with fileStart := s.blocks.length } else s
  let ss1 : SState := if hasFlag flags blkFirstBlock then { ss with fileStart := ss.hist.length } else ss
  have href1 : Ref h s1 ss1 ps := by
    by_cases hf : hasFlag flags blkFirstBlock = true
    · simp only [s1, ss1, hf, if_true]
      refine ⟨⟨href.abs.blocks, href.abs.file, href.abs.offs, ?_, href.abs.ho⟩, href.hist, ?_, href.honest⟩
      · show s.blocks.length ≤ ps.length; rw [href.abs.len]; exact Nat.le_refl _
      · show s.blocks.length = ss.hist.length; rw [href.abs.len, href.len]
    · simp only [s1, ss1, hf]; exact href
  -- store
  let e : Entry := ⟨s1.file.length, mkWord data.length flags, h data⟩
  let stored : Bool := data.length != 0 && !hasFlag flags blkIsSparse
  let s2 : State := if stored then { s1 with blocks := s1.blocks ++ [e], file := writeAt s1.file s1.file.length data } else s1
  let ss2 : SState := if stored then { ss1 with hist := ss1.hist ++ [⟨mkWord data.length flags, data⟩] } else ss1
  obtain ⟨ps2, href2⟩ : ∃ ps2, Ref h s2 ss2 ps2 := by
    by_cases hst : stored = true
    · refine ⟨ps ++ [(e, data)], ?_⟩
      simp only [s2, ss2, hst, if_true]
      have ha := href1.abs
      refine ⟨⟨?_, ?_, ?_, ?_, ha.ho⟩, ?_, href1.fs, ?_⟩
      · show s1.blocks ++ [e] = (ps ++ [(e, data)]).map (·.1)
        rw [List.map_append, ha.blocks]; rfl
      · show writeAt s1.file s1.file.length data = ss1.pre ++ bytesOf (ps ++ [(e, data)])
        rw [writeAt_end, ha.file, bytesOf_append]; simp [List.append_assoc]
      · show Offs ss1.pre.length (ps ++ [(e, data)])
        rw [Offs_append]
        refine ⟨ha.offs, ?_, ?_, trivial⟩
        · show s1.file.length = _; rw [ha.fileLen]
        · show mkWord data.length flags % 2 ^ 24 = data.length
          exact mkWord_size _ _ hsz
      · show s1.fileStart ≤ (ps ++ [(e, data)]).length
        have := ha.fs; simp; omega
      · show (ps ++ [(e, data)]).map strip = ss1.hist ++ [⟨mkWord data.length flags, data⟩]
        rw [List.map_append, href1.hist]; rfl
      · intro p hp
        rcases List.mem_append.1 hp with hp | hp
        · exact href1.honest p hp
        · simp at hp; subst hp; rfl
    · have : stored = false := by simpa using hst
      exact ⟨ps, by simp only [s2, ss2, this, Bool.false_eq_true, if_false]; exact href1⟩
  have hw : writeDataBlock s (h data) flags data =
      if hasFlag flags blkLastBlock then deduplicateBlocks s2 flags else .ok (s2, s1.file.length) := rfl
  have hs : specWrite ss flags data =
      if hasFlag flags blkLastBlock then
        (let count := ss2.hist.length - ss2.fileStart
         if count = 0 then (ss2, 0)
         else if hasFlag flags blkDontDeduplicate then (ss2, sOffset ss2 ss2.fileStart)
         else
           let r := sFind ss2.hist ss2.fileStart
           if r < ss2.fileStart then
             ({ ss2 with hist := ss2.hist.take (max (r + count) ss2.fileStart) }, sOffset ss2 r)
           else (ss2, sOffset ss2 ss2.fileStart))
      else (ss2, ss1.file.length) := rfl
  rw [hw, hs]
  by_cases hl : hasFlag flags blkLastBlock = true
  · rw [if_pos hl, if_pos hl]
    simp only []
    obtain ⟨s', loc, ps', hd, habs', hfs', hout⟩ := dedup_explicit ss2.pre s2 ps2 href2.abs flags
    have hlen2 := href2.len
    have hfs2 := href2.fs
    rw [hd]
    rcases hout with ⟨hc, hp, hloc⟩ | ⟨hc, hdd, hp, hloc⟩ | ⟨hc, hdd, r, hr, hm, hmin, hloc, hp⟩
    · have : ss2.hist.length - ss2.fileStart = 0 := by omega
      rw [if_pos this]
      rw [hp] at habs'
      subst hloc
      exact ⟨s', ps2, rfl, ⟨habs', href2.hist, by rw [hfs']; exact hfs2, href2.honest⟩⟩
    · have : ¬ ss2.hist.length - ss2.fileStart = 0 := by omega
      rw [if_neg this, if_pos hdd]
      rw [hp] at habs'
      refine ⟨s', ps2, ?_, ⟨habs', href2.hist, by rw [hfs']; exact hfs2, href2.honest⟩⟩
      rw [hloc, href2.offset, hfs2]
    · have : ¬ ss2.hist.length - ss2.fileStart = 0 := by omega
      rw [if_neg this, if_neg (by rw [hdd]; simp)]
      have hfind : sFind ss2.hist ss2.fileStart = r := by
        unfold sFind
        rw [← hfs2]
        apply sFind_eq (sMatchAt ss2.hist s2.fileStart)
          (fun k => MatchAt ps2 s2.fileStart (ps2.length - s2.fileStart) k) s2.fileStart r ?_ hr hm hmin
        intro k _
        rw [← href2.hist]
        exact MatchAt_iff_sMatchAt h _ ps2 href2.abs.offs href2.honest s2.fileStart k
      rw [hfind, ← hfs2]
      by_cases hlt : r < s2.fileStart
      · rw [if_pos hlt] at hp
        rw [if_pos hlt]
        subst hp
        refine ⟨s', _, ?_, ⟨habs', ?_, by rw [hfs'], ?_⟩⟩
        · rw [hloc, href2.offset]
        · show (ps2.take _).map strip = ss2.hist.take _
          rw [List.map_take, href2.hist, hlen2]
        · intro p hp; exact href2.honest p (List.mem_of_mem_take hp)
      · rw [if_neg hlt] at hp
        rw [if_neg hlt]
        rw [hp] at habs'
        have : r = s2.fileStart := by omega
        subst this
        refine ⟨s', ps2, ?_, ⟨habs', href2.hist, by rw [hfs']; exact hfs2, href2.honest⟩⟩
        rw [hloc, href2.offset]
  · rw [if_neg hl, if_neg hl]
    exact ⟨s2, ps2, by rw [href1.file], href2⟩


/-- the call stream of a writer whose checksums are computed by `h` from the stored bytes -/
def withChk (h : Bytes → UInt32) (cs : List (Nat × Bytes)) : List Call := cs.map (fun c => ⟨h c.2, c.1, c.2⟩)

theorem run_refines (h : Bytes → UInt32) : ∀ (cs : List (Nat × Bytes)) (s : State) (ss : SState) (ps : List PE),
    Ref h s ss ps → (∀ c ∈ cs, c.2.length < 2 ^ 24) →
    ∃ s' ps', run s (withChk h cs) = .ok (s', (specRun ss cs).2) ∧ Ref h s' (specRun ss cs).1 ps' := by
  intro cs
  induction cs with
  | nil => intro s ss ps href _; exact ⟨s, ps, rfl, href⟩
  | cons c cs ih =>
    intro s ss ps href hsz
    obtain ⟨fl, d⟩ := c
    obtain ⟨s1, ps1, hw, href1⟩ := write_refines h s ss ps href fl d (hsz (fl, d) (List.mem_cons_self ..))
    obtain ⟨s', ps', hr, href'⟩ := ih s1 _ ps1 href1 (fun x hx => hsz x (List.mem_cons_of_mem _ hx))
    refine ⟨s', ps', ?_, href'⟩
    simp only [withChk, List.map_cons, run, specRun]
    rw [hw]
    simp only []
    have : run s1 (List.map (fun c => ({ chk := h c.2, flags := c.1, data := c.2 } : Call)) cs)
        = .ok (s', (specRun (specWrite ss fl d).1 cs).2) := hr
    rw [this]

end Sqfs.BlockWriter
