/-
C02 helper lemmas, part 4: the fragment pass of the reference (`fStep`, `FSt.close`) keeps `FInv`.
-/
import Sqfs.Proofs.BPPool
namespace Sqfs.BlockProc
open Sqfs.Consts
open Sqfs.BlockWriter (hasFlag)

/-! ### fragment block flags -/

theorem and_dontCompress (x : Nat) : x &&& blkDontCompress = 0 ∨ x &&& blkDontCompress = blkDontCompress := by
  simp only [blkDontCompress, Nat.and_one_is_mod]; omega

theorem fbRaw_new (x : Nat) : FBRawFlags ((x &&& blkDontCompress) ||| blkFragmentBlock) := by
  rcases and_dontCompress x with h | h <;> rw [h]
  · left; decide
  · right; decide

theorem fbRaw_add {f : Nat} (h : FBRawFlags f) (x : Nat) : FBRawFlags (f ||| (x &&& blkDontCompress)) := by
  rcases and_dontCompress x with hx | hx <;> rw [hx] <;> rcases h with h | h <;> rw [h]
  · left; decide
  · right; decide
  · right; decide
  · right; decide

structure FBFlagFacts (f : Nat) : Prop where
  fb : hasFlag f blkFragmentBlock = true
  notFrag : hasFlag f blkIsFragment = false
  notLast : hasFlag f blkLastBlock = false
  notFirst : hasFlag f blkFirstBlock = false
  notSparse : hasFlag f blkIsSparse = false
  notManual : hasFlag f blkFlagManualSubmission = false
  notHash : hasFlag f blkDontHash = false

theorem fbRaw_facts {f : Nat} (h : FBRawFlags f) : FBFlagFacts f := by
  rcases h with h | h <;> rw [h] <;> constructor <;> decide

theorem fbRaw_comp_facts {f : Nat} (h : FBRawFlags f) : FBFlagFacts (f ||| blkIsCompressed) := by
  rcases h with h | h <;> rw [h] <;> constructor <;> decide

/-- what the pool does to a closed fragment block: hashed, never sparse, compressed unless `DONT_COMPRESS` -/
theorem processBlock_fb (P : Params) (fb : Blk) (hf : FBRawFlags fb.flags) (hne : fb.data ≠ []) :
    (processBlock P fb = { fb with chk := P.h fb.data }) ∨
    (∃ z, P.codec.cmp fb.data = some z ∧ z ≠ [] ∧
      processBlock P fb = { fb with chk := P.h fb.data, data := z, flags := fb.flags ||| blkIsCompressed }) := by
  have h0 : ¬ fb.data.length = 0 := fun h => hne (by simpa using h)
  have hsp : hasFlag fb.flags (blkIgnoreSparse ||| blkFragmentBlock) = true := by
    rcases hf with h | h <;> rw [h] <;> decide
  have hdh : hasFlag fb.flags blkDontHash = false := (fbRaw_facts hf).notHash
  unfold processBlock
  rw [if_neg h0]
  simp only [hsp, Bool.not_true, Bool.false_and, Bool.false_eq_true, if_false, hdh]
  split
  · left; rfl
  · split
    · rename_i z hz
      split
      · right; exact ⟨z, hz, fun h => by simp [h] at *, rfl⟩
      · left; rfl
    · left; rfl

theorem FBWorked.facts {P : Params} {b : Blk} {d : Bytes} (h : FBWorked P b d) (hd : d ≠ []) : FBFlagFacts b.flags := by
  obtain ⟨fb, hf, hdd, rfl⟩ := h
  rcases processBlock_fb P fb hf (hdd ▸ hd) with h | ⟨z, _, _, h⟩ <;> rw [h]
  · exact fbRaw_facts hf
  · exact fbRaw_comp_facts hf

theorem FBWorked.index {P : Params} {fb : Blk} : (processBlock P fb).index = fb.index := processBlock_index P fb

/-- the worked block holds `d` itself, or `d` compressed -/
theorem FBWorked.payload {P : Params} {b : Blk} {d : Bytes} (hc : CodecOk P.codec) (h : FBWorked P b d) (hd : d ≠ []) :
    (hasFlag b.flags blkIsCompressed = false ∧ b.data = d) ∨
    (hasFlag b.flags blkIsCompressed = true ∧ P.codec.unc b.data = some d ∧ b.data.length < d.length ∧ b.data ≠ []) := by
  obtain ⟨fb, hf, hdd, rfl⟩ := h
  rcases processBlock_fb P fb hf (hdd ▸ hd) with h | ⟨z, hz, hzne, h⟩ <;> rw [h]
  · left
    refine ⟨?_, hdd⟩
    rcases hf with hf | hf <;> simp only [hf] <;> decide
  · right
    refine ⟨?_, ?_, ?_, hzne⟩
    · rcases hf with hf | hf <;> simp only [hf] <;> decide
    · rw [← hdd]; exact hc.roundTrip _ _ hz
    · rw [← hdd]; exact hc.smaller _ _ hz

/-! ### `fragData`, `insertRef` -/

theorem find?_fst_of_mem {l : List (Nat × Bytes)} (hn : (l.map (·.1)).Nodup) {e : Nat × Bytes} (he : e ∈ l) :
    l.find? (fun x => x.1 == e.1) = some e := by
  induction l with
  | nil => cases he
  | cons a l ih =>
    rw [List.map_cons, List.nodup_cons] at hn
    rcases List.mem_cons.mp he with h | h
    · subst h; simp
    · have : a.1 ≠ e.1 := by
        intro heq
        exact hn.1 (heq ▸ List.mem_map_of_mem h)
      rw [List.find?_cons_of_neg (by simpa using this)]
      exact ih hn.2 h

theorem mem_of_find?_fst {l : List (Nat × Bytes)} {i : Nat} {e : Nat × Bytes} (h : l.find? (fun x => x.1 == i) = some e) :
    e ∈ l ∧ e.1 = i := by
  have := List.find?_some h
  exact ⟨List.mem_of_find?_eq_some h, by simpa using this⟩

theorem find?_fst_none {l : List (Nat × Bytes)} {i : Nat} (h : ∀ e ∈ l, e.1 ≠ i) : l.find? (fun x => x.1 == i) = none := by
  rw [List.find?_eq_none]
  intro e he
  simpa using h e he

theorem fragData_close (P : Params) (F : FSt) (hop : ∀ fb, F.opn = some fb → ∀ e ∈ F.closed, e.1 ≠ fb.index) (i : Nat) :
    (F.close P).fragData i = F.fragData i := by
  unfold FSt.close
  cases hfb : F.opn with
  | none => rfl
  | some fb =>
    simp only [FSt.fragData, openBytes, hfb]
    by_cases hi : fb.index = i
    · simp [hi]
    · simp [hi]

theorem mem_insertRef {eq : Chunk → Bool} {new c : Chunk} {l : List Chunk} (h : c ∈ insertRef eq new l) : c = new ∨ c ∈ l := by
  induction l with
  | nil => simp [insertRef] at h; exact Or.inl h
  | cons a l ih =>
    unfold insertRef at h
    split at h
    · rcases List.mem_cons.mp h with h | h
      · exact Or.inl h
      · exact Or.inr (List.mem_cons_of_mem _ h)
    · rcases List.mem_cons.mp h with h | h
      · exact Or.inr (h ▸ List.mem_cons_self)
      · rcases ih h with h | h
        · exact Or.inl h
        · exact Or.inr (List.mem_cons_of_mem _ h)

/-! ### `FInv` -/

theorem FInv.init (P : Params) (n : Nat) : FInv P n [] ({} : FSt) := by
  refine ⟨fun i h => (by simp at h), fun fb h => (by cases h), (by simp), fun e h => (by cases h), fun c h => (by cases h), rfl,
    fun b h => (by cases h), fun b h => (by cases h), fun e h => (by cases h), fun e h => (by cases h), rfl, rfl⟩

theorem FInv.mono {P : Params} {n m : Nat} {done : List Blk} {F : FSt} (h : FInv P n done F) (hm : n ≤ m) : FInv P m done F :=
  { h with effIds := fun e he => Nat.lt_of_lt_of_le (h.effIds e he) hm }

theorem bOpen_fb {b : Blk} (h : FBFlagFacts b.flags) (o : Bool) : bOpen o b = o := by
  simp [bOpen, isLast, isFirst, h.notLast, h.notFirst]

theorem foldl_bOpen_snoc (l : List Blk) (b : Blk) : (l ++ [b]).foldl bOpen false = bOpen (l.foldl bOpen false) b := by
  simp [List.foldl_append]

/-- closing the open fragment block (at overflow time, or in `finish`) -/
theorem FInv.close {P : Params} {n : Nat} {done : List Blk} {F : FSt} (h : FInv P n done F)
    (ho : done.foldl fOpen false = false) : FInv P n done (F.close P) := by
  unfold FSt.close
  cases hfb : F.opn with
  | none => exact h
  | some fb =>
    obtain ⟨hraw, hidx, hpos, hle, hfresh⟩ := h.opn fb hfb
    have hne : fb.data ≠ [] := fun he => by simp [he] at hpos
    have hw : FBWorked P (processBlock P (fb.withSeq F.stream.length)) fb.data := ⟨fb.withSeq F.stream.length, hraw, rfl, rfl⟩
    have hfacts := hw.facts hne
    have hisfb : isFB (processBlock P (fb.withSeq F.stream.length)) = true := hfacts.fb
    refine ⟨?_, fun fb' h' => (by cases h'), ?_, ?_, ?_, ?_, ?_, ?_, h.effIds, h.effProv, ?_, ?_⟩
    · intro i hi
      simp only [List.length_append, List.length_singleton] at hi
      by_cases hlt : i < F.stream.length
      · rw [List.getElem_append_left hlt]; exact h.seqs i hlt
      · have : i = F.stream.length := by omega
        subst this
        simp [processBlock_seq]
    · simp only [List.map_cons, List.nodup_cons]
      exact ⟨fun hm => by
        obtain ⟨e, he, hee⟩ := List.mem_map.mp hm
        exact hfresh e he hee, h.closedNodup⟩
    · intro e he
      rcases List.mem_cons.mp he with he | he
      · subst he; exact ⟨hidx, hpos, hle⟩
      · exact h.closedOK e he
    · intro c hc
      obtain ⟨blk, h1, h2, h3⟩ := h.chunks c hc
      refine ⟨blk, ?_, h2, h3⟩
      have := fragData_close P F (fun fb' h' e he => (h.opn fb' h').2.2.2.2 e he) c.index
      simp only [FSt.close, hfb] at this
      rw [this]; exact h1
    · simp only [List.filter_append, List.filter_cons, hisfb, if_true, List.filter_nil, List.map_append, List.map_cons, List.map_nil,
        List.reverse_cons, h.fbIdx, processBlock_index, Blk.withSeq_index]
    · intro b hb hbfb
      rcases List.mem_append.mp hb with hb | hb
      · obtain ⟨d, hd1, hd2⟩ := h.fbs b hb hbfb
        exact ⟨d, List.mem_cons_of_mem _ hd1, hd2⟩
      · rw [List.mem_singleton] at hb
        subst hb
        exact ⟨fb.data, by rw [processBlock_index]; exact List.mem_cons_self, hw⟩
    · intro b hb hbfb
      rcases List.mem_append.mp hb with hb | hb
      · exact h.datas b hb hbfb
      · rw [List.mem_singleton] at hb
        subst hb; rw [hisfb] at hbfb; cases hbfb
    · rw [sproto_append, h.proto, h.opened, ho]
      simp [sproto, hisfb]
    · rw [foldl_bOpen_snoc, bOpen_fb hfacts, h.opened]

/-- a data block is taken back from the pool -/
theorem FInv.data {P : Params} {n : Nat} {done : List Blk} {F : FSt} (h : FInv P n done F) (x : Blk) (hx : ItemOK P.B n x)
    (hfr : isFrag x = false) (hp : (!isLast x || done.foldl fOpen false || isFirst x) = true) :
    FInv P n (done ++ [x]) (fStep P F x) := by
  have hfr' : hasFlag x.flags blkIsFragment = false := hfr
  unfold fStep
  simp only [hfr', Bool.false_eq_true, if_false]
  have hyfb : isFB (x.withSeq F.stream.length) = false := hx.notFB
  refine ⟨?_, h.opn, h.closedNodup, h.closedOK, h.chunks, ?_, ?_, ?_, h.effIds, ?_, ?_, ?_⟩
  · intro i hi
    simp only [List.length_append, List.length_singleton] at hi
    by_cases hlt : i < F.stream.length
    · rw [List.getElem_append_left hlt]; exact h.seqs i hlt
    · have : i = F.stream.length := by omega
      subst this
      simp
  · simp only [List.filter_append, List.filter_cons, hyfb, Bool.false_eq_true, if_false, List.filter_nil, List.append_nil, h.fbIdx]
  · intro b hb hbfb
    rcases List.mem_append.mp hb with hb | hb
    · exact h.fbs b hb hbfb
    · rw [List.mem_singleton] at hb
      subst hb; rw [hyfb] at hbfb; cases hbfb
  · intro b hb hbfb
    rcases List.mem_append.mp hb with hb | hb
    · obtain ⟨x', hx', h1, h2⟩ := h.datas b hb hbfb
      exact ⟨x', List.mem_append_left _ hx', h1, h2⟩
    · rw [List.mem_singleton] at hb
      subst hb
      exact ⟨x, List.mem_append_right _ List.mem_cons_self, hfr, rfl⟩
  · intro e he
    rcases h.effProv e he with h1 | ⟨k, m, x', h1, h2, h3⟩
    · exact Or.inl h1
    · exact Or.inr ⟨k, m, x', h1, List.mem_append_left _ h2, h3⟩
  · rw [sproto_append, h.proto, h.opened]
    have e1 : isLast (x.withSeq F.stream.length) = isLast x := rfl
    have e2 : isFirst (x.withSeq F.stream.length) = isFirst x := rfl
    simp only [sproto, hyfb, Bool.false_eq_true, if_false, e1, e2, hp, Bool.and_self]
  · rw [foldl_bOpen_snoc, foldl_fOpen_snoc, h.opened]
    simp only [fOpen, hfr, Bool.false_eq_true, if_false]
    rfl

/-! #### fragments -/

/-- more history, same protocol state -/
theorem FInv.moreDone {P : Params} {n : Nat} {done : List Blk} {F : FSt} (h : FInv P n done F) (x : Blk) (hfr : isFrag x = true) :
    FInv P n (done ++ [x]) F := by
  refine { h with datas := ?_, effProv := ?_, opened := ?_ }
  · intro b hb hbfb
    obtain ⟨x', hx', h1, h2⟩ := h.datas b hb hbfb
    exact ⟨x', List.mem_append_left _ hx', h1, h2⟩
  · intro e he
    rcases h.effProv e he with h1 | ⟨k, m, x', h1, h2, h3⟩
    · exact Or.inl h1
    · exact Or.inr ⟨k, m, x', h1, List.mem_append_left _ h2, h3⟩
  · rw [foldl_fOpen_snoc, h.opened]; simp [fOpen, hfr]

theorem mem_mkEff {i : Option Nat} {e : InoEff} {x : Eff} (h : x ∈ mkEff i e) : i = some x.id ∧ x.e = e := by
  cases i with
  | none => simp [mkEff] at h
  | some id => simp only [mkEff, List.mem_singleton] at h; subst h; exact ⟨rfl, rfl⟩

theorem mkEff_id_lt {i : Option Nat} {id n : Nat} (hid : i = some id) (hidn : id < n) (ie : InoEff) :
    ∀ e ∈ mkEff i ie, e.id < n := by
  intro e he
  obtain ⟨h1, _⟩ := mem_mkEff he
  rw [hid] at h1; cases h1; exact hidn

/-- more inode updates -/
theorem FInv.addEffs {P : Params} {n : Nat} {done : List Blk} {F : FSt} (h : FInv P n done F) (new : List Eff)
    (h1 : ∀ e ∈ new, e.id < n)
    (h2 : ∀ e ∈ new, (∃ i o, e.e = .fragLoc i o) ∨
              (∃ k m x, e.e = .sparse k m ∧ x ∈ done ∧ isFrag x = true ∧ x.inode = some e.id ∧ x.index = k)) :
    FInv P n done { F with effs := F.effs ++ new } := by
  refine { h with effIds := ?_, effProv := ?_ }
  · intro e he
    rcases List.mem_append.mp he with he | he
    · exact h.effIds e he
    · exact h1 e he
  · intro e he
    rcases List.mem_append.mp he with he | he
    · exact h.effProv e he
    · exact h2 e he

/-- the fragment becomes the new open block -/
theorem FInv.placeNew {P : Params} {n : Nat} {done : List Blk} {F : FSt} (h : FInv P n done F) (hop : F.opn = none)
    (x : Blk) (hne : x.data ≠ []) (hle : x.data.length ≤ P.B) :
    FInv P n done { F with ntbl := F.ntbl + 1,
                           opn := some { x with index := F.ntbl, flags := (x.flags &&& blkDontCompress) ||| blkFragmentBlock } } := by
  refine { h with opn := ?_, closedOK := ?_, chunks := ?_ }
  · intro fb hfb
    simp only [Option.some.injEq] at hfb
    subst hfb
    refine ⟨fbRaw_new x.flags, Nat.lt_succ_self _, by cases hd : x.data with
      | nil => exact absurd hd hne
      | cons a t => simp, hle, ?_⟩
    intro e he
    exact Nat.ne_of_lt (h.closedOK e he).1
  · intro e he
    obtain ⟨a, b, c⟩ := h.closedOK e he
    exact ⟨Nat.lt_succ_of_lt a, b, c⟩
  · intro c hc
    obtain ⟨blk, h1, h2, h3⟩ := h.chunks c hc
    refine ⟨blk, ?_, h2, h3⟩
    simp only [FSt.fragData, openBytes, hop] at h1 ⊢
    have hci : c.index < F.ntbl := by
      cases hf : F.closed.find? (fun e => e.1 == c.index) with
      | none => rw [hf] at h1; cases h1
      | some e =>
        obtain ⟨he1, he2⟩ := mem_of_find?_fst hf
        rw [← he2]; exact (h.closedOK e he1).1
    have : ¬ F.ntbl = c.index := by omega
    simp only [this, if_false]
    exact h1

/-- the fragment is appended to the open block -/
theorem FInv.placeAppend {P : Params} {n : Nat} {done : List Blk} {F : FSt} (h : FInv P n done F) (fb : Blk) (hop : F.opn = some fb)
    (x : Blk) (hfit : fb.data.length + x.data.length ≤ P.B) :
    FInv P n done { F with opn := some { fb with data := fb.data ++ x.data, flags := fb.flags ||| (x.flags &&& blkDontCompress) } } := by
  obtain ⟨hraw, hidx, hpos, hle, hfresh⟩ := h.opn fb hop
  refine { h with opn := ?_, chunks := ?_ }
  · intro fb' hfb'
    simp only [Option.some.injEq] at hfb'
    subst hfb'
    exact ⟨fbRaw_add hraw x.flags, hidx, by simp; omega, by simpa using hfit, hfresh⟩
  · intro c hc
    obtain ⟨blk, h1, h2, h3⟩ := h.chunks c hc
    simp only [FSt.fragData, openBytes, hop] at h1 ⊢
    by_cases hi : fb.index = c.index
    · simp only [hi, if_true, Option.some.injEq] at h1 ⊢
      subst h1
      exact ⟨_, rfl, by simp; omega, h3⟩
    · simp only [hi, if_false] at h1 ⊢
      exact ⟨blk, h1, h2, h3⟩

/-- a new entry of the fragment hash table -/
theorem FInv.insertChunk {P : Params} {n : Nat} {done : List Blk} {F : FSt} (h : FInv P n done F) (eq : Chunk → Bool) (new : Chunk)
    (hnew : ∃ blk, F.fragData new.index = some blk ∧ new.offset + new.size ≤ blk.length ∧ 0 < new.size) :
    FInv P n done { F with ht := insertRef eq new F.ht } := by
  refine { h with chunks := ?_ }
  intro c hc
  rcases mem_insertRef hc with hc | hc
  · subst hc; exact hnew
  · exact h.chunks c hc

theorem length_pos_of_ne_nil {α : Type} {l : List α} (h : l ≠ []) : 0 < l.length := by
  cases l with
  | nil => exact absurd rfl h
  | cons a t => simp

theorem FInv.makeRoom {P : Params} {n : Nat} {done : List Blk} {F : FSt} (h : FInv P n done F)
    (ho : done.foldl fOpen false = false) (len : Nat) :
    FInv P n done (F.makeRoom P len) ∧ ∀ fb, (F.makeRoom P len).opn = some fb → fb.data.length + len ≤ P.B := by
  unfold FSt.makeRoom
  cases hop : F.opn with
  | none => exact ⟨h, fun fb hfb => by rw [hop] at hfb; cases hfb⟩
  | some fb =>
    simp only
    split
    · exact ⟨h.close ho, fun fb' hfb' => by simp [FSt.close, hop] at hfb'⟩
    · exact ⟨h, fun fb' hfb' => by rw [hop] at hfb'; cases hfb'; omega⟩

theorem FInv.store {P : Params} {n : Nat} {done : List Blk} {F : FSt} (h : FInv P n done F) (x : Blk) (hx : ItemOK P.B n x)
    (hne : x.data ≠ []) (ho : done.foldl fOpen false = false) : FInv P n done (F.store P x) := by
  obtain ⟨id, hid, hidn⟩ := hx.ino
  obtain ⟨hcl, hfit⟩ := h.makeRoom ho x.data.length
  unfold FSt.store
  generalize F.makeRoom P x.data.length = F1 at hcl hfit
  unfold FSt.place
  cases hop : F1.opn with
  | none =>
    simp only
    have hp := hcl.placeNew hop x hne hx.size
    have hi := hp.insertChunk
      (chunkEqRef P.byteCompare
        { F1 with ntbl := F1.ntbl + 1, opn := some { x with index := F1.ntbl, flags := (x.flags &&& blkDontCompress) ||| blkFragmentBlock } }
        x.data x.chk (x.flags &&& blkDontCompress))
      ⟨F1.ntbl, 0, x.data.length, x.chk, x.flags &&& blkDontCompress⟩
      ⟨x.data, by simp [FSt.fragData, openBytes], by simp, length_pos_of_ne_nil hne⟩
    exact hi.addEffs (mkEff x.inode (.fragLoc F1.ntbl 0)) (mkEff_id_lt hid hidn _)
      (fun e he => Or.inl ⟨_, _, (mem_mkEff he).2⟩)
  | some fb =>
    simp only
    have hp := hcl.placeAppend fb hop x (hfit fb hop)
    have hi := hp.insertChunk
      (chunkEqRef P.byteCompare
        { F1 with opn := some { fb with data := fb.data ++ x.data, flags := fb.flags ||| (x.flags &&& blkDontCompress) } }
        x.data x.chk (x.flags &&& blkDontCompress))
      ⟨fb.index, fb.data.length, x.data.length, x.chk, x.flags &&& blkDontCompress⟩
      ⟨fb.data ++ x.data, by simp [FSt.fragData, openBytes], by simp, length_pos_of_ne_nil hne⟩
    exact hi.addEffs (mkEff x.inode (.fragLoc fb.index fb.data.length)) (mkEff_id_lt hid hidn _)
      (fun e he => Or.inl ⟨_, _, (mem_mkEff he).2⟩)

/-- a fragment is taken back from the pool -/
theorem FInv.frag {P : Params} {n : Nat} {done : List Blk} {F : FSt} (h : FInv P n done F) (x : Blk) (hx : ItemOK P.B n x)
    (hfr : isFrag x = true) (ho : done.foldl fOpen false = false) :
    FInv P n (done ++ [x]) (fStep P F x) := by
  have hfr' : hasFlag x.flags blkIsFragment = true := hfr
  have hne : x.data ≠ [] := hx.frag hfr'
  obtain ⟨id, hid, hidn⟩ := hx.ino
  have hmem : x ∈ done ++ [x] := List.mem_append_right _ List.mem_cons_self
  have hd := h.moreDone x hfr
  have ho' : (done ++ [x]).foldl fOpen false = false := by rw [foldl_fOpen_snoc, ho]; simp [fOpen, hfr]
  unfold fStep
  simp only [hfr', if_true]
  split
  · -- hole
    exact hd.addEffs (mkEff x.inode (.sparse x.index x.data.length)) (mkEff_id_lt hid hidn _)
      (fun e he => by
        obtain ⟨h1, h2⟩ := mem_mkEff he
        exact Or.inr ⟨_, _, x, h2, hmem, hfr, h1, rfl⟩)
  · split
    · -- found in the table
      rename_i c _
      exact hd.addEffs (mkEff x.inode (.fragLoc c.index c.offset)) (mkEff_id_lt hid hidn _)
        (fun e he => Or.inl ⟨_, _, (mem_mkEff he).2⟩)
    · exact hd.store x hx hne ho'

end Sqfs.BlockProc
