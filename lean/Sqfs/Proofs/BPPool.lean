/-
C02 helper lemmas, part 3: the pool under the serial behaviour is a FIFO list of worked items; worked blocks keep
the properties of the blocks the front end submitted.
-/
import Sqfs.Proofs.BPInv
namespace Sqfs.BlockProc
open Sqfs.Consts
open Sqfs.BlockWriter (hasFlag)

/-! ### pool -/

theorem PoolOk.init : PoolOk ({} : PoolSt) [] := ⟨rfl, rfl⟩

theorem poolSubmit_ok (P : Params) (hP : P.ans = serialAns) (p : PoolSt) (items : List Blk) (h : PoolOk p items) (b : Blk) :
    (poolSubmit P p b).2 = 0 ∧ PoolOk (poolSubmit P p b).1 (items ++ [processBlock P b]) := by
  have hst := h.status
  have hcall : Pool.Serial.call rc0 p.ser (.submit p.table.length) =
      { p.ser with queue := p.ser.queue ++ [p.table.length], recycle := p.ser.recycle - 1, rets := p.ser.rets ++ [.submit 0] } := by
    simp [Pool.Serial.call, hst]
  refine ⟨?_, ?_, ?_⟩
  · simp only [poolSubmit, hP, serialAns, hcall]
    simp
  · simp only [poolSubmit, PoolSt.record, hcall]; exact hst
  · simp only [poolSubmit, PoolSt.record, hcall]
    rw [List.map_append, List.map_append]
    congr 1
    · rw [← h.queue]
      apply List.map_congr_left
      intro id hid
      have : (p.table[id]?).isSome := by
        have hm : p.table[id]? ∈ p.ser.queue.map (fun id => p.table[id]?) := List.mem_map_of_mem hid
        rw [h.queue] at hm
        obtain ⟨x, _, hx⟩ := List.mem_map.mp hm
        rw [← hx]; rfl
      have hlt : id < p.table.length := by
        by_cases hlt : id < p.table.length
        · exact hlt
        · rw [List.getElem?_eq_none (by omega)] at this
          cases this
      exact List.getElem?_append_left hlt
    · simp

theorem poolDequeue_cons (P : Params) (hP : P.ans = serialAns) (p : PoolSt) (x : Blk) (rest : List Blk) (h : PoolOk p (x :: rest)) :
    (poolDequeue P p).2 = some x ∧ PoolOk (poolDequeue P p).1 rest := by
  have hq := h.queue
  cases hqq : p.ser.queue with
  | nil => rw [hqq] at hq; simp at hq
  | cons id q =>
    rw [hqq] at hq
    simp only [List.map_cons, List.cons.injEq] at hq
    have hcall : Pool.Serial.call rc0 p.ser .dequeue =
        { p.ser with queue := q, recycle := p.ser.recycle + 1, processed := p.ser.processed ++ [id],
                     status := p.ser.status, rets := p.ser.rets ++ [.deq (some id)] } := by
      simp [Pool.Serial.call, hqq, rc0]
    refine ⟨?_, ?_, ?_⟩
    · simp only [poolDequeue, hP, serialAns, hcall]
      simp [hq.1]
    · simp only [poolDequeue, PoolSt.record, hcall]; exact h.status
    · simp only [poolDequeue, PoolSt.record, hcall]; exact hq.2

/-- `get_status` on the healthy serial pool: the answer is 0 and the pool still holds the same items -/
theorem poolStatus_ok (P : Params) (hP : P.ans = serialAns) (p : PoolSt) (items : List Blk) (h : PoolOk p items) :
    (poolStatus P p).2 = 0 ∧ PoolOk (poolStatus P p).1 items := by
  have hst := h.status
  have hcall : Pool.Serial.call rc0 p.ser .getStatus = { p.ser with rets := p.ser.rets ++ [.status p.ser.status] } := rfl
  refine ⟨?_, ?_, ?_⟩
  · simp only [poolStatus, hP, serialAns, hcall]
    simp [hst]
  · simp only [poolStatus, PoolSt.record, hcall]; exact hst
  · simp only [poolStatus, PoolSt.record, hcall]; exact h.queue

/-! ### worked blocks -/

theorem isFrag_worked (P : Params) (x : Blk) : isFrag (processBlock P x) = isFrag x :=
  processBlock_hasFlag P x _ stable_isFragment
theorem isLast_worked (P : Params) (x : Blk) : isLast (processBlock P x) = isLast x :=
  processBlock_hasFlag P x _ stable_last
theorem isFirst_worked (P : Params) (x : Blk) : isFirst (processBlock P x) = isFirst x :=
  processBlock_hasFlag P x _ stable_first
theorem isFB_worked (P : Params) (x : Blk) : isFB (processBlock P x) = isFB x :=
  processBlock_hasFlag P x _ stable_fragmentBlock

theorem processBlock_length_le (P : Params) (hc : CodecOk P.codec) (b : Blk) : (processBlock P b).data.length ≤ b.data.length := by
  unfold processBlock
  split
  · exact Nat.le_refl _
  · split
    · exact Nat.le_refl _
    · dsimp only
      split
      · exact Nat.le_refl _
      · split
        · rename_i z hz
          split
          · exact Nat.le_of_lt (hc.smaller _ _ hz)
          · exact Nat.le_refl _
        · exact Nat.le_refl _

theorem ItemOK.worked {P : Params} (hc : CodecOk P.codec) {n : Nat} {x : Blk} (h : ItemOK P.B n x) :
    ItemOK P.B n (processBlock P x) := by
  refine ⟨?_, ?_, ?_, ?_, ?_⟩
  · rw [processBlock_hasFlag P x _ stable_fragmentBlock]; exact h.notFB
  · rw [processBlock_hasFlag P x _ stable_manual]; exact h.notManual
  · rw [processBlock_inode]; exact h.ino
  · exact Nat.le_trans (processBlock_length_le P hc x) h.size
  · intro hf
    rw [processBlock_hasFlag P x _ stable_isFragment] at hf
    intro he
    exact h.frag hf ((processBlock_data_nil P x).mp he)

theorem fOpen_worked (P : Params) (o : Bool) (x : Blk) : fOpen o (processBlock P x) = fOpen o x := by
  simp [fOpen, bOpen, isFrag_worked, isLast_worked, isFirst_worked]

theorem foldl_fOpen_worked (P : Params) (front : List Blk) (o : Bool) :
    (front.map (processBlock P)).foldl fOpen o = front.foldl fOpen o := by
  induction front generalizing o with
  | nil => rfl
  | cons x r ih => simp [List.foldl_cons, fOpen_worked, ih]

theorem fproto_worked (P : Params) (front : List Blk) (o : Bool) :
    fproto o (front.map (processBlock P)) = fproto o front := by
  induction front generalizing o with
  | nil => rfl
  | cons x r ih => simp [fproto, fOpen_worked, isFrag_worked, isLast_worked, isFirst_worked, ih]

theorem FragIdx.worked {front : List Blk} (P : Params) (h : FragIdx front) : FragIdx (front.map (processBlock P)) := by
  intro a ha b hb fa fb hne hi
  obtain ⟨x, hx, rfl⟩ := List.mem_map.mp ha
  obtain ⟨y, hy, rfl⟩ := List.mem_map.mp hb
  rw [isFrag_worked] at fa fb
  rw [processBlock_inode, processBlock_inode] at hi
  rw [processBlock_index, processBlock_index]
  exact h x hx y hy fa fb (fun he => hne ((processBlock_data_nil P y).mpr he)) hi

end Sqfs.BlockProc
