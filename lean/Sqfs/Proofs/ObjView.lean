import Sqfs.Proofs.ObjCopy
/-! What the copy sees: after `sqfs_copy` through a well-formed hook the copy observes, through every buffer slot
and internal pointer, what the original observes. -/
namespace Sqfs.Obj

theorem fail_bufs (h : Heap) (c : Crash) : (h.fail c).bufs = h.bufs ∧ (h.fail c).nbuf = h.nbuf := by
  unfold Heap.fail; split <;> exact ⟨rfl, rfl⟩

theorem takeAlloc_bufs (h : Heap) : (takeAlloc h).1.bufs = h.bufs ∧ (takeAlloc h).1.nbuf = h.nbuf := by
  obtain ⟨bud, hb, _⟩ := takeAlloc_spec h
  rw [hb]; exact ⟨rfl, rfl⟩

theorem allocBuf_spec (h : Heap) (bf : Buf) :
    (allocBuf h bf = ((takeAlloc h).1, none)) ∨
    (allocBuf h bf = ({ (takeAlloc h).1 with bufs := upd h.bufs h.nbuf (some bf), nbuf := h.nbuf + 1 }, some h.nbuf)) := by
  obtain ⟨hb1, hb2⟩ := takeAlloc_bufs h
  rcases hta : takeAlloc h with ⟨h0, ok⟩
  rw [hta] at hb1 hb2
  simp only at hb1 hb2
  unfold allocBuf
  rw [hta]
  cases ok with
  | false => left; rfl
  | true => right; simp [hb1, hb2]

/-- `copyBufs` leaves existing buffers alone, only adds buffers, and every new slot shows what the old one shows -/
theorem copyBufs_vals : ∀ (bs : List (Option Nat)) (as : List BufAct) (h : Heap),
    (∀ a ∈ as, a ≠ .alias ∧ a ≠ .garble) → (∀ b, some b ∈ bs → b < h.nbuf) →
    ∀ h' nb ok, copyBufs h bs as = (h', nb, ok) →
      h.nbuf ≤ h'.nbuf ∧ (∀ b, b < h.nbuf → h'.bufs b = h.bufs b) ∧
      (ok = true → bs.length ≤ as.length → nb.map (slotVal h') = bs.map (slotVal h)) := by
  intro bs
  induction bs with
  | nil =>
    intro as h _ _ h' nb ok he
    simp only [copyBufs, Prod.mk.injEq] at he
    obtain ⟨rfl, rfl, rfl⟩ := he
    exact ⟨Nat.le_refl _, fun _ _ => rfl, fun _ _ => rfl⟩
  | cons x bs ih =>
    intro as h hw hbd h' nb ok he
    cases as with
    | nil =>
      simp only [copyBufs, Prod.mk.injEq] at he
      obtain ⟨rfl, rfl, rfl⟩ := he
      exact ⟨Nat.le_refl _, fun _ _ => rfl, fun _ hl => by simp at hl⟩
    | cons a as =>
      have hw' : ∀ a' ∈ as, a' ≠ .alias ∧ a' ≠ .garble := fun a' ha' => hw a' (List.mem_cons_of_mem _ ha')
      have hbd' : ∀ b, some b ∈ bs → b < h.nbuf := fun b hb => hbd b (List.mem_cons_of_mem _ hb)
      -- a slot that stays NULL although the original may have an (empty) buffer: `v` = what the original shows
      have skip : slotVal h x = none → consSlot none (copyBufs h bs as) = (h', nb, ok) →
          h.nbuf ≤ h'.nbuf ∧ (∀ b, b < h.nbuf → h'.bufs b = h.bufs b) ∧
          (ok = true → (x :: bs).length ≤ (a :: as).length → nb.map (slotVal h') = (x :: bs).map (slotVal h)) := by
        intro hx he
        rcases hr : copyBufs h bs as with ⟨h1, nb1, ok1⟩
        rw [hr] at he
        simp only [consSlot, Prod.mk.injEq] at he
        obtain ⟨rfl, rfl, rfl⟩ := he
        obtain ⟨i1, i2, i3⟩ := ih as h hw' hbd' _ _ _ hr
        refine ⟨i1, i2, fun hk hl => ?_⟩
        simp only [List.map_cons, hx]
        rw [i3 hk (by simpa using hl)]
        rfl
      cases x with
      | none => exact skip rfl (by simpa [copyBufs] using he)
      | some b =>
        have ha : a ≠ .alias := (hw a List.mem_cons_self).1
        have hg : a ≠ .garble := (hw a List.mem_cons_self).2
        simp only [copyBufs, ha, if_false] at he
        cases hbf : h.bufs b with
        | none =>
          simp only [hbf, Prod.mk.injEq] at he
          obtain ⟨rfl, rfl, rfl⟩ := he
          obtain ⟨f1, f2⟩ := fail_bufs h .useAfterFree
          exact ⟨by rw [f2]; exact Nat.le_refl _, fun _ _ => by rw [f1], fun hk => by cases hk⟩
        | some bf =>
          simp only [hbf, hg, if_false] at he
          by_cases hu : a = .trim ∧ bf.used = 0
          · exact skip (by simp [slotVal, hbf, hu.2]) (by simpa [hu] using he)
          · simp only [hu, if_false] at he
            have hval : slotVal h (some b) = (if bf.used = 0 then none else some bf.val) := by simp [slotVal, hbf]
            generalize hnbf : (if a = BufAct.trim then ({ cap := bf.used, used := bf.used, val := bf.val } : Buf) else bf) = nbf at he
            have hnv : (if nbf.used = 0 then none else some nbf.val) = (if bf.used = 0 then (none : Option Nat) else some bf.val) := by
              subst hnbf
              by_cases hat : a = .trim
              · simp [hat]
              · simp [hat]
            obtain ⟨tb1, tb2⟩ := takeAlloc_bufs h
            rcases allocBuf_spec h nbf with hal | hal
            · rw [hal] at he
              simp only [Prod.mk.injEq] at he
              obtain ⟨rfl, rfl, rfl⟩ := he
              exact ⟨by rw [tb2]; exact Nat.le_refl _, fun _ _ => by rw [tb1], fun hk => by cases hk⟩
            · rw [hal] at he
              simp only at he
              rcases hr : copyBufs ({ (takeAlloc h).1 with bufs := upd h.bufs h.nbuf (some nbf), nbuf := h.nbuf + 1 } : Heap) bs as with ⟨h1, nb1, ok1⟩
              rw [hr] at he
              simp only [consSlot, Prod.mk.injEq] at he
              obtain ⟨rfl, rfl, rfl⟩ := he
              obtain ⟨i1, i2, i3⟩ := ih as _ hw' (fun b' hb' => by have := hbd' b' hb'; show b' < h.nbuf + 1; omega) _ _ _ hr
              have old : ∀ b', b' < h.nbuf → h1.bufs b' = h.bufs b' := by
                intro b' hb'
                rw [i2 b' (by show b' < h.nbuf + 1; omega)]
                have : b' ≠ h.nbuf := by omega
                simp [upd, this]
              refine ⟨by have : h.nbuf + 1 ≤ h1.nbuf := i1; omega, old, fun hk hl => ?_⟩
              simp only [List.map_cons]
              rw [i3 hk (by simpa using hl)]
              congr 1
              · -- the fresh buffer
                have hnew : h1.bufs h.nbuf = some nbf := by
                  rw [i2 h.nbuf (by show h.nbuf < h.nbuf + 1; omega)]; simp [upd]
                rw [hval]; simp only [slotVal, hnew, Option.bind_some]; exact hnv
              · -- the remaining original slots are old buffers: unchanged by the allocation
                apply List.map_congr_left
                intro sl hsl
                cases sl with
                | none => rfl
                | some b' =>
                  have hlt := hbd' b' hsl
                  have : b' ≠ h.nbuf := by omega
                  simp [slotVal, upd, this]

/-- anatomy of a successful `sqfs_copy` -/
theorem sqfsCopy_anatomy (D : Kind → CopyDesc) (n : Nat) (h h' : Heap) (x c : Nat) (o : Obj)
    (hc : h.crash = none) (hox : h.objs x = some o) (he : sqfsCopy D (n + 1) h x = (h', some c)) :
    ∃ hA hB nb nr, (takeAlloc h).2 = true ∧
      ((copyRefs (sqfsCopy D n) (takeAlloc h).1 o.refs (D o.kind).refs = (hA, nr, true) ∧ copyBufs hA o.bufs (D o.kind).bufs = (hB, nb, true)) ∨
       (copyBufs (takeAlloc h).1 o.bufs (D o.kind).bufs = (hA, nb, true) ∧ copyRefs (sqfsCopy D n) hA o.refs (D o.kind).refs = (hB, nr, true))) ∧
      finishCopy (D o.kind) hB o nb nr = (h', some c) := by
  rw [sqfsCopy] at he
  simp only [hc, hox] at he
  split at he
  · simp at he
  · rcases hta : takeAlloc h with ⟨h0, ok0⟩
    rw [hta] at he
    cases ok0 with
    | false => simp at he
    | true =>
      simp only at he
      split at he
      · rcases hr1 : copyRefs (sqfsCopy D n) h0 o.refs (D o.kind).refs with ⟨hA, nr, ok1⟩
        rw [hr1] at he
        cases ok1 with
        | false => simp at he
        | true =>
          simp only at he
          rcases hr2 : copyBufs hA o.bufs (D o.kind).bufs with ⟨hB, nb, ok2⟩
          rw [hr2] at he
          cases ok2 with
          | false => simp at he
          | true => exact ⟨hA, hB, nb, nr, rfl, Or.inl ⟨by first | rfl | exact hr1, by first | rfl | exact hr2⟩, he⟩
      · rcases hr1 : copyBufs h0 o.bufs (D o.kind).bufs with ⟨hA, nb, ok1⟩
        rw [hr1] at he
        cases ok1 with
        | false => simp at he
        | true =>
          simp only at he
          rcases hr2 : copyRefs (sqfsCopy D n) hA o.refs (D o.kind).refs with ⟨hB, nr, ok2⟩
          rw [hr2] at he
          cases ok2 with
          | false => simp at he
          | true => exact ⟨hA, hB, nb, nr, rfl, Or.inr ⟨by first | rfl | exact hr1, by first | rfl | exact hr2⟩, he⟩

theorem slotVal_listGet (h : Heap) (l : List (Option Nat)) (i : Nat) :
    slotVal h (listGet l i) = ((l.map (slotVal h))[i]?).join := by
  unfold listGet
  rw [List.getElem?_map]
  cases l[i]? with
  | none => rfl
  | some s => rfl

theorem slotVal_congr {h1 h2 : Heap} (s : Option Nat) (hs : ∀ b, s = some b → h1.bufs b = h2.bufs b) : slotVal h1 s = slotVal h2 s := by
  cases s with
  | none => rfl
  | some b => simp [slotVal, hs b rfl]

/-- **what the copy sees is what the original sees**, and the original sees what it saw before -/
theorem sqfsCopy_view (D : Kind → CopyDesc) (hD : ∀ k, WfDesc (D k)) (n : Nat) {h : Heap} {U : Nat → Nat} {x : Nat} {o : Obj}
    (hb : Bal h U [] [] []) (hbud : h.budget = none) (hox : h.objs x = some o) (hxn : x < n + 1)
    (hs1 : o.bufs.length ≤ (D o.kind).bufs.length) (hs2 : o.views.length ≤ (D o.kind).views.length)
    (hs3 : ∀ p ∈ o.views.zip (D o.kind).views, ∀ v, p.1 = some v → listGet o.bufs p.2.2 = some v)
    {h' : Heap} {c : Nat} (he : sqfsCopy D (n + 1) h x = (h', some c)) :
    view h' c = view h x ∧ view h' x = view h x := by
  have hxl : (h.objs x).isSome := by simp [hox]
  obtain ⟨_, hres⟩ := sqfsCopy_bal D hD (n + 1) h U [] [] x hb hxl hxn h' (some c) he
  obtain ⟨hb', hfresh, hsl⟩ := hres
  obtain ⟨hd, hc, _, _, hrefs, hviews⟩ := hb.live x o hox (by simp)
  obtain ⟨hw1, hw2, hw3, hw4, _, hw6, hw7⟩ := hD o.kind
  have hbl : ∀ b, some b ∈ o.bufs → (h.bufs b).isSome := fun b hbm => hb.buf_live hox (by simp) hbm
  have hbb : ∀ b, some b ∈ o.bufs → b < h.nbuf := fun b hbm => hb.bufBound b (hbl b hbm)
  have hslot : ∀ s, s ∈ o.bufs ++ o.views → ∀ b, s = some b → b < h.nbuf := by
    intro s hs b hsb
    subst hsb
    rcases List.mem_append.mp hs with h1 | h1
    · exact hbb b h1
    · exact hbb b (hviews b h1)
  refine ⟨?_, ?_⟩
  · -- the copy
    obtain ⟨hA, hB, nb, nr, htk, hloops, hfin⟩ := sqfsCopy_anatomy D n h h' x c o hb.ok hox he
    obtain ⟨bud, hta, htb⟩ := takeAlloc_spec h
    have hbud0 : bud = none := (htb hbud).2
    subst hbud0
    have h0eq : (takeAlloc h).1 = h := by rw [hta]; cases h; simp_all
    rw [h0eq] at hloops
    have hrl : ∀ r, some r ∈ o.refs → (h.objs r).isSome ∧ r < n :=
      fun r hr => ⟨hb.ref_live hox (by simp) hr, by have := hrefs r hr; omega⟩
    have ih := sqfsCopy_bal D hD n
    -- the buffer slots of the copy show what the original's show
    have hvals : nb.map (slotVal hB) = o.bufs.map (slotVal h) := by
      rcases hloops with ⟨hr1, hr2⟩ | ⟨hr1, hr2⟩
      · obtain ⟨hb1, hsA, _, _, _⟩ := copyRefs_bal (sqfsCopy D n) n ih o.refs (D o.kind).refs hb hw4 hrl _ _ _ hr1
        obtain ⟨hsA, _⟩ := hsA rfl
        obtain ⟨_, _, hv⟩ := copyBufs_vals o.bufs (D o.kind).bufs hA (fun a ha => ⟨hw2 a ha, hw7 a ha⟩) (fun b hbm => Nat.lt_of_lt_of_le (hbb b hbm) hsA.nbuf) _ _ _ hr2
        rw [hv rfl hs1]
        apply List.map_congr_left
        intro s hs
        exact slotVal_congr s (fun b hsb => hsA.bufsOld b (hbb b (hsb ▸ hs)))
      · obtain ⟨_, hold, hv⟩ := copyBufs_vals o.bufs (D o.kind).bufs h (fun a ha => ⟨hw2 a ha, hw7 a ha⟩) hbb _ _ _ hr1
        obtain ⟨hb1, hsA, hoA, hnA, hfA, _, _⟩ := copyBufs_bal o.bufs (D o.kind).bufs hb hw2 hbl _ _ _ hr1
        obtain ⟨hb2, hsB, _, _, _⟩ := copyRefs_bal (sqfsCopy D n) n ih o.refs (D o.kind).refs hb1 hw4
          (fun r hr => ⟨by rw [hoA]; exact (hrl r hr).1, (hrl r hr).2⟩) _ _ _ hr2
        obtain ⟨hsB, _⟩ := hsB rfl
        rw [← hv rfl hs1]
        apply List.map_congr_left
        intro s hs
        apply slotVal_congr
        intro b hsb
        subst hsb
        -- a fresh buffer of the copy is pending in `hA`, hence live there, hence below `hA.nbuf`
        have hm : b ∈ nb.filterMap id ++ ([] : List Nat) := by
          simp only [List.append_nil, List.mem_filterMap, id]
          exact ⟨some b, hs, rfl⟩
        have hcnt : (nb.filterMap id ++ ([] : List Nat)).count b ≠ 0 := by
          have := List.count_pos_iff.mpr hm; omega
        have hlive : (hA.bufs b).isSome := by
          cases hv : hA.bufs b with
          | some _ => rfl
          | none => exact absurd (hb1.bufDead b hv).1 hcnt
        exact hsB.bufsOld b (hb1.bufBound b hlive)
    unfold finishCopy at hfin
    simp only [Prod.mk.injEq, Option.some.injEq] at hfin
    obtain ⟨rfl, rfl⟩ := hfin
    unfold view
    simp only [upd_same, hox, Option.map_some, Option.some.injEq, List.map_append]
    have hsv : ∀ (hh : Heap), hh.bufs = hB.bufs → ∀ s, slotVal hh s = slotVal hB s :=
      fun hh e s => slotVal_congr s (fun b _ => by rw [e])
    have A : ∀ (hh : Heap), hh.bufs = hB.bufs → List.map (slotVal hh) nb = List.map (slotVal h) o.bufs := by
      intro hh e
      rw [← hvals]; exact List.map_congr_left (fun s _ => hsv hh e s)
    have B : ∀ (hh : Heap), hh.bufs = hB.bufs →
        List.map (slotVal hh) (repointViews o.views (D o.kind).views nb) = List.map (slotVal h) o.views := by
      intro hh ehh
      unfold repointViews
      rw [List.map_map]
      have e : List.map (slotVal h) o.views = List.map (slotVal h ∘ Prod.fst) (o.views.zip (D o.kind).views) := by
        rw [← List.map_map, List.map_fst_zip hs2]
      rw [e]
      apply List.map_congr_left
      intro p hp
      obtain ⟨v, act, slot⟩ := p
      have hact : act = .repoint := hw3 (act, slot) (List.of_mem_zip hp).2
      subst hact
      simp only [Function.comp, repointView]
      rw [hsv hh ehh]
      cases v with
      | none => rfl
      | some w =>
        have := hs3 _ hp w rfl
        simp only at this
        show slotVal hB (listGet nb slot) = slotVal h (some w)
        rw [slotVal_listGet, hvals, ← slotVal_listGet, this]
    generalize hgen : ({ hB with objs := upd hB.objs hB.nobj (some _), nobj := hB.nobj + 1 } : Heap) = hh
    have ehh : hh.bufs = hB.bufs := by rw [← hgen]
    rw [A hh ehh, B hh ehh]
  · -- the original
    have hxb : x < h.nobj := hb.bound x hxl
    have hso := hsl.objsOld x hxb
    rw [hox] at hso
    cases hx' : h'.objs x with
    | none => rw [hx'] at hso; simp at hso
    | some o' =>
      rw [hx'] at hso
      simp only [Option.map_some, Option.some.injEq] at hso
      have e1 : o'.bufs = o.bufs := (congrArg Obj.bufs hso : o'.erase.bufs = o.erase.bufs)
      have e2 : o'.views = o.views := (congrArg Obj.views hso : o'.erase.views = o.erase.views)
      unfold view
      simp only [hx', hox, Option.map_some, Option.some.injEq, e1, e2]
      apply List.map_congr_left
      intro s hs
      exact slotVal_congr s (fun b hsb => hsl.bufsOld b (hslot s hs b hsb))

/-- allocated size behind a slot -/
def slotCap (h : Heap) : Option Nat → Option Nat
  | none => none
  | some b => (h.bufs b).map (·.cap)

/-- hooks that duplicate every buffer at its allocated size (`dup` everywhere — required of kinds that do not record
the size next to the pointer): the copy's buffers are as large as the original's -/
theorem copyBufs_caps : ∀ (bs : List (Option Nat)) (as : List BufAct) (h : Heap),
    (∀ a ∈ as, a = .dup) → (∀ b, some b ∈ bs → b < h.nbuf) →
    ∀ h' nb ok, copyBufs h bs as = (h', nb, ok) →
      h.nbuf ≤ h'.nbuf ∧ (∀ b, b < h.nbuf → h'.bufs b = h.bufs b) ∧
      (ok = true → bs.length ≤ as.length → nb.map (slotCap h') = bs.map (slotCap h)) := by
  intro bs
  induction bs with
  | nil =>
    intro as h _ _ h' nb ok he
    simp only [copyBufs, Prod.mk.injEq] at he
    obtain ⟨rfl, rfl, rfl⟩ := he
    exact ⟨Nat.le_refl _, fun _ _ => rfl, fun _ _ => rfl⟩
  | cons x bs ih =>
    intro as h hw hbd h' nb ok he
    cases as with
    | nil =>
      simp only [copyBufs, Prod.mk.injEq] at he
      obtain ⟨rfl, rfl, rfl⟩ := he
      exact ⟨Nat.le_refl _, fun _ _ => rfl, fun _ hl => by simp at hl⟩
    | cons a as =>
      have hw' : ∀ a' ∈ as, a' = .dup := fun a' ha' => hw a' (List.mem_cons_of_mem _ ha')
      have hbd' : ∀ b, some b ∈ bs → b < h.nbuf := fun b hb => hbd b (List.mem_cons_of_mem _ hb)
      have ha : a = .dup := hw a List.mem_cons_self
      subst ha
      cases x with
      | none =>
        rcases hr : copyBufs h bs as with ⟨h1, nb1, ok1⟩
        simp only [copyBufs, hr, consSlot, Prod.mk.injEq] at he
        obtain ⟨rfl, rfl, rfl⟩ := he
        obtain ⟨i1, i2, i3⟩ := ih as h hw' hbd' _ _ _ hr
        refine ⟨i1, i2, fun hk hl => ?_⟩
        simp only [List.map_cons]
        rw [i3 hk (by simpa using hl)]
        rfl
      | some b =>
        simp only [copyBufs, reduceCtorEq, if_false] at he
        cases hbf : h.bufs b with
        | none =>
          simp only [hbf, Prod.mk.injEq] at he
          obtain ⟨rfl, rfl, rfl⟩ := he
          obtain ⟨f1, f2⟩ := fail_bufs h .useAfterFree
          exact ⟨by rw [f2]; exact Nat.le_refl _, fun _ _ => by rw [f1], fun hk => by cases hk⟩
        | some bf =>
          simp only [hbf, reduceCtorEq, false_and, if_false] at he
          obtain ⟨tb1, tb2⟩ := takeAlloc_bufs h
          rcases allocBuf_spec h bf with hal | hal
          · rw [hal] at he
            simp only [Prod.mk.injEq] at he
            obtain ⟨rfl, rfl, rfl⟩ := he
            exact ⟨by rw [tb2]; exact Nat.le_refl _, fun _ _ => by rw [tb1], fun hk => by cases hk⟩
          · rw [hal] at he
            simp only at he
            rcases hr : copyBufs ({ (takeAlloc h).1 with bufs := upd h.bufs h.nbuf (some bf), nbuf := h.nbuf + 1 } : Heap) bs as with ⟨h1, nb1, ok1⟩
            rw [hr] at he
            simp only [consSlot, Prod.mk.injEq] at he
            obtain ⟨rfl, rfl, rfl⟩ := he
            obtain ⟨i1, i2, i3⟩ := ih as _ hw' (fun b' hb' => by have := hbd' b' hb'; show b' < h.nbuf + 1; omega) _ _ _ hr
            have old : ∀ b', b' < h.nbuf → h1.bufs b' = h.bufs b' := by
              intro b' hb'
              rw [i2 b' (by show b' < h.nbuf + 1; omega)]
              have : b' ≠ h.nbuf := by omega
              simp [upd, this]
            refine ⟨by have : h.nbuf + 1 ≤ h1.nbuf := i1; omega, old, fun hk hl => ?_⟩
            simp only [List.map_cons]
            rw [i3 hk (by simpa using hl)]
            congr 1
            · have hnew : h1.bufs h.nbuf = some bf := by
                rw [i2 h.nbuf (by show h.nbuf < h.nbuf + 1; omega)]; simp [upd]
              simp [slotCap, hnew, hbf]
            · apply List.map_congr_left
              intro sl hsl
              cases sl with
              | none => rfl
              | some b' =>
                have hlt := hbd' b' hsl
                have : b' ≠ h.nbuf := by omega
                simp [slotCap, upd, this]

theorem slotCap_congr {h1 h2 : Heap} (s : Option Nat) (hs : ∀ b, s = some b → h1.bufs b = h2.bufs b) : slotCap h1 s = slotCap h2 s := by
  cases s with
  | none => rfl
  | some b => simp [slotCap, hs b rfl]

/-- for hooks that `dup` every buffer, the copy's buffer slots are allocated as large as the original's -/
theorem sqfsCopy_caps (D : Kind → CopyDesc) (hD : ∀ k, WfDesc (D k)) (n : Nat) {h : Heap} {U : Nat → Nat} {x : Nat} {o : Obj}
    (hb : Bal h U [] [] []) (hbud : h.budget = none) (hox : h.objs x = some o) (hxn : x < n + 1)
    (hdup : ∀ a ∈ (D o.kind).bufs, a = .dup) (hs1 : o.bufs.length ≤ (D o.kind).bufs.length)
    {h' : Heap} {c : Nat} (he : sqfsCopy D (n + 1) h x = (h', some c)) :
    ∃ oc, h'.objs c = some oc ∧ oc.bufs.map (slotCap h') = o.bufs.map (slotCap h) := by
  have hxl : (h.objs x).isSome := by simp [hox]
  obtain ⟨hd, hc, _, _, hrefs, hviews⟩ := hb.live x o hox (by simp)
  obtain ⟨hw1, hw2, hw3, hw4, _, hw6, hw7⟩ := hD o.kind
  have hbl : ∀ b, some b ∈ o.bufs → (h.bufs b).isSome := fun b hbm => hb.buf_live hox (by simp) hbm
  have hbb : ∀ b, some b ∈ o.bufs → b < h.nbuf := fun b hbm => hb.bufBound b (hbl b hbm)
  obtain ⟨hA, hB, nb, nr, htk, hloops, hfin⟩ := sqfsCopy_anatomy D n h h' x c o hb.ok hox he
  obtain ⟨bud, hta, htb⟩ := takeAlloc_spec h
  have hbud0 : bud = none := (htb hbud).2
  subst hbud0
  have h0eq : (takeAlloc h).1 = h := by rw [hta]; cases h; simp_all
  rw [h0eq] at hloops
  have hrl : ∀ r, some r ∈ o.refs → (h.objs r).isSome ∧ r < n :=
    fun r hr => ⟨hb.ref_live hox (by simp) hr, by have := hrefs r hr; omega⟩
  have ih := sqfsCopy_bal D hD n
  have hcaps : nb.map (slotCap hB) = o.bufs.map (slotCap h) := by
    rcases hloops with ⟨hr1, hr2⟩ | ⟨hr1, hr2⟩
    · obtain ⟨hb1, hsA, _, _, _⟩ := copyRefs_bal (sqfsCopy D n) n ih o.refs (D o.kind).refs hb hw4 hrl _ _ _ hr1
      obtain ⟨hsA, _⟩ := hsA rfl
      obtain ⟨_, _, hv⟩ := copyBufs_caps o.bufs (D o.kind).bufs hA hdup (fun b hbm => Nat.lt_of_lt_of_le (hbb b hbm) hsA.nbuf) _ _ _ hr2
      rw [hv rfl hs1]
      apply List.map_congr_left
      intro s hs
      exact slotCap_congr s (fun b hsb => hsA.bufsOld b (hbb b (hsb ▸ hs)))
    · obtain ⟨_, hold, hv⟩ := copyBufs_caps o.bufs (D o.kind).bufs h hdup hbb _ _ _ hr1
      obtain ⟨hb1, hsA, hoA, hnA, hfA, _, _⟩ := copyBufs_bal o.bufs (D o.kind).bufs hb hw2 hbl _ _ _ hr1
      obtain ⟨hb2, hsB, _, _, _⟩ := copyRefs_bal (sqfsCopy D n) n ih o.refs (D o.kind).refs hb1 hw4
        (fun r hr => ⟨by rw [hoA]; exact (hrl r hr).1, (hrl r hr).2⟩) _ _ _ hr2
      obtain ⟨hsB, _⟩ := hsB rfl
      rw [← hv rfl hs1]
      apply List.map_congr_left
      intro s hs
      apply slotCap_congr
      intro b hsb
      subst hsb
      have hm : b ∈ nb.filterMap id ++ ([] : List Nat) := by
        simp only [List.append_nil, List.mem_filterMap, id]
        exact ⟨some b, hs, rfl⟩
      have hcnt : (nb.filterMap id ++ ([] : List Nat)).count b ≠ 0 := by
        have := List.count_pos_iff.mpr hm; omega
      have hlive : (hA.bufs b).isSome := by
        cases hv : hA.bufs b with
        | some _ => rfl
        | none => exact absurd (hb1.bufDead b hv).1 hcnt
      exact hsB.bufsOld b (hb1.bufBound b hlive)
  unfold finishCopy at hfin
  simp only [Prod.mk.injEq, Option.some.injEq] at hfin
  obtain ⟨rfl, rfl⟩ := hfin
  refine ⟨_, upd_same _ _ _, ?_⟩
  rw [← hcaps]
  exact List.map_congr_left (fun s _ => slotCap_congr s (fun _ _ => rfl))

/-- the object has (at most) the slots its kind's hook description lists, and each internal pointer points at the
buffer slot the description names -/
def ShapeOk (d : CopyDesc) (o : Obj) : Prop :=
  o.bufs.length ≤ d.bufs.length ∧ o.views.length ≤ d.views.length ∧
  ∀ p ∈ o.views.zip d.views, ∀ v, p.1 = some v → listGet o.bufs p.2.2 = some v

end Sqfs.Obj
