/-
Helper lemmas for C07: sparse-map readers and PAX framing never leave their buffers and always stop.
-/
import Sqfs.Proofs.ParseTotal
namespace Sqfs.ParseTotal

/-! ### old GNU sparse map -/

theorem oldParse_safe (buf : Bytes) : ∀ cnt i acc, i + 24 * cnt ≤ buf.length →
    (oldParse buf cnt i acc).safe := by
  intro cnt
  induction cnt with
  | zero => intro i acc _; simp [oldParse]
  | succ cnt ih =>
    intro i acc h
    obtain ⟨a, ha⟩ := get_some (buf := buf) (i := i) (by omega)
    obtain ⟨b, hb⟩ := get_some (buf := buf) (i := i + 12) (by omega)
    simp only [oldParse, ha, hb]
    refine safe_ite (fun _ => by trivial) (fun _ => ?_)
    have h1 := readNumber_safe buf i 12 (by omega) (by omega)
    cases hr1 : readNumber buf i 12 with
    | oob => rw [hr1] at h1; exact h1.elim
    | spin => rw [hr1] at h1; exact h1.elim
    | fail c => trivial
    | ok off =>
      have h2 := readNumber_safe buf (i + 12) 12 (by omega) (by omega)
      cases hr2 : readNumber buf (i + 12) 12 with
      | oob => rw [hr2] at h2; exact h2.elim
      | spin => rw [hr2] at h2; exact h2.elim
      | fail c => trivial
      | ok sz => exact ih _ _ (by omega)

theorem oldExt_safe : ∀ fuel stream acc, stream.length / 512 + 1 ≤ fuel → (oldExt fuel stream acc).safe := by
  intro fuel
  induction fuel with
  | zero => intro stream acc h; omega
  | succ f ih =>
    intro stream acc h
    simp only [oldExt]
    refine safe_ite (fun _ => by trivial) (fun hlen => ?_)
    have hblk : (stream.take 512).length = 512 := by simp; omega
    have h1 := oldParse_safe (stream.take 512) 21 0 acc (by omega)
    cases hp : oldParse (stream.take 512) 21 0 acc with
    | oob => rw [hp] at h1; exact h1.elim
    | spin => rw [hp] at h1; exact h1.elim
    | fail c => trivial
    | ok r =>
      obtain ⟨stopped, acc'⟩ := r
      obtain ⟨e, he⟩ := get_some (buf := stream.take 512) (i := 504) (by omega)
      simp only [he]
      refine safe_ite (fun _ => ?_) (fun _ => by trivial)
      apply ih
      simp only [List.length_drop]
      omega

theorem readGnuOldSparse_safe (hdr stream : Bytes) (hlen : hdr.length = 512) :
    (readGnuOldSparse hdr stream).safe := by
  unfold readGnuOldSparse
  have h1 := oldParse_safe hdr 4 386 [] (by omega)
  cases hp : oldParse hdr 4 386 [] with
  | oob => rw [hp] at h1; exact h1.elim
  | spin => rw [hp] at h1; exact h1.elim
  | fail c => trivial
  | ok r =>
    obtain ⟨stopped, acc⟩ := r
    obtain ⟨e, he⟩ := get_some (buf := hdr) (i := 482) (by omega)
    simp only [he]
    exact safe_ite (fun _ => by trivial) (fun _ => oldExt_safe _ stream acc (Nat.le_refl _))

/-! ### GNU 1.0 sparse map: `decode` and the 1024-byte window -/

theorem decDigits_spec (buf : Bytes) : ∀ len i cnt v, i + len ≤ buf.length →
    (decDigits buf len i cnt v).safe ∧
    ∀ c' v', decDigits buf len i cnt v = .ok (c', v') → cnt ≤ c' ∧ c' ≤ cnt + len := by
  intro len
  induction len with
  | zero => intro i cnt v _; simp only [decDigits]; exact ⟨trivial, fun c' v' h => by cases h; omega⟩
  | succ len ih =>
    intro i cnt v h
    obtain ⟨c, hc⟩ := get_some (buf := buf) (i := i) (by omega)
    simp only [decDigits, hc]
    by_cases hd : isDigit c = true
    · simp only [hd, Bool.not_true, Bool.false_eq_true, if_false]
      by_cases h1 : v * 10 > szMax
      · simp only [h1, if_true]; exact ⟨trivial, fun c' v' h => by cases h⟩
      · simp only [h1, if_false]
        by_cases h2 : v * 10 + (c.toNat - 48) > szMax
        · simp only [h2, if_true]; exact ⟨trivial, fun c' v' h => by cases h⟩
        · simp only [h2, if_false]
          obtain ⟨s1, s2⟩ := ih (i + 1) (cnt + 1) (v * 10 + (c.toNat - 48)) (by omega)
          exact ⟨s1, fun c' v' h => by have := s2 c' v' h; omega⟩
    · simp only [hd, Bool.not_false, if_true]
      exact ⟨trivial, fun c' v' h => by cases h; omega⟩

/-- `decode` reads only `buf[i .. i+len)`; a positive return value is at most `len` -/
theorem decode_spec (buf : Bytes) (i len : Nat) (h : i + len ≤ buf.length) :
    (decode buf i len).safe ∧ ∀ ret v, decode buf i len = .ok (ret, v) → ret ≤ len := by
  unfold decode
  obtain ⟨s1, s2⟩ := decDigits_spec buf len i 0 0 h
  cases hd : decDigits buf len i 0 0 with
  | oob => rw [hd] at s1; exact s1.elim
  | spin => rw [hd] at s1; exact s1.elim
  | fail c => exact ⟨trivial, fun ret v h => by cases h⟩
  | ok r =>
    obtain ⟨cnt, v⟩ := r
    have hb := s2 cnt v hd
    simp only []
    by_cases hz : cnt = 0 ∨ cnt = len
    · simp only [hz, if_true]; exact ⟨trivial, fun ret v' h => by cases h; omega⟩
    · simp only [hz, if_false]
      obtain ⟨c, hc⟩ := get_some (buf := buf) (i := i + cnt) (by omega)
      simp only [hc]
      by_cases hn : c.toNat = 10
      · simp only [hn, if_true]; exact ⟨trivial, fun ret v' h => by cases h; omega⟩
      · simp only [hn, if_false]; exact ⟨trivial, fun ret v' h => by cases h⟩

theorem blit_spec {win src w : Bytes} {pos : Nat} (h : blit win pos src = some w) :
    w.length = win.length ∧ ∀ j, j < pos → w[j]? = win[j]? := by
  unfold blit at h
  split at h
  · rename_i hle
    cases h
    constructor
    · simp; omega
    · intro j hj
      rw [List.getElem?_append_left (by simp; omega), List.getElem?_append_left (by simp; omega)]
      simp [List.getElem?_take, hj]
  · cases h

theorem blit_some {win src : Bytes} {pos : Nat} (h : pos + src.length ≤ win.length) : ∃ w, blit win pos src = some w := by
  unfold blit; simp [h]

/-- `decDigits` only looks at `buf[i .. i+len)` -/
theorem decDigits_agree (buf buf' : Bytes) : ∀ len i cnt v, (∀ j, i ≤ j → j < i + len → buf'[j]? = buf[j]?) →
    decDigits buf' len i cnt v = decDigits buf len i cnt v := by
  intro len
  induction len with
  | zero => intro i cnt v _; simp [decDigits]
  | succ len ih =>
    intro i cnt v h
    simp only [decDigits, h i (Nat.le_refl _) (by omega)]
    cases buf[i]? with
    | none => rfl
    | some c =>
      simp only []
      rw [ih (i + 1) (cnt + 1) _ (fun j h1 h2 => h j (by omega) (by omega))]

/-- a run that used up all `len` bytes continues on a longer window where it stopped -/
theorem decDigits_extend (buf : Bytes) : ∀ len i cnt v v' extra, decDigits buf len i cnt v = .ok (cnt + len, v') →
    decDigits buf (len + extra) i cnt v = decDigits buf extra (i + len) (cnt + len) v' := by
  intro len
  induction len with
  | zero =>
    intro i cnt v v' extra h
    simp only [decDigits, R.ok.injEq, Prod.mk.injEq] at h
    simp [h.2]
  | succ len ih =>
    intro i cnt v v' extra h
    have hsucc : len + 1 + extra = (len + extra) + 1 := by omega
    rw [hsucc]
    simp only [decDigits] at h ⊢
    cases hc : buf[i]? with
    | none => rw [hc] at h; cases h
    | some c =>
      rw [hc] at h
      simp only [] at h ⊢
      by_cases hd : isDigit c = true
      · simp only [hd, Bool.not_true, Bool.false_eq_true, if_false] at h ⊢
        by_cases h1 : v * 10 > szMax
        · simp [h1] at h
        · simp only [h1, if_false] at h ⊢
          by_cases h2 : v * 10 + (c.toNat - 48) > szMax
          · simp [h2] at h
          · simp only [h2, if_false] at h ⊢
            have := ih (i + 1) (cnt + 1) _ v' extra (by rw [h]; congr 2; omega)
            rw [this]; congr 1 <;> omega
      · simp only [hd, Bool.not_false, if_true, R.ok.injEq, Prod.mk.injEq] at h
        omega

/-- a run that stops at once found a non-digit first -/
theorem decDigits_zero (buf : Bytes) (len i v v' : Nat) (h : decDigits buf (len + 1) i 0 v = .ok (0, v')) (hi : i + len + 1 ≤ buf.length) :
    ∃ c, buf[i]? = some c ∧ isDigit c = false := by
  obtain ⟨c, hc⟩ := get_some (buf := buf) (i := i) (by omega)
  refine ⟨c, hc, ?_⟩
  simp only [decDigits, hc] at h
  by_cases hd : isDigit c = true
  · simp only [hd, Bool.not_true, Bool.false_eq_true, if_false] at h
    by_cases h1 : v * 10 > szMax
    · simp [h1] at h
    · simp only [h1, if_false] at h
      by_cases h2 : v * 10 + (c.toNat - 48) > szMax
      · simp [h2] at h
      · simp only [h2, if_false] at h
        have := (decDigits_spec buf len (i + 1) 1 _ (by omega)).2 0 v' h
        omega
  · simpa using hd

/-- what `decode` answers, in terms of the digit run -/
theorem decode_ok {buf : Bytes} {i len ret v : Nat} (h : decode buf i len = .ok (ret, v)) :
    ∃ cnt, decDigits buf len i 0 0 = .ok (cnt, v) ∧
      ((ret = 0 ∧ (cnt = 0 ∨ cnt = len)) ∨ (ret = cnt + 1 ∧ cnt ≠ 0 ∧ cnt ≠ len)) := by
  unfold decode at h
  cases hd : decDigits buf len i 0 0 with
  | oob => rw [hd] at h; cases h
  | spin => rw [hd] at h; cases h
  | fail c => rw [hd] at h; cases h
  | ok r =>
    obtain ⟨cnt, v0⟩ := r
    rw [hd] at h
    simp only [] at h
    by_cases hz : cnt = 0 ∨ cnt = len
    · simp only [hz, if_true, R.ok.injEq, Prod.mk.injEq] at h
      exact ⟨cnt, by rw [h.2], Or.inl ⟨h.1.symm, hz⟩⟩
    · simp only [hz, if_false] at h
      cases hc : buf[i + cnt]? with
      | none => rw [hc] at h; cases h
      | some c =>
        rw [hc] at h
        simp only [] at h
        by_cases hn : c.toNat = 10
        · simp only [hn, if_true, R.ok.injEq, Prod.mk.injEq] at h
          refine ⟨cnt, by rw [h.2], Or.inr ⟨h.1.symm, ?_, ?_⟩⟩ <;> omega
        · simp [hn] at h

/--
The refill step of `read_gnu_new_sparse` makes progress: when the number at `diff` did not end
inside the first 512 bytes and does end inside the refilled window, it ends beyond byte 512, so
`diff + ret - 512` is at least 1 (and the `int` never goes negative).
-/
theorem refill_progress {win win1 x : Bytes} {diff v1 ret2 v2 : Nat} (hlen : win.length = 1024) (hd : diff ≤ 512)
    (hb : blit win 512 x = some win1) (h1 : decode win diff (512 - diff) = .ok (0, v1))
    (h2 : decode win1 diff (1024 - diff) = .ok (ret2, v2)) (hr : ret2 ≠ 0) : 513 ≤ diff + ret2 := by
  obtain ⟨hl1, hagree⟩ := blit_spec hb
  obtain ⟨cnt1, hd1, hc1⟩ := decode_ok h1
  obtain ⟨cnt2, hd2, hc2⟩ := decode_ok h2
  have hc1' : cnt1 = 0 ∨ cnt1 = 512 - diff := by
    rcases hc1 with ⟨_, h⟩ | ⟨h, _⟩
    · exact h
    · omega
  have hc2' : ret2 = cnt2 + 1 ∧ cnt2 ≠ 0 := by
    rcases hc2 with ⟨h, _⟩ | ⟨h, h0, _⟩
    · exact absurd h hr
    · exact ⟨h, h0⟩
  -- the first run, replayed on the refilled window
  have hsame : decDigits win1 (512 - diff) diff 0 0 = .ok (cnt1, v1) := by
    rw [decDigits_agree win win1 (512 - diff) diff 0 0 (fun j _ h2 => hagree j (by omega))]; exact hd1
  by_cases hfull : cnt1 = 512 - diff
  · -- all of `[diff, 512)` are digits: the second run counts at least those
    have hext := decDigits_extend win1 (512 - diff) diff 0 0 v1 512 (by rw [hsame, hfull]; simp)
    have heq : 512 - diff + 512 = 1024 - diff := by omega
    rw [heq, hd2] at hext
    have := (decDigits_spec win1 512 (diff + (512 - diff)) (0 + (512 - diff)) v1 (by omega)).2 cnt2 v2 hext.symm
    omega
  · -- the run stopped at once on a non-digit, which the refill does not change: the second run stops there too
    have h0 : cnt1 = 0 := by rcases hc1' with h | h; exact h; exact absurd h hfull
    subst h0
    obtain ⟨k, hk⟩ : ∃ k, 512 - diff = k + 1 := ⟨512 - diff - 1, by omega⟩
    rw [hk] at hd1
    obtain ⟨c, hc, hnd⟩ := decDigits_zero win k diff 0 v1 hd1 (by omega)
    have hc' : win1[diff]? = some c := by rw [hagree diff (by omega)]; exact hc
    obtain ⟨k2, hk2⟩ : ∃ k2, 1024 - diff = k2 + 1 := ⟨1024 - diff - 1, by omega⟩
    rw [hk2] at hd2
    simp only [decDigits, hc', hnd, Bool.not_false, if_true, R.ok.injEq, Prod.mk.injEq] at hd2
    omega

/-- entries completed so far, counting a pending offset as a half -/
def NewSp.mu (s : NewSp) : Nat := 2 * s.ents.length + (if s.pendingOff.isSome then 1 else 0)

/-- the window invariant of the `for` loop -/
structure NewSp.Inv (s : NewSp) (idx : Nat) : Prop where
  win : s.win.length = 1024
  lo : 1 ≤ s.diff
  hi : s.diff ≤ 512
  par : s.mu % 2 = idx % 2

theorem step_inv {s : NewSp} {idx value : Nat} (hi : s.Inv idx) :
    let s' : NewSp := if idx % 2 = 0 then { s with pendingOff := some value }
      else { s with ents := { offset := s.pendingOff.getD 0, count := value } :: s.ents, pendingOff := none }
    s'.Inv (idx + 1) ∧ s'.mu = s.mu + 1 := by
  have hp := hi.par
  by_cases he : idx % 2 = 0
  · simp only [he, if_true]
    have hnone : s.pendingOff.isSome = false := by
      cases hq : s.pendingOff with
      | none => rfl
      | some _ => simp [NewSp.mu, hq] at hp; omega
    refine ⟨⟨hi.win, hi.lo, hi.hi, ?_⟩, ?_⟩
    · simp [NewSp.mu]; omega
    · simp [NewSp.mu, hnone]
  · simp only [he, if_false]
    have hsome : s.pendingOff.isSome = true := by
      cases hq : s.pendingOff with
      | none => simp [NewSp.mu, hq] at hp; omega
      | some _ => rfl
    refine ⟨⟨hi.win, hi.lo, hi.hi, ?_⟩, ?_⟩
    · simp [NewSp.mu]; omega
    · simp [NewSp.mu, hsome]; omega

/-- safe, and a successful result has made `m` half-entries -/
def Good (r : R NewSp) (m : Nat) : Prop := r.safe ∧ ∀ s', r = .ok s' → s'.mu = m

theorem good_fail (k m : Nat) : Good (.fail k) m := ⟨trivial, fun s' h => by cases h⟩

theorem good_ite_fail {c : Prop} [Decidable c] {k m : Nat} {b : R NewSp} (hb : ¬ c → Good b m) :
    Good (if c then .fail k else b) m := by
  by_cases h : c
  · simp only [h, if_true]; exact good_fail k m
  · simp only [h, if_false]; exact hb h

theorem newLoop_spec : ∀ n idx (s : NewSp), s.Inv idx → Good (newLoop n idx s) (s.mu + n) := by
  intro n
  induction n with
  | zero => intro idx s _; simp only [newLoop]; exact ⟨trivial, fun s' h => by cases h; rfl⟩
  | succ n ih =>
    intro idx s hinv
    have hwin := hinv.win
    have hlo := hinv.lo
    have hhi := hinv.hi
    simp only [newLoop]
    have hnd : ¬ s.diff > 512 := by omega
    simp only [hnd, if_false]
    obtain ⟨d1, d2⟩ := decode_spec s.win s.diff (512 - s.diff) (by omega)
    cases hdec : decode s.win s.diff (512 - s.diff) with
    | oob => rw [hdec] at d1; exact d1.elim
    | spin => rw [hdec] at d1; exact d1.elim
    | fail c => exact good_fail 1 _
    | ok r =>
      obtain ⟨ret, value⟩ := r
      have hret := d2 ret value hdec
      simp only []
      by_cases hpos : ret > 0
      · simp only [hpos, if_true]
        have hinv1 : ({ s with diff := s.diff + ret } : NewSp).Inv idx :=
          ⟨hwin, by simp; omega, by simp; omega, hinv.par⟩
        obtain ⟨i2, m2⟩ := step_inv (value := value) hinv1
        have := ih (idx + 1) _ i2
        rw [m2] at this
        have hmu : ({ s with diff := s.diff + ret } : NewSp).mu = s.mu := rfl
        rw [hmu] at this
        have e : s.mu + 1 + n = s.mu + (n + 1) := by omega
        rw [e] at this; exact this
      · simp only [hpos, if_false]
        have hret0 : ret = 0 := by omega
        subst hret0
        refine good_ite_fail (fun hrs => ?_)
        refine good_ite_fail (fun hst => ?_)
        have htake : (s.stream.take 512).length = 512 := by simp; omega
        obtain ⟨win1, hb1⟩ := blit_some (win := s.win) (src := s.stream.take 512) (pos := 512) (by omega)
        simp only [hb1]
        obtain ⟨hl1, _⟩ := blit_spec hb1
        obtain ⟨e1, e2⟩ := decode_spec win1 s.diff (1024 - s.diff) (by omega)
        cases hdec2 : decode win1 s.diff (1024 - s.diff) with
        | oob => rw [hdec2] at e1; exact e1.elim
        | spin => rw [hdec2] at e1; exact e1.elim
        | fail c => exact good_fail 1 _
        | ok r2 =>
          obtain ⟨ret2, value2⟩ := r2
          have hret2 := e2 ret2 value2 hdec2
          simp only []
          refine good_ite_fail (fun hr0 => ?_)
          have hsrc : ((win1.drop 512).take 512).length = 512 := by simp; omega
          obtain ⟨win2, hb2⟩ := blit_some (win := win1) (src := (win1.drop 512).take 512) (pos := 0) (by omega)
          simp only [hb2]
          obtain ⟨hl2, _⟩ := blit_spec hb2
          have hprog := refill_progress hwin hhi hb1 hdec hdec2 hr0
          have hno : ¬ s.diff + ret2 < 512 := by omega
          simp only [hno, if_false]
          have hinv1 : ({ s with win := win2, diff := s.diff + ret2 - 512, stream := s.stream.drop 512,
                                  recordSize := s.recordSize - 512 } : NewSp).Inv idx :=
            ⟨by simp; omega, by simp; omega, by simp; omega, hinv.par⟩
          obtain ⟨i2, m2⟩ := step_inv (value := value2) hinv1
          have := ih (idx + 1) _ i2
          rw [m2] at this
          have hmu : ({ s with win := win2, diff := s.diff + ret2 - 512, stream := s.stream.drop 512,
                                recordSize := s.recordSize - 512 } : NewSp).mu = s.mu := rfl
          rw [hmu] at this
          have e : s.mu + 1 + n = s.mu + (n + 1) := by omega
          rw [e] at this; exact this

/-- `read_gnu_new_sparse`: never outside the 1024-byte window, never more than `TAR_MAX_SPARSE_ENT` entries -/
theorem readGnuNewSparse_spec (stream : Bytes) (recordSize : Nat) :
    (readGnuNewSparse stream recordSize).safe ∧
    ∀ m rs rest, readGnuNewSparse stream recordSize = .ok (m, rs, rest) →
      1 ≤ m.length ∧ m.length ≤ Sqfs.Consts.tarMaxSparseEnt := by
  unfold readGnuNewSparse
  by_cases h1 : recordSize < 512
  · simp only [h1, if_true]; exact ⟨trivial, fun m rs rest h => by cases h⟩
  · simp only [h1, if_false]
    by_cases h2 : stream.length < 512
    · simp only [h2, if_true]; exact ⟨trivial, fun m rs rest h => by cases h⟩
    · simp only [h2, if_false]
      have hw : (stream.take 512 ++ List.replicate 512 (0 : UInt8)).length = 1024 := by
        rw [List.length_append, List.length_take, List.length_replicate]; omega
      obtain ⟨win0, hwin0⟩ : ∃ w, w = stream.take 512 ++ List.replicate 512 (0 : UInt8) := ⟨_, rfl⟩
      rw [← hwin0] at hw ⊢
      obtain ⟨d1, d2⟩ := decode_spec win0 0 512 (by omega)
      cases hdec : decode win0 0 512 with
      | oob => rw [hdec] at d1; exact d1.elim
      | spin => rw [hdec] at d1; exact d1.elim
      | fail c => exact ⟨trivial, fun m rs rest h => by cases h⟩
      | ok r =>
        obtain ⟨diff, count⟩ := r
        have hdiff := d2 diff count hdec
        simp only []
        by_cases hd0 : diff = 0
        · simp only [hd0, if_true]; exact ⟨trivial, fun m rs rest h => by cases h⟩
        · simp only [hd0, if_false]
          by_cases hc : count = 0 ∨ count > Sqfs.Consts.tarMaxSparseEnt
          · simp only [hc, if_true]; exact ⟨trivial, fun m rs rest h => by cases h⟩
          · simp only [hc, if_false]
            obtain ⟨s0, hs0⟩ : ∃ s0 : NewSp, s0 = NewSp.mk win0 diff (stream.drop 512) (recordSize - 512) [] none := ⟨_, rfl⟩
            rw [← hs0]
            have hinv : s0.Inv 0 := by
              subst hs0
              exact ⟨hw, by simp; omega, by simpa using hdiff, by simp [NewSp.mu]⟩
            have hmu0 : s0.mu = 0 := by subst hs0; simp [NewSp.mu]
            obtain ⟨g1, g2⟩ := newLoop_spec (count * 2) 0 s0 hinv
            cases hl : newLoop (count * 2) 0 s0 with
            | oob => rw [hl] at g1; exact g1.elim
            | spin => rw [hl] at g1; exact g1.elim
            | fail c => exact ⟨trivial, fun m rs rest h => by cases h⟩
            | ok s' =>
              have hmu := g2 s' hl
              refine ⟨trivial, fun m rs rest h => ?_⟩
              simp only [R.ok.injEq, Prod.mk.injEq] at h
              obtain ⟨hm, _, _⟩ := h
              subst hm
              rw [hmu0] at hmu
              simp only [NewSp.mu] at hmu
              simp only [List.length_reverse]
              have : s'.ents.length = count := by
                cases hq : s'.pendingOff <;> simp [hq] at hmu <;> omega
              omega

end Sqfs.ParseTotal
