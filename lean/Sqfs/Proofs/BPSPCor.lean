/-
C02, `packRef = specPack`, corollaries' helper: the codec contract of the block processor theorems gives the codec contract
of `Spec/PackSpec.lean`.
-/
import Sqfs.Proofs.BPSPFinal
namespace Sqfs.BlockProc

theorem toPack_codec_ok (P : Params) (hc : CodecOk P.codec) (hpos : ∀ x z, P.codec.cmp x = some z → 0 < z.length) :
    (toPackParams P).codec.Ok :=
  ⟨fun x z h => ⟨hpos x z h, hc.smaller x z h⟩,
   fun x z h => by
     have := hc.roundTrip x z h
     simp only [toPackParams] at h ⊢
     rw [this]; rfl⟩

end Sqfs.BlockProc
