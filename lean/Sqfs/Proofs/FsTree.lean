/-
Helper lemmas for C11 (Sqfs/Props/C11.lean): `strcmp` is a strict total order, sorted insertion commutes on
different names, `strcmp`/`qsort` as `read_names` uses them, sorting is invariant under permutations of lists with
pairwise different names, the enumeration served by the native iterators is invariant under `FPerm`.
-/
import Sqfs.Spec.FsTree

namespace Sqfs.FsTree

/-! ### `nameLt` (strcmp < 0) is a strict total order -/

theorem nameLt_irrefl (a : Name) : nameLt a a = false := by
  induction a with
  | nil => rfl
  | cons x xs ih => simp [nameLt, ih]

theorem nameLt_trans {a b c : Name} : nameLt a b = true → nameLt b c = true → nameLt a c = true := by
  induction a generalizing b c with
  | nil =>
    cases b <;> cases c <;> simp [nameLt]
  | cons x xs ih =>
    cases b with
    | nil => simp [nameLt]
    | cons y ys =>
      cases c with
      | nil => simp [nameLt]
      | cons z zs =>
        simp only [nameLt]
        intro h1 h2
        by_cases hxy : x.toNat < y.toNat
        · by_cases hyz : y.toNat < z.toNat
          · have : x.toNat < z.toNat := by omega
            simp [this]
          · simp only [hyz, if_false] at h2
            by_cases hyz' : y.toNat = z.toNat
            · have : x.toNat < z.toNat := by omega
              simp [this]
            · simp [hyz'] at h2
        · simp only [hxy, if_false] at h1
          by_cases hxy' : x.toNat = y.toNat
          · simp only [hxy', if_true] at h1
            by_cases hyz : y.toNat < z.toNat
            · have : x.toNat < z.toNat := by omega
              simp [this]
            · simp only [hyz, if_false] at h2
              by_cases hyz' : y.toNat = z.toNat
              · simp only [hyz', if_true] at h2
                have h3 : ¬ x.toNat < z.toNat := by omega
                have h4 : x.toNat = z.toNat := by omega
                simp only [h4, Nat.lt_irrefl, ↓reduceIte]
                exact ih h1 h2
              · simp [hyz'] at h2
          · simp [hxy'] at h1

theorem nameLt_total {a b : Name} : a ≠ b → nameLt a b = true ∨ nameLt b a = true := by
  induction a generalizing b with
  | nil => cases b <;> simp [nameLt]
  | cons x xs ih =>
    cases b with
    | nil => simp [nameLt]
    | cons y ys =>
      intro hne
      simp only [nameLt]
      by_cases h1 : x.toNat < y.toNat
      · simp [h1]
      · by_cases h2 : y.toNat < x.toNat
        · simp [h2]
        · have heq : x.toNat = y.toNat := by omega
          have hxy : x = y := UInt8.toNat_inj.mp heq
          have hne' : xs ≠ ys := by
            intro h; apply hne; rw [hxy, h]
          simp only [heq, Nat.lt_irrefl, ↓reduceIte]
          exact ih hne'

theorem nameLt_asymm {a b : Name} (h : nameLt a b = true) : nameLt b a = false := by
  cases hba : nameLt b a with
  | false => rfl
  | true =>
    have := nameLt_trans h hba
    rw [nameLt_irrefl] at this
    cases this

/-! ### sorted insertion commutes for different keys -/

theorem insertBy_comm {α : Type} (key : α → Name) (a b : α) (h : key a ≠ key b) (l : List α) :
    insertBy key a (insertBy key b l) = insertBy key b (insertBy key a l) := by
  induction l with
  | nil =>
    simp only [insertBy]
    rcases nameLt_total h with hab | hba
    · simp [hab, nameLt_asymm hab]
    · simp [hba, nameLt_asymm hba]
  | cons y ys ih =>
    simp only [insertBy]
    by_cases hyb : nameLt (key y) (key b) = true
    · by_cases hya : nameLt (key y) (key a) = true
      · simp [hyb, hya, insertBy, ih]
      · -- y < b, ¬ y < a  ⇒  a ≤ y < b ⇒ a < b
        have hab : nameLt (key a) (key b) = true := by
          by_cases hay : key a = key y
          · rw [hay]; exact hyb
          · rcases nameLt_total hay with h1 | h1
            · exact nameLt_trans h1 hyb
            · exact absurd h1 hya
        simp [hyb, hya, insertBy, hab]
    · by_cases hya : nameLt (key y) (key a) = true
      · have hba : nameLt (key b) (key a) = true := by
          by_cases hby : key b = key y
          · rw [hby]; exact hya
          · rcases nameLt_total hby with h1 | h1
            · exact nameLt_trans h1 hya
            · exact absurd h1 hyb
        simp [hyb, hya, insertBy, hba]
      · rcases nameLt_total h with hab | hba
        · simp [hyb, hya, insertBy, hab, nameLt_asymm hab]
        · simp [hyb, hya, insertBy, hba, nameLt_asymm hba]

theorem insertBy_perm {α : Type} (key : α → Name) (a : α) (l : List α) : (insertBy key a l).Perm (a :: l) := by
  induction l with
  | nil => simp [insertBy]
  | cons y ys ih =>
    simp only [insertBy]
    split
    · exact (List.Perm.cons y ih).trans (List.Perm.swap a y ys)
    · exact List.Perm.refl _

theorem inj_of_nodup_map {α β : Type} {f : α → β} {l : List α} (h : (l.map f).Nodup) {x y : α}
    (hx : x ∈ l) (hy : y ∈ l) (hf : f x = f y) : x = y := by
  induction l with
  | nil => cases hx
  | cons a as ih =>
    simp only [List.map_cons, List.nodup_cons, List.mem_map, not_exists, not_and] at h
    rcases List.mem_cons.mp hx with rfl | hx'
    · rcases List.mem_cons.mp hy with rfl | hy'
      · rfl
      · exact absurd hf.symm (h.1 y hy')
    · rcases List.mem_cons.mp hy with rfl | hy'
      · exact absurd hf (h.1 x hx')
      · exact ih h.2 hx' hy'

theorem insertBy_mem {α : Type} (key : α → Name) (a : α) (l : List α) (z : α) :
    z ∈ insertBy key a l ↔ z = a ∨ z ∈ l := by
  rw [(insertBy_perm key a l).mem_iff, List.mem_cons]

/-- `insert_sorted` keeps a strictly sorted list strictly sorted when the new name is not yet present -/
theorem insertBy_sorted {α : Type} (key : α → Name) (a : α) (l : List α)
    (hs : SortedNames (l.map key)) (hnew : ∀ y ∈ l, key y ≠ key a) : SortedNames ((insertBy key a l).map key) := by
  unfold SortedNames at *
  induction l with
  | nil => simp [insertBy]
  | cons y ys ih =>
    simp only [List.map_cons, List.pairwise_cons, List.mem_map, forall_exists_index, and_imp,
      forall_apply_eq_imp_iff₂] at hs
    simp only [insertBy]
    split
    · rename_i hlt
      simp only [List.map_cons, List.pairwise_cons, List.mem_map, forall_exists_index, and_imp,
        forall_apply_eq_imp_iff₂]
      refine ⟨?_, ih hs.2 (fun z hz => hnew z (List.mem_cons_of_mem _ hz))⟩
      intro z hz
      rcases (insertBy_mem key a ys z).mp hz with rfl | hz'
      · exact hlt
      · exact hs.1 z hz'
    · rename_i hnlt
      have hay : nameLt (key a) (key y) = true := by
        rcases nameLt_total (hnew y List.mem_cons_self) with h | h
        · exact absurd h hnlt
        · exact h
      simp only [List.map_cons, List.pairwise_cons, List.mem_cons, List.mem_map, forall_eq_or_imp,
        forall_exists_index, and_imp, forall_apply_eq_imp_iff₂]
      exact ⟨⟨hay, fun z hz => nameLt_trans hay (hs.1 z hz)⟩, hs.1, hs.2⟩

/-- inserting a set of elements with pairwise different keys in any order, into any list, gives the same list -/
theorem foldl_insertBy_perm {α : Type} (key : α → Name) {l₁ l₂ : List α} (hp : l₁.Perm l₂)
    (hnd : (l₁.map key).Nodup) (init : List α) :
    l₁.foldl (fun acc x => insertBy key x acc) init = l₂.foldl (fun acc x => insertBy key x acc) init := by
  apply hp.foldl_eq'
  intro x hx y hy z
  by_cases hxy : x = y
  · rw [hxy]
  · have : key x ≠ key y := fun hk => hxy (inj_of_nodup_map hnd hx hy hk)
    exact insertBy_comm key y x (Ne.symm this) z

theorem foldr_insertBy_perm {α : Type} (key : α → Name) {l₁ l₂ : List α} (hp : l₁.Perm l₂)
    (hnd : (l₁.map key).Nodup) (init : List α) :
    l₁.foldr (insertBy key) init = l₂.foldr (insertBy key) init := by
  apply hp.foldr_eq'
  intro x hx y hy z
  by_cases hxy : x = y
  · rw [hxy]
  · have : key x ≠ key y := fun hk => hxy (inj_of_nodup_map hnd hx hy hk)
    exact insertBy_comm key y x (Ne.symm this) z

/-! ### `strcmp` as the code calls it, and the model of `qsort` -/

theorem strcmpC_neg_iff (a b : Name) : strcmpC a b < 0 ↔ nameLt a b = true := by
  induction a generalizing b with
  | nil => cases b <;> simp [strcmpC, nameLt]
  | cons x xs ih =>
    cases b with
    | nil => simp [strcmpC, nameLt]
    | cons y ys =>
      simp only [strcmpC, nameLt]
      by_cases hxy : x = y
      · subst hxy; simp [ih]
      · have hne : x.toNat ≠ y.toNat := fun h => hxy (UInt8.toNat_inj.mp h)
        simp only [hxy, if_false]
        by_cases hlt : x.toNat < y.toNat
        · simp only [hlt, if_true, iff_true]; omega
        · simp only [hlt, if_false, hne]
          constructor
          · intro h; omega
          · intro h; cases h

theorem strcmpC_eq_zero_iff (a b : Name) : strcmpC a b = 0 ↔ a = b := by
  induction a generalizing b with
  | nil => cases b <;> simp [strcmpC]
  | cons x xs ih =>
    cases b with
    | nil => simp [strcmpC]
    | cons y ys =>
      simp only [strcmpC]
      by_cases hxy : x = y
      · subst hxy; simp [ih]
      · have hne : x.toNat ≠ y.toNat := fun h => hxy (UInt8.toNat_inj.mp h)
        simp only [hxy, if_false, List.cons.injEq, false_and, iff_false]
        omega

theorem strcmpC_swap (a b : Name) : 0 < strcmpC a b ↔ strcmpC b a < 0 := by
  induction a generalizing b with
  | nil => cases b <;> simp [strcmpC]
  | cons x xs ih =>
    cases b with
    | nil => simp [strcmpC]
    | cons y ys =>
      simp only [strcmpC]
      by_cases hxy : x = y
      · subst hxy; simp [ih]
      · have hyx : ¬ y = x := fun h => hxy h.symm
        simp only [hxy, hyx, if_false]
        omega

/-- insertion sort by name with the loop of `insert_sorted`: the form in which the order lemmas are stated -/
def sortByName (l : List HNode) : List HNode := l.foldr (insertBy HNode.name) []

theorem insertCmp_compareNames (x : HNode) (l : List HNode) : insertCmp compareNames x l = insertBy HNode.name x l := by
  induction l with
  | nil => rfl
  | cons y ys ih =>
    simp only [insertCmp, insertBy, compareNames, ih]
    by_cases h : nameLt y.name x.name = true
    · have := (strcmpC_neg_iff y.name x.name).mpr h
      simp [h, this]
    · have h' : ¬ strcmpC y.name x.name < 0 := fun hh => h ((strcmpC_neg_iff _ _).mp hh)
      simp [h, h']

theorem qsortBy_compareNames (l : List HNode) : qsortBy compareNames l = sortByName l := by
  induction l with
  | nil => rfl
  | cons x xs ih => simp only [qsortBy, sortByName, List.foldr_cons, insertCmp_compareNames] at *; rw [ih]

theorem collectNames_eq (l acc : List HNode) : collectNames l acc = acc ++ l := by
  induction l generalizing acc with
  | nil => simp [collectNames]
  | cons x xs ih => simp [collectNames, ih]

/-- `read_names` with the `qsort` call: the `count > 1` guard only skips sorting lists that are sorted anyway -/
theorem readNames_true (l : List HNode) : readNames true l = sortByName l := by
  simp only [readNames, collectNames_eq, List.nil_append, Bool.true_and]
  split
  · exact qsortBy_compareNames l
  · rename_i h
    match l, h with
    | [], _ => rfl
    | [x], _ => rfl
    | _ :: _ :: _, h => simp at h

theorem readNames_false (l : List HNode) : readNames false l = l := by
  simp [readNames, collectNames_eq]

theorem sortByName_perm {l₁ l₂ : List HNode} (hp : l₁.Perm l₂) (hnd : (l₁.map HNode.name).Nodup) :
    sortByName l₁ = sortByName l₂ := by
  unfold sortByName
  exact foldr_insertBy_perm HNode.name hp hnd []

theorem sortByName_perm_self (l : List HNode) : (sortByName l).Perm l := by
  induction l with
  | nil => exact List.Perm.refl _
  | cons x xs ih =>
    show (insertBy HNode.name x (sortByName xs)).Perm (x :: xs)
    exact (insertBy_perm _ _ _).trans (List.Perm.cons x ih)

theorem sortByName_sorted (l : List HNode) (hnd : (l.map HNode.name).Nodup) :
    SortedNames ((sortByName l).map HNode.name) := by
  induction l with
  | nil => simp [sortByName, SortedNames]
  | cons x xs ih =>
    rw [List.map_cons, List.nodup_cons] at hnd
    show SortedNames ((insertBy HNode.name x (sortByName xs)).map HNode.name)
    apply insertBy_sorted HNode.name x _ (ih hnd.2)
    intro y hy heq
    apply hnd.1
    rw [← heq]
    exact List.mem_map_of_mem ((sortByName_perm_self xs).mem_iff.mp hy)

/-- two strictly sorted lists with the same elements are equal -/
theorem sorted_perm_unique {l₁ l₂ : List HNode} (hp : l₁.Perm l₂)
    (h₁ : l₁.Pairwise (fun a b => nameLt a.name b.name = true))
    (h₂ : l₂.Pairwise (fun a b => nameLt a.name b.name = true)) : l₁ = l₂ := by
  induction l₁ generalizing l₂ with
  | nil => exact (List.Perm.nil_eq hp)
  | cons x xs ih =>
    cases l₂ with
    | nil => exact absurd hp.symm (by simp)
    | cons y ys =>
      rw [List.pairwise_cons] at h₁ h₂
      have hx : x ∈ y :: ys := hp.mem_iff.mp List.mem_cons_self
      have hy : y ∈ x :: xs := hp.mem_iff.mpr List.mem_cons_self
      have hxy : x = y := by
        rcases List.mem_cons.mp hx with h | h
        · exact h
        · rcases List.mem_cons.mp hy with h' | h'
          · exact h'.symm
          · have a := h₁.1 y h'
            have b := h₂.1 x h
            rw [nameLt_asymm a] at b
            cases b
      subst hxy
      rw [ih (List.Perm.cons_inv hp) h₁.2 h₂.2]

/-! ### the enumeration served by the native iterators is invariant under `FPerm` -/

theorem nativeNode_name (b : Bool) (x : HNode) : (nativeNode b x).name = x.name := by
  cases x; simp [nativeNode, HNode.name]

theorem nativeList_map_name (b : Bool) (l : List HNode) : (nativeList b l).map HNode.name = l.map HNode.name := by
  induction l with
  | nil => simp [nativeList]
  | cons x xs ih => simp [nativeList, nativeNode_name, ih]

theorem fperm_names {l₁ l₂ : List HNode} (h : FPerm l₁ l₂) : (l₁.map HNode.name).Perm (l₂.map HNode.name) := by
  induction h with
  | nil => exact List.Perm.refl _
  | cons _ _ _ ih => simp only [List.map_cons, HNode.name]; exact List.Perm.cons _ ih
  | swap a b l => simpa using List.Perm.swap _ _ _
  | trans _ _ ih₁ ih₂ => exact ih₁.trans ih₂

theorem wfList_cons (x : HNode) (xs : List HNode) :
    WFList (x :: xs) ↔ (∀ y ∈ xs, y.name ≠ x.name) ∧ WFNode x ∧ WFList xs := by
  simp [WFList]

theorem wfNode_mk (n : Name) (s : Stat) (t : List UInt8) (c : List HNode) : WFNode (.mk n s t c) ↔ WFList c := by
  simp [WFNode]

theorem fperm_wf {l₁ l₂ : List HNode} (h : FPerm l₁ l₂) : WFList l₁ → WFList l₂ := by
  induction h with
  | nil => exact id
  | @cons n s t c c' l l' hc hl ihc ihl =>
    rw [wfList_cons, wfList_cons, wfNode_mk, wfNode_mk]
    rintro ⟨h1, h2, h3⟩
    refine ⟨?_, ihc h2, ihl h3⟩
    intro y hy
    have hy' : y.name ∈ l'.map HNode.name := List.mem_map_of_mem hy
    have hy'' : y.name ∈ l.map HNode.name := (fperm_names hl).mem_iff.mpr hy'
    rcases List.mem_map.mp hy'' with ⟨y0, hy0, hname⟩
    rw [← hname]
    exact h1 y0 hy0
  | swap a b l =>
    rw [wfList_cons, wfList_cons, wfList_cons, wfList_cons]
    rintro ⟨h1, h2, h3, h4, h5⟩
    refine ⟨?_, h4, ?_, h2, h5⟩
    · intro y hy
      rcases List.mem_cons.mp hy with rfl | hy'
      · exact Ne.symm (h1 b (List.mem_cons_self))
      · exact h3 y hy'
    · intro y hy
      exact h1 y (List.mem_cons_of_mem _ hy)
  | trans _ _ ih₁ ih₂ => exact fun h => ih₂ (ih₁ h)

theorem wfList_nodup {l : List HNode} (h : WFList l) : (l.map HNode.name).Nodup := by
  induction l with
  | nil => simp
  | cons x xs ih =>
    rw [wfList_cons] at h
    rw [List.map_cons, List.nodup_cons]
    refine ⟨?_, ih h.2.2⟩
    intro hmem
    rcases List.mem_map.mp hmem with ⟨y, hy, hname⟩
    exact h.1 y hy hname

theorem fperm_native {l₁ l₂ : List HNode} (h : FPerm l₁ l₂) :
    WFList l₁ → (nativeList true l₁).Perm (nativeList true l₂) := by
  induction h with
  | nil => intro _; exact List.Perm.refl _
  | @cons n s t c c' l l' hc hl ihc ihl =>
    rw [wfList_cons, wfNode_mk]
    rintro ⟨_, h2, h3⟩
    have hs : readNames true (nativeList true c) = readNames true (nativeList true c') := by
      rw [readNames_true, readNames_true]
      apply sortByName_perm (ihc h2)
      rw [nativeList_map_name]
      exact wfList_nodup h2
    simp only [nativeList, nativeNode, hs]
    exact List.Perm.cons _ (ihl h3)
  | swap a b l =>
    intro _
    simp only [nativeList]
    exact List.Perm.swap _ _ _
  | trans h₁ _ ih₁ ih₂ => exact fun h => (ih₁ h).trans (ih₂ (fperm_wf h₁ h))

/-- the native iterators hand the same enumeration to the layers above, whatever order readdir used -/
theorem nativeOrder_sorted_fperm {l₁ l₂ : List HNode} (h : FPerm l₁ l₂) (hwf : WFList l₁) :
    nativeOrder true l₁ = nativeOrder true l₂ := by
  simp only [nativeOrder, readNames_true]
  apply sortByName_perm (fperm_native h hwf)
  rw [nativeList_map_name]
  exact wfList_nodup hwf

mutual
theorem fperm_refl_node : ∀ x : HNode, FPerm x.children x.children
  | .mk _ _ _ c => fperm_refl c
theorem fperm_refl : ∀ l : List HNode, FPerm l l
  | [] => FPerm.nil
  | .mk n s t c :: xs => FPerm.cons (fperm_refl_node (.mk n s t c)) (fperm_refl xs)
end

end Sqfs.FsTree
