/-
C02, `packRef = specPack`, part 13: all files.  The front end on a file list (`feFiles_eq`), the three passes on all files
against `Pack.packFiles` (`files_sim`), and the fragment table / inode list of `assemble`.
-/
import Sqfs.Proofs.BPSPFile3
namespace Sqfs.BlockProc
open Sqfs.Consts
open Sqfs.BlockWriter (hasFlag)

/-- everything the files submit, in order (`id` = number of the first file) -/
def allItems (B : Nat) : Nat → List InFile → List Blk
  | _, [] => []
  | id, f :: fs => fileItems B id f ++ allItems B (id + 1) fs

theorem feFiles_eq (B : Nat) (hB : 0 < B) : ∀ (files : List InFile) (id : Nat),
    (∀ f ∈ files, f.flags &&& blkUserSettable = f.flags) → feFiles B id files = .ok (allItems B id files) := by
  intro files
  induction files with
  | nil => intro id _; rfl
  | cons f fs ih =>
    intro id hfl
    unfold feFiles
    rw [feFile_eq B hB id f (hfl f List.mem_cons_self), ih (id + 1) (fun g hg => hfl g (List.mem_cons_of_mem _ hg))]
    rfl

theorem feEffs_ids : ∀ (files : List InFile) (id : Nat), ∀ e ∈ feEffs id files, id ≤ e.id := by
  intro files
  induction files with
  | nil => intro id e he; cases he
  | cons f fs ih =>
    intro id e he
    simp only [feEffs, List.mem_append] at he
    rcases he with he | he
    · split at he
      · cases he
      · simp only [List.mem_singleton] at he; rw [he]; exact Nat.le_refl _
    · have := ih (id + 1) e he; omega

theorem feEffs_cons (id : Nat) (f : InFile) (fs : List InFile) : feEffs id (f :: fs) = sizeEff id f ++ feEffs (id + 1) fs := rfl

/-- the updates of inode `i` among three segments, each made of a part for `i` and a part for other inodes -/
theorem inoFold_head (i : Nat) (s fe we R FE WE : List Eff) (hs : ∀ e ∈ s, e.id = i) (hfe : ∀ e ∈ fe, e.id = i)
    (hwe : ∀ e ∈ we, e.id = i) (hR : ∀ e ∈ R, e.id ≠ i) (hFE : ∀ e ∈ FE, e.id ≠ i) (hWE : ∀ e ∈ WE, e.id ≠ i) (x : Inode) :
    inoFold i ((s ++ R) ++ (fe ++ FE) ++ (we ++ WE)) x = appAll (s ++ fe ++ we) x := by
  simp only [inoFold_append, appAll_append]
  rw [inoFold_all i s hs, inoFold_skip i R hR, inoFold_all i fe hfe, inoFold_skip i FE hFE, inoFold_all i we hwe,
    inoFold_skip i WE hWE]

theorem inoFold_tail (j : Nat) (s fe we R FE WE : List Eff) (hs : ∀ e ∈ s, e.id ≠ j) (hfe : ∀ e ∈ fe, e.id ≠ j)
    (hwe : ∀ e ∈ we, e.id ≠ j) (x : Inode) :
    inoFold j ((s ++ R) ++ (fe ++ FE) ++ (we ++ WE)) x = inoFold j (R ++ FE ++ WE) x := by
  simp only [inoFold_append]
  rw [inoFold_skip j s hs, inoFold_skip j fe hfe, inoFold_skip j we hwe]

theorem sizeEff_id (id : Nat) (f : InFile) : ∀ e ∈ sizeEff id f, e.id = id := by
  intro e he
  unfold sizeEff at he
  split at he
  · cases he
  · simp only [List.mem_singleton] at he; rw [he]

/-- **all files** -/
theorem files_sim {P : Params} (hc : CodecOk P.codec) (hpos : ∀ x z, P.codec.cmp x = some z → 0 < z.length) (hB0 : 0 < P.B)
    (hB : P.B < 2 ^ 24) (hbc : P.byteCompare = true) : ∀ (files : List InFile) (id : Nat) (F : FSt) (W : WSt) (σ : Sqfs.Pack.State),
    Sim P F W σ → (∀ f ∈ files, f.flags &&& blkUserSettable = f.flags) →
    ∃ W' FE WE, Sim P (fRun P F ((allItems P.B id files).map (processBlock P))) W'
        (Sqfs.Pack.packFiles (toPackParams P) σ (files.map toPackFile)).1 ∧
      (fRun P F ((allItems P.B id files).map (processBlock P))).effs = F.effs ++ FE ∧ W'.effs = W.effs ++ WE ∧
      (∀ e ∈ FE, id ≤ e.id) ∧ (∀ e ∈ WE, id ≤ e.id) ∧
      (List.range files.length).map (fun i => (inoFold (id + i) (feEffs id files ++ FE ++ WE) {}).res) =
        (Sqfs.Pack.packFiles (toPackParams P) σ (files.map toPackFile)).2.map resView := by
  intro files
  induction files with
  | nil =>
    intro id F W σ h _
    exact ⟨W, [], [], h, by simp [allItems, fRun_nil], by simp, by simp, by simp, by simp [Sqfs.Pack.packFiles]⟩
  | cons f fs ih =>
    intro id F W σ h hfl
    obtain ⟨W1, fe, we, hs1, hf1, hw1, hfe, hwe, hres⟩ := file_step hc hpos hB0 hB hbc id f (hfl f List.mem_cons_self) h
    obtain ⟨W', FE, WE, hs', hf', hw', hFE, hWE, hres'⟩ := ih (id + 1) _ W1 _ hs1 (fun g hg => hfl g (List.mem_cons_of_mem _ hg))
    have hitems : fRun P F ((allItems P.B id (f :: fs)).map (processBlock P)) =
        fRun P (fRun P F ((fileItems P.B id f).map (processBlock P))) ((allItems P.B (id + 1) fs).map (processBlock P)) := by
      simp only [allItems, List.map_append, fRun_append]
    rw [hitems]
    refine ⟨W', fe ++ FE, we ++ WE, hs', by rw [hf', hf1, List.append_assoc], by rw [hw', hw1, List.append_assoc], ?_, ?_, ?_⟩
    · intro e he
      rcases List.mem_append.mp he with he | he
      · rw [hfe e he]; exact Nat.le_refl _
      · have := hFE e he; omega
    · intro e he
      rcases List.mem_append.mp he with he | he
      · rw [hwe e he]; exact Nat.le_refl _
      · have := hWE e he; omega
    · have hR : ∀ e ∈ feEffs (id + 1) fs, id + 1 ≤ e.id := feEffs_ids fs (id + 1)
      simp only [List.length_cons, List.range_succ_eq_map, List.map_cons, List.map_map, Sqfs.Pack.packFiles, feEffs_cons]
      congr 1
      · rw [Nat.add_zero, inoFold_head id (sizeEff id f) fe we _ FE WE (sizeEff_id id f) hfe hwe
          (fun e he => by have := hR e he; omega) (fun e he => by have := hFE e he; omega) (fun e he => by have := hWE e he; omega)]
        exact hres
      · rw [← hres']
        apply List.map_congr_left
        intro i _
        simp only [Function.comp]
        have e1 : id + (i + 1) = id + 1 + i := by omega
        rw [e1, inoFold_tail (id + 1 + i) (sizeEff id f) fe we _ FE WE
          (fun e he => by rw [sizeEff_id id f e he]; omega) (fun e he => by rw [hfe e he]; omega) (fun e he => by rw [hwe e he]; omega)]

end Sqfs.BlockProc
